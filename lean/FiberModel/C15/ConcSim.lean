import FiberModel.C15.Domain
import FiberModel.C15.ConcSpec
/-
C15 — overlapping requests refine the abstract table as well: every schedule of the model (ConcModel.lean)
is accepted by the event-wise oracle (ConcSpec.lean). The per-action simulation of Sim.lean is reused as
is; what is new is `Rel.transfer`: the relation between a request's private state and its abstract views
survives whatever other requests do to the shared state in between.
-/
namespace C15
open B

/-- a request that was related to the abstract state at its last event is related again once its view of
    the shared state is refreshed: other requests only change the storage / table (related by `StRel`) and
    let the generator's counter grow -/
theorem Rel.transfer {cfg : Cfg} {gen : Nat → Bytes} {G : List Bytes} {q : Req} {h : HSt} {r : SReq}
    (hrel : Rel cfg gen G q h r) {st' : St} {s' : SpecSt} (hst : StRel cfg gen st' s')
    (hn : h.c.st.nid ≤ st'.nid) (G' : List Bytes) :
    Rel cfg gen G' q (h.withSt st') { r with s := s', gens := G' } := by
  refine ⟨hst, rfl, ⟨?_, ?_⟩, hrel.mw.mono hn, hrel.cur.mono hn, hrel.destroyed, hrel.viaMw, hrel.mwCtx,
    hrel.mwLive, hrel.req⟩
  · intro v hv; exact (hrel.out.ck v hv).mono hn
  · intro v hv; exact (hrel.out.hd v hv).mono hn

theorem Flags.transfer {r : SReq} {d : Bool} (h : Flags r d) (s' : SpecSt) (G' : List Bytes) :
    Flags { r with s := s', gens := G' } d := ⟨h.mw, h.cur⟩

/-- a request in flight against its abstract counterpart -/
structure FRel (cfg : Cfg) (gen : Nat → Bytes) (nid : Nat) (f : Fl) (sf : SFl) : Prop where
  q : sf.q = f.q
  todo : sf.todo = f.todo
  rel : ∃ G, Rel cfg gen G f.q f.h sf.r
  le : f.h.c.st.nid ≤ nid
  dom : ∃ d, Flags sf.r d ∧ scriptInDomain d f.todo = true

def OFRel (cfg : Cfg) (gen : Nat → Bytes) (nid : Nat) : Option Fl → Option SFl → Prop
  | none, none => True
  | some f, some sf => FRel cfg gen nid f sf
  | _, _ => False

structure WRel (cfg : Cfg) (gen : Nat → Bytes) (w : World) (sw : SWorld) : Prop where
  st : StRel cfg gen w.st sw.s
  fl : ∀ rid, OFRel cfg gen w.st.nid (w.fl rid) (sw.fl rid)

theorem FRel.mono {cfg : Cfg} {gen : Nat → Bytes} {n m : Nat} {f : Fl} {sf : SFl} (h : FRel cfg gen n f sf)
    (hnm : n ≤ m) : FRel cfg gen m f sf := ⟨h.q, h.todo, h.rel, Nat.le_trans h.le hnm, h.dom⟩

theorem OFRel.mono {cfg : Cfg} {gen : Nat → Bytes} {n m : Nat} {f : Option Fl} {sf : Option SFl}
    (h : OFRel cfg gen n f sf) (hnm : n ≤ m) : OFRel cfg gen m f sf := by
  cases f <;> cases sf <;> simp_all [OFRel]
  exact h.mono hnm

/-- updating one request and the shared state on both sides -/
theorem WRel.set {cfg : Cfg} {gen : Nat → Bytes} {w : World} {sw : SWorld} (hrel : WRel cfg gen w sw)
    {st' : St} {s' : SpecSt} (hst : StRel cfg gen st' s') (hn : w.st.nid ≤ st'.nid) (rid : Nat)
    {f : Option Fl} {sf : Option SFl} (hf : OFRel cfg gen st'.nid f sf) :
    WRel cfg gen (w.set st' rid f) (sw.set s' rid sf) := by
  refine ⟨hst, ?_⟩
  intro i
  simp only [World.set, SWorld.set]
  by_cases hi : i = rid
  · simp only [hi, if_true]; exact hf
  · simp only [hi, if_false]; exact (hrel.fl i).mono hn

theorem wrel_init (cfg : Cfg) (gen : Nat → Bytes) : WRel cfg gen {} {} :=
  ⟨strel_init cfg gen, fun _ => trivial⟩

section step
variable {cfg : Cfg} {gen : Nat → Bytes}

theorem withSt_st (h : HSt) (st : St) : (h.withSt st).c.st = st := rfl

theorem cstep_adv (hrel : WRel cfg gen w sw) (d : Nat) :
    ∃ sw', cspecStep cfg sw (.adv d) (cstep cfg gen w (.adv d)).2 = .ok sw' ∧
      WRel cfg gen (cstep cfg gen w (.adv d)).1 sw' :=
  ⟨_, rfl, ⟨strel_adv hrel.st d, hrel.fl⟩⟩

theorem cstep_start (hw : WF cfg gen) (hrel : WRel cfg gen w sw) (rid : Nat) (q : Req)
    (hdom : scriptInDomain false q.script = true) :
    ∃ sw', cspecStep cfg sw (.start rid q) (cstep cfg gen w (.start rid q)).2 = .ok sw' ∧
      WRel cfg gen (cstep cfg gen w (.start rid q)).1 sw' := by
  have hfl := hrel.fl rid
  cases hf : w.fl rid with
  | some f =>
    cases hsf : sw.fl rid with
    | none => rw [hf, hsf] at hfl; exact absurd hfl (by simp [OFRel])
    | some sf =>
      refine ⟨sw, ?_, ?_⟩
      · simp [cspecStep, hsf]
      · simpa [cstep, hf] using hrel
  | none =>
    cases hsf : sw.fl rid with
    | some sf => rw [hf, hsf] at hfl; exact absurd hfl (by simp [OFRel])
    | none =>
      obtain ⟨r0, hs0, hrel0⟩ := start_sim hw (q := q) [] hrel.st
      rw [List.append_nil] at hs0
      have hmono := (startReq_hinv cfg hrel.st.inv q).2
      refine ⟨sw.set r0.s rid (some { q := q, r := r0, todo := q.script }), ?_, ?_⟩
      · simp [cspecStep, cstep, hf, hsf, hs0, bind, Except.bind, pure, Except.pure]
      · have := hrel.set hrel0.st hmono rid (f := some { q := q, h := startReq cfg gen w.st q, todo := q.script })
          (sf := some { q := q, r := r0, todo := q.script })
          ⟨rfl, rfl, ⟨[], hrel0⟩, Nat.le_refl _, ⟨false, specStart_fields hs0, hdom⟩⟩
        simpa [cstep, hf] using this

theorem cstep_step (hw : WF cfg gen) (hrel : WRel cfg gen w sw) (rid : Nat) :
    ∃ sw', cspecStep cfg sw (.step rid) (cstep cfg gen w (.step rid)).2 = .ok sw' ∧
      WRel cfg gen (cstep cfg gen w (.step rid)).1 sw' := by
  have hfl := hrel.fl rid
  cases hf : w.fl rid with
  | none =>
    cases hsf : sw.fl rid with
    | some sf => rw [hf, hsf] at hfl; exact absurd hfl (by simp [OFRel])
    | none =>
      refine ⟨sw, ?_, ?_⟩
      · simp [cspecStep, hsf]
      · simpa [cstep, hf] using hrel
  | some f =>
    cases hsf : sw.fl rid with
    | none => rw [hf, hsf] at hfl; exact absurd hfl (by simp [OFRel])
    | some sf =>
      rw [hf, hsf] at hfl
      simp only [OFRel] at hfl
      cases htodo : f.todo with
      | nil =>
        have hst' : sf.todo = [] := by rw [hfl.todo, htodo]
        refine ⟨sw, ?_, ?_⟩
        · simp [cspecStep, hsf, hst']
        · simpa [cstep, hf, htodo] using hrel
      | cons a rest =>
        have hst' : sf.todo = a :: rest := by rw [hfl.todo, htodo]
        obtain ⟨G0, hr0⟩ := hfl.rel
        obtain ⟨d, hflags, hdom⟩ := hfl.dom
        rw [htodo] at hdom
        simp only [scriptInDomain, Bool.and_eq_true] at hdom
        -- refresh the request's view of the shared state, then one action of Sim.lean
        have hrT := hr0.transfer hrel.st hfl.le
          (gensBetween gen w.st.nid (act cfg gen (f.h.withSt w.st) a).1.c.st.nid)
        have hflT := hflags.transfer sw.s (gensBetween gen w.st.nid (act cfg gen (f.h.withSt w.st) a).1.c.st.nid)
        have hmono := (act_inv cfg hrT.hinv a).2
        rcases act_sim hw hrT a (G' := []) (by rw [withSt_st, List.append_nil]) with ⟨r1, hs1, hrel1⟩ | ⟨e, _, _, ht⟩
        · refine ⟨sw.set r1.s rid (some { sf with r := r1, todo := rest }), ?_, ?_⟩
          · simp only [cspecStep, hsf, hst', cstep, hf, htodo]
            rw [hfl.q]
            simp only [hs1, bind, Except.bind, pure, Except.pure]
          · have := hrel.set hrel1.st hmono rid
              (f := some { f with h := (act cfg gen (f.h.withSt w.st) a).1, todo := rest })
              (sf := some { sf with r := r1, todo := rest })
              ⟨hfl.q, rfl, ⟨[], hrel1⟩, Nat.le_refl _, ⟨_, specAct_flags hflT hs1, hdom.2⟩⟩
            simpa [cstep, hf, htodo] using this
        · exfalso
          obtain ⟨ha, v, hv, hd⟩ := ht
          subst ha
          have := hflT.view hv hd
          simp [actAllowed, this] at hdom

theorem cstep_finish (hw : WF cfg gen) (hrel : WRel cfg gen w sw) (rid : Nat) :
    ∃ sw', cspecStep cfg sw (.finish rid) (cstep cfg gen w (.finish rid)).2 = .ok sw' ∧
      WRel cfg gen (cstep cfg gen w (.finish rid)).1 sw' := by
  have hfl := hrel.fl rid
  cases hf : w.fl rid with
  | none =>
    cases hsf : sw.fl rid with
    | some sf => rw [hf, hsf] at hfl; exact absurd hfl (by simp [OFRel])
    | none =>
      refine ⟨sw, ?_, ?_⟩
      · simp [cspecStep, hsf]
      · simpa [cstep, hf] using hrel
  | some f =>
    cases hsf : sw.fl rid with
    | none => rw [hf, hsf] at hfl; exact absurd hfl (by simp [OFRel])
    | some sf =>
      rw [hf, hsf] at hfl
      simp only [OFRel] at hfl
      cases htodo : f.todo with
      | cons a rest =>
        have hst' : sf.todo = a :: rest := by rw [hfl.todo, htodo]
        refine ⟨sw, ?_, ?_⟩
        · simp [cspecStep, hsf, hst']
        · simpa [cstep, hf, htodo] using hrel
      | nil =>
        have hst' : sf.todo = [] := by rw [hfl.todo, htodo]
        obtain ⟨G0, hr0⟩ := hfl.rel
        have hrT := hr0.transfer hrel.st hfl.le []
        obtain ⟨r2, hs2, hst2, hout2⟩ := finish_sim hw hrT
          (Obs.mk [] (endCtx cfg f.q (f.h.withSt w.st)).outCk (endCtx cfg f.q (f.h.withSt w.st)).outHd []
            (endCtx cfg f.q (f.h.withSt w.st)).st.liveKeys 200) rfl rfl
        have he := end_sim hst2 hout2
          (Obs.mk [] (endCtx cfg f.q (f.h.withSt w.st)).outCk (endCtx cfg f.q (f.h.withSt w.st)).outHd []
            (endCtx cfg f.q (f.h.withSt w.st)).st.liveKeys 200) rfl rfl rfl
        have hnid : w.st.nid ≤ (endCtx cfg f.q (f.h.withSt w.st)).st.nid := by
          rw [endCtx_nid, withSt_st]; exact Nat.le_refl _
        refine ⟨sw.set r2.s rid none, ?_, ?_⟩
        · simp only [cspecStep, hsf, hst', cstep, hf, htodo]
          simp only [hs2, he, bind, Except.bind, pure, Except.pure]
        · have := hrel.set hst2 hnid rid (f := none) (sf := none) trivial
          simpa [cstep, hf, htodo] using this

/-- every event of the model is accepted by the oracle, which lands in a related world -/
theorem cstep_sim (hw : WF cfg gen) (hrel : WRel cfg gen w sw) (e : Ev) (hdom : e.inDomain = true) :
    ∃ sw', cspecStep cfg sw e (cstep cfg gen w e).2 = .ok sw' ∧ WRel cfg gen (cstep cfg gen w e).1 sw' := by
  cases e with
  | adv d => exact cstep_adv hrel d
  | start rid q => exact cstep_start hw hrel rid q hdom
  | step rid => exact cstep_step hw hrel rid
  | finish rid => exact cstep_finish hw hrel rid

end step

/-- every schedule of the model is accepted by the oracle -/
theorem crun_sim {cfg : Cfg} {gen : Nat → Bytes} (hw : WF cfg gen) (es : List Ev) :
    ∀ (w : World) (sw : SWorld), WRel cfg gen w sw → es.all Ev.inDomain = true →
      cspecRun cfg sw es (crun cfg gen w es).2 = none := by
  induction es with
  | nil => intro w sw _ _; rfl
  | cons e es ih =>
    intro w sw hrel hdom
    simp only [List.all_cons, Bool.and_eq_true] at hdom
    obtain ⟨sw', hs, hrel'⟩ := cstep_sim hw hrel e hdom.1
    simp only [crun, cspecRun, hs]
    exact ih _ _ hrel' hdom.2

end C15
