import FiberModel.C15.ConcSim
import FiberModel.C15.ConcInv
import FiberModel.C15.ConcSerial
import FiberModel.C15.Frame
import FiberModel.C15.AbsFixed
/-
C15 — property theorems.

Sentence (properties.jsonl): "A handler sees exactly the data last saved for the session id its request
presents, if that session is unexpired and not destroyed; otherwise it sees an empty fresh session under a
server-generated id - an id the server did not issue is never adopted. After Destroy, Regenerate or Reset
the previous id no longer yields data, idle and absolute timeouts end sessions, and data of different
sessions never mix, in the middleware and the store API alike."

`model_refines_spec` is the sentence as a whole: every history of the model (requests behind the
middleware and Store-API requests of any number of clients, arbitrary scripts, arbitrary presented ids,
time steps) is accepted by the oracle of Spec.lean, i.e. the store + pool + middleware state machine
refines the abstract table `issued id ↦ (last saved data, idle deadline, absolute deadline)`.
The other theorems restate the clauses of the sentence directly on the model (no oracle involved).
Histories start from the empty server state `{}`; `Reachable` = the states between two requests.
-/
namespace C15
open B

/-- the server states that occur between two requests of some history -/
def Reachable (cfg : Cfg) (gen : Nat → Bytes) (st : St) : Prop := ∃ ops, (run cfg gen {} ops).1 = st

/-! ### concrete instances used by the non-vacuity examples -/

def exGen (n : Nat) : Bytes := List.replicate (n + 1) 120        -- "x", "xx", "xxx", …
def exCfg : Cfg := { source := .cookie, idle := 10, abs := 30 }

theorem exWF : WF exCfg exGen := by
  refine ⟨by decide, ?_, ?_⟩
  · intro i j h
    have := congrArg List.length h
    simpa [exGen] using this
  · intro i h
    have := congrArg List.length h
    simp [exGen] at this

/-- the generator the harness configures (`id1`, `id2`, …) is one of the generators quantified over -/
theorem idGen_wf (cfg : Cfg) (h : 0 < cfg.idle) : WF cfg idGen := ⟨h, fun _ _ e => idGen_inj e, idGen_ne_nil⟩

/-- two clients; set / regenerate / Store-API load, save, destroy; a stale id afterwards -/
def exOps : List Op :=
  [ .req { viaMw := true, ck := [], hd := [], qr := [], script := [.set [97] [49], .info] },
    .req { viaMw := true, ck := exGen 0, hd := [], qr := [], script := [.get [97], .regenerate, .info] },
    .adv 5,
    .req { viaMw := false, ck := exGen 0, hd := [], qr := [], script := [.storeGet, .info, .get [97], .save, .release] },
    .req { viaMw := false, ck := exGen 1, hd := [], qr := [], script := [.storeGet, .get [97], .destroy, .release] },
    .req { viaMw := true, ck := exGen 1, hd := [], qr := [], script := [.info, .get [97]] } ]

/-! ### the sentence as a whole -/

/-- **Refinement.** For every configuration with a positive idle timeout (what `configDefault` guarantees),
    every key generator that never repeats itself and never returns the empty string, and every history —
    any sequence of time steps and requests, each request behind the middleware or on a Store-API route,
    presenting any cookie / header / query values (forged and stale ids included), running any script of
    Get/Set/Delete/Keys/ID/Fresh/Destroy/Regenerate/Reset/SetIdleTimeout/Save/Release/store.Get/GetByID/
    store.Delete/store.Reset — the observations of the model (what every handler action returned, the
    Set-Cookie / response header, the generator outputs, the storage keys) pass the oracle of Spec.lean.
    A request may look its session up any number of times (`store.Get` in a guard middleware and again in
    the handler): every lookup sees the same session id and the data last saved under it, Fresh — and a
    restarted absolute lifetime — only if that id was generated during this very request.
    The only other answer of the oracle is `outside-domain` (`Save` of a session the same handler
    destroyed); it never reports a violated clause. -/
theorem model_refines_spec (cfg : Cfg) (gen : Nat → Bytes) (hw : WF cfg gen) (ops : List Op) :
    specRun cfg specInit ops (obsOf (run cfg gen {} ops).2) = none ∨
    ∃ e, specRun cfg specInit ops (obsOf (run cfg gen {} ops).2) = some e ∧ OutsideDomain e :=
  run_sim hw ops {} specInit (strel_init cfg gen)

-- non-vacuity: the hypotheses are met by a concrete configuration and generator, and on a concrete
-- history that exercises load, save, regenerate, destroy and a stale id the oracle's answer is `none`
example : WF exCfg exGen := exWF
example : specRun exCfg specInit exOps (obsOf (run exCfg exGen {} exOps).2) = none := by decide
-- … and the oracle is not trivially `none`: it rejects an observation in which the stale id is adopted
example : specRun exCfg specInit
    [.req { viaMw := true, ck := [102], hd := [], qr := [], script := [.info] }]
    [some { acts := [.info [102] false], outCk := some (some [102]), outHd := none, gens := [], keys := [[102]] }]
    ≠ none := by decide

/-- **Refinement, inside the domain.** The domain of the oracle has a syntactic description: no script
    calls `Save` after `Destroy` (`Op.inDomain`, decidable on the history alone; any number of `store.Get`
    per request is inside). For every such history the oracle's answer on the model's observations is `none`:
    every clause of the sentence holds at every step. -/
theorem model_refines_spec_in_domain (cfg : Cfg) (gen : Nat → Bytes) (hw : WF cfg gen) (ops : List Op)
    (hdom : ops.all Op.inDomain = true) :
    specRun cfg specInit ops (obsOf (run cfg gen {} ops).2) = none :=
  run_sim_dom hw ops {} specInit (strel_init cfg gen) hdom

example : exOps.all Op.inDomain = true := by decide

/-- a guard middleware and a handler both look the session up (Get / work / Save / Release, twice), on a
    new, an existing and a forged id; time then passes beyond the original absolute deadline -/
def exMultiOps : List Op :=
  [ .req { viaMw := false, ck := [], hd := [], qr := [], script := [.storeGet, .set [97] [49], .save, .release, .storeGet, .info, .get [97], .save, .release] },
    .adv 8,
    .req { viaMw := false, ck := exGen 0, hd := [], qr := [], script := [.storeGet, .info, .save, .release, .storeGet, .info, .get [97], .save, .release, .storeGet, .info] },
    .adv 8,
    .req { viaMw := false, ck := [102], hd := [], qr := [], script := [.storeGet, .info, .release, .storeGet, .info, .save, .release] },
    .req { viaMw := false, ck := exGen 0, hd := [], qr := [], script := [.storeGet, .save, .release, .storeGet, .save, .release] },
    .adv 8, .req { viaMw := false, ck := exGen 0, hd := [], qr := [], script := [.storeGet, .save, .release, .storeGet, .save, .release] },
    .adv 8, .req { viaMw := false, ck := exGen 0, hd := [], qr := [], script := [.storeGet, .info, .get [97]] } ]

example : exMultiOps.all Op.inDomain = true := by decide
example : specRun exCfg specInit exMultiOps (obsOf (run exCfg exGen {} exMultiOps).2) = none := by decide
-- the second lookup of the request that created `x` reports Fresh, the three lookups of a later request do
-- not; a forged id that was not saved gets a new id per lookup; at time 32 > 30 the session `x` is gone
-- although every request looked it up and saved it twice
example : ((run exCfg exGen {} exMultiOps).2.map fun o => o.map fun r => r.acts.filter fun a => match a with | .info _ _ => true | _ => false) =
    [some [.info (exGen 0) true], none, some [.info (exGen 0) false, .info (exGen 0) false, .info (exGen 0) false], none,
     some [.info (exGen 1) true, .info (exGen 2) true], some [], none, some [], none, some [.info (exGen 3) true]] := by
  decide
-- the domain excludes what it says and nothing else in these scripts
example : Op.inDomain (.req { viaMw := false, ck := [], hd := [], qr := [], script := [.storeGet, .destroy, .save] }) = false := by
  decide
example : Op.inDomain (.req { viaMw := false, ck := [], hd := [], qr := [], script := [.byID [120], .storeGet, .save, .destroy, .reset, .regenerate, .release] }) = true := by
  decide

/-- **Refinement for overlapping requests (schedules).** Requests need not run one after the other: in
    the model of ConcModel.lean any number of requests are in flight, a schedule says which of them arrives
    (`start`), performs its next handler action (`step`) or returns (`finish`) next, or lets time pass;
    every event is atomic on the shared storage / generator / pools, everything else is private to the
    request. For every configuration and generator as above and every schedule whose scripts are in the
    domain, the event-wise oracle of ConcSpec.lean — the same abstract table and the same clauses,
    applied to the event's own observation — answers `none`: each handler action sees exactly what was
    last saved under its session's id by whichever request saved last, ids are never adopted or mixed, etc.,
    however the requests of several clients (or of one client) interleave. -/
theorem schedules_refine_spec (cfg : Cfg) (gen : Nat → Bytes) (hw : WF cfg gen) (evs : List Ev)
    (hdom : evs.all Ev.inDomain = true) :
    cspecRun cfg {} evs (crun cfg gen {} evs).2 = none :=
  crun_sim hw evs {} {} (wrel_init cfg gen) hdom

-- non-vacuity: two requests of the same client overlap (both load the session, one saves `a=1`, the other
-- then saves its own copy: the later save wins), a third request then reads what was saved last
def exEvs : List Ev :=
  [ .start 0 { viaMw := true, ck := [], hd := [], qr := [], script := [.set [97] [48]] }, .step 0, .finish 0,
    .start 1 { viaMw := true, ck := exGen 0, hd := [], qr := [], script := [.set [97] [49]] },
    .start 2 { viaMw := false, ck := exGen 0, hd := [], qr := [], script := [.storeGet, .get [97], .set [98] [50], .save, .release] },
    .step 2, .step 1, .step 2, .finish 1, .step 2, .step 2, .adv 3, .step 2, .finish 2,
    .start 3 { viaMw := true, ck := exGen 0, hd := [], qr := [], script := [.get [97], .get [98]] }, .step 3, .step 3, .finish 3 ]

example : exEvs.all Ev.inDomain = true := by decide
example : cspecRun exCfg {} exEvs (crun exCfg exGen {} exEvs).2 = none := by decide
-- request 2 loaded before request 1 saved `a=1`, and saved after it: the last request sees a=0, b=2
example : ((crun exCfg exGen {} exEvs).2.drop 15).take 2 =
    [.stepped (.val (some [48])) [], .stepped (.val (some [50])) []] := by decide

/-- The hypothesis-free invariants hold for overlapping requests too: after any schedule every storage
    key was issued by the generator and every pooled Session object is clean. -/
theorem schedules_keep_invariants (cfg : Cfg) (gen : Nat → Bytes) (evs : List Ev) :
    (∀ e ∈ (crun cfg gen {} evs).1.st.store, ∃ i, i < (crun cfg gen {} evs).1.st.nid ∧ e.1 = gen i) ∧
    (∀ d ∈ (crun cfg gen {} evs).1.st.pool, d = SData.empty) :=
  (crun_inv evs cinv_init).inv

/-- … and an id outside the generator's range is never live, however requests overlap (a forged id is
    never adopted; likewise for any id that is dead when no request holds it, `crun_dead`). -/
theorem schedules_never_adopt_unissued_id (cfg : Cfg) (gen : Nat → Bytes) (id : Bytes) (hforged : ∀ i, gen i ≠ id)
    (evs : List Ev) : (crun cfg gen {} evs).1.st.get id = none :=
  (crun_dead evs (w := {}) ⟨by simp [St.get, lookup], fun i _ => hforged i, by intro rid f h; cases h⟩).get

example : (crun exCfg exGen {} exEvs).1.st.store.map (·.1) = [exGen 0] := by decide

/-- The sequential model is the serial case of the model with overlapping requests: the schedule in which
    every request arrives, performs all its actions and returns before the next one ends in exactly the
    state `run` computes (so the theorems about `run` are about particular schedules, not about another
    machine). -/
theorem serial_schedules_are_the_sequential_model (cfg : Cfg) (gen : Nat → Bytes) (ops : List Op) (st : St) :
    (crun cfg gen { st := st } (serialize ops)).1 = { st := (run cfg gen st ops).1 } :=
  crun_serialize cfg gen ops st

example : (crun exCfg exGen {} (serialize exOps)).1.st.store.map (·.1) = (run exCfg exGen {} exOps).1.store.map (·.1) := by
  decide

/-- The same statement one request at a time, from any related pair of states: the oracle accepts the
    request and the states stay related (this is the induction step of `model_refines_spec`). -/
theorem request_refines_spec (cfg : Cfg) (gen : Nat → Bytes) (hw : WF cfg gen) (st : St) (s : SpecSt)
    (h : StRel cfg gen st s) (q : Req) :
    (∃ s', specReq cfg s q (handle cfg gen st q).2.toObs = .ok s' ∧ StRel cfg gen (handle cfg gen st q).1 s') ∨
    (∃ e, specReq cfg s q (handle cfg gen st q).2.toObs = .error e ∧ OutsideDomain e) :=
  req_sim hw h q

example : StRel exCfg exGen {} specInit := strel_init _ _

/-! ### an id the server did not issue is never adopted -/

/-- After any history every key of the storage is an id the key generator handed out: no client-chosen id
    ever becomes a storage key (no hypothesis on configuration or generator). -/
theorem stored_ids_were_issued (cfg : Cfg) (gen : Nat → Bytes) (ops : List Op) :
    ∀ e ∈ (run cfg gen {} ops).1.store, ∃ i, i < (run cfg gen {} ops).1.nid ∧ e.1 = gen i :=
  (run_inv cfg ops (inv_init gen)).1

example : (run exCfg exGen {} exOps).1.store.map (·.1) = [exGen 3, exGen 2] := by decide

/-- An id that yields nothing at a request boundary and that the generator will not hand out later never
    yields anything again, whatever requests and time steps follow: forged ids, destroyed / regenerated /
    reset ids and expired ids are never (re-)adopted. No hypothesis on configuration or generator. -/
theorem dead_ids_stay_dead (cfg : Cfg) (gen : Nat → Bytes) (id : Bytes) (st : St) (ops : List Op)
    (hdead : st.get id = none) (hnever : ∀ i, st.nid ≤ i → gen i ≠ id) :
    (run cfg gen st ops).1.get id = none :=
  run_dead ops hdead hnever

example : ({} : St).get [102] = none ∧ ∀ i, ({} : St).nid ≤ i → exGen i ≠ [102] := by
  refine ⟨rfl, ?_⟩
  intro i _ h
  have := congrArg (fun l => l.all (· == 120)) h
  simp [exGen] at this

/-- In particular an id outside the generator's range is never live, in any state of any history: every
    request presenting it is served as below (`fresh_otherwise`), `GetByID` fails. -/
theorem unissued_id_never_adopted (cfg : Cfg) (gen : Nat → Bytes) (id : Bytes) (hforged : ∀ i, gen i ≠ id)
    (ops : List Op) : (run cfg gen {} ops).1.get id = none :=
  run_dead ops (by simp [St.get, lookup]) (fun i _ => hforged i)

/-! ### what a handler sees -/

/-- **Live id ⇒ exactly the stored data.** In every reachable state, when the id a request presents
    (cookie first, else the configured header / query parameter) is live in the storage and within its
    absolute lifetime, the session the handler gets — from the middleware or from `store.Get`, both are
    `getSession` — has that id, is not fresh, holds under every key exactly the stored value and carries the
    stored absolute deadline; no id is generated. Nothing of a pooled object shows through. -/
theorem handler_sees_last_saved (cfg : Cfg) (gen : Nat → Bytes) (st : St) (hr : Reachable cfg gen st)
    (c : RCtx) (hc : c.st = st) (hloc : c.locals = none) (blob : SData)
    (hlive : st.get (getSessionID cfg c) = some blob) (habs : absExpired st.now blob = false) :
    (getSession cfg gen c).2.id = getSessionID cfg c ∧ (getSession cfg gen c).2.fresh = false ∧
    (∀ k, lookup (getSession cfg gen c).2.data.kv k = lookup blob.kv k) ∧
    (getSession cfg gen c).2.data.abs = blob.abs ∧ (getSession cfg gen c).1.st.nid = st.nid := by
  subst hc
  obtain ⟨ops, hops⟩ := hr
  exact getSession_live c (by rw [← hops]; exact (run_inv cfg ops (inv_init gen)).2) hloc hlive habs

/-- The same for `store.GetByID`. -/
theorem getByID_sees_last_saved (cfg : Cfg) (gen : Nat → Bytes) (st : St) (hr : Reachable cfg gen st)
    (c : RCtx) (hc : c.st = st) (x : Bytes) (blob : SData) (hlive : st.get x = some blob)
    (habs : (decide (cfg.abs > 0) && absExpired st.now blob) = false) :
    ∃ s, (getByID cfg c x).2 = .ok s ∧ s.id = x ∧ s.fresh = false ∧
      (∀ k, lookup s.data.kv k = lookup blob.kv k) ∧ s.data.abs = blob.abs := by
  subst hc
  obtain ⟨ops, hops⟩ := hr
  exact getByID_live c (by rw [← hops]; exact (run_inv cfg ops (inv_init gen)).2) hlive habs

/-- **"Last saved".** What the storage yields for an id right after `Save` is the data of the saved session
    (so, with `sessions_do_not_mix` and `handler_sees_last_saved`, the next handler presenting the id sees
    exactly what was saved last under it). -/
theorem save_then_get (cfg : Cfg) (c : RCtx) (s : Sess) (hidle : 0 < cfg.idle) (hid : s.id ≠ []) :
    (sessSave cfg c s).1.st.get s.id = some s.data := by
  rw [sessSave_st]
  apply get_set_self _ hid
  unfold saveTTL
  split
  · exact hidle
  · omega

-- non-vacuity: in the example history the 4th request (Store API, stale cookie) saved a fresh session
-- `xxx`; a request presenting `xxx` afterwards is in the situation of `handler_sees_last_saved`
example : ∃ blob, (run exCfg exGen {} exOps).1.get (exGen 2) = some blob ∧
    absExpired (run exCfg exGen {} exOps).1.now blob = false := by decide

/-- **Otherwise ⇒ an empty fresh session under a server-generated id.** In every reachable state, when
    the presented id yields nothing (unknown, forged, empty, destroyed, regenerated away, idle-expired), the
    session the handler gets is fresh, has no data, its id is the next output of the server's key generator
    (not the presented id), and it carries a new absolute deadline if one is configured. -/
theorem fresh_otherwise (cfg : Cfg) (gen : Nat → Bytes) (st : St) (hr : Reachable cfg gen st)
    (c : RCtx) (hc : c.st = st) (hloc : c.locals = none) (hdead : st.get (getSessionID cfg c) = none) :
    (getSession cfg gen c).2.id = gen st.nid ∧ (getSession cfg gen c).2.fresh = true ∧
    (getSession cfg gen c).2.data.kv = [] ∧
    (getSession cfg gen c).2.data.abs = (if cfg.abs > 0 then some (st.now + cfg.abs) else none) ∧
    (getSession cfg gen c).1.st.nid = st.nid + 1 := by
  subst hc
  obtain ⟨ops, hops⟩ := hr
  exact getSession_dead c (by rw [← hops]; exact (run_inv cfg ops (inv_init gen)).2) hloc hdead

/-- … and `GetByID` of such an id fails without touching anything. -/
theorem getByID_fails_otherwise (cfg : Cfg) (c : RCtx) (x : Bytes) (hdead : c.st.get x = none) :
    (getByID cfg c x).2 = .error (if x = [] then .empty else .notFound) ∧ (getByID cfg c x).1 = c :=
  getByID_dead c hdead

example : (run exCfg exGen {} exOps).1.get (exGen 0) = none := by decide

/-! ### Destroy, Regenerate, Reset -/

/-- Right after `Destroy`, `Regenerate` or `Reset` the storage yields nothing for the previous id; by
    `dead_ids_stay_dead` (ids are not issued twice) it stays that way for as long as no other handler that
    still holds a session object under that id saves it again. -/
theorem destroy_regenerate_reset_invalidate_old_id (cfg : Cfg) (gen : Nat → Bytes) (c : RCtx) (s : Sess) :
    (sessDestroy cfg c s).1.st.get s.id = none ∧
    (sessRegenerate gen c s).1.st.get s.id = none ∧
    (sessReset cfg gen c s).1.st.get s.id = none := by
  refine ⟨?_, ?_, ?_⟩
  · rw [sessDestroy_st]; exact get_del_self _ _
  · rw [sessRegenerate_st]; exact (get_nid _ _ _).trans (get_del_self _ _)
  · rw [sessReset_st]; exact (get_nid _ _ _).trans (get_del_self _ _)

/-- The new id of `Regenerate` / `Reset` is the generator's next output; `Regenerate` keeps the data and
    the absolute deadline, `Reset` starts an empty session with a new absolute deadline. -/
theorem regenerate_reset_new_session (cfg : Cfg) (gen : Nat → Bytes) (c : RCtx) (s : Sess) :
    (sessRegenerate gen c s).2 = { s with id := gen c.st.nid, fresh := true } ∧
    (sessReset cfg gen c s).2 =
      { s with id := gen c.st.nid, fresh := true, idleT := 0,
               data := { kv := [], abs := if cfg.abs > 0 then some (c.st.now + cfg.abs) else none } } :=
  ⟨sessRegenerate_snd gen c s, sessReset_snd cfg gen c s⟩

/-- A request behind the middleware whose handler destroyed the session is not auto-saved: the destroyed
    id is dead when the request ends (and hence forever, `dead_ids_stay_dead`). -/
theorem middleware_does_not_resave_destroyed (cfg : Cfg) (h : HSt) (hd : h.destroyed = true) :
    (mwFinish cfg h).st = h.c.st := by
  unfold mwFinish
  split <;> simp [hd]

/-! ### timeouts -/

/-- **Idle timeout.** `Save` stores the session with the idle timeout as TTL, and once that much time has
    passed without another save the storage yields nothing for the id (so the next request presenting it
    gets a fresh session, `fresh_otherwise`). -/
theorem idle_timeout_ends_session (cfg : Cfg) (c : RCtx) (s : Sess) (hidle : 0 < cfg.idle) (hid : s.id ≠ [])
    (d : Nat) (hd : saveTTL cfg s ≤ d) :
    ({ (sessSave cfg c s).1.st with now := (sessSave cfg c s).1.st.now + d } : St).get s.id = none := by
  have httl : saveTTL cfg s ≠ 0 := by
    unfold saveTTL; split <;> omega
  rw [sessSave_st]
  unfold St.set St.get
  simp only [hid, if_false, lookup_put_self, httl]
  simp [Entry.live]
  omega

/-- … and not earlier. -/
theorem idle_timeout_not_earlier (cfg : Cfg) (c : RCtx) (s : Sess) (hid : s.id ≠ []) (d : Nat)
    (hd : d < saveTTL cfg s) :
    ({ (sessSave cfg c s).1.st with now := (sessSave cfg c s).1.st.now + d } : St).get s.id = some s.data := by
  have httl : saveTTL cfg s ≠ 0 := by omega
  rw [sessSave_st]
  unfold St.set St.get
  simp only [hid, if_false, lookup_put_self, httl]
  simp [Entry.live]
  omega

/-- **Absolute timeout.** In every reachable state, when the presented id is live but its absolute
    deadline has passed, the handler gets an empty fresh session under a new id and the old entry is
    deleted; `GetByID` fails and deletes it as well. (A fresh session gets `now + AbsoluteTimeout`,
    `fresh_otherwise`; `Set/Delete/SetIdleTimeout/Save/Regenerate` keep the deadline,
    `save_then_get` / `regenerate_reset_new_session`; the table of the oracle tracks it per id through
    whole histories, `model_refines_spec`.) -/
theorem absolute_timeout_ends_session (cfg : Cfg) (gen : Nat → Bytes) (st : St) (hr : Reachable cfg gen st)
    (c : RCtx) (hc : c.st = st) (hloc : c.locals = none) (blob : SData)
    (hlive : st.get (getSessionID cfg c) = some blob) (habs : absExpired st.now blob = true) :
    (getSession cfg gen c).2.id = gen st.nid ∧ (getSession cfg gen c).2.fresh = true ∧
    (getSession cfg gen c).2.data.kv = [] ∧
    (getSession cfg gen c).1.st.get (getSessionID cfg c) = none := by
  subst hc
  obtain ⟨ops, hops⟩ := hr
  have := getSession_abs_expired (gen := gen) c (by rw [← hops]; exact (run_inv cfg ops (inv_init gen)).2) hloc hlive habs
  exact ⟨this.1, this.2.1, this.2.2.1, this.2.2.2.2⟩

theorem absolute_timeout_ends_session_byID (cfg : Cfg) (gen : Nat → Bytes) (st : St)
    (hr : Reachable cfg gen st) (c : RCtx) (hc : c.st = st) (x : Bytes) (blob : SData)
    (hlive : st.get x = some blob) (habs : (decide (cfg.abs > 0) && absExpired st.now blob) = true) :
    (getByID cfg c x).2 = .error .notFound ∧ (getByID cfg c x).1.st.get x = none := by
  subst hc
  obtain ⟨ops, hops⟩ := hr
  exact getByID_abs_expired c (by rw [← hops]; exact (run_inv cfg ops (inv_init gen)).2) hlive habs

-- non-vacuity: a session created at time 0 with AbsoluteTimeout 30 and kept alive by a request every 8 s
-- is, at time 32, live in the storage and past its absolute deadline
def exAbsOps : List Op :=
  [ .req { viaMw := true, ck := [], hd := [], qr := [], script := [.set [97] [49]] }, .adv 8,
    .req { viaMw := true, ck := exGen 0, hd := [], qr := [], script := [] }, .adv 8,
    .req { viaMw := true, ck := exGen 0, hd := [], qr := [], script := [] }, .adv 8,
    .req { viaMw := true, ck := exGen 0, hd := [], qr := [], script := [] }, .adv 8 ]

example : ∃ blob, (run exCfg exGen {} exAbsOps).1.get (exGen 0) = some blob ∧
    absExpired (run exCfg exGen {} exAbsOps).1.now blob = true := by decide

/-- **The absolute deadline is absolute.** For as long as an id yields data, the absolute deadline stored with
    it is the one it had: from any reachable state, through any history inside the oracle's domain (any
    requests of any clients — loads, `Set`, `Save` with any idle timeout, `GetByID`, middleware auto-saves —
    and time steps), nothing extends, shortens or drops it. With `fresh_otherwise` (a new session gets
    `now + AbsoluteTimeout`) and `absolute_timeout_ends_session` (past the deadline the id is replaced and
    deleted): a session ends `AbsoluteTimeout` after its creation however active it is. (`Regenerate` moves
    data and deadline to a new id, `regenerate_reset_new_session`.) -/
theorem absolute_deadline_never_changes (cfg : Cfg) (gen : Nat → Bytes) (hinj : ∀ i j, gen i = gen j → i = j)
    (st : St) (hr : Reachable cfg gen st) (id : Bytes) (b : SData) (hlive : st.get id = some b)
    (ops : List Op) (hdom : ops.all Op.inDomain = true) (b' : SData)
    (hlive' : (run cfg gen st ops).1.get id = some b') : b'.abs = b.abs := by
  obtain ⟨ops0, hops⟩ := hr
  have hinv : Inv gen st := by rw [← hops]; exact run_inv cfg ops0 (inv_init gen)
  obtain ⟨_, e, he, _, _⟩ := get_some_lookup hlive
  obtain ⟨i, hi, hid⟩ := hinv.1 (id, e) (lookup_some_mem he)
  have hnever : NeverGen gen st.nid id := by
    intro j hj hg
    have := hinj j i (by rw [hg]; exact hid)
    omega
  have ha : AbsSt gen id b.abs st :=
    ⟨by intro b0 hb0; rw [hlive] at hb0; cases hb0; rfl, hnever, hinv.2⟩
  exact (run_abs ops ha hdom).store b' hlive'

-- non-vacuity: in the keep-alive example the session `x` is live after the first request and still live,
-- with the same deadline (30), three requests and 24 seconds later
example : ∃ b, (run exCfg exGen {} (exAbsOps.take 1)).1.get (exGen 0) = some b ∧ b.abs = some 30 ∧
    ∃ b', (run exCfg exGen (run exCfg exGen {} (exAbsOps.take 1)).1 ((exAbsOps.drop 1).take 6)).1.get (exGen 0) = some b' ∧
      b'.abs = some 30 := by decide


/-! ### data of different sessions never mix -/

/-- After any history every pooled Session object has an empty data map (`releaseSession` replaces the
    map), so `gob.Decode` — which MERGES into the map it is given — never merges into leftovers of another
    session. No hypothesis on configuration or generator. -/
theorem pooled_objects_are_empty (cfg : Cfg) (gen : Nat → Bytes) (ops : List Op) :
    ∀ d ∈ (run cfg gen {} ops).1.pool, d = SData.empty :=
  (run_inv cfg ops (inv_init gen)).2

example : (run exCfg exGen {} exOps).1.pool ≠ [] := by decide

/-- That the clearing is what makes this true: decoding into a map that still holds a key of another
    session keeps that key. -/
theorem merge_into_leftovers_would_mix (base blob : SData) (k : Bytes) (h : lookup blob.kv k = none) :
    lookup (base.merge blob).kv k = lookup base.kv k :=
  merge_keeps_leftovers base blob k h

/-- **Isolation in the storage.** Whatever a handler does — behind the middleware or through the Store
    API — the storage entry of every id other than the one its current session has (or the one the action
    names: `GetByID`, `store.Delete`; the presented id for `store.Get`; `store.Reset` excepted) yields
    exactly what it yielded before. -/
theorem sessions_do_not_mix (cfg : Cfg) (gen : Nat → Bytes) (h : HSt) (hp : ∀ d ∈ h.c.st.pool, d = SData.empty)
    (a : Act) (y : Bytes) (hother : ¬ touches cfg h a y) :
    (act cfg gen h a).1.c.st.get y = h.c.st.get y :=
  act_frame h hp a y hother

example : ¬ touches exCfg { c := { st := {}, ck := [], hd := [], qr := [] }, mw := some { id := [1], data := {}, fresh := true }, cur := .mw }
    .save [2] := by
  simp [touches, HSt.sess]

/-! ### finding F1 (fixed in /repo, fe88b4e): `Reset` did not start a new absolute lifetime -/

/-- session.go `Reset` before the fix: the data map — and with it the absolute-expiration entry — is
    dropped and nothing is put in its place -/
def sessResetOld (cfg : Cfg) (gen : Nat → Bytes) (c : RCtx) (s : Sess) : RCtx × Sess :=
  ((sessReset cfg gen c s).1, { (sessReset cfg gen c s).2 with data := { kv := [], abs := none } })

/-- witness of F1: whatever `AbsoluteTimeout` is configured, the session the old `Reset` left behind is never
    past an absolute deadline (it has none), at any later time, and `Save` stores it like that -/
theorem old_reset_loses_absolute_deadline (cfg : Cfg) (gen : Nat → Bytes) (c : RCtx) (s : Sess) (now : Nat) :
    absExpired now (sessResetOld cfg gen c s).2.data = false ∧
    (sessSave cfg (sessResetOld cfg gen c s).1 (sessResetOld cfg gen c s).2).2.data.abs = none := by
  constructor
  · rfl
  · rw [sessSave_snd]; rfl

/-- … whereas the repaired `Reset` gives the new session `now + AbsoluteTimeout` -/
theorem reset_starts_new_absolute_lifetime (cfg : Cfg) (gen : Nat → Bytes) (c : RCtx) (s : Sess) (h : cfg.abs > 0) :
    (sessReset cfg gen c s).2.data.abs = some (c.st.now + cfg.abs) := by
  rw [sessReset_snd]; simp [h]

example : exCfg.abs > 0 := by decide

end C15
