import FiberModel.C15.Spec
import FiberModel.C15.ConcModel
/-
C15 — the oracle for overlapping requests: the same abstract table and the same per-action clauses as
Spec.lean (`specStart`, `specAct`, `specFinish`, `specEnd`), applied event by event; each request in flight
keeps its own abstract views, the table and the issued ids are shared.
-/
namespace C15
open B

structure SFl where
  q : Req
  r : SReq          -- `r.s` is stale; the live table is the world's
  todo : List Act

structure SWorld where
  s : SpecSt := {}
  fl : Nat → Option SFl := fun _ => none

def SWorld.set (w : SWorld) (s : SpecSt) (rid : Nat) (f : Option SFl) : SWorld :=
  { s := s, fl := fun i => if i = rid then f else w.fl i }

def cspecStep (cfg : Cfg) (w : SWorld) (e : Ev) (o : CObs) : Except String SWorld :=
  match e with
  | .adv d => .ok { w with s := { w.s with now := w.s.now + d } }
  | .start rid q =>
    match w.fl rid with
    | some _ => .ok w
    | none =>
      match o with
      | .started g => do
        let r ← specStart cfg w.s q g
        pure (w.set r.s rid (some { q := q, r := r, todo := q.script }))
      | _ => .error "observation-shape"
  | .step rid =>
    match w.fl rid with
    | none => .ok w
    | some f =>
      match f.todo with
      | [] => .ok w
      | a :: rest =>
        match o with
        | .stepped ao g => do
          let r ← specAct cfg f.q.viaMw f.q { f.r with s := w.s, gens := g } a ao
          pure (w.set r.s rid (some { f with r := r, todo := rest }))
        | _ => .error "observation-shape"
  | .finish rid =>
    match w.fl rid with
    | none => .ok w
    | some f =>
      match f.todo with
      | _ :: _ => .ok w
      | [] =>
        match o with
        | .finished ck hd keys => do
          let ob : Obs := { acts := [], outCk := ck, outHd := hd, gens := [], keys := keys }
          let r ← specFinish cfg { f.r with s := w.s, gens := [] } ob
          let s ← specEnd r.s ob
          pure (w.set s rid none)
        | _ => .error "observation-shape"

def cspecRun (cfg : Cfg) : SWorld → List Ev → List CObs → Option String
  | _, [], _ => none
  | w, e :: es, o :: os =>
    match cspecStep cfg w e o with
    | .error err => some err
    | .ok w' => cspecRun cfg w' es os
  | _, _, _ => some "observation-shape"

/-- the schedules of the domain: every request's script is in the domain of the oracle -/
def Ev.inDomain : Ev → Bool
  | .start _ q => scriptInDomain false q.script
  | _ => true

end C15
