import FiberModel.C01.Spec
/-
C01 — helper lemmas, part A: position-sorted lists, `buildTree`/`lookup`, the cursor.
-/
set_option linter.unusedSimpArgs false
namespace C01
variable {π α : Type}

/-- strictly increasing positions (what `addRoute` produces for every method stack) -/
def Sorted (l : List (Route α)) : Prop := l.Pairwise (fun a b => a.pos < b.pos)

theorem Sorted.eq_of_pos {l : List (Route α)} (h : Sorted l) {a b : Route α}
    (ha : a ∈ l) (hb : b ∈ l) (hp : a.pos = b.pos) : a = b := by
  induction l with
  | nil => cases ha
  | cons x xs ih =>
    rw [Sorted, List.pairwise_cons] at h
    rcases List.mem_cons.mp ha with rfl | ha' <;> rcases List.mem_cons.mp hb with rfl | hb'
    · rfl
    · have := h.1 _ hb'; omega
    · have := h.1 _ ha'; omega
    · exact ih h.2 ha' hb'

theorem Sorted.filter {l : List (Route α)} (h : Sorted l) (f : Route α → Bool) : Sorted (l.filter f) :=
  List.Pairwise.filter f h

/-! ### insertion sort -/

theorem insertPos_perm (r : Route α) (l : List (Route α)) : (insertPos r l).Perm (r :: l) := by
  induction l with
  | nil => simp [insertPos]
  | cons x xs ih =>
    simp only [insertPos]
    split
    · exact List.Perm.refl _
    · exact (List.Perm.cons x ih).trans (List.Perm.swap r x xs)

theorem sortPos_perm (l : List (Route α)) : (sortPos l).Perm l := by
  induction l with
  | nil => simp [sortPos]
  | cons x xs ih => exact (insertPos_perm x _).trans (List.Perm.cons x ih)

theorem insertPos_le (r : Route α) (l : List (Route α))
    (h : l.Pairwise (fun a b => a.pos ≤ b.pos)) : (insertPos r l).Pairwise (fun a b => a.pos ≤ b.pos) := by
  induction l with
  | nil => simp [insertPos]
  | cons x xs ih =>
    rw [List.pairwise_cons] at h
    simp only [insertPos]
    split
    · rename_i hle
      rw [List.pairwise_cons]
      refine ⟨?_, List.pairwise_cons.mpr h⟩
      intro a ha
      rcases List.mem_cons.mp ha with rfl | ha'
      · exact hle
      · exact Nat.le_trans hle (h.1 _ ha')
    · rename_i hgt
      rw [List.pairwise_cons]
      refine ⟨?_, ih h.2⟩
      intro a ha
      have := (insertPos_perm r xs).mem_iff.mp ha
      rcases List.mem_cons.mp this with rfl | ha'
      · omega
      · exact h.1 _ ha'

theorem sortPos_le (l : List (Route α)) : (sortPos l).Pairwise (fun a b => a.pos ≤ b.pos) := by
  induction l with
  | nil => simp [sortPos]
  | cons x xs ih => exact insertPos_le x _ ih

/-- Sorting a permutation of a strictly position-sorted list gives back that list. -/
theorem sortPos_eq_of_perm {x y : List (Route α)} (hy : Sorted y) (hp : x.Perm y) : sortPos x = y := by
  have hle : y.Pairwise (fun a b => a.pos ≤ b.pos) := hy.imp (fun h => Nat.le_of_lt h)
  refine List.Perm.eq_of_pairwise (le := fun a b => a.pos ≤ b.pos) ?_ (sortPos_le x) hle ((sortPos_perm x).trans hp)
  intro a b ha hb h1 h2
  have ha' : a ∈ y := hp.mem_iff.mp ((sortPos_perm x).mem_iff.mp ha)
  exact hy.eq_of_pos ha' hb (Nat.le_antisymm h1 h2)

/-! ### uniqueRouteStack -/

theorem uniquePos_eq (l : List (Route α)) (seen : List Nat)
    (hnd : (l.map (·.pos)).Nodup) (hdis : ∀ r ∈ l, r.pos ∉ seen) : uniquePos l seen = l := by
  induction l generalizing seen with
  | nil => rfl
  | cons x xs ih =>
    simp only [List.map_cons, List.nodup_cons] at hnd
    have hx : seen.contains x.pos = false := by
      have := hdis x List.mem_cons_self
      simpa using this
    simp only [uniquePos, hx]
    have : uniquePos xs (x.pos :: seen) = xs := by
      apply ih _ hnd.2
      intro r hr
      simp only [List.mem_cons, not_or]
      refine ⟨?_, hdis r (List.mem_cons_of_mem _ hr)⟩
      intro heq
      exact hnd.1 (by rw [← heq]; exact List.mem_map_of_mem hr)
    simp [this]

theorem Sorted.nodup_pos {l : List (Route α)} (h : Sorted l) : (l.map (·.pos)).Nodup := by
  induction l with
  | nil => simp
  | cons x xs ih =>
    rw [Sorted, List.pairwise_cons] at h
    simp only [List.map_cons, List.nodup_cons, List.mem_map, not_exists, not_and]
    refine ⟨?_, ih h.2⟩
    intro r hr heq
    have := h.1 r hr; omega

/-! ### buildTree / lookup -/

theorem lookup_map_key (ks : List Nat) (g : Nat → List (Route α)) (h : Nat) :
    (ks.map fun k => (k, g k)).lookup h = if h ∈ ks then some (g h) else none := by
  induction ks with
  | nil => simp
  | cons k ks ih =>
    simp only [List.map_cons, List.lookup_cons, List.mem_cons]
    by_cases hk : h = k
    · subst hk; simp
    · have : (h == k) = false := by simpa using hk
      simp [this, ih, hk]

theorem mem_keysOf (st : List (Route α)) (h : Nat) : h ∈ keysOf st ↔ ∃ r ∈ st, r.key = h := by
  simp [keysOf, List.mem_eraseDups]

/-- the two buckets of a sorted stack, concatenated, are a permutation of one filter of the stack -/
theorem bucket_append_perm (st : List (Route α)) (h : Nat) (hh : h ≠ 0) :
    (bucket st h ++ bucket st 0).Perm (st.filter fun r => r.key == h || r.key == 0) := by
  induction st with
  | nil => simp [bucket]
  | cons x xs ih =>
    simp only [bucket, List.filter_cons] at ih ⊢
    by_cases h1 : x.key = h
    · have e1 : (x.key == h) = true := by simp [h1]
      have e0 : (x.key == 0) = false := by simp; omega
      simp only [e1, e0, Bool.true_or, Bool.false_eq_true, ↓reduceIte, List.cons_append]
      exact List.Perm.cons x ih
    · have e1 : (x.key == h) = false := by simp [h1]
      by_cases h2 : x.key = 0
      · have e0 : (x.key == 0) = true := by simp [h2]
        simp only [e1, e0, Bool.or_true, Bool.false_eq_true, ↓reduceIte]
        exact List.perm_middle.trans (List.Perm.cons x ih)
      · have e0 : (x.key == 0) = false := by simp [h2]
        simp only [e1, e0, Bool.or_self, Bool.false_eq_true, ↓reduceIte]
        exact ih

/-- **What the index holds.** For a stack with strictly increasing positions, the list `next` scans
for a request hash `h` is the sub-list of the stack made of the routes with key `h` or key 0, in
stack order — whether or not a bucket for `h` exists. -/
theorem lookup_buildTree (st : List (Route α)) (hs : Sorted st) (h : Nat) :
    lookup (buildTree st) h = st.filter (fun r => r.key == h || r.key == 0) := by
  have h0 : sortPos (bucket st 0) = st.filter (fun r => r.key == 0) :=
    sortPos_eq_of_perm (hs.filter _) (List.Perm.refl _)
  unfold lookup buildTree
  rw [lookup_map_key, lookup_map_key]
  by_cases hk : h ∈ keysOf st
  · simp only [hk, ite_true]
    by_cases hz : h = 0
    · subst hz; simp [h0]
    · simp only [hz, ite_false]
      have hperm := bucket_append_perm st h hz
      have hsort : Sorted (st.filter fun r => r.key == h || r.key == 0) := hs.filter _
      have hu : uniquePos (bucket st h ++ bucket st 0) [] = bucket st h ++ bucket st 0 := by
        apply uniquePos_eq
        · exact (hperm.map (·.pos)).nodup_iff.mpr hsort.nodup_pos
        · intro r _; simp
      rw [hu]
      exact sortPos_eq_of_perm hsort hperm
  · simp only [hk, ite_false]
    have hnone : ∀ r ∈ st, (r.key == h) = false := by
      intro r hr
      have : ¬ r.key = h := fun e => hk ((mem_keysOf st h).mpr ⟨r, hr, e⟩)
      simpa using this
    have hfil : (st.filter fun r => r.key == h || r.key == 0) = st.filter fun r => r.key == 0 := by
      apply List.filter_congr
      intro r hr; simp [hnone r hr]
    rw [hfil]
    by_cases hz : 0 ∈ keysOf st
    · simp [hz, h0]
    · simp only [hz, ite_false, Option.getD_none]
      symm
      rw [List.filter_eq_nil_iff]
      intro r hr hk0
      exact hz ((mem_keysOf st 0).mpr ⟨r, hr, by simpa using hk0⟩)

theorem lookup_buildTree_sorted (st : List (Route α)) (hs : Sorted st) (h : Nat) :
    Sorted (lookup (buildTree st) h) := by
  rw [lookup_buildTree st hs h]; exact hs.filter _

/-! ### the cursor on a sorted list -/

theorem Sorted.filter_gt_append {a b : List (Route α)} {r : Route α} (h : Sorted (a ++ r :: b)) :
    (a ++ r :: b).filter (fun x => r.pos < x.pos) = b := by
  rw [Sorted, List.pairwise_append] at h
  obtain ⟨_, hb, hab⟩ := h
  rw [List.pairwise_cons] at hb
  rw [List.filter_append, List.filter_cons]
  have h1 : a.filter (fun x => r.pos < x.pos) = [] := by
    rw [List.filter_eq_nil_iff]
    intro x hx
    have := hab x hx r List.mem_cons_self
    simp; omega
  have h2 : b.filter (fun x => r.pos < x.pos) = b := by
    rw [List.filter_eq_self]
    intro x hx
    have := hb.1 x hx
    simpa using this
  simp [h1, h2]

theorem Sorted.drop_countP (l : List (Route α)) (h : Sorted l) (q : Nat) :
    l.drop (l.countP fun x => x.pos ≤ q) = l.filter (fun x => q < x.pos) := by
  induction l with
  | nil => simp
  | cons x xs ih =>
    rw [Sorted, List.pairwise_cons] at h
    by_cases hx : x.pos ≤ q
    · have hq : ¬ q < x.pos := by omega
      simp [List.countP_cons, hx, hq, List.filter_cons, ih h.2]
    · have hall : ∀ y ∈ xs, ¬ y.pos ≤ q := by
        intro y hy; have := h.1 y hy; omega
      have hc : xs.countP (fun x => x.pos ≤ q) = 0 := by
        rw [List.countP_eq_zero]; intro y hy; simpa using hall y hy
      have hf : xs.filter (fun x => q < x.pos) = xs := by
        rw [List.filter_eq_self]; intro y hy; have := hall y hy; simp; omega
      have hq : q < x.pos := by omega
      simp [List.countP_cons, hx, hc, List.filter_cons, hq, hf]

/-- `findFrom` finds the first match at or after the cursor. -/
theorem findFrom_none {f : Route α → Bool} {l : List (Route α)} {c : Nat}
    (h : findFrom f l c = none) : (l.drop c).filter f = [] := by
  induction l generalizing c with
  | nil => simp
  | cons x xs ih =>
    cases c with
    | zero =>
      simp only [findFrom] at h
      split at h
      · cases h
      · rename_i hx
        simp only [Option.map_eq_none_iff] at h
        have := ih h
        simp only [List.drop_zero] at this ⊢
        simp [List.filter_cons, hx, this]
    | succ c =>
      simp only [findFrom, Option.map_eq_none_iff] at h
      simpa using ih h

theorem findFrom_some {f : Route α → Bool} {l : List (Route α)} {c j : Nat} {r : Route α}
    (h : findFrom f l c = some (j, r)) :
    ∃ pre post, l.drop c = pre ++ r :: post ∧ (∀ x ∈ pre, f x = false) ∧ f r = true ∧
      l.drop (j + 1) = post := by
  induction l generalizing c j with
  | nil => simp [findFrom] at h
  | cons x xs ih =>
    cases c with
    | zero =>
      simp only [findFrom] at h
      split at h
      · rename_i hx
        simp only [Option.some.injEq, Prod.mk.injEq] at h
        obtain ⟨rfl, rfl⟩ := h
        exact ⟨[], xs, by simp, by simp, hx, by simp⟩
      · rename_i hx
        simp only [Option.map_eq_some_iff] at h
        obtain ⟨⟨j', r'⟩, hj, heq⟩ := h
        simp only [Prod.mk.injEq] at heq
        obtain ⟨rfl, rfl⟩ := heq
        obtain ⟨pre, post, h1, h2, h3, h4⟩ := ih hj
        refine ⟨x :: pre, post, ?_, ?_, h3, ?_⟩
        · simp only [List.drop_zero] at h1 ⊢; simp [h1]
        · intro y hy
          rcases List.mem_cons.mp hy with rfl | hy'
          · simpa using hx
          · exact h2 y hy'
        · simpa using h4
    | succ c =>
      simp only [findFrom, Option.map_eq_some_iff] at h
      obtain ⟨⟨j', r'⟩, hj, heq⟩ := h
      simp only [Prod.mk.injEq] at heq
      obtain ⟨rfl, rfl⟩ := heq
      obtain ⟨pre, post, h1, h2, h3, h4⟩ := ih hj
      exact ⟨pre, post, by simpa using h1, h2, h3, by simpa using h4⟩


/-! ### the ghost registration indices along a stack -/

/-- along a stack the registration index ranges `[first, last]` of the routes are disjoint and increase -/
def FSorted (l : List (Route α)) : Prop :=
  l.Pairwise (fun a b => a.last < b.first) ∧ ∀ a ∈ l, a.first ≤ a.last

theorem FSorted.filter {l : List (Route α)} (h : FSorted l) (f : Route α → Bool) : FSorted (l.filter f) :=
  ⟨List.Pairwise.filter f h.1, fun a ha => h.2 a (List.mem_filter.mp ha).1⟩

theorem FSorted.tail {x : Route α} {xs : List (Route α)} (h : FSorted (x :: xs)) : FSorted xs :=
  ⟨(List.pairwise_cons.mp h.1).2, fun a ha => h.2 a (List.mem_cons_of_mem _ ha)⟩

theorem FSorted.drop_countP (l : List (Route α)) (h : FSorted l) (q : Nat) :
    l.drop (l.countP fun x => x.first ≤ q) = l.filter (fun x => q + 1 ≤ x.first) := by
  induction l with
  | nil => simp
  | cons x xs ih =>
    have hp := List.pairwise_cons.mp h.1
    have hx1 := h.2 x List.mem_cons_self
    by_cases hx : x.first ≤ q
    · have hq : ¬ q + 1 ≤ x.first := by omega
      simp [List.countP_cons, hx, hq, List.filter_cons, ih h.tail]
    · have hall : ∀ y ∈ xs, ¬ y.first ≤ q := by
        intro y hy; have := hp.1 y hy; omega
      have hc : xs.countP (fun x => x.first ≤ q) = 0 := by
        rw [List.countP_eq_zero]; intro y hy; simpa using hall y hy
      have hf : xs.filter (fun x => q + 1 ≤ x.first) = xs := by
        rw [List.filter_eq_self]; intro y hy; have := hall y hy; simp; omega
      have hq : q + 1 ≤ x.first := by omega
      simp [List.countP_cons, hx, hc, List.filter_cons, hq, hf]

/-- inside one stack, "behind by position" and "behind by registration index" coincide -/
theorem pos_first_iff {st : List (Route α)} (hs : Sorted st) (hf : FSorted st) {r x : Route α}
    (hr : r ∈ st) (hx : x ∈ st) : r.pos < x.pos ↔ r.last + 1 ≤ x.first := by
  induction st with
  | nil => cases hr
  | cons a t ih =>
    have hp := List.pairwise_cons.mp hs
    have hq := List.pairwise_cons.mp hf.1
    rcases List.mem_cons.mp hr with e1 | hr' <;> rcases List.mem_cons.mp hx with e2 | hx'
    · have := hf.2 a List.mem_cons_self; rw [e1, e2]; omega
    · have h1 := hp.1 x hx'; have h2 := hq.1 x hx'; rw [e1]; omega
    · have h1 := hp.1 r hr'; have h2 := hq.1 r hr'
      have h3 := hf.2 r (List.mem_cons_of_mem _ hr'); have h4 := hf.2 a List.mem_cons_self
      rw [e2]; omega
    · exact ih hp.2 hf.tail hr' hx'

theorem drop_min_length (l : List (Route α)) (c : Nat) : l.drop (min c l.length) = l.drop c := by
  by_cases h : c ≤ l.length
  · rw [Nat.min_eq_left h]
  · have h' : l.length ≤ c := by omega
    rw [Nat.min_eq_right h', List.drop_length, List.drop_eq_nil_of_le h']

theorem find?_filter_of_imp {l : List (Route α)} {f q : Route α → Bool}
    (h : ∀ x ∈ l, f x = true → q x = true) : (l.filter q).find? f = l.find? f := by
  induction l with
  | nil => rfl
  | cons x xs ih =>
    have ih' := ih (fun y hy => h y (List.mem_cons_of_mem _ hy))
    by_cases hf : f x = true
    · have hq := h x List.mem_cons_self hf
      simp [List.filter_cons, hq, List.find?_cons, hf]
    · have hf' : f x = false := by simpa using hf
      by_cases hq : q x = true
      · simp [List.filter_cons, hq, List.find?_cons, hf', ih']
      · simp [List.filter_cons, hq, List.find?_cons, hf', ih']

theorem find?_of_split {l pre post : List (Route α)} {f : Route α → Bool} {r : Route α}
    (hl : l = pre ++ r :: post) (hpre : ∀ x ∈ pre, f x = false) (hr : f r = true) : l.find? f = some r := by
  subst hl
  induction pre with
  | nil => simp [List.find?_cons, hr]
  | cons a t ih =>
    have ha := hpre a List.mem_cons_self
    simp only [List.cons_append, List.find?_cons, ha]
    exact ih (fun x hx => hpre x (List.mem_cons_of_mem _ hx))

end C01
