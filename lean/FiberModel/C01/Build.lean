import FiberModel.C01.Corr
/-
C01 — helper lemmas, part D: invariants of `register`/`addRoute` (`build`): positions strictly
increase along every method stack, every route stems from a registration, and the stack of method
`m` corresponds (`Corr`) to the registrations listing `m`.
-/
set_option linter.unusedSimpArgs false
set_option linter.unusedVariables false
namespace C01
variable {π α : Type}

def mkRoute (n k m : Nat) (g : Reg α) : Route α :=
  { pos := n, m := m, use := g.use, raw := g.raw, key := g.key, handlers := g.handlers, eo := g.eo,
    first := k, last := k }

/-- `addRoute` on the (newest-first) stack of its method -/
def pushRev (merge : Bool) (n k m : Nat) (g : Reg α) : List (Route α) → List (Route α)
  | last :: rest =>
    if merge && last.raw == g.raw && last.eo == g.eo && last.use == g.use then
      { last with handlers := last.handlers ++ markSeam g.handlers, last := k } :: rest
    else mkRoute (n + 1) k m g :: last :: rest
  | [] => [mkRoute (n + 1) k m g]

theorem addRoute_rev (merge : Bool) (S : Stacks α) (m : Nat) (g : Reg α) (i : Nat) :
    (addRoute merge S m g).rev i = if i = m then pushRev merge S.count S.nreg m g (S.rev m) else S.rev i := by
  unfold addRoute
  cases hrev : S.rev m with
  | nil => simp only [pushRev, mkRoute, newRoute]
  | cons last rest =>
    simp only [pushRev, mkRoute, newRoute]
    split <;> simp

theorem addRoute_nreg (merge : Bool) (S : Stacks α) (m : Nat) (g : Reg α) :
    (addRoute merge S m g).nreg = S.nreg := by
  unfold addRoute
  cases hrev : S.rev m with
  | nil => rfl
  | cons last rest =>
    simp only
    split <;> rfl

theorem addRoute_count (merge : Bool) (S : Stacks α) (m : Nat) (g : Reg α) :
    S.count ≤ (addRoute merge S m g).count ∧ (addRoute merge S m g).count ≤ S.count + 1 := by
  unfold addRoute
  cases hrev : S.rev m with
  | nil => simp
  | cons last rest =>
    simp only
    split <;> simp

/-- positions of the new stack are bounded by the new counter -/
theorem pushRev_bound (merge : Bool) (S : Stacks α) (m : Nat) (g : Reg α)
    (hb : ∀ r ∈ S.rev m, r.pos ≤ S.count) :
    ∀ r ∈ pushRev merge S.count S.nreg m g (S.rev m), r.pos ≤ (addRoute merge S m g).count := by
  unfold addRoute
  cases hrev : S.rev m with
  | nil => intro r hr; simp [pushRev, mkRoute] at hr; subst hr; simp
  | cons last rest =>
    have hb' := hb; rw [hrev] at hb'
    simp only [pushRev]
    split
    · intro r hr
      rcases List.mem_cons.mp hr with rfl | hr'
      · exact hb' last List.mem_cons_self
      · exact hb' r (List.mem_cons_of_mem _ hr')
    · intro r hr
      rcases List.mem_cons.mp hr with rfl | hr'
      · simp [mkRoute]
      · have := hb' r hr'; simp; omega

/-- the invariant of `app.stack` / `app.routesCount` -/
structure InvS (S : Stacks α) : Prop where
  sorted : ∀ i, Sorted (S.stack i)
  bound : ∀ i, ∀ r ∈ S.rev i, r.pos ≤ S.count ∧ r.m = i
  len : ∀ i, (S.rev i).length ≤ S.count

theorem InvS.empty : InvS (Stacks.empty : Stacks α) :=
  ⟨fun _ => by simp [Stacks.empty, Stacks.stack, Sorted], fun _ r hr => by simp [Stacks.empty] at hr,
   fun _ => by simp [Stacks.empty]⟩

theorem sorted_reverse_cons {x : Route α} {l : List (Route α)} (h : Sorted l.reverse)
    (hx : ∀ r ∈ l, r.pos < x.pos) : Sorted (x :: l).reverse := by
  simp only [List.reverse_cons, Sorted, List.pairwise_append]
  refine ⟨h, by simp, ?_⟩
  intro a ha b hb
  simp only [List.mem_singleton] at hb
  subst hb
  exact hx a (List.mem_reverse.mp ha)

theorem InvS.addRoute (merge : Bool) (S : Stacks α) (h : InvS S) (m : Nat) (g : Reg α) :
    InvS (addRoute merge S m g) := by
  have hc := addRoute_count merge S m g
  refine ⟨?_, ?_, ?_⟩
  · intro i
    simp only [Stacks.stack, addRoute_rev]
    by_cases hi : i = m
    · subst hi
      simp only [↓reduceIte]
      have hs := h.sorted i
      simp only [Stacks.stack] at hs
      cases hrev : S.rev i with
      | nil => simp [pushRev, Sorted]
      | cons last rest =>
        rw [hrev] at hs
        simp only [pushRev]
        split
        · -- merged: positions unchanged
          simp only [List.reverse_cons, Sorted, List.pairwise_append] at hs ⊢
          refine ⟨hs.1, by simp, ?_⟩
          intro a ha b hb
          simp only [List.mem_singleton] at hb
          subst hb
          exact hs.2.2 a ha last (by simp)
        · apply sorted_reverse_cons hs
          intro r hr
          have := (h.bound i r (by rw [hrev]; exact hr)).1
          simp [mkRoute]; omega
    · simp only [hi, ↓reduceIte]; exact h.sorted i
  · intro i r hr
    rw [addRoute_rev] at hr
    by_cases hi : i = m
    · subst hi
      simp only [↓reduceIte] at hr
      refine ⟨pushRev_bound merge S i g (fun r hr => (h.bound i r hr).1) r hr, ?_⟩
      cases hrev : S.rev i with
      | nil => rw [hrev] at hr; simp [pushRev, mkRoute] at hr; subst hr; rfl
      | cons last rest =>
        rw [hrev] at hr
        simp only [pushRev] at hr
        split at hr
        · rcases List.mem_cons.mp hr with rfl | hr'
          · exact (h.bound i last (by rw [hrev]; exact List.mem_cons_self)).2
          · exact (h.bound i r (by rw [hrev]; exact List.mem_cons_of_mem _ hr')).2
        · rcases List.mem_cons.mp hr with rfl | hr'
          · rfl
          · exact (h.bound i r (by rw [hrev]; exact hr')).2
    · simp only [hi, ↓reduceIte] at hr
      have := h.bound i r hr
      exact ⟨by omega, this.2⟩
  · intro i
    rw [addRoute_rev]
    by_cases hi : i = m
    · subst hi
      simp only [↓reduceIte]
      have hl := h.len i
      unfold C01.addRoute
      cases hrev : S.rev i with
      | nil => simp [pushRev]
      | cons last rest =>
        rw [hrev] at hl
        simp only [pushRev]
        split
        · simpa using hl
        · simp at hl ⊢; omega
    · simp only [hi, ↓reduceIte]
      have := h.len i; omega

/-- the `addRoute` calls of one `register` (without the ghost counter's step) -/
def foldReg (merge : Bool) (S : Stacks α) (g : Reg α) : Stacks α :=
  g.methods.foldl (fun S m => addRoute merge S m g) S

theorem addReg_rev_eq (merge : Bool) (S : Stacks α) (g : Reg α) : (addReg merge S g).rev = (foldReg merge S g).rev := rfl
theorem addReg_count_eq (merge : Bool) (S : Stacks α) (g : Reg α) :
    (addReg merge S g).count = (foldReg merge S g).count := rfl
theorem addReg_stack_eq (merge : Bool) (S : Stacks α) (g : Reg α) (i : Nat) :
    (addReg merge S g).stack i = (foldReg merge S g).stack i := rfl

theorem foldl_addRoute_nreg (merge : Bool) (g : Reg α) (ms : List Nat) (S : Stacks α) :
    (ms.foldl (fun S m => addRoute merge S m g) S).nreg = S.nreg := by
  induction ms generalizing S with
  | nil => rfl
  | cons a ms ih => simp only [List.foldl_cons]; rw [ih, addRoute_nreg]

theorem addReg_nreg (merge : Bool) (S : Stacks α) (g : Reg α) : (addReg merge S g).nreg = S.nreg + 1 := rfl

theorem InvS.congr {S S' : Stacks α} (h : InvS S) (hr : S'.rev = S.rev) (hc : S'.count = S.count) : InvS S' := by
  refine ⟨?_, ?_, ?_⟩
  · intro i; simp only [Stacks.stack, hr]; exact h.sorted i
  · intro i r hr'; rw [hr] at hr'; rw [hc]; exact h.bound i r hr'
  · intro i; rw [hr, hc]; exact h.len i

theorem InvS.foldReg (merge : Bool) (S : Stacks α) (h : InvS S) (g : Reg α) : InvS (foldReg merge S g) := by
  unfold C01.foldReg
  generalize g.methods = ms
  induction ms generalizing S with
  | nil => exact h
  | cons a ms ih => exact ih _ (h.addRoute merge S a g)

theorem InvS.addReg (merge : Bool) (S : Stacks α) (h : InvS S) (g : Reg α) : InvS (addReg merge S g) :=
  (h.foldReg merge S g).congr rfl rfl

theorem InvS.build (merge : Bool) (regs : List (Reg α)) : InvS (build merge regs) := by
  unfold C01.build
  generalize hS : (Stacks.empty : Stacks α) = S
  have h : InvS S := hS ▸ InvS.empty
  clear hS
  induction regs generalizing S with
  | nil => exact h
  | cons g gs ih => exact ih _ (h.addReg merge S g)

/-! ### every route stems from a registration -/

def FromRegs (S : Stacks α) (regs : List (Reg α)) : Prop :=
  ∀ i, ∀ r ∈ S.rev i, ∃ g ∈ regs, r.raw = g.raw ∧ r.use = g.use ∧ r.key = g.key

theorem FromRegs.addRoute (merge : Bool) (S : Stacks α) (regs : List (Reg α)) (h : FromRegs S regs)
    (m : Nat) (g : Reg α) (hg : g ∈ regs) : FromRegs (addRoute merge S m g) regs := by
  intro i r hr
  rw [addRoute_rev] at hr
  by_cases hi : i = m
  · subst hi
    simp only [↓reduceIte] at hr
    cases hrev : S.rev i with
    | nil => rw [hrev] at hr; simp [pushRev, mkRoute] at hr; subst hr; exact ⟨g, hg, rfl, rfl, rfl⟩
    | cons last rest =>
      rw [hrev] at hr
      simp only [pushRev] at hr
      split at hr
      · rcases List.mem_cons.mp hr with rfl | hr'
        · exact h i last (by rw [hrev]; exact List.mem_cons_self)
        · exact h i r (by rw [hrev]; exact List.mem_cons_of_mem _ hr')
      · rcases List.mem_cons.mp hr with rfl | hr'
        · exact ⟨g, hg, rfl, rfl, rfl⟩
        · exact h i r (by rw [hrev]; exact hr')
  · simp only [hi, ↓reduceIte] at hr; exact h i r hr

theorem FromRegs.mono {S : Stacks α} {regs regs' : List (Reg α)} (h : FromRegs S regs)
    (hsub : ∀ g ∈ regs, g ∈ regs') : FromRegs S regs' := by
  intro i r hr
  obtain ⟨g, hg, h1⟩ := h i r hr
  exact ⟨g, hsub g hg, h1⟩

theorem FromRegs.addReg (merge : Bool) (S : Stacks α) (regs : List (Reg α)) (h : FromRegs S regs)
    (g : Reg α) (hg : g ∈ regs) : FromRegs (addReg merge S g) regs := by
  have : FromRegs (foldReg merge S g) regs := by
    unfold C01.foldReg
    generalize g.methods = ms
    induction ms generalizing S with
    | nil => exact h
    | cons a ms ih => exact ih _ (h.addRoute merge S regs a g hg)
  exact this

theorem fromRegs_build (merge : Bool) (regs : List (Reg α)) : FromRegs (build merge regs) regs := by
  unfold C01.build
  have key : ∀ (gs : List (Reg α)) (S : Stacks α), FromRegs S regs → (∀ g ∈ gs, g ∈ regs) →
      FromRegs (gs.foldl (addReg merge) S) regs := by
    intro gs
    induction gs with
    | nil => intro S h _; exact h
    | cons g gs ih =>
      intro S h hsub
      exact ih _ (h.addReg merge S regs g (hsub g List.mem_cons_self))
        (fun x hx => hsub x (List.mem_cons_of_mem _ hx))
  exact key regs _ (fun i r hr => by simp [Stacks.empty] at hr) (fun g hg => hg)

/-! ### the ghost registration indices -/

theorem fsorted_reverse_cons {x : Route α} {l : List (Route α)} (h : FSorted l.reverse)
    (hx : ∀ r ∈ l, r.last < x.first) (hxx : x.first ≤ x.last) : FSorted (x :: l).reverse := by
  refine ⟨?_, ?_⟩
  · simp only [List.reverse_cons, List.pairwise_append]
    refine ⟨h.1, by simp, ?_⟩
    intro a ha b hb
    simp only [List.mem_singleton] at hb
    subst hb
    exact hx a (List.mem_reverse.mp ha)
  · intro a ha
    simp only [List.reverse_cons, List.mem_append, List.mem_reverse, List.mem_singleton] at ha
    rcases ha with ha | rfl
    · exact h.2 a (List.mem_reverse.mpr ha)
    · exact hxx

/-- the invariant while the methods of one `register` call are being added: `todo` are the methods
still to come, whose stacks do not yet hold a route of this registration -/
structure InvF (S : Stacks α) (todo : List Nat) : Prop where
  fs : ∀ i, FSorted (S.stack i)
  lastle : ∀ i, ∀ r ∈ S.rev i, r.last ≤ S.nreg
  mono : ∀ i j, ∀ x ∈ S.rev i, ∀ y ∈ S.rev j, x.first < y.first → x.pos < y.pos
  fresh : ∀ a ∈ todo, ∀ r ∈ S.rev a, r.last < S.nreg

theorem mem_pushRev (merge : Bool) (n k m : Nat) (g : Reg α) (l : List (Route α)) (r : Route α)
    (hr : r ∈ pushRev merge n k m g l) :
    (r.pos = n + 1 ∧ r.first = k ∧ r.last = k) ∨ (∃ r0 ∈ l, r.pos = r0.pos ∧ r.first = r0.first ∧
      (r.last = r0.last ∨ r.last = k)) := by
  cases l with
  | nil => simp [pushRev, mkRoute] at hr; subst hr; left; exact ⟨rfl, rfl, rfl⟩
  | cons last rest =>
    simp only [pushRev] at hr
    split at hr
    · rcases List.mem_cons.mp hr with rfl | hr'
      · right; exact ⟨last, List.mem_cons_self, rfl, rfl, Or.inr rfl⟩
      · right; exact ⟨r, List.mem_cons_of_mem _ hr', rfl, rfl, Or.inl rfl⟩
    · rcases List.mem_cons.mp hr with rfl | hr'
      · left; exact ⟨rfl, rfl, rfl⟩
      · right; exact ⟨r, hr', rfl, rfl, Or.inl rfl⟩

theorem InvF.addRoute (merge : Bool) (S : Stacks α) (hinv : InvS S) (m : Nat) (todo : List Nat)
    (h : InvF S (m :: todo)) (hnot : m ∉ todo) (g : Reg α) : InvF (C01.addRoute merge S m g) todo := by
  have hfresh := h.fresh m List.mem_cons_self
  refine ⟨?_, ?_, ?_, ?_⟩
  · intro i
    simp only [Stacks.stack, addRoute_rev]
    by_cases hi : i = m
    · subst hi
      simp only [↓reduceIte]
      have hs := h.fs i
      simp only [Stacks.stack] at hs
      cases hrev : S.rev i with
      | nil => exact ⟨by simp [pushRev], by intro a ha; simp [pushRev, mkRoute] at ha; subst ha; simp⟩
      | cons last rest =>
        rw [hrev] at hs
        simp only [pushRev]
        have hlast := hfresh last (by rw [hrev]; exact List.mem_cons_self)
        have hlf : last.first ≤ last.last := hs.2 last (by simp)
        split
        · -- merged: only `last` grows
          have hrest : FSorted rest.reverse :=
            ⟨by have := hs.1; simp only [List.reverse_cons, List.pairwise_append] at this; exact this.1,
             fun a ha => hs.2 a (by simp at ha ⊢; exact Or.inl ha)⟩
          apply fsorted_reverse_cons hrest
          · intro r hr
            have := hs.1
            simp only [List.reverse_cons, List.pairwise_append] at this
            exact this.2.2 r (List.mem_reverse.mpr hr) last (by simp)
          · show last.first ≤ S.nreg
            omega
        · apply fsorted_reverse_cons hs
          · intro r hr
            exact hfresh r (by rw [hrev]; exact hr)
          · simp [mkRoute]
    · simp only [hi, ↓reduceIte]; exact h.fs i
  · intro i r hr
    rw [addRoute_nreg]
    rw [addRoute_rev] at hr
    by_cases hi : i = m
    · subst hi
      simp only [↓reduceIte] at hr
      rcases mem_pushRev merge _ _ _ g _ r hr with ⟨_, _, hl⟩ | ⟨r0, hr0, _, _, hl | hl⟩
      · omega
      · have := h.lastle i r0 hr0; omega
      · omega
    · simp only [hi, ↓reduceIte] at hr; exact h.lastle i r hr
  · -- positions grow with the registration index, across stacks
    have hnew : ∀ i, ∀ x ∈ (C01.addRoute merge S m g).rev i,
        (x.pos = S.count + 1 ∧ x.first = S.nreg) ∨ (∃ x0 ∈ S.rev i, x.pos = x0.pos ∧ x.first = x0.first) := by
      intro i x hx
      rw [addRoute_rev] at hx
      by_cases hi : i = m
      · subst hi
        simp only [↓reduceIte] at hx
        rcases mem_pushRev merge _ _ _ g _ x hx with ⟨h1, h2, _⟩ | ⟨r0, hr0, h1, h2, _⟩
        · exact Or.inl ⟨h1, h2⟩
        · exact Or.inr ⟨r0, hr0, h1, h2⟩
      · simp only [hi, ↓reduceIte] at hx; exact Or.inr ⟨x, hx, rfl, rfl⟩
    have hfl : ∀ i, ∀ x0 ∈ S.rev i, x0.first ≤ S.nreg := by
      intro i x0 hx0
      have h1 := (h.fs i).2 x0 (by simp [Stacks.stack]; exact hx0)
      have h2 := h.lastle i x0 hx0
      omega
    intro i j x hx y hy hlt
    rcases hnew i x hx with ⟨hxp, hxf⟩ | ⟨x0, hx0, hxp, hxf⟩ <;>
      rcases hnew j y hy with ⟨hyp, hyf⟩ | ⟨y0, hy0, hyp, hyf⟩
    · omega
    · have := hfl j y0 hy0; omega
    · have := (hinv.bound i x0 hx0).1; omega
    · rw [hxp, hyp]; exact h.mono i j x0 hx0 y0 hy0 (by omega)
  · intro a ha r hr
    rw [addRoute_nreg]
    rw [addRoute_rev] at hr
    have hne : a ≠ m := fun e => hnot (e ▸ ha)
    simp only [hne, ↓reduceIte] at hr
    exact h.fresh a (List.mem_cons_of_mem _ ha) r hr

theorem InvF.foldl (merge : Bool) (g : Reg α) (ms : List Nat) (hnd : ms.Nodup) (S : Stacks α) (hinv : InvS S)
    (h : InvF S ms) : InvF (ms.foldl (fun S m => C01.addRoute merge S m g) S) [] := by
  induction ms generalizing S with
  | nil => exact h
  | cons a ms ih =>
    rw [List.nodup_cons] at hnd
    simp only [List.foldl_cons]
    exact ih hnd.2 _ (hinv.addRoute merge S a g) (h.addRoute merge S hinv a ms hnd.1 g)

/-- the invariant of the ghost indices between two `register` calls -/
structure InvG (S : Stacks α) : Prop where
  fs : ∀ i, FSorted (S.stack i)
  lastlt : ∀ i, ∀ r ∈ S.rev i, r.last < S.nreg
  mono : ∀ i j, ∀ x ∈ S.rev i, ∀ y ∈ S.rev j, x.first < y.first → x.pos < y.pos

theorem InvG.empty : InvG (Stacks.empty : Stacks α) :=
  ⟨fun _ => ⟨by simp [Stacks.empty, Stacks.stack], by simp [Stacks.empty, Stacks.stack]⟩,
   fun _ r hr => by simp [Stacks.empty] at hr, fun _ _ x hx => by simp [Stacks.empty] at hx⟩

theorem InvG.addReg (merge : Bool) (S : Stacks α) (hinv : InvS S) (h : InvG S) (g : Reg α)
    (hnd : g.methods.Nodup) : InvG (C01.addReg merge S g) := by
  have hF : InvF S g.methods :=
    ⟨h.fs, fun i r hr => Nat.le_of_lt (h.lastlt i r hr), h.mono, fun a _ r hr => h.lastlt a r hr⟩
  have := InvF.foldl merge g g.methods hnd S hinv hF
  have hn := foldl_addRoute_nreg merge g g.methods S
  refine ⟨?_, ?_, ?_⟩
  · intro i; rw [addReg_stack_eq]; exact this.fs i
  · intro i r hr
    rw [addReg_rev_eq] at hr
    have := this.lastle i r hr
    rw [addReg_nreg]
    unfold C01.foldReg at hr
    omega
  · intro i j x hx y hy
    rw [addReg_rev_eq] at hx hy
    exact this.mono i j x hx y hy

theorem InvG.build (merge : Bool) (regs : List (Reg α)) (hwf : ∀ g ∈ regs, g.methods.Nodup) :
    InvG (build merge regs) := by
  unfold C01.build
  have key : ∀ (gs : List (Reg α)) (S : Stacks α), InvS S → InvG S → (∀ g ∈ gs, g.methods.Nodup) →
      InvG (gs.foldl (C01.addReg merge) S) := by
    intro gs
    induction gs with
    | nil => intro S _ h _; exact h
    | cons g gs ih =>
      intro S hinv h hnd
      exact ih _ (hinv.addReg merge S g) (h.addReg merge S hinv g (hnd g List.mem_cons_self))
        (fun x hx => hnd x (List.mem_cons_of_mem _ hx))
  exact key regs _ InvS.empty InvG.empty hwf

/-! ### the effect of one registration on one method stack -/

theorem addReg_rev (merge : Bool) (S : Stacks α) (g : Reg α) (hnd : g.methods.Nodup) (m : Nat) :
    (m ∈ g.methods ∧ ∃ n, (addReg merge S g).rev m = pushRev merge n S.nreg m g (S.rev m)) ∨
    (m ∉ g.methods ∧ (addReg merge S g).rev m = S.rev m) := by
  rw [addReg_rev_eq]
  unfold C01.foldReg
  have key : ∀ (ms : List Nat), ms.Nodup → ∀ S' : Stacks α, S'.nreg = S.nreg →
      (m ∈ ms ∧ ∃ n, (ms.foldl (fun S m => addRoute merge S m g) S').rev m = pushRev merge n S.nreg m g (S'.rev m)) ∨
      (m ∉ ms ∧ (ms.foldl (fun S m => addRoute merge S m g) S').rev m = S'.rev m) := by
    intro ms
    induction ms with
    | nil => intro _ S' _; right; simp
    | cons a ms ih =>
      intro hnd S' hn
      rw [List.nodup_cons] at hnd
      simp only [List.foldl_cons]
      have hn' : (addRoute merge S' a g).nreg = S.nreg := by rw [addRoute_nreg, hn]
      by_cases hma : m = a
      · subst hma
        left
        refine ⟨List.mem_cons_self, S'.count, ?_⟩
        rcases ih hnd.2 (addRoute merge S' m g) hn' with ⟨hin, _⟩ | ⟨_, heq⟩
        · exact absurd hin hnd.1
        · rw [heq, addRoute_rev, hn]; simp
      · rcases ih hnd.2 (addRoute merge S' a g) hn' with ⟨hin, n, heq⟩ | ⟨hnin, heq⟩
        · left
          refine ⟨List.mem_cons_of_mem _ hin, n, ?_⟩
          rw [heq, addRoute_rev]; simp [hma]
        · right
          refine ⟨by simp [hma, hnin], ?_⟩
          rw [heq, addRoute_rev]; simp [hma]
  exact key g.methods hnd S rfl

/-- forward view of `pushRev` -/
def snocRoute (merge : Bool) (n k m : Nat) (g : Reg α) : List (Route α) → List (Route α)
  | [] => [mkRoute (n + 1) k m g]
  | [r] =>
    if merge && r.raw == g.raw && r.eo == g.eo && r.use == g.use then
      [{ r with handlers := r.handlers ++ markSeam g.handlers, last := k }]
    else [r, mkRoute (n + 1) k m g]
  | r :: r2 :: rs => r :: snocRoute merge n k m g (r2 :: rs)

theorem pushRev_append_singleton (merge : Bool) (n k m : Nat) (g : Reg α) (x : Route α) (xs : List (Route α))
    (r : Route α) : pushRev merge n k m g ((x :: xs) ++ [r]) = pushRev merge n k m g (x :: xs) ++ [r] := by
  simp only [List.cons_append, pushRev]
  split <;> simp

theorem pushRev_reverse (merge : Bool) (n k m : Nat) (g : Reg α) (rs : List (Route α)) :
    (pushRev merge n k m g rs.reverse).reverse = snocRoute merge n k m g rs := by
  induction rs using snocRoute.induct merge g with
  | case1 => simp [pushRev, snocRoute]
  | case2 r hc => simp [pushRev, snocRoute, hc]
  | case3 r hc => simp [pushRev, snocRoute, hc]
  | case4 r r2 rs ih =>
    have hne : (r2 :: rs).reverse ≠ [] := by simp
    cases hrev : (r2 :: rs).reverse with
    | nil => exact absurd hrev hne
    | cons x xs =>
      rw [hrev] at ih
      simp only [snocRoute]
      rw [← ih, List.reverse_cons, hrev, pushRev_append_singleton]
      simp

theorem markSeam_append (a b : List (Handler α)) (ha : a ≠ []) : markSeam (a ++ b) = markSeam a ++ b := by
  cases a with
  | nil => exact absurd rfl ha
  | cons h t => rfl

/-- handlers of a route built from well-formed registrations are non-empty -/
theorem corrI_handlers_ne (m : Nat) {b : Nat} {r : Route α} {rs : List (Route α)} {gs : List (Reg α)}
    (hc : CorrI m b (r :: rs) gs) (hwf : ∀ g ∈ gs, WFReg g) : r.handlers ≠ [] := by
  obtain ⟨h, t, heq, _⟩ := corrI_head m hc hwf
  rw [heq]; simp

theorem corrI_snoc_skip (m : Nat) {b : Nat} {rs : List (Route α)} {gs : List (Reg α)} (hc : CorrI m b rs gs)
    (g : Reg α) (hm : m ∉ g.methods) : CorrI m b rs (gs ++ [g]) := by
  induction hc with
  | nil => exact CorrI.skip hm CorrI.nil
  | skip h _ ih => exact CorrI.skip h ih
  | one h1 h2 h3 h4 h5 h6 h7 h8 hk _ ih => exact CorrI.one h1 h2 h3 h4 h5 h6 h7 h8 hk ih
  | merged h1 h2 h3 h4 h5 h6 h7 h8 h9 h10 h11 h12 hk _ ih =>
    exact CorrI.merged h1 h2 h3 h4 h5 h6 h7 h8 h9 h10 h11 h12 hk ih

theorem corrI_snoc_in (merge : Bool) (n m : Nat) {b : Nat} {rs : List (Route α)} {gs : List (Reg α)}
    (hc : CorrI m b rs gs) (hwf : ∀ g ∈ gs, WFReg g) (g : Reg α) (hm : m ∈ g.methods) :
    CorrI m b (snocRoute merge n (b + gs.length) m g rs) (gs ++ [g]) := by
  induction hc with
  | @nil b =>
    exact CorrI.one hm rfl rfl rfl rfl rfl (by simp [mkRoute]) (by simp [mkRoute]) rfl CorrI.nil
  | @skip b rs gs g0 h _ ih =>
    have e : b + (g0 :: gs).length = (b + 1) + gs.length := by simp; omega
    rw [e]
    exact CorrI.skip h (ih (fun x hx => hwf x (List.mem_cons_of_mem _ hx)))
  | @one b r rs g0 gs h1 h2 h3 h4 h5 h6 h7 h8 hk hc' ih =>
    have hwf' : ∀ x ∈ gs, WFReg x := fun x hx => hwf x (List.mem_cons_of_mem _ hx)
    have e : b + (g0 :: gs).length = (b + 1) + gs.length := by simp; omega
    rw [e]
    have ih' := ih hwf'
    cases rs with
    | nil =>
      simp only [snocRoute] at ih' ⊢
      split
      · rename_i hcond
        simp only [Bool.and_eq_true, beq_iff_eq] at hcond
        refine CorrI.merged (r' := mkRoute (n + 1) (b + 1 + gs.length) m g) h1 h2 h3 h4 ?_ ?_ rfl ?_ h6 ?_ h7 rfl hk ih'
        · simp [mkRoute, ← hcond.1.1.2, h2]
        · simp [mkRoute, ← hcond.2, h3]
        · simp [mkRoute, h5]
        · simp [mkRoute, ← hcond.1.2, h6]
      · exact CorrI.one h1 h2 h3 h4 h5 h6 h7 h8 hk ih'
    | cons r2 rs2 =>
      simp only [snocRoute]
      exact CorrI.one h1 h2 h3 h4 h5 h6 h7 h8 hk ih'
  | @merged b r r' rs g0 gs h1 h2 h3 h4 h5 h6 h7 h8 h9 h10 h11 h12 hk hc' ih =>
    have hwf' : ∀ x ∈ gs, WFReg x := fun x hx => hwf x (List.mem_cons_of_mem _ hx)
    have e : b + (g0 :: gs).length = (b + 1) + gs.length := by simp; omega
    rw [e]
    have ih' := ih hwf'
    cases rs with
    | nil =>
      simp only [snocRoute] at ih' ⊢
      have hcondeq : (merge && r.raw == g.raw && r.eo == g.eo && r.use == g.use) =
          (merge && r'.raw == g.raw && r'.eo == g.eo && r'.use == g.use) := by
        rw [h2, h3, h5, h6, h9, h10]
      rw [hcondeq]
      split
      · rename_i hcond
        rw [if_pos hcond] at ih'
        refine CorrI.merged (r' := { r' with handlers := r'.handlers ++ markSeam g.handlers, last := b + 1 + gs.length })
          h1 h2 h3 h4 h5 h6 h7 ?_ h9 h10 h11 rfl hk ih'
        simp only [h8]
        rw [markSeam_append _ _ (corrI_handlers_ne m hc' hwf'), List.append_assoc]
      · rename_i hcond
        rw [if_neg hcond] at ih'
        exact CorrI.merged h1 h2 h3 h4 h5 h6 h7 h8 h9 h10 h11 h12 hk ih'
    | cons r2 rs2 =>
      simp only [snocRoute] at ih' ⊢
      exact CorrI.merged h1 h2 h3 h4 h5 h6 h7 h8 h9 h10 h11 h12 hk ih'

theorem foldl_addReg_nreg (merge : Bool) (gs : List (Reg α)) (S : Stacks α) :
    (gs.foldl (addReg merge) S).nreg = S.nreg + gs.length := by
  induction gs generalizing S with
  | nil => rfl
  | cons g gs ih => simp only [List.foldl_cons, List.length_cons]; rw [ih, addReg_nreg]; omega

theorem corr_build (merge : Bool) (regs : List (Reg α)) (hwf : ∀ g ∈ regs, WFReg g) (m : Nat) :
    CorrI m 0 ((build merge regs).stack m) regs := by
  unfold C01.build
  have key : ∀ (gs : List (Reg α)) (S : Stacks α) (done : List (Reg α)),
      CorrI m 0 (S.stack m) done → S.nreg = done.length → (∀ g ∈ done, WFReg g) → (∀ g ∈ gs, WFReg g) →
      CorrI m 0 ((gs.foldl (addReg merge) S).stack m) (done ++ gs) := by
    intro gs
    induction gs with
    | nil => intro S done hc _ _ _; simpa using hc
    | cons g gs ih =>
      intro S done hc hn hwd hwg
      have wg := hwg g List.mem_cons_self
      have hstep : CorrI m 0 ((addReg merge S g).stack m) (done ++ [g]) := by
        rcases addReg_rev merge S g wg.nodup m with ⟨hin, n, heq⟩ | ⟨hnin, heq⟩
        · simp only [Stacks.stack, heq]
          have := corrI_snoc_in merge n m hc hwd g hin
          rw [← pushRev_reverse] at this
          simpa [Stacks.stack, hn] using this
        · simp only [Stacks.stack, heq]
          exact corrI_snoc_skip m hc g hnin
      have := ih (addReg merge S g) (done ++ [g]) hstep (by rw [addReg_nreg, hn]; simp)
        (by intro x hx; rcases List.mem_append.mp hx with h | h
            · exact hwd x h
            · simp only [List.mem_singleton] at h; subst h; exact wg)
        (fun x hx => hwg x (List.mem_cons_of_mem _ hx))
      simpa [List.append_assoc] using this
  have := key regs Stacks.empty [] (by simp [Stacks.stack, Stacks.empty]; exact CorrI.nil) rfl (by simp) hwf
  simpa using this

end C01
