import FiberModel.C01.Corr
/-
C01 — helper lemmas, part D: invariants of `register`/`addRoute` (`build`): positions strictly
increase along every method stack, every route stems from a registration, and the stack of method
`m` corresponds (`Corr`) to the registrations listing `m`.
-/
set_option linter.unusedSimpArgs false
set_option linter.unusedVariables false
namespace C01
variable {π α : Type}

def mkRoute (n m : Nat) (g : Reg α) : Route α :=
  { pos := n, m := m, use := g.use, raw := g.raw, key := g.key, handlers := g.handlers }

/-- `addRoute` on the (newest-first) stack of its method -/
def pushRev (merge : Bool) (n m : Nat) (g : Reg α) : List (Route α) → List (Route α)
  | last :: rest =>
    if merge && last.raw == g.raw && last.use == g.use then
      { last with handlers := last.handlers ++ markSeam g.handlers } :: rest
    else mkRoute (n + 1) m g :: last :: rest
  | [] => [mkRoute (n + 1) m g]

theorem addRoute_rev (merge : Bool) (S : Stacks α) (m : Nat) (g : Reg α) (i : Nat) :
    (addRoute merge S m g).rev i = if i = m then pushRev merge S.count m g (S.rev m) else S.rev i := by
  unfold addRoute
  cases hrev : S.rev m with
  | nil => simp only [pushRev, mkRoute]
  | cons last rest =>
    simp only [pushRev, mkRoute]
    split <;> simp

theorem addRoute_count (merge : Bool) (S : Stacks α) (m : Nat) (g : Reg α) :
    S.count ≤ (addRoute merge S m g).count ∧ (addRoute merge S m g).count ≤ S.count + 1 := by
  unfold addRoute
  cases hrev : S.rev m with
  | nil => simp
  | cons last rest =>
    simp only
    split <;> simp

/-- positions of the new stack are bounded by the new counter -/
theorem pushRev_bound (merge : Bool) (S : Stacks α) (m : Nat) (g : Reg α)
    (hb : ∀ r ∈ S.rev m, r.pos ≤ S.count) :
    ∀ r ∈ pushRev merge S.count m g (S.rev m), r.pos ≤ (addRoute merge S m g).count := by
  unfold addRoute
  cases hrev : S.rev m with
  | nil => intro r hr; simp [pushRev, mkRoute] at hr; subst hr; simp
  | cons last rest =>
    have hb' := hb; rw [hrev] at hb'
    simp only [pushRev]
    split
    · intro r hr
      rcases List.mem_cons.mp hr with rfl | hr'
      · exact hb' last List.mem_cons_self
      · exact hb' r (List.mem_cons_of_mem _ hr')
    · intro r hr
      rcases List.mem_cons.mp hr with rfl | hr'
      · simp [mkRoute]
      · have := hb' r hr'; simp; omega

/-- the invariant of `app.stack` / `app.routesCount` -/
structure InvS (S : Stacks α) : Prop where
  sorted : ∀ i, Sorted (S.stack i)
  bound : ∀ i, ∀ r ∈ S.rev i, r.pos ≤ S.count ∧ r.m = i
  len : ∀ i, (S.rev i).length ≤ S.count

theorem InvS.empty : InvS (Stacks.empty : Stacks α) :=
  ⟨fun _ => by simp [Stacks.empty, Stacks.stack, Sorted], fun _ r hr => by simp [Stacks.empty] at hr,
   fun _ => by simp [Stacks.empty]⟩

theorem sorted_reverse_cons {x : Route α} {l : List (Route α)} (h : Sorted l.reverse)
    (hx : ∀ r ∈ l, r.pos < x.pos) : Sorted (x :: l).reverse := by
  simp only [List.reverse_cons, Sorted, List.pairwise_append]
  refine ⟨h, by simp, ?_⟩
  intro a ha b hb
  simp only [List.mem_singleton] at hb
  subst hb
  exact hx a (List.mem_reverse.mp ha)

theorem InvS.addRoute (merge : Bool) (S : Stacks α) (h : InvS S) (m : Nat) (g : Reg α) :
    InvS (addRoute merge S m g) := by
  have hc := addRoute_count merge S m g
  refine ⟨?_, ?_, ?_⟩
  · intro i
    simp only [Stacks.stack, addRoute_rev]
    by_cases hi : i = m
    · subst hi
      simp only [↓reduceIte]
      have hs := h.sorted i
      simp only [Stacks.stack] at hs
      cases hrev : S.rev i with
      | nil => simp [pushRev, Sorted]
      | cons last rest =>
        rw [hrev] at hs
        simp only [pushRev]
        split
        · -- merged: positions unchanged
          simp only [List.reverse_cons, Sorted, List.pairwise_append] at hs ⊢
          refine ⟨hs.1, by simp, ?_⟩
          intro a ha b hb
          simp only [List.mem_singleton] at hb
          subst hb
          exact hs.2.2 a ha last (by simp)
        · apply sorted_reverse_cons hs
          intro r hr
          have := (h.bound i r (by rw [hrev]; exact hr)).1
          simp [mkRoute]; omega
    · simp only [hi, ↓reduceIte]; exact h.sorted i
  · intro i r hr
    rw [addRoute_rev] at hr
    by_cases hi : i = m
    · subst hi
      simp only [↓reduceIte] at hr
      refine ⟨pushRev_bound merge S i g (fun r hr => (h.bound i r hr).1) r hr, ?_⟩
      cases hrev : S.rev i with
      | nil => rw [hrev] at hr; simp [pushRev, mkRoute] at hr; subst hr; rfl
      | cons last rest =>
        rw [hrev] at hr
        simp only [pushRev] at hr
        split at hr
        · rcases List.mem_cons.mp hr with rfl | hr'
          · exact (h.bound i last (by rw [hrev]; exact List.mem_cons_self)).2
          · exact (h.bound i r (by rw [hrev]; exact List.mem_cons_of_mem _ hr')).2
        · rcases List.mem_cons.mp hr with rfl | hr'
          · rfl
          · exact (h.bound i r (by rw [hrev]; exact hr')).2
    · simp only [hi, ↓reduceIte] at hr
      have := h.bound i r hr
      exact ⟨by omega, this.2⟩
  · intro i
    rw [addRoute_rev]
    by_cases hi : i = m
    · subst hi
      simp only [↓reduceIte]
      have hl := h.len i
      unfold C01.addRoute
      cases hrev : S.rev i with
      | nil => simp [pushRev]
      | cons last rest =>
        rw [hrev] at hl
        simp only [pushRev]
        split
        · simpa using hl
        · simp at hl ⊢; omega
    · simp only [hi, ↓reduceIte]
      have := h.len i; omega

theorem InvS.addReg (merge : Bool) (S : Stacks α) (h : InvS S) (g : Reg α) : InvS (addReg merge S g) := by
  unfold C01.addReg
  generalize g.methods = ms
  induction ms generalizing S with
  | nil => exact h
  | cons a ms ih => exact ih _ (h.addRoute merge S a g)

theorem InvS.build (merge : Bool) (regs : List (Reg α)) : InvS (build merge regs) := by
  unfold C01.build
  generalize hS : (Stacks.empty : Stacks α) = S
  have h : InvS S := hS ▸ InvS.empty
  clear hS
  induction regs generalizing S with
  | nil => exact h
  | cons g gs ih => exact ih _ (h.addReg merge S g)

/-! ### every route stems from a registration -/

def FromRegs (S : Stacks α) (regs : List (Reg α)) : Prop :=
  ∀ i, ∀ r ∈ S.rev i, ∃ g ∈ regs, r.raw = g.raw ∧ r.use = g.use ∧ r.key = g.key

theorem FromRegs.addRoute (merge : Bool) (S : Stacks α) (regs : List (Reg α)) (h : FromRegs S regs)
    (m : Nat) (g : Reg α) (hg : g ∈ regs) : FromRegs (addRoute merge S m g) regs := by
  intro i r hr
  rw [addRoute_rev] at hr
  by_cases hi : i = m
  · subst hi
    simp only [↓reduceIte] at hr
    cases hrev : S.rev i with
    | nil => rw [hrev] at hr; simp [pushRev, mkRoute] at hr; subst hr; exact ⟨g, hg, rfl, rfl, rfl⟩
    | cons last rest =>
      rw [hrev] at hr
      simp only [pushRev] at hr
      split at hr
      · rcases List.mem_cons.mp hr with rfl | hr'
        · exact h i last (by rw [hrev]; exact List.mem_cons_self)
        · exact h i r (by rw [hrev]; exact List.mem_cons_of_mem _ hr')
      · rcases List.mem_cons.mp hr with rfl | hr'
        · exact ⟨g, hg, rfl, rfl, rfl⟩
        · exact h i r (by rw [hrev]; exact hr')
  · simp only [hi, ↓reduceIte] at hr; exact h i r hr

theorem FromRegs.mono {S : Stacks α} {regs regs' : List (Reg α)} (h : FromRegs S regs)
    (hsub : ∀ g ∈ regs, g ∈ regs') : FromRegs S regs' := by
  intro i r hr
  obtain ⟨g, hg, h1⟩ := h i r hr
  exact ⟨g, hsub g hg, h1⟩

theorem FromRegs.addReg (merge : Bool) (S : Stacks α) (regs : List (Reg α)) (h : FromRegs S regs)
    (g : Reg α) (hg : g ∈ regs) : FromRegs (addReg merge S g) regs := by
  unfold C01.addReg
  generalize g.methods = ms
  induction ms generalizing S with
  | nil => exact h
  | cons a ms ih => exact ih _ (h.addRoute merge S regs a g hg)

theorem fromRegs_build (merge : Bool) (regs : List (Reg α)) : FromRegs (build merge regs) regs := by
  unfold C01.build
  have key : ∀ (gs : List (Reg α)) (S : Stacks α), FromRegs S regs → (∀ g ∈ gs, g ∈ regs) →
      FromRegs (gs.foldl (addReg merge) S) regs := by
    intro gs
    induction gs with
    | nil => intro S h _; exact h
    | cons g gs ih =>
      intro S h hsub
      exact ih _ (h.addReg merge S regs g (hsub g List.mem_cons_self))
        (fun x hx => hsub x (List.mem_cons_of_mem _ hx))
  exact key regs _ (fun i r hr => by simp [Stacks.empty] at hr) (fun g hg => hg)

/-! ### the effect of one registration on one method stack -/

theorem addReg_rev (merge : Bool) (S : Stacks α) (g : Reg α) (hnd : g.methods.Nodup) (m : Nat) :
    (m ∈ g.methods ∧ ∃ n, (addReg merge S g).rev m = pushRev merge n m g (S.rev m)) ∨
    (m ∉ g.methods ∧ (addReg merge S g).rev m = S.rev m) := by
  unfold C01.addReg
  generalize g.methods = ms at hnd
  induction ms generalizing S with
  | nil => right; simp
  | cons a ms ih =>
    rw [List.nodup_cons] at hnd
    simp only [List.foldl_cons]
    by_cases hma : m = a
    · subst hma
      left
      refine ⟨List.mem_cons_self, S.count, ?_⟩
      rcases ih (addRoute merge S m g) hnd.2 with ⟨hin, _⟩ | ⟨_, heq⟩
      · exact absurd hin hnd.1
      · rw [heq, addRoute_rev]; simp
    · rcases ih (addRoute merge S a g) hnd.2 with ⟨hin, n, heq⟩ | ⟨hnin, heq⟩
      · left
        refine ⟨List.mem_cons_of_mem _ hin, n, ?_⟩
        rw [heq, addRoute_rev]; simp [hma]
      · right
        refine ⟨by simp [hma, hnin], ?_⟩
        rw [heq, addRoute_rev]; simp [hma]

/-- forward view of `pushRev` -/
def snocRoute (merge : Bool) (n m : Nat) (g : Reg α) : List (Route α) → List (Route α)
  | [] => [mkRoute (n + 1) m g]
  | [r] =>
    if merge && r.raw == g.raw && r.use == g.use then [{ r with handlers := r.handlers ++ markSeam g.handlers }]
    else [r, mkRoute (n + 1) m g]
  | r :: r2 :: rs => r :: snocRoute merge n m g (r2 :: rs)

theorem pushRev_append_singleton (merge : Bool) (n m : Nat) (g : Reg α) (x : Route α) (xs : List (Route α))
    (r : Route α) : pushRev merge n m g ((x :: xs) ++ [r]) = pushRev merge n m g (x :: xs) ++ [r] := by
  simp only [List.cons_append, pushRev]
  split <;> simp

theorem pushRev_reverse (merge : Bool) (n m : Nat) (g : Reg α) (rs : List (Route α)) :
    (pushRev merge n m g rs.reverse).reverse = snocRoute merge n m g rs := by
  induction rs using snocRoute.induct merge g with
  | case1 => simp [pushRev, snocRoute]
  | case2 r hc => simp [pushRev, snocRoute, hc]
  | case3 r hc => simp [pushRev, snocRoute, hc]
  | case4 r r2 rs ih =>
    have hne : (r2 :: rs).reverse ≠ [] := by simp
    cases hrev : (r2 :: rs).reverse with
    | nil => exact absurd hrev hne
    | cons x xs =>
      rw [hrev] at ih
      simp only [snocRoute]
      rw [← ih, List.reverse_cons, hrev, pushRev_append_singleton]
      simp

theorem markSeam_append (a b : List (Handler α)) (ha : a ≠ []) : markSeam (a ++ b) = markSeam a ++ b := by
  cases a with
  | nil => exact absurd rfl ha
  | cons h t => rfl

/-- handlers of a route built from well-formed registrations are non-empty -/
theorem corr_handlers_ne (m : Nat) {r : Route α} {rs : List (Route α)} {gs : List (Reg α)}
    (hc : Corr m (r :: rs) gs) (hwf : ∀ g ∈ gs, WFReg g) : r.handlers ≠ [] := by
  obtain ⟨h, t, heq, _⟩ := corr_head m hc hwf
  rw [heq]; simp

theorem corr_snoc_skip (m : Nat) {rs : List (Route α)} {gs : List (Reg α)} (hc : Corr m rs gs)
    (g : Reg α) (hm : m ∉ g.methods) : Corr m rs (gs ++ [g]) := by
  induction hc with
  | nil => exact Corr.skip hm Corr.nil
  | skip h _ ih => exact Corr.skip h ih
  | one h1 h2 h3 h4 h5 _ ih => exact Corr.one h1 h2 h3 h4 h5 ih
  | merged h1 h2 h3 h4 h5 h6 h7 h8 _ ih => exact Corr.merged h1 h2 h3 h4 h5 h6 h7 h8 ih

theorem corr_snoc_in (merge : Bool) (n m : Nat) {rs : List (Route α)} {gs : List (Reg α)} (hc : Corr m rs gs)
    (hwf : ∀ g ∈ gs, WFReg g) (g : Reg α) (hm : m ∈ g.methods) :
    Corr m (snocRoute merge n m g rs) (gs ++ [g]) := by
  induction hc with
  | nil =>
    exact Corr.one hm rfl rfl rfl rfl Corr.nil
  | skip h _ ih => exact Corr.skip h (ih (fun x hx => hwf x (List.mem_cons_of_mem _ hx)))
  | @one r rs g0 gs h1 h2 h3 h4 h5 hc' ih =>
    have hwf' : ∀ x ∈ gs, WFReg x := fun x hx => hwf x (List.mem_cons_of_mem _ hx)
    have ih' := ih hwf'
    cases rs with
    | nil =>
      simp only [snocRoute] at ih' ⊢
      split
      · rename_i hcond
        refine Corr.merged (r' := mkRoute (n + 1) m g) h1 h2 h3 h4 ?_ ?_ rfl ?_ ih'
        · simp only [Bool.and_eq_true, beq_iff_eq] at hcond
          simp [mkRoute, ← hcond.1.2, h2]
        · simp only [Bool.and_eq_true, beq_iff_eq] at hcond
          simp [mkRoute, ← hcond.2, h3]
        · simp [mkRoute, h5]
      · exact Corr.one h1 h2 h3 h4 h5 ih'
    | cons r2 rs2 =>
      simp only [snocRoute]
      exact Corr.one h1 h2 h3 h4 h5 ih'
  | @merged r r' rs g0 gs h1 h2 h3 h4 h5 h6 h7 h8 hc' ih =>
    have hwf' : ∀ x ∈ gs, WFReg x := fun x hx => hwf x (List.mem_cons_of_mem _ hx)
    have ih' := ih hwf'
    cases rs with
    | nil =>
      simp only [snocRoute] at ih' ⊢
      have hcondeq : (merge && r.raw == g.raw && r.use == g.use) = (merge && r'.raw == g.raw && r'.use == g.use) := by
        rw [h2, h3, h5, h6]
      rw [hcondeq]
      split
      · rename_i hcond
        rw [if_pos hcond] at ih'
        refine Corr.merged (r' := { r' with handlers := r'.handlers ++ markSeam g.handlers }) h1 h2 h3 h4 h5 h6 h7 ?_ ih'
        simp only [h8]
        rw [markSeam_append _ _ (corr_handlers_ne m hc' hwf'), List.append_assoc]
      · rename_i hcond
        rw [if_neg hcond] at ih'
        exact Corr.merged h1 h2 h3 h4 h5 h6 h7 h8 ih'
    | cons r2 rs2 =>
      simp only [snocRoute] at ih' ⊢
      exact Corr.merged h1 h2 h3 h4 h5 h6 h7 h8 ih'

theorem corr_build (merge : Bool) (regs : List (Reg α)) (hwf : ∀ g ∈ regs, WFReg g) (m : Nat) :
    Corr m ((build merge regs).stack m) regs := by
  unfold C01.build
  have key : ∀ (gs : List (Reg α)) (S : Stacks α) (done : List (Reg α)),
      Corr m (S.stack m) done → (∀ g ∈ done, WFReg g) → (∀ g ∈ gs, WFReg g) →
      Corr m ((gs.foldl (addReg merge) S).stack m) (done ++ gs) := by
    intro gs
    induction gs with
    | nil => intro S done hc _ _; simpa using hc
    | cons g gs ih =>
      intro S done hc hwd hwg
      have wg := hwg g List.mem_cons_self
      have hstep : Corr m ((addReg merge S g).stack m) (done ++ [g]) := by
        rcases addReg_rev merge S g wg.nodup m with ⟨hin, n, heq⟩ | ⟨hnin, heq⟩
        · simp only [Stacks.stack, heq]
          have := corr_snoc_in merge n m hc hwd g hin
          rw [← pushRev_reverse] at this
          simpa [Stacks.stack] using this
        · simp only [Stacks.stack, heq]
          exact corr_snoc_skip m hc g hnin
      have := ih (addReg merge S g) (done ++ [g]) hstep
        (by intro x hx; rcases List.mem_append.mp hx with h | h
            · exact hwd x h
            · simp only [List.mem_singleton] at h; subst h; exact wg)
        (fun x hx => hwg x (List.mem_cons_of_mem _ hx))
      simpa [List.append_assoc] using this
  have := key regs Stacks.empty [] (by simp [Stacks.stack, Stacks.empty]; exact Corr.nil) (by simp) hwf
  simpa using this

end C01
