import FiberModel.C01.Main
import FiberModel.C01.UseOverride
import FiberModel.C01.Known
/-
C01 — property theorems (only). Helper lemmas: Lemmas.lean (sorted lists, buildTree, cursor),
Sim.lean (a tree/cursor run the instrumentation lets through = scan of the method stacks by registration
index), Corr.lean (that scan = specification), Build.lean (invariants of register/addRoute incl. the
ghost registration indices), Main.lean (assembly).

Reading guide
  `E : Env π α`     the single-route matcher `E.M` (abstract: any function), the request hash `E.pkey`,
                    `Path(override)` `E.setp`, the number of request methods
  `regs`            the program: the calls of `app.register` in order
  `dispatch`        the model of the real dispatcher: `build` (register/addRoute: positions, duplicate
                    merge) → `buildTree` (3-byte buckets + global bucket, dedupe, sort) → `next`
                    (bucket lookup, numeric cursor, matched flag, 404/405/Allow)
  `linear`          the property: registration-order scan with the current method/path (Spec.lean)
  `WF regs`         no method twice in one `Add`, ≥ 1 handler per registration
  `LocalR E regs`   locality of the key w.r.t. the matcher (discharged for the real matcher and the real
                    key rule by `C02.match_locality` / `C02.match_same_bucket`)
-/
set_option linter.unusedSimpArgs false
set_option linter.unusedVariables false
namespace C01
variable {π α : Type}

/-! ## 1. The index is a filter of the stack -/

/-- **bucket_filter_eq.** For any stack with strictly increasing positions and any path: if every
route carrying a non-zero key that matches the path has the path's key (*locality*), the routes the
dispatcher gets from the index (`lookup (buildTree st)`: bucket of the request hash merged with the
global bucket, de-duplicated, sorted by position — or the global bucket when no such bucket exists)
and the whole stack contain the same matching routes in the same order. -/
theorem bucket_filter_eq (E : Env π α) (st : List (Route α)) (hs : Sorted st) (p : π)
    (locality : ∀ r ∈ st, r.key ≠ 0 → r.matches E p = true → r.key = E.pkey p) :
    (lookup (buildTree st) (E.pkey p)).filter (fun r => r.matches E p) =
      st.filter (fun r => r.matches E p) := by
  rw [lookup_buildTree st hs, List.filter_filter]
  apply List.filter_congr
  intro r hr
  by_cases hm : r.matches E p = true
  · by_cases h0 : r.key = 0
    · simp [hm, h0]
    · simp [hm, locality r hr h0 hm]
  · simp [hm]

/-! ## 2. Dispatch refines the linear scan -/

/-- generic form: with or without `addRoute`'s duplicate merge -/
theorem dispatchS_refines_linear (E : Env π α) (merge : Bool) (regs : List (Reg α)) (hwf : WF regs)
    (hloc : LocalR E regs) (hno : NoOverride regs) (m : Nat) (p : π) :
    dispatchS E (build merge regs) false (build merge regs).fuel m p = .ok (linear E regs m p) := by
  have heq := next_noOv E (build merge regs) (InvS.build merge regs) (handlersNoOv_build merge regs hno)
    (build merge regs).fuel m p 0 false
  cases h : dispatchS E (build merge regs) true (build merge regs).fuel m p with
  | ok o =>
    have := dispatchS_linear E merge regs hwf hloc m p o h
    unfold dispatchS at h ⊢
    rw [← heq, h, this]
  | error k =>
    -- impossible: override-free runs equal the un-instrumented run, which never aborts
    exfalso
    unfold dispatchS at h
    rw [heq] at h
    obtain ⟨o, ho⟩ := next_false_ok E (build merge regs) (build merge regs).fuel m p 0 false
    rw [ho] at h
    cases h

/-- **dispatch_refines_linear** (full strength for tables whose handlers do not override the path
or method). For every table of registrations — any mix of methods, `Use` prefixes, groups (a group
only contributes its joined path), duplicate paths, any patterns (the matcher is arbitrary) — and
every request, the dispatcher (positions, duplicate merge, 3-byte index with global bucket, numeric
cursor, matched flag) produces exactly the handler trace, the final status (stop / the handler's
error / 404 / 405) and the Allow set of the registration-order linear scan. In particular the
supplied fuel suffices (the result is never `outOfFuel`). -/
theorem dispatch_refines_linear (E : Env π α) (regs : List (Reg α)) (hwf : WF regs)
    (hloc : LocalR E regs) (hno : NoOverride regs) (m : Nat) (p : π) :
    dispatch E regs m p = .ok (linear E regs m p) :=
  dispatchS_refines_linear E true regs hwf hloc hno m p

/-- **restart_pass_refines_linear.** The routing pass `c.RestartRouting()` performs — `indexRoute = -1`,
then `next` with the request's *current* method and path and the `matched` flag accumulated so far — is
the registration-order scan from the first registration with that method, path and flag (override-free
handlers; `dispatch_refines_linear` is the instance `matched = false` of a fresh request). The hand-off
around it (the value `RestartRouting` returns becomes the handler's return value) is not modelled. -/
theorem restart_pass_refines_linear (E : Env π α) (regs : List (Reg α)) (hwf : WF regs)
    (hloc : LocalR E regs) (hno : NoOverride regs) (m : Nat) (p : π) (matched : Bool) :
    next E (build true regs) false (build true regs).fuel m p 0 matched =
      .ok (linearFrom E regs regs m p matched) := by
  have heq := next_noOv E (build true regs) (InvS.build true regs) (handlersNoOv_build true regs hno)
    (build true regs).fuel m p 0 matched
  cases h : next E (build true regs) true (build true regs).fuel m p 0 matched with
  | ok o =>
    have := passS_linear E true regs hwf hloc m p matched o h
    rw [← heq, h, this]
  | error k =>
    exfalso
    rw [heq] at h
    obtain ⟨o, ho⟩ := next_false_ok E (build true regs) (build true regs).fuel m p 0 matched
    rw [ho] at h
    cases h

/-- the same pass with overriding handlers, outside the two recorded situations (stated on the
instrumented run of the pass itself) -/
theorem restart_pass_partial (E : Env π α) (regs : List (Reg α)) (hwf : WF regs)
    (hloc : LocalR E regs) (m : Nat) (p : π) (matched : Bool) (o : Obs)
    (hK : next E (build true regs) true (build true regs).fuel m p 0 matched = .ok o) :
    next E (build true regs) false (build true regs).fuel m p 0 matched =
      .ok (linearFrom E regs regs m p matched) := by
  rw [next_chk E (build true regs) _ m p 0 matched o hK, passS_linear E true regs hwf hloc m p matched o hK]

/-! ## 3. Overrides -/

/- Full statement (NOT provable for the code as it is — see the two witnesses below):

     theorem dispatch_after_override (hwf : WF regs) (hloc : LocalR E regs) (m p) :
       dispatch E regs m p = .ok (linear E regs m p)

   i.e. also when handlers call `c.Path(x)` / `c.Method(x)` before `c.Next()`, the rest of the chain
   is the later-registered routes matching the new path and method — without the hypotheses
   `hK1`/`hK2` of the theorem below. -/

/-- the instrumentation only aborts: a run it lets through is the plain model's run -/
theorem dispatchK_sound (E : Env π α) (regs : List (Reg α)) (m : Nat) (p : π) (o : Obs)
    (h : dispatchK E regs m p = .ok o) : dispatch E regs m p = .ok o :=
  next_chk E (build true regs) _ m p 0 false o h

/-- **dispatch_after_override_partial.** For *every* table and request — including every
`c.Path(override)` (cursor re-derived from the current route's position in the bucket of the new path)
and every `c.Method(override)` (inside a `Use` route the cursor is re-derived behind the new method's
copy of the middleware; elsewhere it is carried over) — the dispatcher equals the linear scan, unless
the run reaches one of the recorded situations:
K1: after an effective method override (or a path override while the method differs from the route's)
the cursor is not behind exactly the candidates registered up to the current route (`misaligned`);
K2: `Next` runs into handlers merged from a later identical registration after the route stopped
matching, or the new method's stack holds a route that merged a later registration into an earlier
position (`straddles`). Method overrides whose cursor is right — e.g. every override middleware
registered with `Use` on un-merged stacks, wherever it is registered — are inside the theorem. -/
theorem dispatch_after_override_partial (E : Env π α) (regs : List (Reg α)) (hwf : WF regs)
    (hloc : LocalR E regs) (m : Nat) (p : π)
    (hK1 : Known.K1reach E regs m p = false) (hK2 : Known.K2reach E regs m p = false) :
    dispatch E regs m p = .ok (linear E regs m p) := by
  cases h : dispatchK E regs m p with
  | ok o =>
    have := dispatchS_linear E true regs hwf hloc m p o h
    rw [dispatchK_sound E regs m p o h, this]
  | error k =>
    cases k with
    | k1 => simp [Known.K1reach, h] at hK1
    | k2 => simp [Known.K2reach, h] at hK2

/-- **dispatch_after_use_override** (full strength on its domain, no region hypothesis). If every
`c.Method(override)` of the program is made by a `Use` middleware filed in the global bucket
(`app.Use(mw)` or a prefix shorter than 3 bytes), `Use` registrations list every method (what `register`
does) and `addRoute` merged nothing, then for every request the dispatcher equals the linear scan —
wherever the middleware is registered, whatever method-specific routes precede it in either tree, with
any path overrides by any handlers: the rank-based cursor of the repaired `Method(override)` is the
ideal one at every override, so neither K1 nor K2 is reached. -/
theorem dispatch_after_use_override (E : Env π α) (regs : List (Reg α)) (hwf : WF regs)
    (hloc : LocalR E regs) (hall : UseAll E regs) (hov : OverrideInUse E regs)
    (hnm : NoMerge E (build true regs)) (m : Nat) (hm : m < E.nMethods) (p : π) :
    dispatch E regs m p = .ok (linear E regs m p) := by
  have hal : AlignedK (candidates E (build true regs) m p) 0 0 := by
    unfold AlignedK
    rw [List.drop_zero]
    symm
    rw [List.filter_eq_self]
    intro r _; simp
  obtain ⟨o, ho⟩ := next_ok E (build true regs) (useOK_build E regs hwf hall hov hnm)
    (build true regs).fuel 0 m p 0 false hm hal
  have hK : dispatchK E regs m p = .ok o := ho
  apply dispatch_after_override_partial E regs hwf hloc m p
  · simp [Known.K1reach, hK]
  · simp [Known.K2reach, hK]

/-- The same statement with the regions the checker actually suppresses (`Known.K1`, `Known.K2` =
the situation is reached **and** the model deviates). On runs that reach a situation the conclusion
holds by the definition of the region, so this adds nothing to the theorem above about such runs;
it records that a run outside the suppressed regions is one on which the model meets the property. -/
theorem dispatch_after_override_partial_suppressed (E : Env π α) (regs : List (Reg α)) (hwf : WF regs)
    (hloc : LocalR E regs) (m : Nat) (p : π)
    (hK1 : Known.K1 E regs m p = false) (hK2 : Known.K2 E regs m p = false) :
    dispatch E regs m p = .ok (linear E regs m p) := by
  by_cases hd : Known.deviates E regs m p = true
  · simp only [Known.K1, Known.K2, hd, Bool.and_true] at hK1 hK2
    exact dispatch_after_override_partial E regs hwf hloc m p hK1 hK2
  · simp only [Known.deviates, decide_eq_true_eq, ne_eq, Decidable.not_not] at hd
    exact hd

/-! ## 4. Route independence -/

theorem specChain_noOv (E : Env π α) (hs : List (Handler α)) (hno : ∀ h ∈ hs, h.script.isOverride = false)
    (m : Nat) (p : π) : ∀ tr m' p' c', specChain E hs m p = (tr, .fall m' p' c') → m' = m ∧ p' = p := by
  induction hs with
  | nil =>
    intro tr m' p' c' h
    simp only [specChain, Prod.mk.injEq, ChainEnd.fall.injEq] at h
    exact ⟨h.2.1.symm, h.2.2.1.symm⟩
  | cons h0 hs ih =>
    intro tr m' p' c' h
    have h0no := hno h0 List.mem_cons_self
    have ih' := ih (fun h hh => hno h (List.mem_cons_of_mem _ hh))
    simp only [specChain] at h
    cases hsc : h0.script with
    | stop => simp [hsc] at h
    | fail c => simp [hsc] at h
    | next =>
      simp only [hsc, Prod.mk.injEq] at h
      exact ih' _ m' p' c' (Prod.ext rfl h.2)
    | setPath o => simp [hsc, Script.isOverride] at h0no
    | setMethod m2 => simp [hsc, Script.isOverride] at h0no

/-- for override-free tables the scan depends on the table `all` only through the 404/405 decision
for the request's own method and path -/
theorem linearFrom_congr_all (E : Env π α) (A B l : List (Reg α)) (hno : NoOverride l) (m : Nat) (p : π)
    (hend : ∀ b, specEnding E A m p b = specEnding E B m p b) (matched : Bool) :
    linearFrom E A l m p matched = linearFrom E B l m p matched := by
  induction l generalizing matched with
  | nil => simp [linearFrom, hend]
  | cons g l ih =>
    have ih' := ih (fun x hx => hno x (List.mem_cons_of_mem _ hx))
    simp only [linearFrom]
    split
    · cases hc : specChain E g.handlers m p with
      | mk tr e =>
        cases e with
        | stop => rfl
        | fail c => rfl
        | fall m' p' c' =>
          obtain ⟨rfl, rfl⟩ := specChain_noOv E g.handlers (hno g List.mem_cons_self) m p tr m' p' c' hc
          simp only [ih']
    · exact ih' matched

theorem linearFrom_remove (E : Env π α) (A B pre post : List (Reg α)) (g : Reg α)
    (hno : NoOverride (pre ++ post)) (m : Nat) (p : π) (hg : g.matches E p = false)
    (hend : ∀ b, specEnding E A m p b = specEnding E B m p b) (matched : Bool) :
    linearFrom E A (pre ++ g :: post) m p matched = linearFrom E B (pre ++ post) m p matched := by
  induction pre generalizing matched with
  | nil =>
    simp only [List.nil_append, linearFrom, hg, Bool.and_false, Bool.false_eq_true, ↓reduceIte]
    exact linearFrom_congr_all E A B post (by simpa using hno) m p hend matched
  | cons x pre ih =>
    have hno' : NoOverride (pre ++ post) := fun y hy => hno y (by simp at hy ⊢; rcases hy with h | h <;> simp [h])
    have ih' := ih hno'
    simp only [List.cons_append, linearFrom]
    split
    · cases hc : specChain E x.handlers m p with
      | mk tr e =>
        cases e with
        | stop => rfl
        | fail c => rfl
        | fall m' p' c' =>
          obtain ⟨rfl, rfl⟩ := specChain_noOv E x.handlers (hno x (by simp)) m p tr m' p' c' hc
          simp only [ih']
    · exact ih' matched

/-- **route_independence (a): a route that does not match the path is invisible.** Adding or removing
a registration whose route does not match the request path changes nothing in the reply: not the
trace, not the status, not the Allow set — wherever it is inserted, whatever its key, however it
shifts the positions of the others or whether it breaks up a duplicate merge. (Override-free tables.) -/
theorem route_independence (E : Env π α) (pre post : List (Reg α)) (g : Reg α)
    (hwf : WF (pre ++ g :: post)) (hloc : LocalR E (pre ++ g :: post))
    (hno : NoOverride (pre ++ g :: post)) (m : Nat) (p : π) (hg : g.matches E p = false) :
    dispatch E (pre ++ g :: post) m p = dispatch E (pre ++ post) m p := by
  have hsub : ∀ x, x ∈ pre ++ post → x ∈ pre ++ g :: post := by
    intro x hx; simp at hx ⊢; rcases hx with h | h <;> simp [h]
  rw [dispatch_refines_linear E _ hwf hloc hno m p,
    dispatch_refines_linear E _ (fun x hx => hwf x (hsub x hx)) (fun x hx => hloc x (hsub x hx))
      (fun x hx => hno x (hsub x hx)) m p]
  congr 1
  unfold linear
  apply linearFrom_remove E _ _ pre post g (fun x hx => hno x (hsub x hx)) m p hg
  intro b
  unfold specEnding specAllow
  have : ∀ i, ((pre ++ g :: post).any fun g' => g'.methods.contains i && !g'.use && g'.matches E p) =
      ((pre ++ post).any fun g' => g'.methods.contains i && !g'.use && g'.matches E p) := by
    intro i; simp [List.any_append, List.any_cons, hg]
  simp only [this]

/-- **route_independence (b): every matching route runs, in registration order.** When every handler
calls `Next`, the trace is the concatenation of the handler lists of exactly the registrations that
list the request method and whose route matches the path — a condition on each registration alone. -/
theorem route_independence_all_next (E : Env π α) (regs : List (Reg α)) (hwf : WF regs)
    (hloc : LocalR E regs) (hnext : ∀ g ∈ regs, ∀ h ∈ g.handlers, h.script = .next) (m : Nat) (p : π) :
    ∃ o, dispatch E regs m p = .ok o ∧
      o.trace = (regs.filter fun g => g.methods.contains m && g.matches E p).flatMap
        fun g => g.handlers.map (·.hid) := by
  have hno : NoOverride regs := fun g hg h hh => by rw [hnext g hg h hh]; rfl
  refine ⟨_, dispatch_refines_linear E regs hwf hloc hno m p, ?_⟩
  unfold linear
  generalize hall : regs = all at hnext ⊢
  have hnext' : ∀ g ∈ all, ∀ h ∈ g.handlers, h.script = .next := hnext
  clear hnext hall hwf hloc hno
  suffices H : ∀ (l : List (Reg α)) (matched : Bool), (∀ g ∈ l, ∀ h ∈ g.handlers, h.script = .next) →
      (linearFrom E all l m p matched).trace =
        (l.filter fun g => g.methods.contains m && g.matches E p).flatMap fun g => g.handlers.map (·.hid) from
    H all false hnext'
  intro l
  induction l with
  | nil => intro matched _; rfl
  | cons g l ih =>
    intro matched hn
    have hchain : ∀ hs : List (Handler α), (∀ h ∈ hs, h.script = .next) →
        specChain E hs m p = (hs.map (·.hid), .fall m p 0) := by
      intro hs
      induction hs with
      | nil => intro _; rfl
      | cons h0 hs ihh =>
        intro hh
        simp only [specChain, hh h0 List.mem_cons_self, ihh (fun h hm => hh h (List.mem_cons_of_mem _ hm)),
          List.map_cons]
    simp only [linearFrom, List.filter_cons]
    split
    · rw [hchain g.handlers (hn g List.mem_cons_self)]
      simp only [Obs.prepend, List.flatMap_cons]
      rw [ih _ (fun x hx => hn x (List.mem_cons_of_mem _ hx))]
    · exact ih _ (fun x hx => hn x (List.mem_cons_of_mem _ hx))

/-! ## 5. The duplicate merge is transparent -/

/-- **merge_transparent.** `addRoute`'s merge of consecutive identical registrations (same method
stack, same `Path`, same `use`) changes no reply: the dispatcher run on the merged stacks equals the
run on the stacks built without the merge. (Override-free tables; with overrides see K2.) -/
theorem merge_transparent (E : Env π α) (regs : List (Reg α)) (hwf : WF regs)
    (hloc : LocalR E regs) (hno : NoOverride regs) (m : Nat) (p : π) :
    dispatchS E (build true regs) false (build true regs).fuel m p =
      dispatchS E (build false regs) false (build false regs).fuel m p := by
  rw [dispatchS_refines_linear E true regs hwf hloc hno m p,
    dispatchS_refines_linear E false regs hwf hloc hno m p]

/-! ## 6. Allow -/

/-- **allow_exact.** For every table and every request (handlers arbitrary), the set of methods
`methodExist` appends to `Allow` — scanning each other method's bucket for a non-`Use` route that
matches — is exactly the set of other methods for which some registration lists the method, is not
a `Use` and matches the path. -/
theorem allow_exact (E : Env π α) (regs : List (Reg α)) (hwf : WF regs) (hloc : LocalR E regs)
    (m : Nat) (p : π) :
    allowOf E (build true regs) m p = specAllow E regs m p :=
  allowOf_build E true regs hwf hloc m p

end C01

/-! ## 7. Non-vacuity: concrete instances, and the witnesses of the two known findings -/
namespace C01
namespace Ex
open B

/-- A small concrete matcher: literal routes match their own text, `Use` routes match by prefix. -/
def E : Env Bytes Bytes :=
  { M := fun raw use p => if use then raw.isPrefixOf p else raw == p
    pkey := pathHash 3
    setp := fun cur o => if cur == o then none else some o
    nMethods := 9 }

def allM : List Nat := List.range 9
def h (i : Nat) (s : Script Bytes) : Handler Bytes := { hid := i, script := s }
/-- literal GET/POST/… route with the real key rule -/
def lit (ms : List Nat) (path : String) (hs : List (Handler Bytes)) : Reg Bytes :=
  { methods := ms, use := false, raw := b path, key := pathHash 3 (b path), handlers := hs }
/-- `app.Use(handlers…)`: root prefix, global bucket -/
def useRoot (hs : List (Handler Bytes)) : Reg Bytes :=
  { methods := allM, use := true, raw := b "/", key := 0, handlers := hs }

/-- literal routes and root `Use` are local for the literal matcher -/
theorem local_lit (regs : List (Reg Bytes))
    (hk : ∀ g ∈ regs, (g.use = false ∧ g.key = pathHash 3 g.raw) ∨ g.key = 0) : LocalR E regs := by
  intro g hg p hkey hm
  rcases hk g hg with ⟨hu, hk'⟩ | h0
  · simp only [Reg.matches, E, hu, Bool.false_eq_true, ↓reduceIte, beq_iff_eq] at hm
    rw [hk', hm]; rfl
  · exact absurd h0 hkey

/-- GET /abc, Use /, GET /abc (duplicate, not adjacent), GET /xyz, POST /abc, GET /ab (2-byte constant) -/
def regs1 : List (Reg Bytes) :=
  [lit [0] "/abc" [h 1 .next], useRoot [h 2 .next], lit [0] "/abc" [h 3 .next, h 4 .next],
   lit [0] "/abc" [h 5 .next], lit [0] "/xyz" [h 6 .stop], lit [2] "/abc" [h 7 .stop], lit [0] "/ab" [h 8 .stop]]

theorem wf1 : WF regs1 := by
  intro g hg
  simp only [regs1, List.mem_cons, List.mem_nil_iff, or_false] at hg
  rcases hg with rfl | rfl | rfl | rfl | rfl | rfl | rfl <;>
    exact ⟨by decide, by decide, by decide⟩

theorem loc1 : LocalR E regs1 := by
  apply local_lit
  intro g hg
  simp only [regs1, List.mem_cons, List.mem_nil_iff, or_false] at hg
  rcases hg with rfl | rfl | rfl | rfl | rfl | rfl | rfl <;> first | (left; exact ⟨rfl, rfl⟩) | (right; rfl)

theorem noov1 : NoOverride regs1 := by
  intro g hg
  simp only [regs1, List.mem_cons, List.mem_nil_iff, or_false] at hg
  rcases hg with rfl | rfl | rfl | rfl | rfl | rfl | rfl <;> decide

/-- the hypotheses of `dispatch_refines_linear` / `route_independence` / `merge_transparent` /
`allow_exact` are met by a table with a pruning index (bucket "/ab" ≠ the whole stack), a merged
duplicate, a `Use` in the global bucket and a 2-byte constant; the run is non-trivial -/
example : dispatch E regs1 0 (b "/abc") =
    .ok { trace := [1, 2, 3, 4, 5], fin := .notFound } := by decide
example : linear E regs1 0 (b "/abc") = { trace := [1, 2, 3, 4, 5], fin := .notFound } := by decide
/-- 405 with Allow = {GET, POST} for a DELETE request -/
example : dispatch E regs1 4 (b "/abc") = .ok { trace := [2], fin := .notAllowed [0, 2] } := by decide
/-- the index really prunes: buckets "/ab", "/xy" and the global one; 4 of 5 routes are scanned -/
example : ((build true regs1).tree 0).length = 3 ∧
    (candidates E (build true regs1) 0 (b "/abc")).length = 4 ∧ ((build true regs1).stack 0).length = 5 := by decide
/-- `bucket_filter_eq`'s hypotheses hold on this stack -/
example : Sorted ((build true regs1).stack 0) := (InvS.build true regs1).sorted 0
/-- `route_independence`: "/xyz" does not match "/abc" -/
example : (lit [0] "/xyz" [h 6 .stop]).matches E (b "/abc") = false := by decide

/-- `restart_pass_refines_linear` with an inherited `matched = true`: a DELETE pass over `regs1` that
would answer 405 on a fresh request answers 404 when an endpoint had matched before the restart -/
example : next E (build true regs1) false (build true regs1).fuel 4 (b "/abc") 0 true =
    .ok { trace := [2], fin := .notFound } := by decide

/-- a path override handled correctly after F2: `Use` rewrites /old/a → /new, GET /new is served -/
def regs2 : List (Reg Bytes) :=
  [lit [0] "/old/a" [h 1 .next], useRoot [h 2 (.setPath (b "/new"))], lit [0] "/old/a" [h 3 .stop],
   lit [0] "/new" [h 4 .stop]]

example : dispatch E regs2 0 (b "/old/a") = .ok { trace := [1, 2, 4], fin := .stop } := by decide
example : Known.K1reach E regs2 0 (b "/old/a") = false ∧ Known.K2reach E regs2 0 (b "/old/a") = false := by decide

/-- The former K1 witness, repaired by `syncIndexRouteMethod` (F3): GET /abc, then a `Use` that turns
the request into POST, then POST /abc. The cursor is moved behind the POST tree's copy of the `Use`
route, POST /abc runs; the run is inside the theorem (no region reached). -/
def regsF3 : List (Reg Bytes) :=
  [lit [0] "/abc" [h 1 .next], useRoot [h 2 (.setMethod 2)], lit [2] "/abc" [h 3 .stop]]

example : dispatch E regsF3 0 (b "/abc") = .ok { trace := [1, 2, 3], fin := .stop } := by decide
example : linear E regsF3 0 (b "/abc") = { trace := [1, 2, 3], fin := .stop } := by decide
example : Known.K1reach E regsF3 0 (b "/abc") = false ∧ Known.K2reach E regsF3 0 (b "/abc") = false := by decide

/-- `dispatch_after_use_override`'s hypotheses are met by this table (the middleware is *behind* a
method-specific route, the case the un-repaired code got wrong) -/
example : NoMerge E (build true regsF3) := by unfold NoMerge; decide
example : UseAll E regsF3 := by
  intro g hg hu i hi
  simp only [regsF3, List.mem_cons, List.mem_nil_iff, or_false] at hg
  rcases hg with rfl | rfl | rfl
  · simp [lit] at hu
  · simp only [useRoot, allM, List.mem_range]; exact hi
  · simp [lit] at hu
example : OverrideInUse E regsF3 := by
  intro g hg x hx m' hsc
  simp only [regsF3, List.mem_cons, List.mem_nil_iff, or_false] at hg
  rcases hg with rfl | rfl | rfl
  · simp only [lit, List.mem_cons, List.mem_nil_iff, or_false] at hx; subst hx; simp [h] at hsc
  · simp only [useRoot, List.mem_cons, List.mem_nil_iff, or_false] at hx; subst hx
    simp only [h, Script.setMethod.injEq] at hsc
    subst hsc
    exact ⟨rfl, rfl, by decide⟩
  · simp only [lit, List.mem_cons, List.mem_nil_iff, or_false] at hx; subst hx; simp [h] at hsc

/-- the common aligned case (override middleware registered first, POST → PUT) is inside the theorem too -/
def regsK1ok : List (Reg Bytes) :=
  [useRoot [h 1 (.setMethod 3)], lit [2] "/abc" [h 2 .stop], lit [3] "/abc" [h 3 .stop]]
example : Known.K1reach E regsK1ok 2 (b "/abc") = false ∧ Known.K2reach E regsK1ok 2 (b "/abc") = false := by decide
example : dispatch E regsK1ok 2 (b "/abc") = .ok { trace := [1, 3], fin := .stop } := by decide

/-- **K1 witness**: an *endpoint* (not a `Use` route) turns the request into GET: PUT /new (Method(GET);
Next), then GET /new. The numeric cursor (1) is carried into the GET tree `[GET /new]`, where it points
past GET /new: the real dispatcher (and the model) answer 404 after handler 1; the property wants
handler 2. -/
def regsK1 : List (Reg Bytes) :=
  [lit [3] "/new" [h 1 (.setMethod 0)], lit [0] "/new" [h 2 .stop]]

theorem dispatch_after_override_witness_K1 :
    ¬ (dispatch E regsK1 3 (b "/new") = .ok (linear E regsK1 3 (b "/new"))) := by decide

example : Known.K1 E regsK1 3 (b "/new") = true := by decide
example : dispatch E regsK1 3 (b "/new") = .ok { trace := [1], fin := .notFound } := by decide
example : linear E regsK1 3 (b "/new") = { trace := [1, 2], fin := .stop } := by decide

/-- **K2 witness**: GET /abc registered twice in a row (merged by `addRoute`); the first handler
rewrites the path to /xyz. `Next` runs the merged second handler although GET /abc does not match
/xyz; the property wants GET /xyz (handler 3). -/
def regsK2 : List (Reg Bytes) :=
  [lit [0] "/abc" [h 1 (.setPath (b "/xyz"))], lit [0] "/abc" [h 2 .stop], lit [0] "/xyz" [h 3 .stop]]

theorem dispatch_after_override_witness_K2 :
    ¬ (dispatch E regsK2 0 (b "/abc") = .ok (linear E regsK2 0 (b "/abc"))) := by decide

example : Known.K2 E regsK2 0 (b "/abc") = true := by decide
example : dispatch E regsK2 0 (b "/abc") = .ok { trace := [1, 2], fin := .stop } := by decide
example : linear E regsK2 0 (b "/abc") = { trace := [1, 3], fin := .stop } := by decide

/-- K2, second form (straddling route): POST /x, GET /x (Method(POST); Next), POST /x. The second
POST /x was merged into the first one's route, in front of GET /x: after the override nothing is left
behind the cursor in the POST tree, the property wants handler 3. -/
def regsK2b : List (Reg Bytes) :=
  [lit [2] "/xyz" [h 1 .stop], lit [0] "/xyz" [h 2 (.setMethod 2)], lit [2] "/xyz" [h 3 .stop]]

example : Known.K2 E regsK2b 0 (b "/xyz") = true := by decide
example : dispatch E regsK2b 0 (b "/xyz") = .ok { trace := [2], fin := .notFound } := by decide
example : linear E regsK2b 0 (b "/xyz") = { trace := [2, 3], fin := .stop } := by decide

end Ex
end C01
