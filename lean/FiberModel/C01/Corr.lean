import FiberModel.C01.Sim
/-
C01 — helper lemmas, part C: what `register`/`addRoute` build (`build`) corresponds to the list of
registrations (`CorrI`, with the ghost registration indices), and the scan of the method stacks by
registration index (`linM`) equals the specification `linearFrom`.
-/
set_option linter.unusedSimpArgs false
set_option linter.unusedVariables false
namespace C01
variable {π α : Type}

/-- well-formed registration: no method listed twice, at least one handler (router.go `register`
panics otherwise), ghost seam marks unset -/
structure WFReg (g : Reg α) : Prop where
  nodup : g.methods.Nodup
  hne : g.handlers ≠ []
  noseam : ∀ h ∈ g.handlers, h.seam = false

/-- `rs` is what `addRoute` makes of the registrations `gs` (numbered from `b`) that list method `m` -/
inductive CorrI (m : Nat) : Nat → List (Route α) → List (Reg α) → Prop
  | nil {b} : CorrI m b [] []
  | skip {b rs gs g} : m ∉ g.methods → CorrI m (b + 1) rs gs → CorrI m b rs (g :: gs)
  | one {b r rs g gs} : m ∈ g.methods → r.raw = g.raw → r.use = g.use → r.m = m →
      r.handlers = g.handlers → r.eo = g.eo → r.first = b → r.last = b → r.key = g.key →
      CorrI m (b + 1) rs gs → CorrI m b (r :: rs) (g :: gs)
  | merged {b r r' rs g gs} : m ∈ g.methods → r.raw = g.raw → r.use = g.use → r.m = m →
      r'.raw = g.raw → r'.use = g.use → r'.m = m →
      r.handlers = g.handlers ++ markSeam r'.handlers → r.eo = g.eo → r'.eo = g.eo →
      r.first = b → r.last = r'.last → r.key = g.key →
      CorrI m (b + 1) (r' :: rs) gs → CorrI m b (r :: rs) (g :: gs)

theorem corrI_bounds {m b : Nat} {rs : List (Route α)} {gs : List (Reg α)} (hc : CorrI m b rs gs) :
    ∀ x ∈ rs, b ≤ x.first ∧ x.first ≤ x.last := by
  induction hc with
  | nil => intro x hx; cases hx
  | skip _ _ ih => intro x hx; have := ih x hx; omega
  | one _ _ _ _ _ _ hf hl _ _ ih =>
    intro x hx
    rcases List.mem_cons.mp hx with rfl | hx'
    · omega
    · have := ih x hx'; omega
  | merged _ _ _ _ _ _ _ _ _ _ hf hl _ _ ih =>
    intro x hx
    rcases List.mem_cons.mp hx with rfl | hx'
    · have := ih _ List.mem_cons_self; omega
    · have := ih x (List.mem_cons_of_mem _ hx'); omega

/-! ### chains -/

theorem chainM_spec (E : Env π α) (S : Stacks α) (r : Route α) (hs : List (Handler α))
    (hns : ∀ h ∈ hs, h.seam = false) (m : Nat) (p : π) (tr : List Nat) (e : ChainEnd π)
    (h : chainM E S r hs m p = .ok (tr, e)) : specChain E hs m p = (tr, e) := by
  induction hs generalizing m p tr e with
  | nil =>
    simp only [chainM, Except.ok.injEq, Prod.mk.injEq] at h
    obtain ⟨rfl, rfl⟩ := h
    rfl
  | cons h0 hs ih =>
    have hs0 : h0.seam = false := hns h0 List.mem_cons_self
    have hns' : ∀ h ∈ hs, h.seam = false := fun h hh => hns h (List.mem_cons_of_mem _ hh)
    simp only [chainM, hs0, Bool.false_and, Bool.false_eq_true, ↓reduceIte] at h
    simp only [specChain]
    cases hsc : h0.script with
    | stop => simp [hsc] at h; obtain ⟨rfl, rfl⟩ := h; rfl
    | fail c => simp [hsc] at h; obtain ⟨rfl, rfl⟩ := h; rfl
    | next =>
      simp only [hsc] at h
      obtain ⟨⟨tr1, e1⟩, hr, heq⟩ := map_ok_inv h
      simp only [Prod.mk.injEq] at heq
      obtain ⟨rfl, rfl⟩ := heq
      simp [ih hns' m p tr1 e1 hr]
    | setPath o =>
      simp only [hsc] at h
      obtain ⟨⟨tr1, e1⟩, hr, heq⟩ := map_ok_inv h
      simp only [Prod.mk.injEq] at heq
      obtain ⟨rfl, rfl⟩ := heq
      simp [ih hns' m _ tr1 e1 hr]
    | setMethod m2 =>
      simp only [hsc] at h
      split at h
      · cases h
      · obtain ⟨⟨tr1, e1⟩, hr, heq⟩ := map_ok_inv h
        simp only [Prod.mk.injEq] at heq
        obtain ⟨rfl, rfl⟩ := heq
        simp [ih hns' m2 p tr1 e1 hr]

/-- running `hs₁ ++ hs₂`: first `hs₁`, and when all of them called `Next`, `hs₂` -/
def thenChainM (E : Env π α) (S : Stacks α) (r : Route α) (hs2 : List (Handler α)) :
    Except Known (List Nat × ChainEnd π) → Except Known (List Nat × ChainEnd π)
  | .error e => .error e
  | .ok (tr, .fall m' p' _) => (chainM E S r hs2 m' p').map fun x => (tr ++ x.1, x.2)
  | .ok (tr, e) => .ok (tr, e)

theorem thenChainM_map (E : Env π α) (S : Stacks α) (r : Route α) (hs2 : List (Handler α)) (h : Nat)
    (x : Except Known (List Nat × ChainEnd π)) :
    thenChainM E S r hs2 (x.map fun y => (h :: y.1, y.2)) =
      (thenChainM E S r hs2 x).map fun y => (h :: y.1, y.2) := by
  cases x with
  | error e => rfl
  | ok y =>
    obtain ⟨tr, e⟩ := y
    cases e with
    | stop => rfl
    | fail c => rfl
    | fall m' p' c' =>
      simp only [Except.map, thenChainM]
      cases chainM E S r hs2 m' p' <;> simp [Except.map]

theorem chainM_append (E : Env π α) (S : Stacks α) (r : Route α) (hs1 hs2 : List (Handler α)) (m : Nat) (p : π) :
    chainM E S r (hs1 ++ hs2) m p = thenChainM E S r hs2 (chainM E S r hs1 m p) := by
  induction hs1 generalizing m p with
  | nil =>
    simp only [List.nil_append, chainM, thenChainM]
    cases chainM E S r hs2 m p with
    | error e => rfl
    | ok x => simp [Except.map]
  | cons h0 hs ih =>
    simp only [List.cons_append, chainM]
    split
    · rfl
    · cases hsc : h0.script with
      | stop => rfl
      | fail c => rfl
      | next => simp only; rw [ih, thenChainM_map]
      | setPath o => simp only; rw [ih, thenChainM_map]
      | setMethod m2 =>
        simp only
        split
        · rfl
        · rw [ih, thenChainM_map]

theorem chainM_congr (E : Env π α) (S : Stacks α) (r r' : Route α) (hm : r.m = r'.m) (hraw : r.raw = r'.raw)
    (huse : r.use = r'.use) (hlast : r.last = r'.last) (hs : List (Handler α)) (m : Nat) (p : π) :
    chainM E S r hs m p = chainM E S r' hs m p := by
  induction hs generalizing m p with
  | nil => rfl
  | cons h0 hs ih =>
    have hmt : ∀ q, r.matches E q = r'.matches E q := by intro q; simp [Route.matches, hraw, huse]
    simp only [chainM, hm, hmt, hlast]
    split
    · rfl
    · split <;> simp only [ih]

theorem chainM_markSeam (E : Env π α) (S : Stacks α) (r : Route α) (m : Nat) (h0 : Handler α)
    (t : List (Handler α)) (p : π) (hs0 : h0.seam = false) :
    chainM E S r (markSeam (h0 :: t)) m p =
      if m == r.m && r.matches E p then chainM E S r (h0 :: t) m p else .error .k2 := by
  simp only [markSeam, chainM, hs0, Bool.true_and, Bool.false_and, Bool.false_eq_true, ↓reduceIte]
  cases hc : (m == r.m && r.matches E p) <;> simp

/-! ### one route of the stack against the registrations -/

/-- what the specification does after a chain that ended with `e` -/
def afterSpec (E : Env π α) (all rest : List (Reg α)) (matched : Bool) (tr : List Nat) : ChainEnd π → Obs
  | .stop => { trace := tr, fin := .stop }
  | .fail c => { trace := tr, fin := .fail c }
  | .fall m' p' _ => (linearFrom E all rest m' p' matched).prepend tr

theorem afterSpec_prepend (E : Env π α) (all rest : List (Reg α)) (matched : Bool) (t1 t2 : List Nat)
    (e : ChainEnd π) : (afterSpec E all rest matched t2 e).prepend t1 = afterSpec E all rest matched (t1 ++ t2) e := by
  cases e <;> simp [afterSpec, Obs.prepend, List.append_assoc]

theorem contains_eq_true_of_mem {l : List Nat} {m : Nat} (h : m ∈ l) : l.contains m = true := by
  simpa using h

theorem contains_eq_false_of_not_mem {l : List Nat} {m : Nat} (h : m ∉ l) : l.contains m = false := by
  simpa using h

theorem corrI_head (m : Nat) {b : Nat} {r : Route α} {rs : List (Route α)} {gs : List (Reg α)}
    (hc : CorrI m b (r :: rs) gs) (hwf : ∀ g ∈ gs, WFReg g) :
    ∃ h t, r.handlers = h :: t ∧ h.seam = false := by
  generalize hrs : r :: rs = l at hc
  induction hc generalizing r rs with
  | nil => cases hrs
  | skip _ _ ih => exact ih (fun g hg => hwf g (List.mem_cons_of_mem _ hg)) hrs
  | @one b r1 rs1 g gs1 hm hraw huse hrm hh _ _ _ _ _ _ =>
    simp only [List.cons.injEq] at hrs
    obtain ⟨rfl, rfl⟩ := hrs
    have w := hwf g List.mem_cons_self
    cases hg : g.handlers with
    | nil => exact absurd hg w.hne
    | cons h t => exact ⟨h, t, by rw [hh, hg], w.noseam h (by rw [hg]; exact List.mem_cons_self)⟩
  | @merged b r1 r2 rs1 g gs1 hm hraw huse hrm _ _ _ hh _ _ _ _ _ _ _ =>
    simp only [List.cons.injEq] at hrs
    obtain ⟨rfl, rfl⟩ := hrs
    have w := hwf g List.mem_cons_self
    cases hg : g.handlers with
    | nil => exact absurd hg w.hne
    | cons h t => exact ⟨h, t ++ markSeam r2.handlers, by rw [hh, hg]; rfl, w.noseam h (by rw [hg]; exact List.mem_cons_self)⟩

/-- no route of the (remaining) stack matches: the specification reaches its end as well -/
theorem corrI_none (E : Env π α) (all : List (Reg α)) (m : Nat) {b : Nat} {rs : List (Route α)}
    {gs : List (Reg α)} (hc : CorrI m b rs gs) (p : π) (matched : Bool)
    (h : rs.find? (fun r => r.matches E p) = none) :
    linearFrom E all gs m p matched = { trace := [], fin := specEnding E all m p matched } := by
  induction hc with
  | nil => rfl
  | skip hm _ ih =>
    simp only [linearFrom, contains_eq_false_of_not_mem hm, Bool.false_and, Bool.false_eq_true, ↓reduceIte]
    exact ih h
  | @one b r rs g gs hm hraw huse hrm hh _ _ _ _ _ ih =>
    have hmatch : r.matches E p = g.matches E p := by simp [Route.matches, Reg.matches, hraw, huse]
    simp only [List.find?_cons] at h
    cases hr : r.matches E p with
    | true => simp [hr] at h
    | false =>
      simp only [hr] at h
      simp only [linearFrom, ← hmatch, hr, Bool.and_false, Bool.false_eq_true, ↓reduceIte]
      exact ih h
  | @merged b r r' rs g gs hm hraw huse hrm hraw' huse' hrm' hh _ _ _ _ _ _ ih =>
    have hmatch : r.matches E p = g.matches E p := by simp [Route.matches, Reg.matches, hraw, huse]
    have hmatch' : r'.matches E p = g.matches E p := by simp [Route.matches, Reg.matches, hraw', huse']
    simp only [List.find?_cons] at h
    cases hr : r.matches E p with
    | true => simp [hr] at h
    | false =>
      simp only [hr] at h
      simp only [linearFrom, ← hmatch, hr, Bool.and_false, Bool.false_eq_true, ↓reduceIte]
      apply ih
      simp only [List.find?_cons, hmatch', ← hmatch, hr]
      exact h

/-- the first matching route of the (remaining) stack and its handlers against the registrations -/
theorem corrI_some (E : Env π α) (S : Stacks α) (all : List (Reg α)) (m : Nat) {b : Nat}
    {rs : List (Route α)} {gs : List (Reg α)} (hc : CorrI m b rs gs) (hwf : ∀ g ∈ gs, WFReg g) :
    ∀ (p : π) (matched : Bool) (r : Route α) (tr : List Nat) (e : ChainEnd π),
      rs.find? (fun r => r.matches E p) = some r →
      chainM E S r r.handlers m p = .ok (tr, e) →
      linearFrom E all gs m p matched =
        afterSpec E all (gs.drop (r.last + 1 - b)) (matched || !r.use) tr e := by
  induction hc with
  | nil => intro p matched r tr e h; simp at h
  | @skip b rs gs g hm hc' ih =>
    intro p matched r tr e h hch
    have hwf' : ∀ g ∈ gs, WFReg g := fun g hg => hwf g (List.mem_cons_of_mem _ hg)
    have hrmem : r ∈ rs := List.mem_of_find?_eq_some h
    have hb := corrI_bounds hc' r hrmem
    simp only [linearFrom, contains_eq_false_of_not_mem hm, Bool.false_and, Bool.false_eq_true, ↓reduceIte]
    rw [ih hwf' p matched r tr e h hch]
    have : r.last + 1 - b = (r.last + 1 - (b + 1)) + 1 := by omega
    rw [this, List.drop_succ_cons]
  | @one b r0 rs g gs hm hraw huse hrm hh _ hfirst hlast _ hc' ih =>
    intro p matched r tr e h hch
    have hwf' : ∀ g ∈ gs, WFReg g := fun g hg => hwf g (List.mem_cons_of_mem _ hg)
    have w := hwf g List.mem_cons_self
    have hmatch : r0.matches E p = g.matches E p := by simp [Route.matches, Reg.matches, hraw, huse]
    simp only [List.find?_cons] at h
    cases hr : r0.matches E p with
    | true =>
      simp only [hr, Option.some.injEq] at h
      subst h
      rw [hh] at hch
      have hspec := chainM_spec E S r0 g.handlers w.noseam m p tr e hch
      have hd : r0.last + 1 - b = 1 := by omega
      simp only [linearFrom, contains_eq_true_of_mem hm, ← hmatch, hr, Bool.and_self, ↓reduceIte, hspec, hd,
        List.drop_succ_cons, List.drop_zero, huse]
      cases e <;> rfl
    | false =>
      simp only [hr] at h
      have hrmem : r ∈ rs := List.mem_of_find?_eq_some h
      have hb := corrI_bounds hc' r hrmem
      simp only [linearFrom, ← hmatch, hr, Bool.and_false, Bool.false_eq_true, ↓reduceIte]
      rw [ih hwf' p matched r tr e h hch]
      have : r.last + 1 - b = (r.last + 1 - (b + 1)) + 1 := by omega
      rw [this, List.drop_succ_cons]
  | @merged b r0 r' rs g gs hm hraw huse hrm hraw' huse' hrm' hh _ _ hfirst hlast _ hc' ih =>
    intro p matched r tr e h hch
    have hwf' : ∀ g ∈ gs, WFReg g := fun g hg => hwf g (List.mem_cons_of_mem _ hg)
    have w := hwf g List.mem_cons_self
    have hmatch : ∀ q, r0.matches E q = g.matches E q := by intro q; simp [Route.matches, Reg.matches, hraw, huse]
    have hmatch' : ∀ q, r'.matches E q = g.matches E q := by intro q; simp [Route.matches, Reg.matches, hraw', huse']
    have hb' := corrI_bounds hc' r' List.mem_cons_self
    simp only [List.find?_cons] at h
    cases hr : r0.matches E p with
    | true =>
      simp only [hr, Option.some.injEq] at h
      subst h
      rw [hh, chainM_append] at hch
      cases hc1 : chainM E S r0 g.handlers m p with
      | error e1 => simp [hc1, thenChainM] at hch
      | ok x =>
        obtain ⟨tr1, e1⟩ := x
        have hspec := chainM_spec E S r0 g.handlers w.noseam m p tr1 e1 hc1
        rw [hc1] at hch
        have hd : r0.last + 1 - b = (r'.last + 1 - (b + 1)) + 1 := by omega
        simp only [linearFrom, contains_eq_true_of_mem hm, ← hmatch, hr, Bool.and_self, ↓reduceIte, hspec]
        cases e1 with
        | stop =>
          simp only [thenChainM, Except.ok.injEq, Prod.mk.injEq] at hch
          obtain ⟨rfl, rfl⟩ := hch
          rfl
        | fail c =>
          simp only [thenChainM, Except.ok.injEq, Prod.mk.injEq] at hch
          obtain ⟨rfl, rfl⟩ := hch
          rfl
        | fall m1 p1 c1 =>
          simp only [thenChainM] at hch
          obtain ⟨h0, t, hr't, hseam0⟩ := corrI_head m hc' hwf'
          rw [hr't, chainM_markSeam E S r0 m1 h0 t p1 hseam0] at hch
          by_cases hck : (m1 == r0.m && r0.matches E p1) = true
          · simp only [hck, ↓reduceIte] at hch
            obtain ⟨⟨tr2, e2⟩, hr2, heq⟩ := map_ok_inv hch
            simp only [Prod.mk.injEq] at heq
            obtain ⟨rfl, rfl⟩ := heq
            simp only [Bool.and_eq_true, beq_iff_eq] at hck
            have hm1 : m1 = m := by rw [hck.1, hrm]
            subst hm1
            have hr'p : r'.matches E p1 = true := by rw [hmatch', ← hmatch]; exact hck.2
            have hfind : (r' :: rs).find? (fun r => r.matches E p1) = some r' := by
              simp [List.find?_cons, hr'p]
            have hch' : chainM E S r' r'.handlers m1 p1 = .ok (tr2, e2) := by
              rw [hr't, ← chainM_congr E S r0 r' (by rw [hrm, hrm']) (by rw [hraw, hraw']) (by rw [huse, huse']) hlast]
              exact hr2
            have := ih hwf' p1 (matched || !g.use) r' tr2 e2 hfind hch'
            show Obs.prepend tr1 (linearFrom E all gs m1 p1 (matched || !g.use)) = _
            rw [this, afterSpec_prepend, hd, List.drop_succ_cons]
            have hflag : (matched || !g.use || !r'.use) = (matched || !r0.use) := by
              rw [huse', huse]; cases matched <;> cases g.use <;> rfl
            rw [hflag]
          · have hck' : (m1 == r0.m && r0.matches E p1) = false := by simpa using hck
            simp [hck', Except.map] at hch
    | false =>
      simp only [hr] at h
      have hrmem : r ∈ rs := List.mem_of_find?_eq_some h
      have hb := corrI_bounds hc' r (List.mem_cons_of_mem _ hrmem)
      have hr' : r'.matches E p = false := by rw [hmatch', ← hmatch]; exact hr
      simp only [linearFrom, ← hmatch, hr, Bool.and_false, Bool.false_eq_true, ↓reduceIte]
      have hfind : (r' :: rs).find? (fun r => r.matches E p) = some r := by
        simp only [List.find?_cons, hr']; exact h
      rw [ih hwf' p matched r tr e hfind hch]
      have : r.last + 1 - b = (r.last + 1 - (b + 1)) + 1 := by omega
      rw [this, List.drop_succ_cons]

/-! ### splitting a stack at a registration index -/

/-- no route was created before registration `k` and holds handlers of registration `k` or later -/
def NoStraddle (st : List (Route α)) (k : Nat) : Prop := ∀ x ∈ st, ¬ (x.first < k ∧ k ≤ x.last)

theorem corrI_split (m : Nat) {b : Nat} {rs : List (Route α)} {gs : List (Reg α)} (hc : CorrI m b rs gs)
    (k : Nat) (hk : b ≤ k) (hns : NoStraddle rs k) :
    CorrI m k (rs.filter (fun x => k ≤ x.first)) (gs.drop (k - b)) := by
  induction hc with
  | @nil b => simpa using CorrI.nil
  | @skip b rs gs g hm hc' ih =>
    by_cases hkb : k = b
    · subst hkb
      have hall : rs.filter (fun x => k ≤ x.first) = rs := by
        rw [List.filter_eq_self]; intro x hx; have := corrI_bounds hc' x hx; simp; omega
      simp only [Nat.sub_self, List.drop_zero, hall]
      exact CorrI.skip hm hc'
    · have : k - b = (k - (b + 1)) + 1 := by omega
      rw [this, List.drop_succ_cons]
      exact ih (by omega) hns
  | @one b r rs g gs hm hraw huse hrm hh heo hfirst hlast hkey hc' ih =>
    have hns' : NoStraddle rs k := fun x hx => hns x (List.mem_cons_of_mem _ hx)
    by_cases hkb : k = b
    · subst hkb
      have hall : rs.filter (fun x => k ≤ x.first) = rs := by
        rw [List.filter_eq_self]; intro x hx; have := corrI_bounds hc' x hx; simp; omega
      have hr : decide (k ≤ r.first) = true := by simp; omega
      simp only [Nat.sub_self, List.drop_zero, List.filter_cons, hr, ↓reduceIte, hall]
      exact CorrI.one hm hraw huse hrm hh heo hfirst hlast hkey hc'
    · have : k - b = (k - (b + 1)) + 1 := by omega
      have hr : decide (k ≤ r.first) = false := by simp; omega
      rw [this, List.drop_succ_cons]
      simp only [List.filter_cons, hr, Bool.false_eq_true, ↓reduceIte]
      exact ih (by omega) hns'
  | @merged b r r' rs g gs hm hraw huse hrm hraw' huse' hrm' hh heo heo' hfirst hlast hkey hc' ih =>
    have hb' := corrI_bounds hc' r' List.mem_cons_self
    by_cases hkb : k = b
    · subst hkb
      have hall : rs.filter (fun x => k ≤ x.first) = rs := by
        rw [List.filter_eq_self]; intro x hx
        have := corrI_bounds hc' x (List.mem_cons_of_mem _ hx); simp; omega
      have hr : decide (k ≤ r.first) = true := by simp; omega
      simp only [Nat.sub_self, List.drop_zero, List.filter_cons, hr, ↓reduceIte, hall]
      exact CorrI.merged hm hraw huse hrm hraw' huse' hrm' hh heo heo' hfirst hlast hkey hc'
    · have : k - b = (k - (b + 1)) + 1 := by omega
      have hr : decide (k ≤ r.first) = false := by simp; omega
      -- r does not straddle k: all of its registrations are in front of k
      have hrl : r.last < k := by
        have := hns r List.mem_cons_self
        omega
      have hr' : decide (k ≤ r'.first) = false := by simp; omega
      have hns' : NoStraddle (r' :: rs) k := by
        intro x hx
        rcases List.mem_cons.mp hx with rfl | hx'
        · omega
        · exact hns x (List.mem_cons_of_mem _ hx')
      rw [this, List.drop_succ_cons]
      simp only [List.filter_cons, hr, Bool.false_eq_true, ↓reduceIte]
      have := ih (by omega) hns'
      simpa only [List.filter_cons, hr', Bool.false_eq_true, ↓reduceIte] using this

/-! ### linM = linearFrom -/

theorem noStraddle_of_not_straddles (S : Stacks α) (m k : Nat) (h : straddles S m k = false) :
    NoStraddle (S.stack m) (k + 1) := by
  intro x hx hcon
  unfold straddles at h
  rw [List.any_eq_false] at h
  have := h x hx
  simp only [Bool.and_eq_true, decide_eq_true_eq, not_and] at this
  omega

theorem noStraddle_own {st : List (Route α)} (hf : FSorted st) {r : Route α} (hr : r ∈ st) :
    NoStraddle st (r.last + 1) := by
  intro x hx hcon
  induction st with
  | nil => cases hr
  | cons a t ih =>
    have hq := List.pairwise_cons.mp hf.1
    rcases List.mem_cons.mp hr with e1 | hr' <;> rcases List.mem_cons.mp hx with e2 | hx'
    · rw [e1, e2] at hcon; omega
    · have h2 := hq.1 x hx'; rw [e1] at hcon; omega
    · have h2 := hq.1 r hr'
      have h3 := hf.2 r (List.mem_cons_of_mem _ hr'); have h4 := hf.2 a List.mem_cons_self
      rw [e2] at hcon; omega
    · exact ih hf.tail hr' hx'

/-- **The scan of the stacks by registration index is the specification.** `hcorr`: every stack
corresponds to the registrations; `hmono`: positions grow with the registration index across stacks
(this bounds the number of steps by `routesCount`). -/
theorem linM_linear (E : Env π α) (S : Stacks α) (regs : List (Reg α))
    (fin : Nat → π → Bool → End) (hfin : ∀ m p matched, fin m p matched = specEnding E regs m p matched)
    (hwf : ∀ g ∈ regs, WFReg g)
    (hcorr : ∀ i, CorrI i 0 (S.stack i) regs)
    (hf : ∀ i, FSorted (S.stack i))
    (hbound : ∀ i, ∀ x ∈ S.stack i, x.pos ≤ S.count)
    (hmono : ∀ i j, ∀ x ∈ S.stack i, ∀ y ∈ S.stack j, x.first < y.first → x.pos < y.pos) :
    ∀ (fuel k q m : Nat) (p : π) (matched : Bool) (o : Obs),
      NoStraddle (S.stack m) k →
      (∀ i, ∀ x ∈ S.stack i, k ≤ x.first → q < x.pos) →
      S.count - q < fuel →
      linM E S fin fuel k m p matched = .ok o →
      linearFrom E regs (regs.drop k) m p matched = o := by
  intro fuel
  induction fuel with
  | zero => intro k q m p matched o _ _ hlen; omega
  | succ fuel ih =>
    intro k q m p matched o hns hq hlen h
    simp only [linM] at h
    have hsplit := corrI_split m (hcorr m) k (Nat.zero_le k) hns
    simp only [Nat.sub_zero] at hsplit
    have hwfd : ∀ g ∈ regs.drop k, WFReg g := fun g hg => hwf g (List.mem_of_mem_drop hg)
    cases hfind : ((S.stack m).filter (fun x => k ≤ x.first)).find? (fun r => r.matches E p) with
    | none =>
      simp only [hfind, Except.ok.injEq] at h
      subst h
      rw [corrI_none E regs m hsplit p matched hfind, hfin]
    | some r =>
      simp only [hfind] at h
      have hrf := List.mem_of_find?_eq_some hfind
      have hrst : r ∈ S.stack m := (List.mem_filter.mp hrf).1
      have hkr : k ≤ r.first := by simpa using (List.mem_filter.mp hrf).2
      have hrl : r.first ≤ r.last := (hf m).2 r hrst
      cases hch : chainM E S r r.handlers m p with
      | error e => simp [hch, afterChain] at h
      | ok x =>
        obtain ⟨tr, e⟩ := x
        rw [hch] at h
        have hstep := corrI_some E S regs m hsplit hwfd p matched r tr e hfind hch
        have hdrop : (regs.drop k).drop (r.last + 1 - k) = regs.drop (r.last + 1) := by
          rw [List.drop_drop]; congr 1; omega
        rw [hdrop] at hstep
        rw [hstep]
        cases e with
        | stop => simp only [afterChain, Except.ok.injEq] at h; subst h; rfl
        | fail c => simp only [afterChain, Except.ok.injEq] at h; subst h; rfl
        | fall m' p' c' =>
          simp only [afterChain] at h
          obtain ⟨o', ho', heq⟩ := map_ok_inv h
          subst heq
          have hns' : NoStraddle (S.stack m') (r.last + 1) := by
            rcases chainM_fall E S r r.handlers m p tr m' p' c' hch with h1 | h1
            · rw [h1]; exact noStraddle_own (hf m) hrst
            · exact noStraddle_of_not_straddles S m' r.last h1
          have hq' : ∀ i, ∀ x ∈ S.stack i, r.last + 1 ≤ x.first → r.pos < x.pos := by
            intro i x hx hle
            exact hmono m i r hrst x hx (by omega)
          have hrq : q < r.pos := hq m r hrst hkr
          have hrc : r.pos ≤ S.count := hbound m r hrst
          have := ih (r.last + 1) r.pos m' p' (matched || !r.use) o' hns' hq' (by omega) ho'
          simp only [afterSpec, this]

end C01
