import FiberModel.C01.Sim
/-
C01 — helper lemmas, part C: what `register`/`addRoute` build (`build`) corresponds to the list of
registrations (`Corr`), and the stack-level scan `linS` equals the specification `linearFrom`.
-/
set_option linter.unusedSimpArgs false
set_option linter.unusedVariables false
namespace C01
variable {π α : Type}

/-- well-formed registration: no method listed twice, at least one handler (router.go `register`
panics otherwise), ghost seam marks unset -/
structure WFReg (g : Reg α) : Prop where
  nodup : g.methods.Nodup
  hne : g.handlers ≠ []
  noseam : ∀ h ∈ g.handlers, h.seam = false

/-- `rs` is what `addRoute` makes of the registrations `gs` that list method `m` -/
inductive Corr (m : Nat) : List (Route α) → List (Reg α) → Prop
  | nil : Corr m [] []
  | skip {rs gs g} : m ∉ g.methods → Corr m rs gs → Corr m rs (g :: gs)
  | one {r rs g gs} : m ∈ g.methods → r.raw = g.raw → r.use = g.use → r.m = m →
      r.handlers = g.handlers → Corr m rs gs → Corr m (r :: rs) (g :: gs)
  | merged {r r' rs g gs} : m ∈ g.methods → r.raw = g.raw → r.use = g.use → r.m = m →
      r'.raw = g.raw → r'.use = g.use → r'.m = m →
      r.handlers = g.handlers ++ markSeam r'.handlers → Corr m (r' :: rs) gs → Corr m (r :: rs) (g :: gs)

/-! ### chains -/

theorem chainS_spec (E : Env π α) (r : Route α) (m : Nat) (hs : List (Handler α))
    (hns : ∀ h ∈ hs, h.seam = false) (p : π) (tr : List Nat) (e : ChainEnd π)
    (h : chainS E r m hs p = .ok (tr, e)) : specChain E hs m p = (tr, e) := by
  induction hs generalizing p tr e with
  | nil =>
    simp only [chainS, Except.ok.injEq, Prod.mk.injEq] at h
    obtain ⟨rfl, rfl⟩ := h
    rfl
  | cons h0 hs ih =>
    have hs0 : h0.seam = false := hns h0 List.mem_cons_self
    have hns' : ∀ h ∈ hs, h.seam = false := fun h hh => hns h (List.mem_cons_of_mem _ hh)
    simp only [chainS, hs0, Bool.false_and, Bool.false_eq_true, ↓reduceIte] at h
    simp only [specChain]
    cases hsc : h0.script with
    | stop => simp [hsc] at h; obtain ⟨rfl, rfl⟩ := h; rfl
    | fail c => simp [hsc] at h; obtain ⟨rfl, rfl⟩ := h; rfl
    | next =>
      simp only [hsc] at h
      cases hr : chainS E r m hs p with
      | error e' => simp [hr, Except.map] at h
      | ok x =>
        obtain ⟨tr1, e1⟩ := x
        simp only [hr, Except.map, Except.ok.injEq, Prod.mk.injEq] at h
        obtain ⟨rfl, rfl⟩ := h
        simp [ih hns' p tr1 e1 hr]
    | setPath o =>
      simp only [hsc] at h
      cases hr : chainS E r m hs ((E.setp p o).getD p) with
      | error e' => simp [hr, Except.map] at h
      | ok x =>
        obtain ⟨tr1, e1⟩ := x
        simp only [hr, Except.map, Except.ok.injEq, Prod.mk.injEq] at h
        obtain ⟨rfl, rfl⟩ := h
        simp [ih hns' _ tr1 e1 hr]
    | setMethod m2 =>
      simp only [hsc] at h
      by_cases hm : m2 = m
      · subst hm
        simp only [bne_self_eq_false, Bool.false_eq_true, ↓reduceIte] at h
        cases hr : chainS E r m2 hs p with
        | error e' => simp [hr, Except.map] at h
        | ok x =>
          obtain ⟨tr1, e1⟩ := x
          simp only [hr, Except.map, Except.ok.injEq, Prod.mk.injEq] at h
          obtain ⟨rfl, rfl⟩ := h
          simp [ih hns' _ tr1 e1 hr]
      · have : (m2 != m) = true := by simpa using hm
        simp [this] at h

theorem chainS_fall_method (E : Env π α) (r : Route α) (m : Nat) (hs : List (Handler α)) (p : π)
    (tr : List Nat) (m' : Nat) (p' : π) (c' : Nat)
    (hch : chainS E r m hs p = .ok (tr, .fall m' p' c')) : m' = m := by
  induction hs generalizing p tr with
  | nil => simp [chainS] at hch; exact hch.2.1.symm
  | cons h0 hs ihh =>
    simp only [chainS] at hch
    split at hch
    · cases hch
    · cases hsc : h0.script with
      | stop => simp [hsc] at hch
      | fail c => simp [hsc] at hch
      | next =>
        simp only [hsc] at hch
        cases hr : chainS E r m hs p with
        | error e' => simp [hr, Except.map] at hch
        | ok x =>
          obtain ⟨tr1, e1⟩ := x
          simp only [hr, Except.map, Except.ok.injEq, Prod.mk.injEq] at hch
          obtain ⟨_, rfl⟩ := hch
          exact ihh p tr1 hr
      | setPath o =>
        simp only [hsc] at hch
        cases hr : chainS E r m hs ((E.setp p o).getD p) with
        | error e' => simp [hr, Except.map] at hch
        | ok x =>
          obtain ⟨tr1, e1⟩ := x
          simp only [hr, Except.map, Except.ok.injEq, Prod.mk.injEq] at hch
          obtain ⟨_, rfl⟩ := hch
          exact ihh _ tr1 hr
      | setMethod m2 =>
        simp only [hsc] at hch
        split at hch
        · cases hch
        · cases hr : chainS E r m hs p with
          | error e' => simp [hr, Except.map] at hch
          | ok x =>
            obtain ⟨tr1, e1⟩ := x
            simp only [hr, Except.map, Except.ok.injEq, Prod.mk.injEq] at hch
            obtain ⟨_, rfl⟩ := hch
            exact ihh _ tr1 hr

/-- running `hs₁ ++ hs₂`: first `hs₁`, and when all of them called `Next`, `hs₂` -/
def thenChain (E : Env π α) (r : Route α) (m : Nat) (hs2 : List (Handler α)) :
    Except Known (List Nat × ChainEnd π) → Except Known (List Nat × ChainEnd π)
  | .error e => .error e
  | .ok (tr, .fall _ p' _) => (chainS E r m hs2 p').map fun x => (tr ++ x.1, x.2)
  | .ok (tr, e) => .ok (tr, e)

theorem thenChain_map (E : Env π α) (r : Route α) (m : Nat) (hs2 : List (Handler α)) (h : Nat)
    (x : Except Known (List Nat × ChainEnd π)) :
    thenChain E r m hs2 (x.map fun y => (h :: y.1, y.2)) =
      (thenChain E r m hs2 x).map fun y => (h :: y.1, y.2) := by
  cases x with
  | error e => rfl
  | ok y =>
    obtain ⟨tr, e⟩ := y
    cases e with
    | stop => rfl
    | fail c => rfl
    | fall m' p' c' =>
      simp only [Except.map, thenChain]
      cases chainS E r m hs2 p' <;> simp [Except.map]

theorem chainS_append (E : Env π α) (r : Route α) (m : Nat) (hs1 hs2 : List (Handler α)) (p : π) :
    chainS E r m (hs1 ++ hs2) p = thenChain E r m hs2 (chainS E r m hs1 p) := by
  induction hs1 generalizing p with
  | nil =>
    simp only [List.nil_append, chainS, thenChain]
    cases chainS E r m hs2 p with
    | error e => rfl
    | ok x => simp [Except.map]
  | cons h0 hs ih =>
    simp only [List.cons_append, chainS]
    split
    · rfl
    · cases hsc : h0.script with
      | stop => rfl
      | fail c => rfl
      | next => simp only; rw [ih, thenChain_map]
      | setPath o => simp only; rw [ih, thenChain_map]
      | setMethod m2 =>
        simp only
        split
        · rfl
        · rw [ih, thenChain_map]

theorem chainS_congr (E : Env π α) (r r' : Route α) (m : Nat) (hm : r.m = r'.m) (hraw : r.raw = r'.raw)
    (huse : r.use = r'.use) (hs : List (Handler α)) (p : π) : chainS E r m hs p = chainS E r' m hs p := by
  induction hs generalizing p with
  | nil => rfl
  | cons h0 hs ih =>
    have hmt : ∀ q, r.matches E q = r'.matches E q := by intro q; simp [Route.matches, hraw, huse]
    simp only [chainS, hm, hmt]
    split
    · rfl
    · split <;> simp only [ih]

theorem chainS_markSeam (E : Env π α) (r : Route α) (m : Nat) (h0 : Handler α) (t : List (Handler α)) (p : π)
    (hs0 : h0.seam = false) :
    chainS E r m (markSeam (h0 :: t)) p =
      if m == r.m && r.matches E p then chainS E r m (h0 :: t) p else .error .k2 := by
  simp only [markSeam, chainS, hs0, Bool.true_and, Bool.false_and, Bool.false_eq_true, ↓reduceIte]
  cases hc : (m == r.m && r.matches E p) <;> simp

theorem afterChain_map (k : Nat → π → Nat → Except Known Obs) (tr : List Nat)
    (x : Except Known (List Nat × ChainEnd π)) :
    afterChain k (x.map fun y => (tr ++ y.1, y.2)) = (afterChain k x).map (Obs.prepend tr) := by
  cases x with
  | error e => rfl
  | ok y =>
    obtain ⟨t, e⟩ := y
    cases e with
    | stop => simp [Except.map, afterChain, Obs.prepend]
    | fail c => simp [Except.map, afterChain, Obs.prepend]
    | fall m' p' c' =>
      simp only [Except.map, afterChain]
      cases k m' p' c' <;> simp [Except.map, Obs.prepend, List.append_assoc]

/-! ### Corr ⟹ linS = linearFrom -/

theorem corr_head (m : Nat) {r : Route α} {rs : List (Route α)} {gs : List (Reg α)}
    (hc : Corr m (r :: rs) gs) (hwf : ∀ g ∈ gs, WFReg g) :
    ∃ h t, r.handlers = h :: t ∧ h.seam = false := by
  generalize hrs : r :: rs = l at hc
  induction hc generalizing r rs with
  | nil => cases hrs
  | skip _ _ ih => exact ih (fun g hg => hwf g (List.mem_cons_of_mem _ hg)) hrs
  | @one r1 rs1 g gs1 hm hraw huse hrm hh _ _ =>
    simp only [List.cons.injEq] at hrs
    obtain ⟨rfl, rfl⟩ := hrs
    have w := hwf g List.mem_cons_self
    cases hg : g.handlers with
    | nil => exact absurd hg w.hne
    | cons h t => exact ⟨h, t, by rw [hh, hg], w.noseam h (by rw [hg]; exact List.mem_cons_self)⟩
  | @merged r1 r2 rs1 g gs1 hm hraw huse hrm _ _ _ hh _ _ =>
    simp only [List.cons.injEq] at hrs
    obtain ⟨rfl, rfl⟩ := hrs
    have w := hwf g List.mem_cons_self
    cases hg : g.handlers with
    | nil => exact absurd hg w.hne
    | cons h t => exact ⟨h, t ++ markSeam r2.handlers, by rw [hh, hg]; rfl, w.noseam h (by rw [hg]; exact List.mem_cons_self)⟩

theorem contains_eq_true_of_mem {l : List Nat} {m : Nat} (h : m ∈ l) : l.contains m = true := by
  simpa using h

theorem contains_eq_false_of_not_mem {l : List Nat} {m : Nat} (h : m ∉ l) : l.contains m = false := by
  simpa using h

theorem linS_linear (E : Env π α) (all : List (Reg α)) (m : Nat) (fin : π → Bool → End)
    (hfin : ∀ p matched, fin p matched = specEnding E all m p matched)
    {rs : List (Route α)} {gs : List (Reg α)} (hc : Corr m rs gs) (hwf : ∀ g ∈ gs, WFReg g) :
    ∀ (p : π) (matched : Bool) (o : Obs),
      linS E fin m rs p matched = .ok o → linearFrom E all gs m p matched = o := by
  induction hc with
  | nil =>
    intro p matched o h
    simp only [linS, Except.ok.injEq] at h
    subst h
    simp [linearFrom, hfin]
  | @skip rs gs g hm _ ih =>
    intro p matched o h
    simp only [linearFrom, contains_eq_false_of_not_mem hm, Bool.false_and, Bool.false_eq_true, ↓reduceIte]
    exact ih (fun g hg => hwf g (List.mem_cons_of_mem _ hg)) p matched o h
  | @one r rs g gs hm hraw huse hrm hh _ ih =>
    intro p matched o h
    have hwf' : ∀ g ∈ gs, WFReg g := fun g hg => hwf g (List.mem_cons_of_mem _ hg)
    have w := hwf g List.mem_cons_self
    have hmatch : r.matches E p = g.matches E p := by simp [Route.matches, Reg.matches, hraw, huse]
    simp only [linearFrom, contains_eq_true_of_mem hm, Bool.true_and]
    simp only [linS, hmatch] at h
    by_cases hg : g.matches E p = true
    · simp only [hg, ↓reduceIte] at h ⊢
      rw [hh] at h
      cases hch : chainS E r m g.handlers p with
      | error e => simp [hch, afterChain] at h
      | ok x =>
        obtain ⟨tr, e⟩ := x
        rw [chainS_spec E r m g.handlers w.noseam p tr e hch]
        rw [hch] at h
        cases e with
        | stop => simp only [afterChain, Except.ok.injEq] at h; exact h
        | fail c => simp only [afterChain, Except.ok.injEq] at h; exact h
        | fall m' p' c' =>
          simp only [afterChain] at h
          cases hl : linS E fin m rs p' (matched || !r.use) with
          | error e => simp [hl, Except.map] at h
          | ok o' =>
            simp only [hl, Except.map, Except.ok.injEq] at h
            subst h
            have hm' : m' = m := chainS_fall_method E r m g.handlers p tr m' p' c' hch
            subst hm'
            rw [huse] at hl
            simp only [ih hwf' p' _ o' hl]
    · have hg' : g.matches E p = false := by simpa using hg
      simp only [hg', Bool.false_eq_true, ↓reduceIte] at h ⊢
      exact ih hwf' p matched o h
  | @merged r r' rs g gs hm hraw huse hrm hraw' huse' hrm' hh hc' ih =>
    intro p matched o h
    have hwf' : ∀ g ∈ gs, WFReg g := fun g hg => hwf g (List.mem_cons_of_mem _ hg)
    have w := hwf g List.mem_cons_self
    have hmatch : ∀ q, r.matches E q = g.matches E q := by intro q; simp [Route.matches, Reg.matches, hraw, huse]
    have hmatch' : ∀ q, r'.matches E q = g.matches E q := by intro q; simp [Route.matches, Reg.matches, hraw', huse']
    simp only [linearFrom, contains_eq_true_of_mem hm, Bool.true_and]
    simp only [linS, hmatch] at h
    by_cases hg : g.matches E p = true
    · simp only [hg, ↓reduceIte] at h ⊢
      rw [hh, chainS_append] at h
      cases hch : chainS E r m g.handlers p with
      | error e => simp [hch, thenChain, afterChain] at h
      | ok x =>
        obtain ⟨tr, e⟩ := x
        rw [chainS_spec E r m g.handlers w.noseam p tr e hch]
        rw [hch] at h
        cases e with
        | stop => simp only [thenChain, afterChain, Except.ok.injEq] at h; exact h
        | fail c => simp only [thenChain, afterChain, Except.ok.injEq] at h; exact h
        | fall m' p' c' =>
          simp only [thenChain] at h
          obtain ⟨h0, t, hr't, hseam0⟩ := corr_head m hc' hwf'
          rw [hr't, chainS_markSeam E r m h0 t p' hseam0] at h
          by_cases hck : (m == r.m && r.matches E p') = true
          · simp only [hck, ↓reduceIte] at h
            rw [afterChain_map] at h
            -- the continuation is the scan of `r' :: rs`
            have hr'p : r'.matches E p' = true := by
              rw [hmatch', ← hmatch]; simp only [Bool.and_eq_true] at hck; exact hck.2
            have hcont : linS E fin m (r' :: rs) p' (matched || !g.use) =
                afterChain (fun _ p'' _ => linS E fin m rs p'' (matched || !r.use)) (chainS E r m (h0 :: t) p') := by
              simp only [linS, hr'p, ↓reduceIte]
              rw [hr't, chainS_congr E r' r m (by rw [hrm, hrm']) (by rw [hraw, hraw']) (by rw [huse, huse'])]
              congr 1
              funext _ p'' _
              rw [huse', huse]
              cases matched <;> cases g.use <;> rfl
            rw [← hcont] at h
            cases hl : linS E fin m (r' :: rs) p' (matched || !g.use) with
            | error e => simp [hl, Except.map] at h
            | ok o' =>
              simp only [hl, Except.map, Except.ok.injEq] at h
              subst h
              have hm' : m' = m := chainS_fall_method E r m g.handlers p tr m' p' c' hch
              subst hm'
              simp only [ih hwf' p' _ o' hl]
          · have hck' : (m == r.m && r.matches E p') = false := by simpa using hck
            simp [hck', Except.map, afterChain] at h
    · have hg' : g.matches E p = false := by simpa using hg
      simp only [hg', Bool.false_eq_true, ↓reduceIte] at h ⊢
      apply ih hwf' p matched o
      simp only [linS, hmatch', hg', Bool.false_eq_true, ↓reduceIte]
      exact h

end C01
