import FiberModel.C01.Main
/-
C01 — a sufficient condition under which no run reaches K1/K2: every method override is made by a
`Use` middleware filed in the global bucket (key 0: `app.Use(mw)` or a prefix shorter than 3 bytes), `Use`
registrations list every method (what `register` does), and `addRoute` merged nothing. Then the
rank-based cursor of `syncIndexRouteMethod` is the ideal one at every override, whatever precedes the
middleware in the two trees.
-/
set_option linter.unusedSimpArgs false
set_option linter.unusedVariables false
namespace C01
variable {π α : Type}

/-- `addRoute` merged nothing: every route holds the handlers of one registration -/
def NoMerge (E : Env π α) (S : Stacks α) : Prop := ∀ i, i < E.nMethods → ∀ r ∈ S.stack i, r.first = r.last

/-! ### list facts -/

theorem FSorted.partition (l : List (Route α)) (hf : FSorted l) (k : Nat) :
    l = l.filter (fun x => x.first < k) ++ l.filter (fun x => k ≤ x.first) := by
  induction l with
  | nil => rfl
  | cons x xs ih =>
    have hp := List.pairwise_cons.mp hf.1
    have hx1 := hf.2 x List.mem_cons_self
    by_cases hx : x.first < k
    · have hq : ¬ k ≤ x.first := by omega
      simp only [List.filter_cons, hx, decide_true, ↓reduceIte, hq, decide_false, Bool.false_eq_true,
        List.cons_append]
      congr 1
      exact ih hf.tail
    · have hall : ∀ y ∈ xs, k ≤ y.first := by
        intro y hy; have := hp.1 y hy; omega
      have h1 : xs.filter (fun x => x.first < k) = [] := by
        rw [List.filter_eq_nil_iff]; intro y hy; have := hall y hy; simp; omega
      have h2 : xs.filter (fun x => k ≤ x.first) = xs := by
        rw [List.filter_eq_self]; intro y hy; simpa using hall y hy
      have hq : k ≤ x.first := by omega
      simp [List.filter_cons, hx, hq, h1, h2]

theorem take_of_alignedK (l : List (Route α)) (hf : FSorted l) (cur k : Nat) (h : AlignedK l cur k) :
    l.take cur = l.filter (fun x => x.first < k) := by
  have h1 : l.take cur ++ l.drop cur = l := List.take_append_drop cur l
  have h2 := hf.partition l k
  rw [h] at h1
  have : l.take cur ++ l.filter (fun x => k ≤ x.first) =
      l.filter (fun x => x.first < k) ++ l.filter (fun x => k ≤ x.first) := by rw [h1, ← h2]
  exact List.append_cancel_right this

theorem countP_filter_first (l : List (Route α)) (q : Route α → Bool) (k : Nat) :
    (l.filter (fun x => x.first < k)).countP q = ((l.filter q).map (·.first)).countP (fun n => n < k) := by
  induction l with
  | nil => rfl
  | cons x xs ih =>
    by_cases h1 : x.first < k <;> by_cases h2 : q x = true <;>
      simp [List.filter_cons, h1, h2, List.countP_cons, ih]

/-- in a list ordered by registration index that holds a `Use` route created by registration `k`, the
second loop of `syncIndexRouteMethod`, given the number of `Use` routes up to `k`, stops behind that route -/
theorem afterNthUse_sibling (B : List (Route α)) (hf : FSorted B) (k : Nat)
    (hs : ∃ s ∈ B, s.use = true ∧ s.first = k) :
    afterNthUse B ((B.filter (fun x => x.first < k + 1)).countP (·.use)) =
      B.countP (fun x => x.first ≤ k) := by
  induction B with
  | nil => obtain ⟨s, hs, _⟩ := hs; cases hs
  | cons x xs ih =>
    obtain ⟨s, hsm, hsu, hsk⟩ := hs
    have hp := List.pairwise_cons.mp hf.1
    have hx1 := hf.2 x List.mem_cons_self
    by_cases hxk : x.first < k + 1
    · have hxle : x.first ≤ k := by omega
      rcases List.mem_cons.mp hsm with e | hsx
      · -- x is the sibling: nothing behind it is ≤ k
        subst e
        have hall : ∀ y ∈ xs, ¬ y.first < k + 1 := by
          intro y hy; have := hp.1 y hy; omega
        have h1 : xs.filter (fun x => x.first < k + 1) = [] := by
          rw [List.filter_eq_nil_iff]; intro y hy; simpa using hall y hy
        have h2 : xs.countP (fun x => x.first ≤ k) = 0 := by
          rw [List.countP_eq_zero]; intro y hy; have := hall y hy; simp; omega
        simp [List.filter_cons, hxk, h1, List.countP_cons, hsu, h2, hxle, afterNthUse]
      · have ih' := ih hf.tail ⟨s, hsx, hsu, hsk⟩
        have hpos : 1 ≤ xs.countP (fun x => x.first ≤ k) := by
          apply List.countP_pos_iff.mpr
          exact ⟨s, hsx, by simp; omega⟩
        by_cases hxu : x.use = true
        · simp only [List.filter_cons, hxk, decide_true, ↓reduceIte, List.countP_cons, hxu, hxle, afterNthUse]
          rw [ih']
          have : xs.countP (fun x => x.first ≤ k) ≠ 0 := by omega
          simp [this]
        · have hxu' : x.use = false := by simpa using hxu
          have hc : 1 ≤ (xs.filter (fun x => x.first < k + 1)).countP (·.use) := by
            apply List.countP_pos_iff.mpr
            exact ⟨s, List.mem_filter.mpr ⟨hsx, by simp; omega⟩, hsu⟩
          obtain ⟨n, hn⟩ : ∃ n, (xs.filter (fun x => x.first < k + 1)).countP (·.use) = n + 1 :=
            ⟨_, (Nat.sub_add_cancel hc).symm⟩
          simp only [List.filter_cons, hxk, decide_true, ↓reduceIte, List.countP_cons, hxu', hxle,
            Bool.false_eq_true, Nat.add_zero]
          rw [hn, afterNthUse]
          simp only [hxu', Bool.false_eq_true, ↓reduceIte]
          rw [← hn, ih']
          have : xs.countP (fun x => x.first ≤ k) ≠ 0 := by omega
          simp [this]
    · exfalso
      rcases List.mem_cons.mp hsm with e | hsx
      · subst e; omega
      · have := hp.1 s hsx; omega

/-! ### the `Use` routes of all method stacks correspond -/

/-- registration indices of the `Use` registrations whose key passes `f` -/
def useFirsts (f : Nat → Bool) : Nat → List (Reg α) → List Nat
  | _, [] => []
  | b, g :: gs => (if f g.key && g.use then [b] else []) ++ useFirsts f (b + 1) gs

theorem corrI_useFirsts (i : Nat) {b : Nat} {rs : List (Route α)} {gs : List (Reg α)} (hc : CorrI i b rs gs)
    (hnm : ∀ r ∈ rs, r.first = r.last) (hall : ∀ g ∈ gs, g.use = true → i ∈ g.methods) (f : Nat → Bool) :
    (rs.filter (fun r => f r.key && r.use)).map (·.first) = useFirsts f b gs := by
  induction hc with
  | nil => rfl
  | @skip b rs gs g hm _ ih =>
    have hgu : g.use = false := by
      cases hu : g.use with
      | false => rfl
      | true => exact absurd (hall g List.mem_cons_self hu) hm
    simp only [useFirsts, hgu, Bool.and_false, Bool.false_eq_true, ↓reduceIte, List.nil_append]
    exact ih hnm (fun g hg => hall g (List.mem_cons_of_mem _ hg))
  | @one b r rs g gs hm hraw huse hrm hh heo hfirst hlast hkey _ ih =>
    have ih' := ih (fun x hx => hnm x (List.mem_cons_of_mem _ hx)) (fun g hg => hall g (List.mem_cons_of_mem _ hg))
    simp only [useFirsts, List.filter_cons, hkey, huse]
    split <;> simp [ih', hfirst]
  | @merged b r r' rs g gs _ _ _ _ _ _ _ _ _ _ hfirst hlast _ hc' _ =>
    exfalso
    have h1 := hnm r List.mem_cons_self
    have h2 := corrI_bounds hc' r' List.mem_cons_self
    omega

theorem corrI_nomerge_mem (i : Nat) {b : Nat} {rs : List (Route α)} {gs : List (Reg α)} (hc : CorrI i b rs gs)
    (hnm : ∀ r ∈ rs, r.first = r.last) :
    ∀ r ∈ rs, ∃ g ∈ gs, r.handlers = g.handlers ∧ r.use = g.use ∧ r.key = g.key := by
  induction hc with
  | nil => intro r hr; cases hr
  | skip _ _ ih =>
    intro r hr
    obtain ⟨g, hg, h⟩ := ih hnm r hr
    exact ⟨g, List.mem_cons_of_mem _ hg, h⟩
  | @one b r0 rs g gs hm hraw huse hrm hh heo hfirst hlast hkey _ ih =>
    intro r hr
    rcases List.mem_cons.mp hr with e | hr'
    · subst e; exact ⟨g, List.mem_cons_self, hh, huse, hkey⟩
    · obtain ⟨g', hg', h⟩ := ih (fun x hx => hnm x (List.mem_cons_of_mem _ hx)) r hr'
      exact ⟨g', List.mem_cons_of_mem _ hg', h⟩
  | @merged b r0 r' rs g gs _ _ _ _ _ _ _ _ _ _ hfirst hlast _ hc' _ =>
    exfalso
    have h1 := hnm r0 List.mem_cons_self
    have h2 := corrI_bounds hc' r' List.mem_cons_self
    omega

/-! ### no check fires -/

/-- what the argument needs of the stacks -/
structure UseOK (E : Env π α) (S : Stacks α) : Prop where
  sorted : ∀ i, Sorted (S.stack i)
  fs : ∀ i, FSorted (S.stack i)
  own : ∀ i, ∀ r ∈ S.stack i, r.m = i
  nomerge : NoMerge E S
  noseam : ∀ i, i < E.nMethods → ∀ r ∈ S.stack i, ∀ h ∈ r.handlers, h.seam = false
  ov : ∀ i, i < E.nMethods → ∀ r ∈ S.stack i, ∀ h ∈ r.handlers, ∀ m', h.script = .setMethod m' →
    r.use = true ∧ r.key = 0 ∧ m' < E.nMethods
  uses : ∀ i j, i < E.nMethods → j < E.nMethods → ∀ f : Nat → Bool,
    ((S.stack i).filter (fun r => f r.key && r.use)).map (·.first) =
      ((S.stack j).filter (fun r => f r.key && r.use)).map (·.first)

theorem UseOK.sibling {E : Env π α} {S : Stacks α} (h : UseOK E S) (i j : Nat) (hi : i < E.nMethods)
    (hj : j < E.nMethods) (r : Route α) (hr : r ∈ S.stack i) (hu : r.use = true) :
    ∃ s ∈ S.stack j, s.use = true ∧ s.first = r.first ∧ s.key = r.key := by
  have := h.uses i j hi hj (fun k => k == r.key)
  have hmem : r.first ∈ ((S.stack i).filter (fun x => (x.key == r.key) && x.use)).map (·.first) :=
    List.mem_map.mpr ⟨r, List.mem_filter.mpr ⟨hr, by simp [hu]⟩, rfl⟩
  rw [this] at hmem
  obtain ⟨s, hs, hsf⟩ := List.mem_map.mp hmem
  have hs' := List.mem_filter.mp hs
  simp only [Bool.and_eq_true, beq_iff_eq] at hs'
  exact ⟨s, hs'.1, hs'.2.2, hsf, hs'.2.1⟩

/-- **The rank-based cursor is the ideal one** for a `Use` route of the global bucket on unmerged stacks -/
theorem methodCursor_not_misaligned (E : Env π α) (S : Stacks α) (h : UseOK E S) (r : Route α)
    (hrv : r.m < E.nMethods) (hr : r ∈ S.stack r.m) (hu : r.use = true) (hk : r.key = 0)
    (m1 m2 : Nat) (h1 : m1 < E.nMethods) (h2 : m2 < E.nMethods) (p : π) (cur : Nat)
    (hal : AlignedK (candidates E S m1 p) cur (r.last + 1)) :
    misaligned E S r m2 p (methodCursor E S r m1 m2 p cur) = false := by
  have hfl : r.first = r.last := h.nomerge r.m hrv r hr
  have hcf : ∀ m, FSorted (candidates E S m p) := fun m => by
    rw [candidates_eq E S m (h.sorted m) p]; exact (h.fs m).filter _
  -- the sibling in the new tree
  obtain ⟨s, hs, hsu, hsf, hsk⟩ := h.sibling r.m m2 hrv h2 r hr hu
  have hsc : s ∈ candidates E S m2 p := by
    rw [candidates_eq E S m2 (h.sorted m2) p, List.mem_filter]
    exact ⟨hs, by simp [hsk, hk]⟩
  -- the number of `Use` routes up to the current registration is the same in both trees
  have hrank : useRank (candidates E S m1 p) cur =
      ((candidates E S m2 p).filter (fun x => x.first < r.last + 1)).countP (·.use) := by
    unfold useRank
    rw [take_of_alignedK _ (hcf m1) cur _ hal, countP_filter_first, countP_filter_first]
    have e : ∀ m, ((candidates E S m p).filter (·.use)).map (·.first) =
        ((S.stack m).filter (fun r => (r.key == E.pkey p || r.key == 0) && r.use)).map (·.first) := by
      intro m
      rw [candidates_eq E S m (h.sorted m) p, List.filter_filter]
      congr 1
      apply List.filter_congr
      intro x _
      rw [Bool.and_comm]
    rw [e m1, e m2, h.uses m1 m2 h1 h2 (fun k => k == E.pkey p || k == 0)]
  unfold misaligned methodCursor idealCur
  simp only [hu, ↓reduceIte, hrank]
  rw [afterNthUse_sibling _ (hcf m2) r.last ⟨s, hsc, hsu, by rw [hsf, hfl]⟩]
  have hle := List.countP_le_length (p := fun x => decide (x.first ≤ r.last)) (l := candidates E S m2 p)
  simp [Nat.min_eq_left hle]

theorem not_straddles_of_nomerge (E : Env π α) (S : Stacks α) (hnm : NoMerge E S) (m k : Nat)
    (hm : m < E.nMethods) : straddles S m k = false := by
  unfold straddles
  rw [List.any_eq_false]
  intro x hx
  have := hnm m hm x hx
  simp; omega

/-- the handlers of a route never abort -/
theorem runChain_ok (E : Env π α) (S : Stacks α) (h : UseOK E S) (r : Route α)
    (hrv : r.m < E.nMethods) (hr : r ∈ S.stack r.m)
    (hownAl : ∀ q, AlignedK (candidates E S r.m q) (resync E S r.m q r.pos) (r.last + 1))
    (hs : List (Handler α)) (hsub : ∀ x ∈ hs, x ∈ r.handlers) :
    ∀ (m : Nat) (p : π) (cur : Nat), m < E.nMethods →
      (m = r.m ∨ (r.use = true ∧ r.key = 0)) →
      AlignedK (candidates E S m p) cur (r.last + 1) →
      ∃ x, runChain E S true r hs m p cur = .ok x ∧
        ∀ tr m' p' c', x = (tr, .fall m' p' c') → m' < E.nMethods := by
  have hcf : ∀ m p, FSorted (candidates E S m p) := fun m p => by
    rw [candidates_eq E S m (h.sorted m) p]; exact (h.fs m).filter _
  induction hs with
  | nil =>
    intro m p cur hm _ _
    refine ⟨_, rfl, ?_⟩
    intro tr m' p' c' he
    simp only [Prod.mk.injEq, ChainEnd.fall.injEq] at he
    omega
  | cons h0 hs ih =>
    intro m p cur hm hinv hal
    have ih' := ih (fun x hx => hsub x (List.mem_cons_of_mem _ hx))
    have h0mem : h0 ∈ r.handlers := hsub h0 List.mem_cons_self
    have hseam : h0.seam = false := h.noseam r.m hrv r hr h0 h0mem
    simp only [runChain, Bool.true_and, hseam, Bool.false_and, Bool.false_eq_true, ↓reduceIte]
    have lift : ∀ (m2 : Nat) (p2 : π) (c2 : Nat), m2 < E.nMethods → (m2 = r.m ∨ (r.use = true ∧ r.key = 0)) →
        AlignedK (candidates E S m2 p2) c2 (r.last + 1) →
        ∃ x, (runChain E S true r hs m2 p2 c2).map (fun x => (h0.hid :: x.1, x.2)) = .ok x ∧
          ∀ tr m' p' c', x = (tr, .fall m' p' c') → m' < E.nMethods := by
      intro m2 p2 c2 hm2 hinv2 hal2
      obtain ⟨x, hx, hv⟩ := ih' m2 p2 c2 hm2 hinv2 hal2
      refine ⟨(h0.hid :: x.1, x.2), by simp [hx, Except.map], ?_⟩
      intro tr m' p' c' he
      obtain ⟨t, e⟩ := x
      simp only [Prod.mk.injEq] at he
      exact hv t m' p' c' (by rw [he.2])
    cases hsc : h0.script with
    | stop => exact ⟨_, rfl, by intro tr m' p' c' he; simp at he⟩
    | fail c => exact ⟨_, rfl, by intro tr m' p' c' he; simp at he⟩
    | next => exact lift m p cur hm hinv hal
    | setPath o =>
      simp only
      cases hp : E.setp p o with
      | none => exact lift m p cur hm hinv hal
      | some p2 =>
        simp only
        by_cases hmr : m = r.m
        · subst hmr
          have hc : pathCursor E S r r.m p2 = resync E S r.m p2 r.pos := by simp [pathCursor]
          simp only [bne_self_eq_false, Bool.false_and, Bool.false_eq_true, ↓reduceIte, hc]
          exact lift r.m p2 _ hm hinv (hownAl p2)
        · have hne : (m != r.m) = true := by simpa using hmr
          have hur : r.use = true ∧ r.key = 0 := by
            rcases hinv with e | e
            · exact absurd e hmr
            · exact e
          have hb : (m == r.m) = false := by simpa using hmr
          have hc : pathCursor E S r m p2 = methodCursor E S r r.m m p2 (resync E S r.m p2 r.pos) := by
            simp [pathCursor, hb]
          have hmis := methodCursor_not_misaligned E S h r hrv hr hur.1 hur.2 r.m m hrv hm p2 _ (hownAl p2)
          rw [← hc] at hmis
          simp only [hne, hmis, Bool.and_false, Bool.false_eq_true, ↓reduceIte]
          exact lift m p2 _ hm hinv (alignedK_of_not_misaligned E S r m p2 _ (hcf m p2) hmis)
    | setMethod m2 =>
      simp only
      by_cases hmm : m2 = m
      · subst hmm
        simp only [beq_self_eq_true, ↓reduceIte]
        exact lift m2 p cur hm hinv hal
      · have hb : (m2 == m) = false := by simpa using hmm
        obtain ⟨hu, hk, hm2⟩ := h.ov r.m hrv r hr h0 h0mem m2 hsc
        have hmis := methodCursor_not_misaligned E S h r hrv hr hu hk m m2 hm hm2 p cur hal
        have hstr := not_straddles_of_nomerge E S h.nomerge m2 r.last hm2
        simp only [hb, Bool.false_eq_true, ↓reduceIte, hmis, hstr]
        exact lift m2 p _ hm2 (Or.inr ⟨hu, hk⟩) (alignedK_of_not_misaligned E S r m2 p _ (hcf m2 p) hmis)

/-- the instrumented run never aborts -/
theorem next_ok (E : Env π α) (S : Stacks α) (h : UseOK E S) :
    ∀ (fuel k m : Nat) (p : π) (cur : Nat) (matched : Bool), m < E.nMethods →
      AlignedK (candidates E S m p) cur k → ∃ o, next E S true fuel m p cur matched = .ok o := by
  have hcs : ∀ m p, Sorted (candidates E S m p) := fun m p => by
    rw [candidates_eq E S m (h.sorted m) p]; exact (h.sorted m).filter _
  have hcf : ∀ m p, FSorted (candidates E S m p) := fun m p => by
    rw [candidates_eq E S m (h.sorted m) p]; exact (h.fs m).filter _
  intro fuel
  induction fuel with
  | zero => intro k m p cur matched _ _; exact ⟨_, rfl⟩
  | succ fuel ih =>
    intro k m p cur matched hm hal
    rw [next_succ]
    cases hfr : findFrom (fun r => r.matches E p) (candidates E S m p) cur with
    | none => exact ⟨_, rfl⟩
    | some jr =>
      obtain ⟨j, r⟩ := jr
      simp only
      obtain ⟨pre, post, hdrop, hpre, hmatch, hpost⟩ := findFrom_some hfr
      have hrc : r ∈ candidates E S m p := by
        have : r ∈ (candidates E S m p).drop cur := by rw [hdrop]; simp
        exact List.mem_of_mem_drop this
      have hrst : r ∈ S.stack m := by
        rw [candidates_eq E S m (h.sorted m) p] at hrc; exact (List.mem_filter.mp hrc).1
      have hrm : r.m = m := h.own m r hrst
      have hconv : ∀ (q : π) (c : Nat), Aligned (candidates E S m q) c r.pos →
          AlignedK (candidates E S m q) c (r.last + 1) := by
        intro q c ha
        unfold AlignedK
        rw [ha]
        apply List.filter_congr
        intro x hx
        rw [candidates_eq E S m (h.sorted m) q] at hx
        have hxs : x ∈ S.stack m := (List.mem_filter.mp hx).1
        have := pos_first_iff (h.sorted m) (h.fs m) hrst hxs
        simp only [decide_eq_decide]
        exact this
      have hal' : Aligned (candidates E S m p) (j + 1) r.pos := by
        unfold Aligned
        rw [hpost]
        have hwhole : candidates E S m p = ((candidates E S m p).take cur ++ pre) ++ r :: post := by
          rw [List.append_assoc, ← hdrop, List.take_append_drop]
        have hso := hcs m p
        rw [hwhole] at hso
        have := Sorted.filter_gt_append hso
        rw [← hwhole] at this
        exact this.symm
      have hownAl : ∀ q, AlignedK (candidates E S r.m q) (resync E S r.m q r.pos) (r.last + 1) := by
        intro q
        rw [hrm]
        apply hconv
        exact (hcs m q).drop_countP _ r.pos
      obtain ⟨x, hx, hv⟩ := runChain_ok E S h r (by rw [hrm]; exact hm) (by rw [hrm]; exact hrst) hownAl
        r.handlers (fun x hx => hx) m p (j + 1) hm (Or.inl hrm.symm) (hconv p (j + 1) hal')
      rw [hx]
      obtain ⟨tr, e⟩ := x
      cases e with
      | stop => exact ⟨_, rfl⟩
      | fail c => exact ⟨_, rfl⟩
      | fall m' p' cur' =>
        have hm' := hv tr m' p' cur' rfl
        have hal2 := runChain_alignedK E S r hcf hownAl r.handlers m p (j + 1) tr m' p' cur'
          (hconv p (j + 1) hal') hx
        obtain ⟨o, ho⟩ := ih (r.last + 1) m' p' cur' (matched || !r.use) hm' hal2
        exact ⟨Obs.prepend tr o, by simp [afterChain, ho, Except.map]⟩

/-! ### the hypotheses on the table -/

/-- `Use` registrations list every request method (router.go `register`: `isUse` adds to all of them) -/
def UseAll (E : Env π α) (regs : List (Reg α)) : Prop :=
  ∀ g ∈ regs, g.use = true → ∀ i, i < E.nMethods → i ∈ g.methods

/-- every method override is made by a `Use` registration of the global bucket, to a valid method -/
def OverrideInUse (E : Env π α) (regs : List (Reg α)) : Prop :=
  ∀ g ∈ regs, ∀ h ∈ g.handlers, ∀ m', h.script = .setMethod m' → g.use = true ∧ g.key = 0 ∧ m' < E.nMethods

theorem useOK_build (E : Env π α) (regs : List (Reg α)) (hwf : WF regs) (hall : UseAll E regs)
    (hov : OverrideInUse E regs) (hnm : NoMerge E (build true regs)) : UseOK E (build true regs) := by
  have hinv := InvS.build true regs
  have hg := InvG.build true regs (fun g hg => (hwf g hg).nodup)
  have hmem := fun i (hi : i < E.nMethods) => corrI_nomerge_mem i (corr_build true regs hwf i) (hnm i hi)
  refine ⟨hinv.sorted, hg.fs, fun i r hr => (hinv.bound i r (mem_stack.mp hr)).2, hnm, ?_, ?_, ?_⟩
  · intro i hi r hr x hx
    obtain ⟨g, hgm, hh, _, _⟩ := hmem i hi r hr
    rw [hh] at hx
    exact (hwf g hgm).noseam x hx
  · intro i hi r hr x hx m' hsc
    obtain ⟨g, hgm, hh, hu, hk⟩ := hmem i hi r hr
    rw [hh] at hx
    obtain ⟨h1, h2, h3⟩ := hov g hgm x hx m' hsc
    exact ⟨by rw [hu, h1], by rw [hk, h2], h3⟩
  · intro i j hi hj f
    rw [corrI_useFirsts i (corr_build true regs hwf i) (hnm i hi) (fun g hg hu => hall g hg hu i hi) f,
      corrI_useFirsts j (corr_build true regs hwf j) (hnm j hj) (fun g hg hu => hall g hg hu j hj) f]

end C01
