import FiberModel.C01.Build
/-
C01 — helper lemmas, part E: assembling `dispatch = linear` (instrumented and plain runs).
-/
set_option linter.unusedSimpArgs false
set_option linter.unusedVariables false
namespace C01
variable {π α : Type}

/-- every registration of the table is well-formed -/
def WF (regs : List (Reg α)) : Prop := ∀ g ∈ regs, WFReg g

/-- **Locality** of the tree key w.r.t. the single-route matcher: a route that carries a non-zero
key only matches paths whose hash is that key. (For the real `Route.match` and the real key rule this is
`C02.match_locality` / `C02.match_same_bucket`; here it is a hypothesis on the abstract matcher.) -/
def LocalR (E : Env π α) (regs : List (Reg α)) : Prop :=
  ∀ g ∈ regs, ∀ p, g.key ≠ 0 → g.matches E p = true → g.key = E.pkey p

theorem mem_stack {S : Stacks α} {m : Nat} {r : Route α} : r ∈ S.stack m ↔ r ∈ S.rev m := by
  simp [Stacks.stack]

theorem local_build (E : Env π α) (merge : Bool) (regs : List (Reg α)) (hl : LocalR E regs) (m : Nat) :
    Local E ((build merge regs).stack m) := by
  intro r hr p hk hm
  obtain ⟨g, hg, h1, h2, h3⟩ := fromRegs_build merge regs m r (mem_stack.mp hr)
  have := hl g hg p (by rw [← h3]; exact hk) (by simpa [Route.matches, Reg.matches, h1, h2] using hm)
  rw [h3]; exact this

/-! ### positions are positive -/

def PosPos (S : Stacks α) : Prop := ∀ i, ∀ r ∈ S.rev i, 0 < r.pos

theorem PosPos.addRoute (merge : Bool) (S : Stacks α) (h : PosPos S) (m : Nat) (g : Reg α) :
    PosPos (addRoute merge S m g) := by
  intro i r hr
  rw [addRoute_rev] at hr
  by_cases hi : i = m
  · subst hi
    simp only [↓reduceIte] at hr
    cases hrev : S.rev i with
    | nil => rw [hrev] at hr; simp [pushRev, mkRoute] at hr; subst hr; simp
    | cons last rest =>
      rw [hrev] at hr
      simp only [pushRev] at hr
      split at hr
      · rcases List.mem_cons.mp hr with rfl | hr'
        · exact h i last (by rw [hrev]; exact List.mem_cons_self)
        · exact h i r (by rw [hrev]; exact List.mem_cons_of_mem _ hr')
      · rcases List.mem_cons.mp hr with rfl | hr'
        · simp [mkRoute]
        · exact h i r (by rw [hrev]; exact hr')
  · simp only [hi, ↓reduceIte] at hr; exact h i r hr

theorem posPos_build (merge : Bool) (regs : List (Reg α)) : PosPos (build merge regs) := by
  unfold C01.build
  have key : ∀ (gs : List (Reg α)) (S : Stacks α), PosPos S → PosPos (gs.foldl (addReg merge) S) := by
    intro gs
    induction gs with
    | nil => intro S h; exact h
    | cons g gs ih =>
      intro S h
      apply ih
      have : PosPos (foldReg merge S g) := by
        unfold C01.foldReg
        generalize g.methods = ms
        induction ms generalizing S with
        | nil => exact h
        | cons a ms ihm => exact ihm _ (h.addRoute merge S a g)
      exact this
  exact key regs _ (fun i r hr => by simp [Stacks.empty] at hr)

/-! ### 404 / 405 / Allow -/

theorem corr_any (m : Nat) {b : Nat} {rs : List (Route α)} {gs : List (Reg α)} (hc : CorrI m b rs gs)
    (f : Bytes → Bool → Bool) :
    (rs.any fun r => f r.raw r.use) = gs.any fun g => g.methods.contains m && f g.raw g.use := by
  induction hc with
  | nil => rfl
  | skip hm _ ih =>
    simp only [List.any_cons, contains_eq_false_of_not_mem hm, Bool.false_and, Bool.false_or]
    exact ih
  | one h1 h2 h3 _ _ _ _ _ _ _ ih =>
    simp only [List.any_cons, contains_eq_true_of_mem h1, Bool.true_and, h2, h3, ih]
  | merged h1 h2 h3 _ h5 h6 _ _ _ _ _ _ _ _ ih =>
    simp only [List.any_cons, contains_eq_true_of_mem h1, Bool.true_and, h2, h3] at ih ⊢
    rw [← ih, h5, h6]
    cases f _ _ <;> simp

theorem any_candidates (E : Env π α) (S : Stacks α) (i : Nat) (hs : Sorted (S.stack i))
    (hloc : Local E (S.stack i)) (p : π) :
    ((candidates E S i p).any fun r => !r.use && r.matches E p) =
      (S.stack i).any fun r => !r.use && r.matches E p := by
  rw [Bool.eq_iff_iff]
  simp only [List.any_eq_true, Bool.and_eq_true]
  constructor
  · rintro ⟨r, hr, h⟩
    rw [candidates_eq E S i hs p] at hr
    exact ⟨r, (List.mem_filter.mp hr).1, h⟩
  · rintro ⟨r, hr, h⟩
    exact ⟨r, mem_candidates_of_match E S i hs hloc p r hr h.2, h⟩

theorem allowOf_build (E : Env π α) (merge : Bool) (regs : List (Reg α)) (hwf : WF regs)
    (hl : LocalR E regs) (m : Nat) (p : π) :
    allowOf E (build merge regs) m p = specAllow E regs m p := by
  unfold allowOf specAllow
  apply List.filter_congr
  intro i _
  congr 1
  rw [any_candidates E _ i ((InvS.build merge regs).sorted i) (local_build E merge regs hl i) p]
  have := corr_any i (corr_build merge regs hwf i) (fun raw use => !use && E.M raw use p)
  simp only [Route.matches, Reg.matches] at this ⊢
  rw [this]
  congr 1
  funext g
  cases g.methods.contains i <;> simp

theorem ending_build (E : Env π α) (merge : Bool) (regs : List (Reg α)) (hwf : WF regs)
    (hl : LocalR E regs) (m : Nat) (p : π) (matched : Bool) :
    ending E (build merge regs) m p matched = specEnding E regs m p matched := by
  unfold ending specEnding
  rw [allowOf_build E merge regs hwf hl m p]

/-! ### the instrumented run equals the specification -/

/-- a routing pass from the top of the table (cursor −1) with any method, path and `matched` flag —
what `requestHandler` starts with `matched = false` and what `RestartRouting()` starts with the flag
the request has accumulated so far -/
theorem passS_linear (E : Env π α) (merge : Bool) (regs : List (Reg α)) (hwf : WF regs)
    (hl : LocalR E regs) (m : Nat) (p : π) (matched : Bool) (o : Obs)
    (h : next E (build merge regs) true (build merge regs).fuel m p 0 matched = .ok o) :
    o = linearFrom E regs regs m p matched := by
  have hinv := InvS.build merge regs
  have hg := InvG.build merge regs (fun g hg => (hwf g hg).nodup)
  have hpos : ∀ i, ∀ r ∈ (build merge regs).stack i, 0 < r.pos := fun i r hr =>
    posPos_build merge regs i r (mem_stack.mp hr)
  have hal : AlignedK (candidates E (build merge regs) m p) 0 0 := by
    unfold AlignedK
    rw [List.drop_zero]
    symm
    rw [List.filter_eq_self]
    intro r _; simp
  have hlin := next_imp_linM E (build merge regs) hinv.sorted hg.fs (fun i => local_build E merge regs hl i)
    (fun i r hr => (hinv.bound i r (mem_stack.mp hr)).2) _ 0 m p 0 matched o hal h
  have := linM_linear E (build merge regs) regs (ending E (build merge regs))
    (fun m p matched => ending_build E merge regs hwf hl m p matched) hwf
    (fun i => corr_build merge regs hwf i) hg.fs
    (fun i x hx => (hinv.bound i x (mem_stack.mp hx)).1)
    (fun i j x hx y hy => hg.mono i j x (mem_stack.mp hx) y (mem_stack.mp hy))
    (build merge regs).fuel 0 0 m p matched o
    (fun x _ hcon => by omega)
    (fun i x hx _ => hpos i x hx)
    (by simp [Stacks.fuel])
    hlin
  simpa using this.symm

theorem dispatchS_linear (E : Env π α) (merge : Bool) (regs : List (Reg α)) (hwf : WF regs)
    (hl : LocalR E regs) (m : Nat) (p : π) (o : Obs)
    (h : dispatchS E (build merge regs) true (build merge regs).fuel m p = .ok o) :
    o = linear E regs m p :=
  passS_linear E merge regs hwf hl m p false o h

/-! ### instrumentation only aborts -/

theorem runChain_chk (E : Env π α) (S : Stacks α) (r : Route α) (hs : List (Handler α)) (m : Nat) (p : π)
    (cur : Nat) (x : List Nat × ChainEnd π) (h : runChain E S true r hs m p cur = .ok x) :
    runChain E S false r hs m p cur = .ok x := by
  induction hs generalizing m p cur x with
  | nil => simpa [runChain] using h
  | cons h0 hs ih =>
    simp only [runChain, Bool.true_and] at h
    simp only [runChain, Bool.false_and, Bool.false_eq_true, ↓reduceIte]
    split at h
    · cases h
    · cases hsc : h0.script with
      | stop => simpa [hsc] using h
      | fail c => simpa [hsc] using h
      | next =>
        simp only [hsc] at h ⊢
        cases hr : runChain E S true r hs m p cur with
        | error e => simp [hr, Except.map] at h
        | ok y => rw [ih m p cur y hr]; rw [hr] at h; exact h
      | setPath o =>
        simp only [hsc] at h ⊢
        cases hp : E.setp p o with
        | none =>
          simp only [hp] at h ⊢
          cases hr : runChain E S true r hs m p cur with
          | error e => simp [hr, Except.map] at h
          | ok y => rw [ih m p cur y hr]; rw [hr] at h; exact h
        | some p2 =>
          simp only [hp] at h ⊢
          split at h
          · cases h
          · cases hr : runChain E S true r hs m p2 (pathCursor E S r m p2) with
            | error e => simp [hr, Except.map] at h
            | ok y => rw [ih m p2 _ y hr]; rw [hr] at h; exact h
      | setMethod m2 =>
        simp only [hsc] at h ⊢
        by_cases hm : (m2 == m) = true
        · simp only [hm, ↓reduceIte] at h ⊢
          cases hr : runChain E S true r hs m p cur with
          | error e => simp [hr, Except.map] at h
          | ok y => rw [ih m p cur y hr]; rw [hr] at h; exact h
        · simp only [hm, Bool.false_eq_true, ↓reduceIte] at h ⊢
          split at h
          · cases h
          · split at h
            · cases h
            · cases hr : runChain E S true r hs m2 p (methodCursor E S r m m2 p cur) with
              | error e => simp [hr, Except.map] at h
              | ok y => rw [ih m2 p _ y hr]; rw [hr] at h; exact h

theorem next_chk (E : Env π α) (S : Stacks α) (fuel m : Nat) (p : π) (cur : Nat) (matched : Bool) (o : Obs)
    (h : next E S true fuel m p cur matched = .ok o) : next E S false fuel m p cur matched = .ok o := by
  induction fuel generalizing m p cur matched o with
  | zero => simpa [next] using h
  | succ fuel ih =>
    rw [next_succ] at h ⊢
    cases hf : findFrom (fun r => r.matches E p) (candidates E S m p) cur with
    | none => simpa [hf] using h
    | some jr =>
      obtain ⟨j, r⟩ := jr
      simp only [hf] at h ⊢
      cases hr : runChain E S true r r.handlers m p (j + 1) with
      | error e => simp [hr, afterChain] at h
      | ok x =>
        rw [runChain_chk E S r r.handlers m p (j + 1) x hr]
        rw [hr] at h
        obtain ⟨tr, e⟩ := x
        cases e with
        | stop => exact h
        | fail c => exact h
        | fall m' p' cur' =>
          simp only [afterChain] at h ⊢
          cases hn : next E S true fuel m' p' cur' (matched || !r.use) with
          | error e => simp [hn, Except.map] at h
          | ok o' => rw [ih m' p' cur' _ o' hn]; rw [hn] at h; exact h

/-! ### override-free tables never hit the instrumentation -/

def Script.isOverride : Script α → Bool
  | .setPath _ => true
  | .setMethod _ => true
  | _ => false

/-- no handler of the table overrides the path or the method -/
def NoOverride (regs : List (Reg α)) : Prop :=
  ∀ g ∈ regs, ∀ h ∈ g.handlers, h.script.isOverride = false

def HandlersNoOv (S : Stacks α) : Prop :=
  ∀ i, ∀ r ∈ S.rev i, ∀ h ∈ r.handlers, h.script.isOverride = false

theorem mem_markSeam {hs : List (Handler α)} {h : Handler α} (hh : h ∈ markSeam hs) :
    ∃ h' ∈ hs, h.script = h'.script := by
  cases hs with
  | nil => cases hh
  | cons a t =>
    simp only [markSeam, List.mem_cons] at hh
    rcases hh with rfl | hh
    · exact ⟨a, List.mem_cons_self, rfl⟩
    · exact ⟨h, List.mem_cons_of_mem _ hh, rfl⟩

theorem HandlersNoOv.addRoute (merge : Bool) (S : Stacks α) (h : HandlersNoOv S) (m : Nat) (g : Reg α)
    (hg : ∀ h ∈ g.handlers, h.script.isOverride = false) : HandlersNoOv (addRoute merge S m g) := by
  intro i r hr
  rw [addRoute_rev] at hr
  by_cases hi : i = m
  · subst hi
    simp only [↓reduceIte] at hr
    cases hrev : S.rev i with
    | nil => rw [hrev] at hr; simp [pushRev, mkRoute] at hr; subst hr; exact hg
    | cons last rest =>
      rw [hrev] at hr
      simp only [pushRev] at hr
      split at hr
      · rcases List.mem_cons.mp hr with rfl | hr'
        · intro x hx
          simp only [List.mem_append] at hx
          rcases hx with hx | hx
          · exact h i last (by rw [hrev]; exact List.mem_cons_self) x hx
          · obtain ⟨x', hx', heq⟩ := mem_markSeam hx
            rw [heq]; exact hg x' hx'
        · exact h i r (by rw [hrev]; exact List.mem_cons_of_mem _ hr')
      · rcases List.mem_cons.mp hr with rfl | hr'
        · exact hg
        · exact h i r (by rw [hrev]; exact hr')
  · simp only [hi, ↓reduceIte] at hr; exact h i r hr

theorem handlersNoOv_build (merge : Bool) (regs : List (Reg α)) (hno : NoOverride regs) :
    HandlersNoOv (build merge regs) := by
  unfold C01.build
  have key : ∀ (gs : List (Reg α)) (S : Stacks α), HandlersNoOv S → (∀ g ∈ gs, g ∈ regs) →
      HandlersNoOv (gs.foldl (addReg merge) S) := by
    intro gs
    induction gs with
    | nil => intro S h _; exact h
    | cons g gs ih =>
      intro S h hsub
      apply ih _ _ (fun x hx => hsub x (List.mem_cons_of_mem _ hx))
      have hg := hno g (hsub g List.mem_cons_self)
      have : HandlersNoOv (foldReg merge S g) := by
        unfold C01.foldReg
        generalize g.methods = ms
        induction ms generalizing S with
        | nil => exact h
        | cons a ms ihm => exact ihm _ (h.addRoute merge S a g hg)
      exact this
  exact key regs _ (fun i r hr => by simp [Stacks.empty] at hr) (fun g hg => hg)

theorem runChain_noOv (E : Env π α) (S : Stacks α) (chk : Bool) (r : Route α) (hs : List (Handler α)) (m : Nat)
    (p : π) (cur : Nat) (hno : ∀ h ∈ hs, h.script.isOverride = false)
    (hck : (m == r.m && r.matches E p) = true) :
    runChain E S chk r hs m p cur = runChain E S false r hs m p cur ∧
    ∀ tr m' p' cur', runChain E S false r hs m p cur = .ok (tr, .fall m' p' cur') → m' = m ∧ p' = p ∧ cur' = cur := by
  induction hs with
  | nil =>
    refine ⟨by simp [runChain], ?_⟩
    intro tr m' p' cur' h
    simp only [runChain, Except.ok.injEq, Prod.mk.injEq, ChainEnd.fall.injEq] at h
    exact ⟨h.2.1.symm, h.2.2.1.symm, h.2.2.2.symm⟩
  | cons h0 hs ih =>
    have hno' : ∀ h ∈ hs, h.script.isOverride = false := fun h hh => hno h (List.mem_cons_of_mem _ hh)
    have h0no := hno h0 List.mem_cons_self
    obtain ⟨ih1, ih2⟩ := ih hno'
    simp only [runChain, hck, Bool.not_true, Bool.and_false, Bool.false_eq_true, ↓reduceIte]
    cases hsc : h0.script with
    | stop => exact ⟨rfl, by intro tr m' p' cur' h; simp at h⟩
    | fail c => exact ⟨rfl, by intro tr m' p' cur' h; simp at h⟩
    | next =>
      simp only
      refine ⟨by rw [ih1], ?_⟩
      intro tr m' p' cur' h
      cases hr : runChain E S false r hs m p cur with
      | error e => simp [hr, Except.map] at h
      | ok y =>
        obtain ⟨tr1, e1⟩ := y
        simp only [hr, Except.map, Except.ok.injEq, Prod.mk.injEq] at h
        obtain ⟨_, rfl⟩ := h
        exact ih2 tr1 m' p' cur' hr
    | setPath o => simp [hsc, Script.isOverride] at h0no
    | setMethod m2 => simp [hsc, Script.isOverride] at h0no

theorem next_noOv (E : Env π α) (S : Stacks α) (hinv : InvS S) (hno : HandlersNoOv S)
    (fuel m : Nat) (p : π) (cur : Nat) (matched : Bool) :
    next E S true fuel m p cur matched = next E S false fuel m p cur matched := by
  induction fuel generalizing cur matched with
  | zero => simp [next]
  | succ fuel ih =>
    rw [next_succ, next_succ]
    cases hf : findFrom (fun r => r.matches E p) (candidates E S m p) cur with
    | none => rfl
    | some jr =>
      obtain ⟨j, r⟩ := jr
      simp only
      obtain ⟨pre, post, hdrop, _, hmatch, _⟩ := findFrom_some hf
      have hrc : r ∈ candidates E S m p := by
        have : r ∈ (candidates E S m p).drop cur := by rw [hdrop]; simp
        exact List.mem_of_mem_drop this
      have hrs : r ∈ S.stack m := by
        rw [candidates_eq E S m (hinv.sorted m) p] at hrc; exact (List.mem_filter.mp hrc).1
      have hrm : r.m = m := (hinv.bound m r (mem_stack.mp hrs)).2
      have hck : (m == r.m && r.matches E p) = true := by simp [hrm, hmatch]
      obtain ⟨h1, h2⟩ := runChain_noOv E S true r r.handlers m p (j + 1)
        (hno m r (mem_stack.mp hrs)) hck
      rw [h1]
      cases hr : runChain E S false r r.handlers m p (j + 1) with
      | error e => rfl
      | ok x =>
        obtain ⟨tr, e⟩ := x
        cases e with
        | stop => rfl
        | fail c => rfl
        | fall m' p' cur' =>
          obtain ⟨rfl, rfl, rfl⟩ := h2 tr m' p' cur' hr
          simp only [afterChain]
          rw [ih]

/-! ### the plain model never aborts -/

theorem runChain_false_ok (E : Env π α) (S : Stacks α) (r : Route α) (hs : List (Handler α)) :
    ∀ m p cur, ∃ x, runChain E S false r hs m p cur = .ok x := by
  induction hs with
  | nil => intro m p cur; exact ⟨_, rfl⟩
  | cons h0 hs ihh =>
    intro m p cur
    simp only [runChain, Bool.false_and, Bool.false_eq_true, ↓reduceIte]
    cases h0.script with
    | stop => exact ⟨_, rfl⟩
    | fail c => exact ⟨_, rfl⟩
    | next =>
      obtain ⟨x, hx⟩ := ihh m p cur
      exact ⟨(h0.hid :: x.1, x.2), by simp [hx, Except.map]⟩
    | setPath o =>
      simp only
      cases E.setp p o with
      | none =>
        obtain ⟨x, hx⟩ := ihh m p cur
        exact ⟨(h0.hid :: x.1, x.2), by simp [hx, Except.map]⟩
      | some p2 =>
        obtain ⟨x, hx⟩ := ihh m p2 (pathCursor E S r m p2)
        exact ⟨(h0.hid :: x.1, x.2), by simp [hx, Except.map]⟩
    | setMethod m2 =>
      simp only
      split
      · obtain ⟨x, hx⟩ := ihh m p cur
        exact ⟨(h0.hid :: x.1, x.2), by simp [hx, Except.map]⟩
      · obtain ⟨x, hx⟩ := ihh m2 p (methodCursor E S r m m2 p cur)
        exact ⟨(h0.hid :: x.1, x.2), by simp [hx, Except.map]⟩

theorem next_false_ok (E : Env π α) (S : Stacks α) :
    ∀ fuel m p cur matched, ∃ o, next E S false fuel m p cur matched = .ok o := by
  intro fuel
  induction fuel with
  | zero => intro m p cur matched; exact ⟨_, rfl⟩
  | succ fuel ih =>
    intro m p cur matched
    rw [next_succ]
    cases findFrom (fun r => r.matches E p) (candidates E S m p) cur with
    | none => exact ⟨_, rfl⟩
    | some jr =>
      obtain ⟨j, r⟩ := jr
      simp only
      obtain ⟨x, hx⟩ := runChain_false_ok E S r r.handlers m p (j + 1)
      rw [hx]
      obtain ⟨tr, e⟩ := x
      cases e with
      | stop => exact ⟨_, rfl⟩
      | fail c => exact ⟨_, rfl⟩
      | fall m' p' cur' =>
        obtain ⟨o, ho⟩ := ih m' p' cur' (matched || !r.use)
        exact ⟨Obs.prepend tr o, by simp [afterChain, ho, Except.map]⟩

end C01
