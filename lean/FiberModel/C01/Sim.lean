import FiberModel.C01.Lemmas
/-
C01 — helper lemmas, part B: a run of the tree/cursor dispatcher (`next`, instrumented) that is not
aborted is a run of the scan of the method stacks by registration index (`linM`): no tree, no cursor.
-/
set_option linter.unusedSimpArgs false
set_option linter.unusedVariables false
namespace C01
variable {π α : Type}

/-! ### Except plumbing -/

theorem Except.map_map' {ε β γ δ : Type} (x : Except ε β) (f : β → γ) (g : γ → δ) :
    (x.map f).map g = x.map (fun a => g (f a)) := by
  cases x <;> rfl

def eraseCur : ChainEnd π → ChainEnd π
  | .fall m p _ => .fall m p 0
  | x => x

/-- what happens after the handlers of a route ended -/
def afterChain (k : Nat → π → Nat → Except Known Obs) :
    Except Known (List Nat × ChainEnd π) → Except Known Obs
  | .error e => .error e
  | .ok (tr, .stop) => .ok { trace := tr, fin := .stop }
  | .ok (tr, .fail c) => .ok { trace := tr, fin := .fail c }
  | .ok (tr, .fall m p cur) => (k m p cur).map (Obs.prepend tr)

theorem next_succ (E : Env π α) (S : Stacks α) (chk : Bool) (fuel m : Nat) (p : π) (cur : Nat) (matched : Bool) :
    next E S chk (fuel + 1) m p cur matched =
      match findFrom (fun r => r.matches E p) (candidates E S m p) cur with
      | none => .ok { trace := [], fin := ending E S m p matched }
      | some (j, r) =>
        afterChain (fun m' p' cur' => next E S chk fuel m' p' cur' (matched || !r.use))
          (runChain E S chk r r.handlers m p (j + 1)) := by
  simp only [next]
  cases findFrom (fun r => r.matches E p) (candidates E S m p) cur with
  | none => rfl
  | some jr =>
    obtain ⟨j, r⟩ := jr
    simp only
    cases runChain E S chk r r.handlers m p (j + 1) with
    | error e => rfl
    | ok x =>
      obtain ⟨tr, e⟩ := x
      cases e <;> rfl

/-! ### the stack-level scan (instrumented; follows method overrides into the other stacks) -/

/-- handlers of one route, no cursor. Aborts at a merge seam when the route stopped matching and at a
method override into a stack that holds a straddling route (both K2); never for cursor reasons. -/
def chainM (E : Env π α) (S : Stacks α) (r : Route α) :
    List (Handler α) → Nat → π → Except Known (List Nat × ChainEnd π)
  | [], m, p => .ok ([], .fall m p 0)
  | h :: hs, m, p =>
    if h.seam && !(m == r.m && r.matches E p) then .error .k2
    else
      match h.script with
      | .stop => .ok ([h.hid], .stop)
      | .fail c => .ok ([h.hid], .fail c)
      | .next => (chainM E S r hs m p).map fun x => (h.hid :: x.1, x.2)
      | .setPath o => (chainM E S r hs m ((E.setp p o).getD p)).map fun x => (h.hid :: x.1, x.2)
      | .setMethod m' =>
        if m' != m && straddles S m' r.last then .error .k2
        else (chainM E S r hs m' p).map fun x => (h.hid :: x.1, x.2)

/-- registration-order scan of the method stacks: with `k` registrations consumed, method `m` and path
`p`, the next route is the first matching one of `app.stack[m]` created by a registration `≥ k`; after
its handlers the scan goes on behind its last registration, in the stack of the method they left. -/
def linM (E : Env π α) (S : Stacks α) (fin : Nat → π → Bool → End) :
    Nat → Nat → Nat → π → Bool → Except Known Obs
  | 0, _, _, _, _ => .ok { trace := [], fin := .outOfFuel }
  | fuel + 1, k, m, p, matched =>
    match ((S.stack m).filter (fun x => k ≤ x.first)).find? (fun r => r.matches E p) with
    | none => .ok { trace := [], fin := fin m p matched }
    | some r =>
      afterChain (fun m' p' _ => linM E S fin fuel (r.last + 1) m' p' (matched || !r.use))
        (chainM E S r r.handlers m p)

theorem map_ok_inv {β γ : Type} {x : Except Known β} {f : β → γ} {y : γ} (h : x.map f = .ok y) :
    ∃ b, x = .ok b ∧ f b = y := by
  cases x with
  | error e => simp [Except.map] at h
  | ok b => exact ⟨b, rfl, by simpa [Except.map] using h⟩

theorem runChain_chainM (E : Env π α) (S : Stacks α) (r : Route α) (hs : List (Handler α)) (m : Nat)
    (p : π) (cur : Nat) (tr : List Nat) (e : ChainEnd π)
    (h : runChain E S true r hs m p cur = .ok (tr, e)) : chainM E S r hs m p = .ok (tr, eraseCur e) := by
  induction hs generalizing m p cur tr e with
  | nil =>
    simp only [runChain, Except.ok.injEq, Prod.mk.injEq] at h
    obtain ⟨rfl, rfl⟩ := h
    rfl
  | cons h0 hs ih =>
    simp only [runChain, Bool.true_and] at h
    simp only [chainM]
    split at h
    · cases h
    · rename_i hseam
      rw [if_neg hseam]
      cases hsc : h0.script with
      | stop => simp only [hsc, Except.ok.injEq, Prod.mk.injEq] at h; obtain ⟨rfl, rfl⟩ := h; rfl
      | fail c => simp only [hsc, Except.ok.injEq, Prod.mk.injEq] at h; obtain ⟨rfl, rfl⟩ := h; rfl
      | next =>
        simp only [hsc] at h
        obtain ⟨⟨tr1, e1⟩, hr, heq⟩ := map_ok_inv h
        simp only [Prod.mk.injEq] at heq
        obtain ⟨rfl, rfl⟩ := heq
        simp [ih m p cur tr1 e1 hr, Except.map]
      | setPath o =>
        simp only [hsc] at h
        cases hp : E.setp p o with
        | none =>
          simp only [hp] at h
          obtain ⟨⟨tr1, e1⟩, hr, heq⟩ := map_ok_inv h
          simp only [Prod.mk.injEq] at heq
          obtain ⟨rfl, rfl⟩ := heq
          simp [ih m p cur tr1 e1 hr, Except.map, hp]
        | some p2 =>
          simp only [hp] at h
          split at h
          · cases h
          · obtain ⟨⟨tr1, e1⟩, hr, heq⟩ := map_ok_inv h
            simp only [Prod.mk.injEq] at heq
            obtain ⟨rfl, rfl⟩ := heq
            simp [ih m p2 _ tr1 e1 hr, Except.map, hp]
      | setMethod m2 =>
        simp only [hsc] at h
        by_cases hm : m2 = m
        · subst hm
          simp only [beq_self_eq_true, ↓reduceIte] at h
          obtain ⟨⟨tr1, e1⟩, hr, heq⟩ := map_ok_inv h
          simp only [Prod.mk.injEq] at heq
          obtain ⟨rfl, rfl⟩ := heq
          simp [ih m2 p cur tr1 e1 hr, Except.map]
        · have hb : (m2 == m) = false := by simpa using hm
          simp only [hb, Bool.false_eq_true, ↓reduceIte] at h
          split at h
          · cases h
          · split at h
            · cases h
            · rename_i hstr
              obtain ⟨⟨tr1, e1⟩, hr, heq⟩ := map_ok_inv h
              simp only [Prod.mk.injEq] at heq
              obtain ⟨rfl, rfl⟩ := heq
              have hstr' : straddles S m2 r.last = false := by simpa using hstr
              simp [ih m2 p _ tr1 e1 hr, Except.map, hstr']

/-- after its handlers fell through, the method is the one the chain started with or one whose stack
was checked for straddling routes -/
theorem chainM_fall (E : Env π α) (S : Stacks α) (r : Route α) (hs : List (Handler α)) (m : Nat) (p : π)
    (tr : List Nat) (m' : Nat) (p' : π) (c' : Nat)
    (h : chainM E S r hs m p = .ok (tr, .fall m' p' c')) : m' = m ∨ straddles S m' r.last = false := by
  induction hs generalizing m p tr with
  | nil =>
    simp only [chainM, Except.ok.injEq, Prod.mk.injEq, ChainEnd.fall.injEq] at h
    exact Or.inl h.2.1.symm
  | cons h0 hs ih =>
    simp only [chainM] at h
    split at h
    · cases h
    · cases hsc : h0.script with
      | stop => simp [hsc] at h
      | fail c => simp [hsc] at h
      | next =>
        simp only [hsc] at h
        obtain ⟨⟨tr1, e1⟩, hr, heq⟩ := map_ok_inv h
        simp only [Prod.mk.injEq] at heq
        obtain ⟨_, rfl⟩ := heq
        exact ih m p tr1 hr
      | setPath o =>
        simp only [hsc] at h
        obtain ⟨⟨tr1, e1⟩, hr, heq⟩ := map_ok_inv h
        simp only [Prod.mk.injEq] at heq
        obtain ⟨_, rfl⟩ := heq
        exact ih m _ tr1 hr
      | setMethod m2 =>
        simp only [hsc] at h
        split at h
        · cases h
        · rename_i hck
          obtain ⟨⟨tr1, e1⟩, hr, heq⟩ := map_ok_inv h
          simp only [Prod.mk.injEq] at heq
          obtain ⟨_, rfl⟩ := heq
          rcases ih m2 p tr1 hr with h1 | h1
          · subst h1
            by_cases hm : m' = m
            · exact Or.inl hm
            · right
              have : (m' != m) = true := by simpa using hm
              simpa [this] using hck
          · exact Or.inr h1

/-- the cursor is aligned with the position `q`: what is left to scan is what lies behind `q` -/
def Aligned (l : List (Route α)) (cur q : Nat) : Prop := l.drop cur = l.filter (fun x => q < x.pos)

/-- the cursor is aligned with registration index `k`: what is left to scan are the candidates created
by registrations `≥ k` -/
def AlignedK (l : List (Route α)) (cur k : Nat) : Prop := l.drop cur = l.filter (fun x => k ≤ x.first)

theorem alignedK_of_not_misaligned (E : Env π α) (S : Stacks α) (r : Route α) (m : Nat) (p : π) (cur : Nat)
    (hf : FSorted (candidates E S m p)) (h : misaligned E S r m p cur = false) :
    AlignedK (candidates E S m p) cur (r.last + 1) := by
  unfold misaligned idealCur at h
  have h' : min cur (candidates E S m p).length = (candidates E S m p).countP (fun x => x.first ≤ r.last) := by
    simpa using h
  unfold AlignedK
  rw [← drop_min_length, h']
  exact hf.drop_countP _ r.last

theorem runChain_alignedK (E : Env π α) (S : Stacks α) (r : Route α)
    (hfs : ∀ m p, FSorted (candidates E S m p))
    (hown : ∀ p, AlignedK (candidates E S r.m p) (resync E S r.m p r.pos) (r.last + 1))
    (hs : List (Handler α)) (m : Nat) (p : π) (cur : Nat) (tr : List Nat) (m' : Nat) (p' : π) (cur' : Nat)
    (hal : AlignedK (candidates E S m p) cur (r.last + 1))
    (h : runChain E S true r hs m p cur = .ok (tr, .fall m' p' cur')) :
    AlignedK (candidates E S m' p') cur' (r.last + 1) := by
  induction hs generalizing m p cur tr with
  | nil =>
    simp only [runChain, Except.ok.injEq, Prod.mk.injEq, ChainEnd.fall.injEq] at h
    obtain ⟨_, rfl, rfl, rfl⟩ := h
    exact hal
  | cons h0 hs ih =>
    simp only [runChain, Bool.true_and] at h
    split at h
    · cases h
    · cases hsc : h0.script with
      | stop => simp [hsc] at h
      | fail c => simp [hsc] at h
      | next =>
        simp only [hsc] at h
        obtain ⟨⟨tr1, e1⟩, hr, heq⟩ := map_ok_inv h
        simp only [Prod.mk.injEq] at heq
        obtain ⟨_, rfl⟩ := heq
        exact ih m p cur tr1 hal hr
      | setPath o =>
        simp only [hsc] at h
        cases hp : E.setp p o with
        | none =>
          simp only [hp] at h
          obtain ⟨⟨tr1, e1⟩, hr, heq⟩ := map_ok_inv h
          simp only [Prod.mk.injEq] at heq
          obtain ⟨_, rfl⟩ := heq
          exact ih m p cur tr1 hal hr
        | some p2 =>
          simp only [hp] at h
          split at h
          · cases h
          · rename_i hck
            obtain ⟨⟨tr1, e1⟩, hr, heq⟩ := map_ok_inv h
            simp only [Prod.mk.injEq] at heq
            obtain ⟨_, rfl⟩ := heq
            refine ih m p2 _ tr1 ?_ hr
            by_cases hm : m = r.m
            · subst hm
              have : pathCursor E S r r.m p2 = resync E S r.m p2 r.pos := by simp [pathCursor]
              rw [this]; exact hown p2
            · have hne : (m != r.m) = true := by simpa using hm
              apply alignedK_of_not_misaligned E S r m p2 _ (hfs m p2)
              simpa [hne] using hck
      | setMethod m2 =>
        simp only [hsc] at h
        by_cases hm : m2 = m
        · subst hm
          simp only [beq_self_eq_true, ↓reduceIte] at h
          obtain ⟨⟨tr1, e1⟩, hr, heq⟩ := map_ok_inv h
          simp only [Prod.mk.injEq] at heq
          obtain ⟨_, rfl⟩ := heq
          exact ih m2 p cur tr1 hal hr
        · have hb : (m2 == m) = false := by simpa using hm
          simp only [hb, Bool.false_eq_true, ↓reduceIte] at h
          split at h
          · cases h
          · rename_i hck
            split at h
            · cases h
            · obtain ⟨⟨tr1, e1⟩, hr, heq⟩ := map_ok_inv h
              simp only [Prod.mk.injEq] at heq
              obtain ⟨_, rfl⟩ := heq
              refine ih m2 p _ tr1 ?_ hr
              apply alignedK_of_not_misaligned E S r m2 p _ (hfs m2 p)
              simpa using hck

/-- locality of the index for one method stack -/
def Local (E : Env π α) (st : List (Route α)) : Prop :=
  ∀ r ∈ st, ∀ p, r.key ≠ 0 → r.matches E p = true → r.key = E.pkey p

theorem candidates_eq (E : Env π α) (S : Stacks α) (m : Nat) (hs : Sorted (S.stack m)) (p : π) :
    candidates E S m p = (S.stack m).filter (fun r => r.key == E.pkey p || r.key == 0) := by
  unfold candidates Stacks.tree
  exact lookup_buildTree _ hs _

theorem mem_candidates_of_match (E : Env π α) (S : Stacks α) (m : Nat) (hs : Sorted (S.stack m))
    (hloc : Local E (S.stack m)) (p : π) (x : Route α) (hx : x ∈ S.stack m) (hm : x.matches E p = true) :
    x ∈ candidates E S m p := by
  rw [candidates_eq E S m hs p, List.mem_filter]
  refine ⟨hx, ?_⟩
  by_cases h0 : x.key = 0
  · simp [h0]
  · simp [hloc x hx p h0 hm]

/-- **Index transparency for the whole run** (instrumented, all methods): a run of the tree + numeric
cursor dispatcher that the instrumentation lets through is the run of the scan of the method stacks by
registration index. -/
theorem next_imp_linM (E : Env π α) (S : Stacks α) (hs : ∀ i, Sorted (S.stack i))
    (hf : ∀ i, FSorted (S.stack i)) (hloc : ∀ i, Local E (S.stack i))
    (hown : ∀ i, ∀ r ∈ S.stack i, r.m = i) :
    ∀ (fuel k m : Nat) (p : π) (cur : Nat) (matched : Bool) (o : Obs),
      AlignedK (candidates E S m p) cur k →
      next E S true fuel m p cur matched = .ok o →
      linM E S (ending E S) fuel k m p matched = .ok o := by
  have hcs : ∀ m p, Sorted (candidates E S m p) := fun m p => by
    rw [candidates_eq E S m (hs m) p]; exact (hs m).filter _
  have hcf : ∀ m p, FSorted (candidates E S m p) := fun m p => by
    rw [candidates_eq E S m (hs m) p]; exact (hf m).filter _
  intro fuel
  induction fuel with
  | zero =>
    intro k m p cur matched o _ h
    simpa [next, linM] using h
  | succ fuel ih =>
    intro k m p cur matched o hal h
    rw [next_succ] at h
    simp only [linM]
    -- matching routes of the stack behind k are candidates behind k
    have hfind : ((S.stack m).filter (fun x => k ≤ x.first)).find? (fun r => r.matches E p) =
        ((candidates E S m p).drop cur).find? (fun r => r.matches E p) := by
      rw [hal, candidates_eq E S m (hs m) p, List.filter_filter]
      rw [show (S.stack m).filter (fun a => (decide (k ≤ a.first)) && (a.key == E.pkey p || a.key == 0)) =
            ((S.stack m).filter (fun x => k ≤ x.first)).filter (fun a => a.key == E.pkey p || a.key == 0) by
          rw [List.filter_filter]; apply List.filter_congr; intro x _; rw [Bool.and_comm]]
      symm
      apply find?_filter_of_imp
      intro x hx hm
      have hxs : x ∈ S.stack m := (List.mem_filter.mp hx).1
      by_cases h0 : x.key = 0
      · simp [h0]
      · simp [hloc m x hxs p h0 hm]
    rw [hfind]
    cases hfr : findFrom (fun r => r.matches E p) (candidates E S m p) cur with
    | none =>
      simp only [hfr] at h
      have h0 := findFrom_none hfr
      have : ((candidates E S m p).drop cur).find? (fun r => r.matches E p) = none := by
        rw [List.find?_eq_none]
        intro x hx hm
        have : x ∈ ((candidates E S m p).drop cur).filter (fun r => r.matches E p) :=
          List.mem_filter.mpr ⟨hx, hm⟩
        rw [h0] at this; cases this
      rw [this]
      exact h
    | some jr =>
      obtain ⟨j, r⟩ := jr
      simp only [hfr] at h
      obtain ⟨pre, post, hdrop, hpre, hmatch, hpost⟩ := findFrom_some hfr
      rw [find?_of_split hdrop hpre hmatch]
      simp only
      -- r belongs to the stack of m
      have hrc : r ∈ candidates E S m p := by
        have : r ∈ (candidates E S m p).drop cur := by rw [hdrop]; simp
        exact List.mem_of_mem_drop this
      have hrst : r ∈ S.stack m := by
        rw [candidates_eq E S m (hs m) p] at hrc; exact (List.mem_filter.mp hrc).1
      -- position-based alignment in r's own stack is alignment by registration index
      have hconv : ∀ (q : π) (c : Nat), Aligned (candidates E S m q) c r.pos →
          AlignedK (candidates E S m q) c (r.last + 1) := by
        intro q c ha
        unfold AlignedK
        rw [ha]
        apply List.filter_congr
        intro x hx
        rw [candidates_eq E S m (hs m) q] at hx
        have hxs : x ∈ S.stack m := (List.mem_filter.mp hx).1
        have := pos_first_iff (hs m) (hf m) hrst hxs
        simp only [decide_eq_decide]
        exact this
      have hal' : Aligned (candidates E S m p) (j + 1) r.pos := by
        unfold Aligned
        rw [hpost]
        have hwhole : candidates E S m p = ((candidates E S m p).take cur ++ pre) ++ r :: post := by
          rw [List.append_assoc, ← hdrop, List.take_append_drop]
        have hso := hcs m p
        rw [hwhole] at hso
        have := Sorted.filter_gt_append hso
        rw [← hwhole] at this
        exact this.symm
      cases hrun : runChain E S true r r.handlers m p (j + 1) with
      | error e => simp [hrun, afterChain] at h
      | ok x =>
        obtain ⟨tr, e⟩ := x
        rw [hrun] at h
        rw [runChain_chainM E S r r.handlers m p (j + 1) tr e hrun]
        cases e with
        | stop => simpa [afterChain, eraseCur] using h
        | fail c => simpa [afterChain, eraseCur] using h
        | fall m' p' cur' =>
          simp only [afterChain, eraseCur] at h ⊢
          obtain ⟨o', ho', heq⟩ := map_ok_inv h
          subst heq
          have hrm : r.m = m := hown m r hrst
          have hal2 : AlignedK (candidates E S m' p') cur' (r.last + 1) := by
            apply runChain_alignedK E S r hcf ?_ r.handlers m p (j + 1) tr m' p' cur' (hconv p (j + 1) hal') hrun
            intro q
            rw [hrm]
            apply hconv
            exact (hcs m q).drop_countP _ r.pos
          rw [ih (r.last + 1) m' p' cur' _ o' hal2 ho']
          rfl

end C01
