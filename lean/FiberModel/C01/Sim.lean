import FiberModel.C01.Lemmas
/-
C01 — helper lemmas, part B: the tree/cursor dispatcher (`next`, instrumented) equals a linear scan
of the method's stack (`linS`).
-/
set_option linter.unusedSimpArgs false
set_option linter.unusedVariables false
namespace C01
variable {π α : Type}

/-! ### Except plumbing -/

theorem Except.map_map' {ε β γ δ : Type} (x : Except ε β) (f : β → γ) (g : γ → δ) :
    (x.map f).map g = x.map (fun a => g (f a)) := by
  cases x <;> rfl

def eraseCur : ChainEnd π → ChainEnd π
  | .fall m p _ => .fall m p 0
  | x => x

/-- what happens after the handlers of a route ended -/
def afterChain (k : Nat → π → Nat → Except Known Obs) :
    Except Known (List Nat × ChainEnd π) → Except Known Obs
  | .error e => .error e
  | .ok (tr, .stop) => .ok { trace := tr, fin := .stop }
  | .ok (tr, .fail c) => .ok { trace := tr, fin := .fail c }
  | .ok (tr, .fall m p cur) => (k m p cur).map (Obs.prepend tr)

theorem next_succ (E : Env π α) (S : Stacks α) (chk : Bool) (fuel m : Nat) (p : π) (cur : Nat) (matched : Bool) :
    next E S chk (fuel + 1) m p cur matched =
      match findFrom (fun r => r.matches E p) (candidates E S m p) cur with
      | none => .ok { trace := [], fin := ending E S m p matched }
      | some (j, r) =>
        afterChain (fun m' p' cur' => next E S chk fuel m' p' cur' (matched || !r.use))
          (runChain E S chk r r.handlers m p (j + 1)) := by
  simp only [next]
  cases findFrom (fun r => r.matches E p) (candidates E S m p) cur with
  | none => rfl
  | some jr =>
    obtain ⟨j, r⟩ := jr
    simp only
    cases runChain E S chk r r.handlers m p (j + 1) with
    | error e => rfl
    | ok x =>
      obtain ⟨tr, e⟩ := x
      cases e <;> rfl

/-! ### the stack-level linear scan (instrumented, one method) -/

/-- handlers of one route, no cursor; aborts exactly where `runChain … chk := true` aborts -/
def chainS (E : Env π α) (r : Route α) (m : Nat) : List (Handler α) → π → Except Known (List Nat × ChainEnd π)
  | [], p => .ok ([], .fall m p 0)
  | h :: hs, p =>
    if h.seam && !(m == r.m && r.matches E p) then .error .k2
    else
      match h.script with
      | .stop => .ok ([h.hid], .stop)
      | .fail c => .ok ([h.hid], .fail c)
      | .next => (chainS E r m hs p).map fun x => (h.hid :: x.1, x.2)
      | .setPath o => (chainS E r m hs ((E.setp p o).getD p)).map fun x => (h.hid :: x.1, x.2)
      | .setMethod m' =>
        if m' != m then .error .k1 else (chainS E r m hs p).map fun x => (h.hid :: x.1, x.2)

/-- registration-order scan of one method's stack -/
def linS (E : Env π α) (fin : π → Bool → End) (m : Nat) : List (Route α) → π → Bool → Except Known Obs
  | [], p, matched => .ok { trace := [], fin := fin p matched }
  | r :: rest, p, matched =>
    if r.matches E p then
      afterChain (fun _ p' _ => linS E fin m rest p' (matched || !r.use)) (chainS E r m r.handlers p)
    else linS E fin m rest p matched

theorem runChain_chainS (E : Env π α) (S : Stacks α) (r : Route α) (m : Nat) (hs : List (Handler α))
    (p : π) (cur : Nat) :
    (runChain E S true r hs m p cur).map (fun x => (x.1, eraseCur x.2)) = chainS E r m hs p := by
  induction hs generalizing p cur with
  | nil => simp [runChain, chainS, Except.map, eraseCur]
  | cons h hs ih =>
    simp only [runChain, chainS, Bool.true_and]
    split
    · rfl
    · cases hsc : h.script with
      | stop => simp [Except.map, eraseCur]
      | fail c => simp [Except.map, eraseCur]
      | next =>
        simp only
        rw [Except.map_map', ← ih p cur, Except.map_map']
      | setPath o =>
        simp only
        cases hp : E.setp p o with
        | none =>
          simp only [Option.getD_none]
          rw [Except.map_map', ← ih p cur, Except.map_map']
        | some p' =>
          simp only [Option.getD_some]
          rw [Except.map_map', ← ih p' _, Except.map_map']
      | setMethod m' =>
        simp only
        by_cases hm : m' = m
        · subst hm
          simp only [bne_self_eq_false, Bool.false_eq_true, ↓reduceIte]
          rw [Except.map_map', ← ih p cur, Except.map_map']
        · have : (m' != m) = true := by simpa using hm
          simp [this, Except.map]

/-- the cursor is aligned with the position `q`: what is left to scan is what lies behind `q` -/
def Aligned (l : List (Route α)) (cur q : Nat) : Prop := l.drop cur = l.filter (fun x => q < x.pos)

theorem runChain_aligned (E : Env π α) (S : Stacks α) (r : Route α) (m : Nat)
    (hsorted : ∀ p, Sorted (candidates E S m p))
    (hs : List (Handler α)) (p : π) (cur : Nat) (tr : List Nat) (m' : Nat) (p' : π) (cur' : Nat)
    (hal : Aligned (candidates E S m p) cur r.pos)
    (h : runChain E S true r hs m p cur = .ok (tr, .fall m' p' cur')) :
    m' = m ∧ Aligned (candidates E S m p') cur' r.pos := by
  induction hs generalizing p cur tr with
  | nil =>
    simp only [runChain, Except.ok.injEq, Prod.mk.injEq, ChainEnd.fall.injEq] at h
    obtain ⟨_, rfl, rfl, rfl⟩ := h
    exact ⟨rfl, hal⟩
  | cons h0 hs ih =>
    simp only [runChain, Bool.true_and] at h
    split at h
    · cases h
    · cases hsc : h0.script with
      | stop => simp [hsc] at h
      | fail c => simp [hsc] at h
      | next =>
        simp only [hsc] at h
        cases hr : runChain E S true r hs m p cur with
        | error e => simp [hr, Except.map] at h
        | ok x =>
          obtain ⟨tr1, e1⟩ := x
          simp only [hr, Except.map, Except.ok.injEq, Prod.mk.injEq] at h
          obtain ⟨_, rfl⟩ := h
          exact ih p cur tr1 hal hr
      | setPath o =>
        simp only [hsc] at h
        cases hp : E.setp p o with
        | none =>
          simp only [hp] at h
          cases hr : runChain E S true r hs m p cur with
          | error e => simp [hr, Except.map] at h
          | ok x =>
            obtain ⟨tr1, e1⟩ := x
            simp only [hr, Except.map, Except.ok.injEq, Prod.mk.injEq] at h
            obtain ⟨_, rfl⟩ := h
            exact ih p cur tr1 hal hr
        | some p2 =>
          simp only [hp] at h
          cases hr : runChain E S true r hs m p2 (resync E S m p2 r.pos) with
          | error e => simp [hr, Except.map] at h
          | ok x =>
            obtain ⟨tr1, e1⟩ := x
            simp only [hr, Except.map, Except.ok.injEq, Prod.mk.injEq] at h
            obtain ⟨_, rfl⟩ := h
            refine ih p2 _ tr1 ?_ hr
            exact (hsorted p2).drop_countP _ r.pos
      | setMethod m2 =>
        simp only [hsc] at h
        by_cases hm : m2 = m
        · subst hm
          simp only [bne_self_eq_false, Bool.false_eq_true, ↓reduceIte] at h
          cases hr : runChain E S true r hs m2 p cur with
          | error e => simp [hr, Except.map] at h
          | ok x =>
            obtain ⟨tr1, e1⟩ := x
            simp only [hr, Except.map, Except.ok.injEq, Prod.mk.injEq] at h
            obtain ⟨_, rfl⟩ := h
            exact ih p cur tr1 hal hr
        · have : (m2 != m) = true := by simpa using hm
          simp [this] at h

theorem linS_nomatch (E : Env π α) (fin : π → Bool → End) (m : Nat) (rest : List (Route α)) (p : π)
    (matched : Bool) (h : ∀ r ∈ rest, r.matches E p = false) :
    linS E fin m rest p matched = .ok { trace := [], fin := fin p matched } := by
  induction rest with
  | nil => rfl
  | cons r rest ih =>
    have hr := h r List.mem_cons_self
    simp only [linS, hr, Bool.false_eq_true, ↓reduceIte]
    exact ih fun x hx => h x (List.mem_cons_of_mem _ hx)

/-- skipping the non-matching routes in front of the first matching one -/
theorem linS_skip_to (E : Env π α) (fin : π → Bool → End) (m : Nat) (rest : List (Route α)) (p : π)
    (matched : Bool) (r : Route α) (hs : Sorted rest) (hr : r ∈ rest)
    (hpre : ∀ x ∈ rest, x.pos < r.pos → x.matches E p = false) :
    linS E fin m rest p matched = linS E fin m (r :: rest.filter (fun x => r.pos < x.pos)) p matched := by
  induction rest with
  | nil => cases hr
  | cons x t ih =>
    rw [Sorted, List.pairwise_cons] at hs
    rcases List.mem_cons.mp hr with rfl | hr'
    · have : (r :: t).filter (fun x => r.pos < x.pos) = t := by
        have := Sorted.filter_gt_append (a := []) (r := r) (b := t)
          (by simpa [Sorted, List.pairwise_cons] using hs)
        simpa using this
      rw [this]
    · have hlt : x.pos < r.pos := hs.1 r hr'
      have hx : x.matches E p = false := hpre x List.mem_cons_self hlt
      have hnot : ¬ r.pos < x.pos := by omega
      rw [show linS E fin m (x :: t) p matched = linS E fin m t p matched by
        simp only [linS, hx, Bool.false_eq_true, ↓reduceIte]]
      rw [ih hs.2 hr' (fun y hy hl => hpre y (List.mem_cons_of_mem _ hy) hl)]
      simp [List.filter_cons, hnot]

/-- locality of the index for one method stack -/
def Local (E : Env π α) (st : List (Route α)) : Prop :=
  ∀ r ∈ st, ∀ p, r.key ≠ 0 → r.matches E p = true → r.key = E.pkey p

theorem candidates_eq (E : Env π α) (S : Stacks α) (m : Nat) (hs : Sorted (S.stack m)) (p : π) :
    candidates E S m p = (S.stack m).filter (fun r => r.key == E.pkey p || r.key == 0) := by
  unfold candidates Stacks.tree
  exact lookup_buildTree _ hs _

theorem mem_candidates_of_match (E : Env π α) (S : Stacks α) (m : Nat) (hs : Sorted (S.stack m))
    (hloc : Local E (S.stack m)) (p : π) (x : Route α) (hx : x ∈ S.stack m) (hm : x.matches E p = true) :
    x ∈ candidates E S m p := by
  rw [candidates_eq E S m hs p, List.mem_filter]
  refine ⟨hx, ?_⟩
  by_cases h0 : x.key = 0
  · simp [h0]
  · simp [hloc x hx p h0 hm]

/-- **Index transparency for the whole run** (instrumented, one method): scanning the tree with the
numeric cursor equals scanning the method's stack behind position `q`. -/
theorem next_eq_linS (E : Env π α) (S : Stacks α) (m : Nat) (hs : Sorted (S.stack m))
    (hloc : Local E (S.stack m)) :
    ∀ (fuel q : Nat) (p : π) (cur : Nat) (matched : Bool),
      Aligned (candidates E S m p) cur q →
      ((S.stack m).filter (fun x => q < x.pos)).length < fuel →
      next E S true fuel m p cur matched =
        linS E (ending E S m) m ((S.stack m).filter (fun x => q < x.pos)) p matched := by
  have hcs : ∀ p, Sorted (candidates E S m p) := fun p => by
    rw [candidates_eq E S m hs p]; exact hs.filter _
  intro fuel
  induction fuel with
  | zero => intro q p cur matched _ hlen; omega
  | succ fuel ih =>
    intro q p cur matched hal hlen
    rw [next_succ]
    have hrestS : Sorted ((S.stack m).filter (fun x => q < x.pos)) := hs.filter _
    cases hf : findFrom (fun r => r.matches E p) (candidates E S m p) cur with
    | none =>
      simp only
      have h0 := findFrom_none hf
      rw [hal] at h0
      rw [linS_nomatch]
      intro r hr
      rw [List.mem_filter] at hr
      by_cases hm : r.matches E p = true
      · exfalso
        have hrc := mem_candidates_of_match E S m hs hloc p r hr.1 hm
        have : r ∈ ((candidates E S m p).filter (fun x => q < x.pos)).filter (fun r => r.matches E p) := by
          simp only [List.mem_filter]; exact ⟨⟨hrc, hr.2⟩, hm⟩
        rw [h0] at this; cases this
      · simpa using hm
    | some jr =>
      obtain ⟨j, r⟩ := jr
      simp only
      obtain ⟨pre, post, hdrop, hpre, hmatch, hpost⟩ := findFrom_some hf
      -- r is a candidate behind q
      have hrX : r ∈ (candidates E S m p).filter (fun x => q < x.pos) := by
        rw [← hal, hdrop]; simp
      have hrc : r ∈ candidates E S m p := (List.mem_filter.mp hrX).1
      have hqr : q < r.pos := by simpa using (List.mem_filter.mp hrX).2
      have hrst : r ∈ S.stack m := by
        rw [candidates_eq E S m hs p] at hrc; exact (List.mem_filter.mp hrc).1
      have hrrest : r ∈ (S.stack m).filter (fun x => q < x.pos) := by
        rw [List.mem_filter]; exact ⟨hrst, by simpa using hqr⟩
      -- nothing in front of r matches
      have hsplit : Sorted (pre ++ r :: post) := by
        rw [← hdrop]; exact List.Pairwise.sublist (List.drop_sublist _ _) (hcs p)
      have hfront : ∀ x ∈ (S.stack m).filter (fun x => q < x.pos), x.pos < r.pos → x.matches E p = false := by
        intro x hx hlt
        rw [List.mem_filter] at hx
        by_cases hm : x.matches E p = true
        · exfalso
          have hxc := mem_candidates_of_match E S m hs hloc p x hx.1 hm
          have hxX : x ∈ pre ++ r :: post := by
            rw [← hdrop, hal, List.mem_filter]; exact ⟨hxc, hx.2⟩
          rw [Sorted, List.pairwise_append] at hsplit
          rcases List.mem_append.mp hxX with hxp | hxp
          · have := hpre x hxp; simp [hm] at this
          · rcases List.mem_cons.mp hxp with rfl | hxq
            · omega
            · have := (List.pairwise_cons.mp hsplit.2.1).1 x hxq; omega
        · simpa using hm
      rw [linS_skip_to E _ m _ p matched r hrestS hrrest hfront]
      have hfil : ((S.stack m).filter (fun x => q < x.pos)).filter (fun x => r.pos < x.pos)
          = (S.stack m).filter (fun x => r.pos < x.pos) := by
        rw [List.filter_filter]
        apply List.filter_congr
        intro x _
        by_cases hx : r.pos < x.pos
        · have : q < x.pos := by omega
          simp [hx, this]
        · simp [hx]
      rw [hfil]
      simp only [linS, hmatch, ↓reduceIte]
      -- the cursor behind r
      have hal' : Aligned (candidates E S m p) (j + 1) r.pos := by
        unfold Aligned
        rw [hpost]
        have hwhole : candidates E S m p = ((candidates E S m p).take cur ++ pre) ++ r :: post := by
          rw [List.append_assoc, ← hdrop, List.take_append_drop]
        have hso := hcs p
        rw [hwhole] at hso
        have := Sorted.filter_gt_append hso
        rw [← hwhole] at this
        exact this.symm
      -- shorter remainder
      have hlen' : ((S.stack m).filter (fun x => r.pos < x.pos)).length < fuel := by
        have : ((S.stack m).filter (fun x => r.pos < x.pos)).length
            < ((S.stack m).filter (fun x => q < x.pos)).length := by
          rw [← hfil]
          apply List.length_filter_lt_length_iff_exists.mpr
          exact ⟨r, hrrest, by simp⟩
        omega
      rw [← runChain_chainS E S r m r.handlers p (j + 1)]
      cases hrun : runChain E S true r r.handlers m p (j + 1) with
      | error e => simp [afterChain, Except.map]
      | ok x =>
        obtain ⟨tr, e⟩ := x
        cases e with
        | stop => simp [afterChain, Except.map, eraseCur]
        | fail c => simp [afterChain, Except.map, eraseCur]
        | fall m' p' cur' =>
          obtain ⟨rfl, hal2⟩ := runChain_aligned E S r m hcs r.handlers p (j + 1) tr m' p' cur' hal' hrun
          simp only [afterChain, Except.map, eraseCur]
          rw [ih r.pos p' cur' _ hal2 hlen']

end C01
