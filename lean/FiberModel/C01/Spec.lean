import FiberModel.C01.Model
/-
C01 — the property sentence as an executable function.

  "a request runs exactly the handlers whose route individually matches its method and path, in
   registration order, each one only if its predecessor called Next; whether a route handles a path
   never depends on which other routes exist, and after a handler overrides the path or method the
   rest of the chain is the later-registered routes matching the new path and method. When no
   endpoint matches, the reply is 404, or 405 with an Allow header naming exactly the other methods
   that have a matching endpoint."

`linear` scans the registrations (calls of `register`: `Use`, `Get`…, `Add`, `All`, `Group(…, h)`) in
registration order with the *current* method and path; a registration whose route matches runs its
handlers (each one only if its predecessor called `Next`); when they all called `Next` the scan goes
on with the *later* registrations and whatever method/path the handlers left behind. There is no
index, no position counter, no cursor, no merge of duplicates: the only thing consulted per
registration is the single-route decision `E.M` (the real `(*Route).match` in the driver).
-/
namespace C01
variable {π α : Type}

/-- The handlers of one registration: each runs only if its predecessor called `Next`. -/
def specChain (E : Env π α) : List (Handler α) → Nat → π → List Nat × ChainEnd π
  | [], m, p => ([], .fall m p 0)
  | h :: hs, m, p =>
    match h.script with
    | .stop => ([h.hid], .stop)
    | .fail c => ([h.hid], .fail c)
    | .next => let x := specChain E hs m p; (h.hid :: x.1, x.2)
    | .setPath o =>
      let x := specChain E hs m ((E.setp p o).getD p); (h.hid :: x.1, x.2)
    | .setMethod m' => let x := specChain E hs m' p; (h.hid :: x.1, x.2)

/-- "the other methods that have a matching endpoint" (an endpoint is a non-`Use` route) -/
def specAllow (E : Env π α) (regs : List (Reg α)) (m : Nat) (p : π) : List Nat :=
  (List.range E.nMethods).filter fun i =>
    i != m && regs.any fun g => g.methods.contains i && !g.use && g.matches E p

/-- 404, or 405 + Allow when no endpoint was reached and another method has one -/
def specEnding (E : Env π α) (regs : List (Reg α)) (m : Nat) (p : π) (matched : Bool) : End :=
  if !matched && !(specAllow E regs m p).isEmpty then .notAllowed (specAllow E regs m p) else .notFound

/-- Registration-order first match. `all` is the whole table (for the 405 decision), the second list
the registrations not yet considered. -/
def linearFrom (E : Env π α) (all : List (Reg α)) : List (Reg α) → Nat → π → Bool → Obs
  | [], m, p, matched => { trace := [], fin := specEnding E all m p matched }
  | g :: rest, m, p, matched =>
    if g.methods.contains m && g.matches E p then
      match specChain E g.handlers m p with
      | (tr, .stop) => { trace := tr, fin := .stop }
      | (tr, .fail c) => { trace := tr, fin := .fail c }
      | (tr, .fall m' p' _) => (linearFrom E all rest m' p' (matched || !g.use)).prepend tr
    else linearFrom E all rest m p matched

def linear (E : Env π α) (regs : List (Reg α)) (m : Nat) (p : π) : Obs :=
  linearFrom E regs regs m p false

end C01
