import FiberModel.Basic
/-
C01 — model of fiber's dispatcher (router.go / helpers.go / ctx.go), written to follow the code.

Layers
  * `Script`, `Handler`, `Reg`     what the program registers (one `Reg` = one call of `app.register`)
  * `Route`, `addRoute`, `addReg`  router.go `register` / `addRoute` (global position counter, duplicate merge)
  * `buildTree`, `lookup`          router.go `buildTree`, helpers.go `uniqueRouteStack`, the bucket choice of `next`
  * `runChain`, `next`, `ending`   ctx.go `Next`, `Path(override)`, `Method(override)`; router.go `next` /
                                   `nextCustom`; helpers.go `methodExist` / `methodExistCustom`
  * `Cfg` section                  the concrete normalisation: `register`'s path normalisation, the first
                                   segment of `parseRoute` (only what the tree key needs), `getGroupPath`,
                                   `configDependentPaths`, fasthttp's `decodeArgAppend`

Single-route matching (`(*Route).match`) is NOT modelled here: it is the parameter `Env.M` (the C02/C03
model provides it; the driver uses the real code's decisions shipped by the harness).

Ghost data (not in the Go code, never read by the un-instrumented model): `Handler.seam`, `Route.m`
is real (`Route.Method`). The flag `chk` turns on the known-finding instrumentation (`Known`):
with `chk = false` the functions are the plain model.
-/
namespace C01
open B

/-! ## Programs -/

/-- What a generated handler does (all of them first record their id). `setPath`/`setMethod` are what
`middleware/rewrite` and method-override middleware do: `c.Path(o); return c.Next()`. -/
inductive Script (α : Type) where
  | next
  | stop
  | fail (code : Nat)
  | setPath (o : α)
  | setMethod (m : Nat)
  deriving Repr, DecidableEq

structure Handler (α : Type) where
  hid : Nat
  script : Script α
  /-- ghost: first handler appended by `addRoute`'s duplicate merge (never set in a `Reg`) -/
  seam : Bool := false
  deriving Repr, DecidableEq

/-- One call of `app.register` after path joining: `Use` (all request methods, `use`), `Add`/`Get`/…
(the listed methods), `All` (all request methods), `Group(prefix, handlers…)` (a `Use`). -/
structure Reg (α : Type) where
  /-- method indexes (positions in `Config.RequestMethods`) receiving a route, in order -/
  methods : List Nat
  use : Bool
  /-- `Route.Path`: the raw path after the `"" → "/"` and leading-slash repairs -/
  raw : Bytes
  /-- the bucket key `buildTree` derives from the parsed pretty path -/
  key : Nat
  handlers : List (Handler α)
  /-- `Route.pathOrig == ""`: the path handed to `register` was empty (before the `"" → "/"` repair);
  `addRoute` does not merge `""` with `"/"` -/
  eo : Bool := false
  deriving Repr

/-- `Route` (router.go), restricted to what dispatch reads. `mount` routes never reach the tree
(mount.go replaces them before `buildTree`) and are outside this model (property C04). -/
structure Route (α : Type) where
  pos : Nat
  m : Nat
  use : Bool
  raw : Bytes
  key : Nat
  handlers : List (Handler α)
  /-- `pathOrig == ""` -/
  eo : Bool := false
  /-- ghost: index (in the program) of the registration that created the route -/
  first : Nat := 0
  /-- ghost: index of the last registration whose handlers `addRoute` merged into the route -/
  last : Nat := 0
  deriving Repr

/-- Parameters of the dispatch model. `π` = request path states, `α` = override arguments. -/
structure Env (π α : Type) where
  /-- `(*Route).match` as a function of the route's raw path, its `use` flag and the request path state -/
  M : Bytes → Bool → π → Bool
  /-- `ctx.treePathHash` of a path state (`configDependentPaths`) -/
  pkey : π → Nat
  /-- `ctx.Path(override)`: `none` when the override equals the current path (nothing happens) -/
  setp : π → α → Option π
  /-- `len(Config.RequestMethods)` -/
  nMethods : Nat

variable {π α : Type}

def Route.matches (E : Env π α) (r : Route α) (p : π) : Bool := E.M r.raw r.use p
def Reg.matches (E : Env π α) (g : Reg α) (p : π) : Bool := E.M g.raw g.use p

/-! ## register / addRoute -/

/-- `app.stack` (kept newest-first while building: `rev m` is `reverse app.stack[m]`) together with
`app.routesCount`. -/
structure Stacks (α : Type) where
  rev : Nat → List (Route α)
  count : Nat
  /-- ghost: number of completed `register` calls (the index of the registration being added) -/
  nreg : Nat := 0

def Stacks.empty : Stacks α := { rev := fun _ => [], count := 0 }

/-- `app.stack[m]` in registration order. -/
def Stacks.stack (S : Stacks α) (m : Nat) : List (Route α) := (S.rev m).reverse

def markSeam : List (Handler α) → List (Handler α)
  | [] => []
  | h :: hs => { h with seam := true } :: hs

/-- the route `addRoute` appends: next global position; ghost registration index -/
def newRoute (S : Stacks α) (m : Nat) (g : Reg α) : Route α :=
  { pos := S.count + 1, m := m, use := g.use, raw := g.raw, key := g.key, handlers := g.handlers, eo := g.eo,
    first := S.nreg, last := S.nreg }

/-- router.go `addRoute` for one method: merge into the previous route of that method's stack when
`Path`, `pathOrig == ""` and `use` coincide ("prevent identically route registration"), else take the next global
position. `merge = false` is the variant without the merge (only used to state `merge_transparent`). -/
def addRoute (merge : Bool) (S : Stacks α) (m : Nat) (g : Reg α) : Stacks α :=
  match S.rev m with
  | last :: rest =>
    if merge && last.raw == g.raw && last.eo == g.eo && last.use == g.use then
      let merged : Route α := { last with handlers := last.handlers ++ markSeam g.handlers, last := S.nreg }
      { S with rev := fun i => if i = m then merged :: rest else S.rev i }
    else
      { S with rev := fun i => if i = m then newRoute S m g :: last :: rest else S.rev i, count := S.count + 1 }
  | [] =>
    { S with rev := fun i => if i = m then [newRoute S m g] else S.rev i, count := S.count + 1 }

/-- router.go `register`: one `addRoute` per method of the call (the ghost counter `nreg` numbers the calls). -/
def addReg (merge : Bool) (S : Stacks α) (g : Reg α) : Stacks α :=
  { g.methods.foldl (fun S m => addRoute merge S m g) S with nreg := S.nreg + 1 }

def build (merge : Bool) (regs : List (Reg α)) : Stacks α :=
  regs.foldl (addReg merge) Stacks.empty

/-! ## buildTree -/

def insertPos (r : Route α) : List (Route α) → List (Route α)
  | [] => [r]
  | x :: xs => if r.pos ≤ x.pos then r :: x :: xs else x :: insertPos r xs

/-- `sort.Slice(slc, pos <)`: positions are pairwise distinct, so any sorting algorithm yields this list. -/
def sortPos : List (Route α) → List (Route α)
  | [] => []
  | x :: xs => insertPos x (sortPos xs)

/-- helpers.go `uniqueRouteStack` (pointer identity = position identity). -/
def uniquePos : List (Route α) → List Nat → List (Route α)
  | [], _ => []
  | x :: xs, seen => if seen.contains x.pos then uniquePos xs seen else x :: uniquePos xs (x.pos :: seen)

def bucket (st : List (Route α)) (k : Nat) : List (Route α) := st.filter (·.key == k)

/-- distinct keys in first-occurrence order (Go iterates a map: order irrelevant for the result) -/
def keysOf (st : List (Route α)) : List Nat := (st.map (·.key)).eraseDups

/-- router.go `buildTree` for one method stack: buckets by key; the global bucket (key 0) is merged
into every other bucket, de-duplicated, and every bucket is sorted by position. -/
def buildTree (st : List (Route α)) : List (Nat × List (Route α)) :=
  (keysOf st).map fun k =>
    (k, if k = 0 then sortPos (bucket st 0) else sortPos (uniquePos (bucket st k ++ bucket st 0) []))

/-- `tree, ok := app.treeStack[m][hash]; if !ok { tree = app.treeStack[m][0] }` -/
def lookup (t : List (Nat × List (Route α))) (h : Nat) : List (Route α) :=
  match t.lookup h with
  | some b => b
  | none => (t.lookup 0).getD []

/-- The index of all methods. -/
def Stacks.tree (S : Stacks α) (m : Nat) : List (Nat × List (Route α)) := buildTree (S.stack m)

/-! ## Dispatch -/

/-- Known-finding regions hit by the instrumented run. -/
inductive Known where
  /-- K1: a handler effectively overrides the method and the cursor (`indexRoute`) it continues with in
  the other method's tree is not behind exactly the routes registered up to the current one -/
  | k1
  /-- K2: `addRoute`'s merge: `ctx.Next` continues with handlers merged from a later identical
  registration although the route no longer matches the (overridden) method/path; or, after a method
  override, the new method's stack holds a route that merged a later registration into an earlier position -/
  | k2
  deriving Repr, DecidableEq

inductive End where
  | stop
  | fail (code : Nat)
  | notFound
  | notAllowed (allow : List Nat)
  | outOfFuel
  deriving Repr, DecidableEq

structure Obs where
  trace : List Nat
  fin : End
  deriving Repr, DecidableEq

instance : DecidableEq (Except Known Obs) := fun a b =>
  match a, b with
  | .ok x, .ok y => if h : x = y then isTrue (by rw [h]) else isFalse (by intro e; cases e; exact h rfl)
  | .error x, .error y => if h : x = y then isTrue (by rw [h]) else isFalse (by intro e; cases e; exact h rfl)
  | .ok _, .error _ => isFalse (by intro e; cases e)
  | .error _, .ok _ => isFalse (by intro e; cases e)

def Obs.cons (h : Nat) (o : Obs) : Obs := { o with trace := h :: o.trace }
def Obs.prepend (t : List Nat) (o : Obs) : Obs := { o with trace := t ++ o.trace }

/-- How the handlers of the current route ended. -/
inductive ChainEnd (π : Type) where
  | stop
  | fail (code : Nat)
  /-- every handler called `Next`: method, path and `indexRoute + 1` at that point -/
  | fall (m : Nat) (p : π) (cur : Nat)

/-- The tree `next` scans for method `m` and path state `p`. -/
def candidates (E : Env π α) (S : Stacks α) (m : Nat) (p : π) : List (Route α) :=
  lookup (S.tree m) (E.pkey p)

/-- ctx.go `Path(override)` after the repair: `indexRoute` is re-derived from the current route's
position in the bucket of the new path (`sort.Search(pos > route.pos) - 1`). -/
def resync (E : Env π α) (S : Stacks α) (m : Nat) (p : π) (pos : Nat) : Nat :=
  (candidates E S m p).countP (fun x => x.pos ≤ pos)

/-- ctx.go `syncIndexRouteMethod`, first loop: the number of `use` routes among `tree[0..indexRoute]` -/
def useRank (l : List (Route α)) (cur : Nat) : Nat := (l.take cur).countP (·.use)

/-- ctx.go `syncIndexRouteMethod`, second loop: `index + 1` where `index` is that of the `n`-th `use`
route of the new tree (of the last one when there are fewer; `-1` when `n = 0` or there is none) -/
def afterNthUse : List (Route α) → Nat → Nat
  | _, 0 => 0
  | [], _ + 1 => 0
  | x :: xs, n + 1 =>
    if x.use then (if afterNthUse xs n = 0 then 1 else afterNthUse xs n + 1)
    else (if afterNthUse xs (n + 1) = 0 then 0 else afterNthUse xs (n + 1) + 1)

/-- ctx.go `Method(override)` after the repair (`syncIndexRouteMethod`): inside a `Use` route the
cursor is moved behind the new method's copy of the same middleware (the `Use` routes are in every
method's tree, in the same order); inside any other route the numeric cursor is carried over. -/
def methodCursor (E : Env π α) (S : Stacks α) (r : Route α) (m m' : Nat) (p : π) (cur : Nat) : Nat :=
  if r.use then afterNthUse (candidates E S m' p) (useRank (candidates E S m p) cur) else cur

/-- ctx.go `Path(override)` → `syncIndexRoute` after the second repair: the cursor is derived by position
in the tree of the route's *own* method (positions of different method stacks are not comparable) and,
when the method was overridden before, carried over to the current method's tree like `Method(override)` does -/
def pathCursor (E : Env π α) (S : Stacks α) (r : Route α) (m : Nat) (p : π) : Nat :=
  if m == r.m then resync E S m p r.pos else methodCursor E S r r.m m p (resync E S r.m p r.pos)

/-- instrumentation: the cursor the specification asks for after the current route `r`, in the tree of
method `m` for path `p`: behind every candidate stemming from a registration up to `r`'s last one -/
def idealCur (E : Env π α) (S : Stacks α) (r : Route α) (m : Nat) (p : π) : Nat :=
  (candidates E S m p).countP (fun x => x.first ≤ r.last)

/-- instrumentation: the cursor leaves other candidates to scan than `idealCur` does -/
def misaligned (E : Env π α) (S : Stacks α) (r : Route α) (m : Nat) (p : π) (cur : Nat) : Bool :=
  min cur (candidates E S m p).length != idealCur E S r m p

/-- instrumentation: a route of method `m`'s stack was created by a registration up to number `k` and
also holds (merged) handlers of a later one -/
def straddles (S : Stacks α) (m k : Nat) : Bool :=
  (S.stack m).any fun x => x.first ≤ k && k < x.last

/-- ctx.go `Next` within one route: run `Handlers[indexHandler…]` while they call `Next`.
`cur` is `indexRoute + 1`. With `chk` the run aborts where a recorded finding's situation is reached:
K2 at a merge seam when the route no longer matches; K1 when, after an effective method override (or a
path override while the method differs from the route's), the cursor is not the one the specification
asks for; K2 when the new method's stack holds a route that merged a later registration into an
earlier position. -/
def runChain (E : Env π α) (S : Stacks α) (chk : Bool) (r : Route α) :
    List (Handler α) → Nat → π → Nat → Except Known (List Nat × ChainEnd π)
  | [], m, p, cur => .ok ([], .fall m p cur)
  | h :: hs, m, p, cur =>
    if chk && h.seam && !(m == r.m && r.matches E p) then .error .k2
    else
      match h.script with
      | .stop => .ok ([h.hid], .stop)
      | .fail c => .ok ([h.hid], .fail c)
      | .next => (runChain E S chk r hs m p cur).map fun x => (h.hid :: x.1, x.2)
      | .setPath o =>
        match E.setp p o with
        | none => (runChain E S chk r hs m p cur).map fun x => (h.hid :: x.1, x.2)
        | some p' =>
          if chk && m != r.m && misaligned E S r m p' (pathCursor E S r m p') then .error .k1
          else (runChain E S chk r hs m p' (pathCursor E S r m p')).map fun x => (h.hid :: x.1, x.2)
      | .setMethod m' =>
        if m' == m then (runChain E S chk r hs m p cur).map fun x => (h.hid :: x.1, x.2)
        else if chk && misaligned E S r m' p (methodCursor E S r m m' p cur) then .error .k1
        else if chk && straddles S m' r.last then .error .k2
        else (runChain E S chk r hs m' p (methodCursor E S r m m' p cur)).map fun x => (h.hid :: x.1, x.2)

/-- first index `j ≥ cur` with `f l[j]` -/
def findFrom (f : Route α → Bool) : List (Route α) → Nat → Option (Nat × Route α)
  | [], _ => none
  | r :: rs, 0 => if f r then some (0, r) else (findFrom f rs 0).map fun x => (x.1 + 1, x.2)
  | _ :: rs, c + 1 => (findFrom f rs c).map fun x => (x.1 + 1, x.2)

/-- helpers.go `methodExist` / `methodExistCustom`: the methods ≠ `m` whose tree holds a non-`use`
route matching the path, in method order (each is appended to `Allow`). -/
def allowOf (E : Env π α) (S : Stacks α) (m : Nat) (p : π) : List Nat :=
  (List.range E.nMethods).filter fun i =>
    i != m && (candidates E S i p).any fun r => !r.use && r.matches E p

/-- the tail of router.go `next`: 404, or 405 when nothing matched and another method would -/
def ending (E : Env π α) (S : Stacks α) (m : Nat) (p : π) (matched : Bool) : End :=
  if !matched && !(allowOf E S m p).isEmpty then .notAllowed (allowOf E S m p) else .notFound

/-- router.go `next` / `nextCustom` (they differ only in how the context fields are reached). Each
call strictly advances `cur`, so `fuel` bounds the recursion depth; `dispatch` supplies enough. -/
def next (E : Env π α) (S : Stacks α) (chk : Bool) :
    Nat → Nat → π → Nat → Bool → Except Known Obs
  | 0, _, _, _, _ => .ok { trace := [], fin := .outOfFuel }
  | fuel + 1, m, p, cur, matched =>
    match findFrom (fun r => r.matches E p) (candidates E S m p) cur with
    | none => .ok { trace := [], fin := ending E S m p matched }
    | some (j, r) =>
      match runChain E S chk r r.handlers m p (j + 1) with
      | .error k => .error k
      | .ok (tr, .stop) => .ok { trace := tr, fin := .stop }
      | .ok (tr, .fail c) => .ok { trace := tr, fin := .fail c }
      | .ok (tr, .fall m' p' cur') =>
        (next E S chk fuel m' p' cur' (matched || !r.use)).map (Obs.prepend tr)

/-- `app.routesCount + 1`: more than the length of any method stack (`InvS.len`), hence more than
the number of times `next` can advance within one method -/
def Stacks.fuel (S : Stacks α) : Nat := S.count + 1

/-- `requestHandler`: a fresh context (`indexRoute = -1`, `matched = false`) enters `next`. -/
def dispatchS (E : Env π α) (S : Stacks α) (chk : Bool) (fuel : Nat) (m : Nat) (p : π) : Except Known Obs :=
  next E S chk fuel m p 0 false

/-- The model: registration, then a request `(m, p)`. -/
def dispatch (E : Env π α) (regs : List (Reg α)) (m : Nat) (p : π) : Except Known Obs :=
  let S := build true regs
  dispatchS E S false S.fuel m p

/-- The same run with the known-finding instrumentation on. -/
def dispatchK (E : Env π α) (regs : List (Reg α)) (m : Nat) (p : π) : Except Known Obs :=
  let S := build true regs
  dispatchS E S true S.fuel m p

/-! ## Concrete normalisation (what the driver instantiates `Env`/`Reg.key` with) -/

structure Cfg where
  caseSensitive : Bool
  strict : Bool
  unescape : Bool
  deriving Repr, DecidableEq

def slash : Nat := 47
def bslash : Nat := 92
def cStar : Nat := 42
def cPlus : Nat := 43
def cColon : Nat := 58
def cQuest : Nat := 63

/-- path.go `RemoveEscapeChar` -/
def removeEscape (s : Bytes) : Bytes := s.filter (· != bslash)

/-- helpers.go `getGroupPath` -/
def getGroupPath (pre path : Bytes) : Bytes :=
  if path.isEmpty then pre
  else
    let path := if path.head? != some slash then slash :: path else path
    trimRight pre slash ++ path

/-- `Group.Prefix` of a chain of nested groups (`app.Group(c₀).Group(c₁)…`) -/
def groupPrefix : List Bytes → Bytes
  | [] => []
  | c :: cs => cs.foldl getGroupPath c

/-- router.go `register`: `pathRaw` repairs -/
def rawPath (p : Bytes) : Bytes :=
  let p := if p.isEmpty then [slash] else p
  if p.head? != some slash then slash :: p else p

/-- router.go `register`: `pathPretty` -/
def prettyPath (c : Cfg) (raw : Bytes) : Bytes :=
  let p := if !c.caseSensitive then toLower raw else raw
  if !c.strict && p.length > 1 then trimRight p slash else p

/-- path.go `findNextCharsetPosition` (`none` = -1) -/
def findCharset (s : Bytes) (cs : List Nat) : Option Nat :=
  cs.foldl (fun acc c =>
    match indexByte s c, acc with
    | some pos, some best => if pos < best then some pos else some best
    | some pos, none => some pos
    | none, a => a) none

/-- path.go `findNextNonEscapedCharsetPosition` -/
def findNonEscCharset (s : Bytes) (cs : List Nat) : Option Nat :=
  let rec go (fuel : Nat) (pos : Nat) : Option Nat :=
    match fuel with
    | 0 => some pos
    | fuel + 1 =>
      if pos > 0 && s[pos - 1]? == some bslash then
        if s.length == pos + 1 then none
        else match findCharset (s.drop (pos + 1)) cs with
          | none => none
          | some n => go fuel (n + pos + 1)
      else some pos
  match findCharset s cs with
  | none => none
  | some pos => go s.length pos

/-- path.go `findNextNonEscapedCharPosition` -/
def findNonEscChar (s : Bytes) (c : Nat) : Option Nat :=
  let rec go (prev : Option Nat) (i : Nat) : Bytes → Option Nat
    | [] => none
    | x :: xs => if x == c && prev != some bslash then some i else go (some x) (i + 1) xs
  go none 0 s

def paramStartChars : List Nat := [cStar, cPlus, cColon]
/-- `parameterDelimiterChars` = `:` `\` `/` `-` `.` -/
def paramDelimChars : List Nat := [cColon, bslash, slash, 45, 46]
/-- `parameterEndChars` = `?` + delimiters -/
def paramEndChars : List Nat := cQuest :: paramDelimChars

def optToInt : Option Nat → Int
  | some n => Int.ofNat n
  | none => -1

/-- `(pos > cs && pos > ce) || (pos < cs && pos < ce)` of `findNextCharsetPositionConstraint` -/
def outsideConstraint (pos : Nat) (cs ce : Int) : Bool :=
  (decide (Int.ofNat pos > cs) && decide (Int.ofNat pos > ce)) ||
  (decide (Int.ofNat pos < cs) && decide (Int.ofNat pos < ce))

/-- path.go `findNextCharsetPositionConstraint` -/
def findCharsetConstraint (s : Bytes) (cs : List Nat) : Option Nat :=
  let cStart := optToInt (findNonEscChar s 60)
  let cEnd := optToInt (findNonEscChar s 62)
  cs.foldl (fun acc c =>
    match indexByte s c with
    | none => acc
    | some pos =>
      let better := match acc with | none => true | some best => decide (pos < best)
      if better && outsideConstraint pos cStart cEnd then some pos else acc) none

/-- path.go `findNextParamPosition` -/
def findNextParamPosition (pat : Bytes) : Option Nat :=
  match findNonEscCharset pat paramStartChars with
  | none => none
  | some n =>
    if pat.length > n && pat[n]? != some cStar then
      if findNonEscCharset (pat.drop (n + 1)) paramStartChars == some 0 then some (n + 1) else some n
    else some n

/-- `IsOptional` of the parameter segment starting at `pat[0]` (path.go `analyseParameterPart`). -/
def paramIsOptional (pat : Bytes) : Bool :=
  if pat.head? == some cStar then true
  else if pat.head? == some cPlus then false
  else
    let rest := pat.drop 1
    let pe := if pat.contains 60 && pat.contains 62 then findCharsetConstraint rest paramEndChars
              else findNonEscCharset rest paramEndChars
    let pe : Nat := match pe with
      | none => pat.length - 1
      | some e => if paramDelimChars.contains (pat.getD (e + 1) 0) then e else e + 1
    pat[pe]? == some cQuest

/-- The bucket key `buildTree` gives a route whose pretty path is `pretty`, after the repair F1:
the first segment of `parseRoute(pretty)` must be a constant of at least `maxDet` bytes, and not a
constant of exactly `maxDet` bytes whose trailing slash is optional (`HasOptionalSlash`). -/
def treeKey (maxDet : Nat) (pretty : Bytes) : Nat :=
  if pretty.isEmpty then 0
  else
    let npp := findNextParamPosition pretty
    if npp == some 0 then 0
    else
      let processed := match npp with | none => pretty | some n => pretty.take n
      let const := removeEscape processed
      let isLast := npp.isNone
      let optSlash := const.getLast? == some slash &&
        (isLast || paramIsOptional (pretty.drop processed.length))
      if const.length ≥ maxDet && !(const.length == maxDet && optSlash) then
        (const.take maxDet).foldl (fun acc x => acc * 256 + x) 0
      else 0

def hexNibble (c : Nat) : Option Nat :=
  if 48 ≤ c && c ≤ 57 then some (c - 48)
  else if 97 ≤ c && c ≤ 102 then some (c - 87)
  else if 65 ≤ c && c ≤ 70 then some (c - 55)
  else none

/-- fasthttp `decodeArgAppend` (`AppendUnquotedArg`) -/
def unquote : Bytes → Bytes
  | [] => []
  | 37 :: a :: b :: rest' =>
    match hexNibble a, hexNibble b with
    | some x, some y => (x * 16 + y) :: unquote rest'
    | _, _ => 37 :: unquote (a :: b :: rest')
  | [37, a] => [37, a]
  | [37] => [37]
  | c :: rest => if c == 43 then 32 :: unquote rest else c :: unquote rest
termination_by l => l.length

/-- ctx.go `configDependentPaths`: `c.path` from `c.pathOriginal` -/
def ctxPath (c : Cfg) (orig : Bytes) : Bytes := if c.unescape then unquote orig else orig

/-- ctx.go `configDependentPaths`: `c.detectionPath` from `c.path` -/
def detectionPath (c : Cfg) (path : Bytes) : Bytes :=
  let d := if !c.caseSensitive then toLower path else path
  if !c.strict && d.length > 1 && d.getLast? == some slash then trimRight d slash else d

/-- ctx.go `configDependentPaths`: `c.treePathHash` -/
def pathHash (maxDet : Nat) (det : Bytes) : Nat :=
  if det.length ≥ maxDet then (det.take maxDet).foldl (fun acc x => acc * 256 + x) 0 else 0

end C01
