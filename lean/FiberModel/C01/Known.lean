import FiberModel.C01.Spec
/-
C01 — recorded known findings as decidable regions of the case input (registrations, request).

Two layers per finding:

  `K1reach` / `K2reach`   the *instrumented* model run `dispatchK` (the plain model plus two checks that
                          abort the run) reaches the situation the finding describes;
  `K1` / `K2`             … and the model of the unchanged code really deviates from the property on
                          this input (`deviates`). These are the regions the checker suppresses: a
                          violation is attributed to a finding only on inputs where the recorded defect
                          itself (as transcribed by the model) produces a violation. A *different*
                          defect that shows on an input where the model agrees with the specification is
                          outside both regions and is reported, even if the run contains a method
                          override or a merged duplicate.

  K1  ctx.go `Method(override)` / router.go `next`: a handler effectively changes the request
      method (`m' ≠ m`). `indexRoute` is a numeric index into the *old* method's tree and is carried
      unchanged into the new method's tree, whose routes at that index are unrelated.
  K2  router.go `addRoute` merge + ctx.go `Next`: the handlers of a later, identical registration
      were appended to the route; `Next` continues with them without re-matching, although a
      handler of the earlier registration overrode the path/method so that the route no longer matches.
-/
namespace C01
namespace Known
variable {π α : Type}

def K1reach (E : Env π α) (regs : List (Reg α)) (m : Nat) (p : π) : Bool :=
  match dispatchK E regs m p with
  | .error .k1 => true
  | _ => false

def K2reach (E : Env π α) (regs : List (Reg α)) (m : Nat) (p : π) : Bool :=
  match dispatchK E regs m p with
  | .error .k2 => true
  | _ => false

/-- the model of the code as it is does not produce what the property demands on this input -/
def deviates (E : Env π α) (regs : List (Reg α)) (m : Nat) (p : π) : Bool :=
  decide (dispatch E regs m p ≠ .ok (linear E regs m p))

def K1 (E : Env π α) (regs : List (Reg α)) (m : Nat) (p : π) : Bool :=
  K1reach E regs m p && deviates E regs m p

def K2 (E : Env π α) (regs : List (Reg α)) (m : Nat) (p : π) : Bool :=
  K2reach E regs m p && deviates E regs m p

end Known
end C01
