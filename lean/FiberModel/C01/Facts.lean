import FiberModel.Generated.C01Facts
import FiberModel.C01.Model
/-
C01 — theorems over the facts the translator re-extracts from /repo on every run
(`FiberModel/Generated/C01Facts.lean`): if router.go / ctx.go change so that one of these facts no
longer has the shape the model transcribes, this file stops compiling and the check reports a broken
obligation (and searches for a concrete failing input).
-/
namespace C01
open B

/-- the Go expression `int(x[i₀])<<s₀ | int(x[i₁])<<s₁ | …` for the extracted (index, shift) pairs -/
def goHash (terms : List (Nat × Nat)) (x : Bytes) : Nat :=
  terms.foldl (fun acc t => acc ||| (x.getD t.1 0 <<< t.2)) 0

/-- Both hash expressions (route side in `buildTree`, request side in `configDependentPaths`) take the
first `maxDetectionPaths` bytes, most significant first, 8 bits apart — and they are the same
expression, so a route's key and the hash of a path that starts with the same bytes coincide. -/
theorem facts_hash_shape :
    Facts.routeHash = Facts.reqHash ∧
    Facts.routeHash = (List.range Facts.maxDetectionPaths).map
      (fun i => (i, 8 * (Facts.maxDetectionPaths - 1 - i))) := by decide

theorem or_shift_byte (x c : Nat) (hc : c < 256) : (x <<< 8) ||| c = x * 256 + c := by
  rw [← Nat.shiftLeft_add_eq_or_of_lt (by simpa using hc), Nat.shiftLeft_eq]

/-- The model's `pathHash` (base-256 fold of the first `maxDetectionPaths` bytes) is the Go expression. -/
theorem goHash_eq_pathHash (x : Bytes) (hlen : x.length ≥ Facts.maxDetectionPaths)
    (hb : ∀ c ∈ x, c < 256) : goHash Facts.routeHash x = pathHash Facts.maxDetectionPaths x := by
  match x, hlen, hb with
  | a :: b :: c :: rest, _, hb =>
    have ha : a < 256 := hb a (by simp)
    have hb' : b < 256 := hb b (by simp)
    have hc : c < 256 := hb c (by simp)
    simp only [goHash, Facts.routeHash, pathHash, Facts.maxDetectionPaths, List.foldl_cons, List.foldl_nil,
      List.getD_cons_zero, List.getD_cons_succ, List.length_cons, List.take_succ_cons, List.take_zero,
      Nat.zero_or, Nat.shiftLeft_zero]
    have h1 : a <<< 16 ||| b <<< 8 = (a * 256 + b) <<< 8 := by
      have : a <<< 16 = (a <<< 8) <<< 8 := by rw [← Nat.shiftLeft_add]
      rw [this, ← Nat.shiftLeft_or_distrib, or_shift_byte a b hb']
    rw [h1, or_shift_byte _ c hc]
    simp

/-- the guards of the key assignment, the request-hash guard, the duplicate-merge condition and the
cursor re-synchronisation in `Path(override)` are the ones `treeKey`, `pathHash`, `addRoute` and
`runChain`/`resync` transcribe -/
theorem facts_guards :
    Facts.routeHashGuards =
      ["len(route.routeParser.segs) > 0 && len(route.routeParser.segs[0].Const) >= maxDetectionPaths",
       "len(seg.Const) > maxDetectionPaths || !seg.HasOptionalSlash"] ∧
    Facts.reqHashGuards = ["len(c.detectionPath) >= maxDetectionPaths"] ∧
    Facts.pathOverrideResyncs = true ∧
    Facts.mergeCond =
      "l > 0 && app.stack[m][l-1].Path == route.Path && route.use == app.stack[m][l-1].use && !route.mount && !app.stack[m][l-1].mount" :=
  ⟨rfl, rfl, rfl, rfl⟩

/-- method ints are unambiguous -/
theorem facts_methods_nodup : Facts.methods.Nodup := by decide

end C01
