import FiberModel.Generated.C01Facts
import FiberModel.C01.Model
/-
C01 — theorems over the facts the translator re-extracts from /repo on every run
(`FiberModel/Generated/C01Facts.lean`): if router.go / ctx.go change so that one of these facts no
longer has the shape the model transcribes, this file stops compiling and the check reports a broken
obligation (and searches for a concrete failing input).
-/
namespace C01
open B

/-- the Go expression `int(x[i₀])<<s₀ | int(x[i₁])<<s₁ | …` for the extracted (index, shift) pairs -/
def goHash (terms : List (Nat × Nat)) (x : Bytes) : Nat :=
  terms.foldl (fun acc t => acc ||| (x.getD t.1 0 <<< t.2)) 0

/-- Both hash expressions (route side in `buildTree`, request side in `configDependentPaths`) take the
first `maxDetectionPaths` bytes, most significant first, 8 bits apart — and they are the same
expression, so a route's key and the hash of a path that starts with the same bytes coincide. -/
theorem facts_hash_shape :
    Facts.routeHash = Facts.reqHash ∧
    Facts.routeHash = (List.range Facts.maxDetectionPaths).map
      (fun i => (i, 8 * (Facts.maxDetectionPaths - 1 - i))) := by decide

theorem or_shift_byte (x c : Nat) (hc : c < 256) : (x <<< 8) ||| c = x * 256 + c := by
  rw [← Nat.shiftLeft_add_eq_or_of_lt (by simpa using hc), Nat.shiftLeft_eq]

/-- The model's `pathHash` (base-256 fold of the first `maxDetectionPaths` bytes) is the Go expression. -/
theorem goHash_eq_pathHash (x : Bytes) (hlen : x.length ≥ Facts.maxDetectionPaths)
    (hb : ∀ c ∈ x, c < 256) : goHash Facts.routeHash x = pathHash Facts.maxDetectionPaths x := by
  match x, hlen, hb with
  | a :: b :: c :: rest, _, hb =>
    have ha : a < 256 := hb a (by simp)
    have hb' : b < 256 := hb b (by simp)
    have hc : c < 256 := hb c (by simp)
    simp only [goHash, Facts.routeHash, pathHash, Facts.maxDetectionPaths, List.foldl_cons, List.foldl_nil,
      List.getD_cons_zero, List.getD_cons_succ, List.length_cons, List.take_succ_cons, List.take_zero,
      Nat.zero_or, Nat.shiftLeft_zero]
    have h1 : a <<< 16 ||| b <<< 8 = (a * 256 + b) <<< 8 := by
      have : a <<< 16 = (a <<< 8) <<< 8 := by rw [← Nat.shiftLeft_add]
      rw [this, ← Nat.shiftLeft_or_distrib, or_shift_byte a b hb']
    rw [h1, or_shift_byte _ c hc]
    simp

/-- the guards of the key assignment, the request-hash guard, the duplicate-merge condition and the
cursor re-synchronisation in `Path(override)` are the ones `treeKey`, `pathHash`, `addRoute` and
`runChain`/`resync` transcribe -/
theorem facts_guards :
    Facts.routeHashGuards =
      ["len(route.routeParser.segs) > 0 && len(route.routeParser.segs[0].Const) >= maxDetectionPaths",
       "len(seg.Const) > maxDetectionPaths || !seg.HasOptionalSlash"] ∧
    Facts.reqHashGuards = ["len(c.detectionPath) >= maxDetectionPaths"] ∧
    Facts.pathOverrideResyncs = true ∧
    Facts.mergeCond =
      "l > 0 && app.stack[m][l-1].Path == route.Path && (app.stack[m][l-1].pathOrig == \"\") == (route.pathOrig == \"\") && route.use == app.stack[m][l-1].use && !route.mount && !app.stack[m][l-1].mount" :=
  ⟨rfl, rfl, rfl, rfl⟩

/-- `Method(override)` re-derives the cursor exactly when the method really changes, through
`syncIndexRouteMethod`, whose guard (`Use` routes only), loops and final assignment are the ones
`methodCursor` / `useRank` / `afterNthUse` transcribe (see `loop1_eq_useRank`, `loop2_eq_afterNthUse`) -/
theorem facts_method_resync :
    Facts.methodOverrideGuard = "methodInt != c.methodInt" ∧
    Facts.methodOverrideBranch = "from := c.methodInt; c.methodInt = methodInt; c.syncIndexRouteMethod(from)" ∧
    Facts.methodResyncGuard =
      "c.route == nil || !c.route.use || from < 0 || from >= len(c.app.treeStack) || c.methodInt < 0 || c.methodInt >= len(c.app.treeStack)" ∧
    Facts.methodResyncLoops =
      ["i := 0; i <= c.indexRoute && i < len(oldTree); i++ :: if oldTree[i].use { n++ }",
       "i := 0; n > 0 && i < len(newTree); i++ :: if newTree[i].use { n--; index = i }"] ∧
    Facts.methodResyncAssign = "c.indexRoute = index" :=
  ⟨rfl, rfl, rfl, rfl, rfl⟩

/-- first loop of `syncIndexRouteMethod` with its loop variables: `l` = `oldTree[i:]`, `cur` = `indexRoute + 1`
(so `i <= c.indexRoute` is `i < cur`), `n` the counter -/
def loop1 {α : Type} (cur : Nat) : List (Route α) → Nat → Nat → Nat
  | [], _, n => n
  | x :: xs, i, n => if i < cur then loop1 cur xs (i + 1) (if x.use then n + 1 else n) else n

theorem loop1_gen {α : Type} (cur : Nat) (l : List (Route α)) (i n : Nat) :
    loop1 cur l i n = n + (l.take (cur - i)).countP (·.use) := by
  induction l generalizing i n with
  | nil => simp [loop1]
  | cons x xs ih =>
    simp only [loop1]
    split
    · rename_i h
      have e : cur - i = (cur - (i + 1)) + 1 := by omega
      rw [ih, e, List.take_succ_cons, List.countP_cons]
      by_cases hx : x.use = true
      · simp only [hx, ↓reduceIte]; omega
      · simp only [hx, Bool.false_eq_true, ↓reduceIte]; omega
    · rename_i h
      have e : cur - i = 0 := by omega
      simp [e]

/-- the first Go loop computes `useRank` -/
theorem loop1_eq_useRank {α : Type} (l : List (Route α)) (cur : Nat) : loop1 cur l 0 0 = useRank l cur := by
  rw [loop1_gen]; simp [useRank]

/-- second loop of `syncIndexRouteMethod` with its loop variables: `l` = `newTree[i:]`, `n` the number of
`Use` routes still to pass, `c` = `index + 1` (the cursor; `index = -1` is `c = 0`) -/
def loop2 {α : Type} : List (Route α) → Nat → Nat → Nat → Nat
  | [], _, _, c => c
  | x :: xs, i, n, c =>
    if n > 0 then (if x.use then loop2 xs (i + 1) (n - 1) (i + 1) else loop2 xs (i + 1) n c) else c

theorem loop2_gen {α : Type} (l : List (Route α)) (i n c : Nat) :
    loop2 l i n c = if afterNthUse l n = 0 then c else i + afterNthUse l n := by
  induction l generalizing i n c with
  | nil => cases n <;> simp [loop2, afterNthUse]
  | cons x xs ih =>
    cases n with
    | zero => simp [loop2, afterNthUse]
    | succ n =>
      simp only [loop2, Nat.zero_lt_succ, ↓reduceIte, Nat.add_sub_cancel, afterNthUse]
      by_cases hx : x.use = true
      · simp only [hx, ↓reduceIte]
        rw [ih]
        by_cases ha : afterNthUse xs n = 0
        · simp [ha]
        · simp [ha]; omega
      · simp only [hx, Bool.false_eq_true, ↓reduceIte]
        rw [ih]
        by_cases hb : afterNthUse xs (n + 1) = 0
        · simp [hb]
        · simp [hb]; omega

/-- the second Go loop computes `afterNthUse` (as `index + 1`) -/
theorem loop2_eq_afterNthUse {α : Type} (l : List (Route α)) (n : Nat) : loop2 l 0 n 0 = afterNthUse l n := by
  rw [loop2_gen]; split <;> simp_all

/-- helpers.go `methodInt`: the fast switch is taken only when no custom `RequestMethods` is configured,
otherwise the slot is `slices.Index(app.config.RequestMethods, s)` — for *every* name, standard or not;
and the fast switch returns for each default method its index in `DefaultMethods` (so it agrees with
`slices.Index` over the default list) and −1 otherwise. This is what the driver's `methodInt`
(`names.idxOf?` over the configured list) transcribes. -/
theorem facts_methodInt :
    Facts.methodIntShape =
      ["if len(app.configured.RequestMethods) == 0 { switch s }",
       "return slices.Index(app.config.RequestMethods, s)"] ∧
    Facts.methodIntSwitch =
      ((List.range Facts.methods.length).map fun i => Facts.methods.getD i "" ++ "=>" ++ toString i) ++ ["default=>-1"] := by
  decide

/-- method ints are unambiguous -/
theorem facts_methods_nodup : Facts.methods.Nodup := by decide

end C01
