import FiberModel.C01.Model
import FiberModel.Generated.C01Facts
/-
C01 — theorems about the normalisation code of the model (`rawPath`, `prettyPath`, `detectionPath`,
`pathHash`, `treeKey`, `getGroupPath`, `unquote`): the functions the driver instantiates `Reg.key`,
`Env.pkey` and the path states with. They are validated against the real code on every case
(observations `rp`, `tr`, `ps`, `ph`); here is what can be said about them for *all* inputs, plus the
pinned Go statements they transcribe (`facts_normalisation`).
-/
set_option linter.unusedSimpArgs false
set_option linter.unusedVariables false
namespace C01
open B

/-! ### the Go statements -/

/-- `register`'s path normalisation, `configDependentPaths` and `getGroupPath` consist of exactly the
statements `rawPath`/`prettyPath`, `ctxPath`/`detectionPath`/`pathHash` and `getGroupPath` transcribe. -/
theorem facts_normalisation :
    Facts.registerNorm =
      ["if pathRaw == \"\" { pathRaw = \"/\" }",
       "if pathRaw[0] != '/' { pathRaw = \"/\" + pathRaw }",
       "pathPretty := pathRaw",
       "if !app.config.CaseSensitive { pathPretty = utils.ToLower(pathPretty) }",
       "if !app.config.StrictRouting && len(pathPretty) > 1 { pathPretty = utils.TrimRight(pathPretty, '/') }",
       "pathClean := RemoveEscapeChar(pathPretty)"] ∧
    Facts.configDependentPathsStmts =
      ["c.path = append(c.path[:0], c.pathOriginal...)",
       "if c.app.config.UnescapePath { c.path = fasthttp.AppendUnquotedArg(c.path[:0], c.path) }",
       "c.detectionPath = append(c.detectionPath[:0], c.path...)",
       "if !c.app.config.CaseSensitive { c.detectionPath = utils.ToLowerBytes(c.detectionPath) }",
       "if !c.app.config.StrictRouting && len(c.detectionPath) > 1 && c.detectionPath[len(c.detectionPath)-1] == '/' { c.detectionPath = utils.TrimRight(c.detectionPath, '/') }",
       "c.treePathHash = 0",
       "if len(c.detectionPath) >= maxDetectionPaths { c.treePathHash = int(c.detectionPath[0])<<16 | int(c.detectionPath[1])<<8 | int(c.detectionPath[2]) }"] ∧
    Facts.getGroupPathStmts =
      ["if len(path) == 0 { return prefix }",
       "if path[0] != '/' { path = \"/\" + path }",
       "return utils.TrimRight(prefix, '/') + path"] :=
  ⟨rfl, rfl, rfl⟩

/-! ### trimRight -/

theorem trimRight_of_getLast_ne (s : Bytes) (c : Nat) (h : s.getLast? ≠ some c) : trimRight s c = s := by
  unfold trimRight
  cases hr : s.reverse with
  | nil =>
    have : s = [] := by simpa using hr
    subst this; rfl
  | cons x xs =>
    have hx : s.getLast? = some x := by
      rw [← List.head?_reverse, hr]; rfl
    have hne : (x == c) = false := by
      rw [hx] at h
      simpa using h
    rw [List.dropWhile_cons, hne]
    simp only [Bool.false_eq_true, ↓reduceIte]
    rw [← hr, List.reverse_reverse]

theorem trimRight_getLast (s : Bytes) (c : Nat) : (trimRight s c).getLast? ≠ some c := by
  unfold trimRight
  rw [List.getLast?_reverse]
  intro h
  have := List.head?_dropWhile_not (· == c) s.reverse
  rw [h] at this
  simp at this

theorem trimRight_idem (s : Bytes) (c : Nat) : trimRight (trimRight s c) c = trimRight s c :=
  trimRight_of_getLast_ne _ _ (trimRight_getLast s c)

/-! ### register vs. request normalisation -/

/-- **The two normalisations are the same function**: what `register` makes of a route's path
(`pathPretty`) and what `configDependentPaths` makes of a request path (`detectionPath`) coincide on
equal input, for every configuration — a literal route is found by the request that spells it. -/
theorem prettyPath_eq_detectionPath (c : Cfg) (x : Bytes) : prettyPath c x = detectionPath c x := by
  unfold prettyPath detectionPath
  simp only
  generalize (if !c.caseSensitive then toLower x else x) = d
  by_cases h1 : (!c.strict && decide (d.length > 1)) = true
  · by_cases h2 : d.getLast? = some slash
    · simp [h1, h2]
    · have : (d.getLast? == some slash) = false := by simpa using h2
      simp only [h1, this, Bool.and_false, Bool.false_eq_true, ↓reduceIte]
      exact trimRight_of_getLast_ne d slash h2
  · have h1' : (!c.strict && decide (d.length > 1)) = false := by simpa using h1
    simp [h1']

/-- `register`'s `pathRaw` repairs: the stored `Route.Path` always starts with a slash, and repairing
twice changes nothing -/
theorem rawPath_head (p : Bytes) : (rawPath p).head? = some slash := by
  unfold rawPath
  cases p with
  | nil => simp
  | cons a t =>
    simp only [List.isEmpty_cons, Bool.false_eq_true, ↓reduceIte, List.head?_cons]
    by_cases h : a = slash
    · simp [h]
    · simp [h]

theorem rawPath_idem (p : Bytes) : rawPath (rawPath p) = rawPath p := by
  have h := rawPath_head p
  generalize rawPath p = q at h
  unfold rawPath
  cases q with
  | nil => simp at h
  | cons a t =>
    simp only [List.head?_cons, Option.some.injEq] at h
    simp [h]

/-- `getGroupPath`: an empty path is the prefix itself (what makes `Group("/api").Get("")` the route
`/api`); otherwise the result ends with the path, made to start with a slash -/
theorem getGroupPath_empty (pre : Bytes) : getGroupPath pre [] = pre := by simp [getGroupPath]

theorem getGroupPath_suffix (pre path : Bytes) (h : path ≠ []) :
    getGroupPath pre path = trimRight pre slash ++ rawPath path := by
  cases path with
  | nil => exact absurd rfl h
  | cons a t => simp [getGroupPath, rawPath]

/-! ### the request hash -/

theorem pathHash_take (n : Nat) (x : Bytes) (h : x.length ≥ n) : pathHash n x = pathHash n (x.take n) := by
  unfold pathHash
  have : (x.take n).length ≥ n := by simp; omega
  simp [h, this, List.take_take]

/-- the hash only reads the first `maxDetectionPaths` bytes -/
theorem pathHash_congr (n : Nat) (x y : Bytes) (hx : x.length ≥ n) (hy : y.length ≥ n)
    (h : x.take n = y.take n) : pathHash n x = pathHash n y := by
  rw [pathHash_take n x hx, pathHash_take n y hy, h]

/-- paths shorter than `maxDetectionPaths` hash to the global bucket -/
theorem pathHash_short (n : Nat) (x : Bytes) (h : x.length < n) : pathHash n x = 0 := by
  unfold pathHash
  have : ¬ x.length ≥ n := by omega
  simp [this]

/-- on byte strings the 3-byte hash identifies the first three bytes -/
theorem pathHash3_inj (x y : Bytes) (hx : x.length ≥ 3) (hy : y.length ≥ 3)
    (bx : ∀ c ∈ x, c < 256) (by' : ∀ c ∈ y, c < 256) (h : pathHash 3 x = pathHash 3 y) :
    x.take 3 = y.take 3 := by
  match x, y, hx, hy with
  | a :: b :: c :: _, a' :: b' :: c' :: _, _, _ =>
    have := bx a (by simp); have := bx b (by simp); have := bx c (by simp)
    have := by' a' (by simp); have := by' b' (by simp); have := by' c' (by simp)
    simp only [pathHash, List.length_cons, ge_iff_le, Nat.le_add_left, ↓reduceIte, List.take_succ_cons,
      List.take_zero, List.foldl_cons, List.foldl_nil, Nat.zero_mul, Nat.zero_add] at h
    simp only [List.take_succ_cons, List.take_zero, List.cons.injEq, and_true]
    omega

/-! ### the tree key -/

/-- **What a tree key is.** `buildTree`'s key of a route is 0 (global bucket) or the hash of the route's
first constant (escape characters removed), which then has at least `maxDet` bytes. -/
theorem treeKey_zero_or_hash (n : Nat) (pretty : Bytes) :
    treeKey n pretty = 0 ∨
    ∃ k : Nat, (findNextParamPosition pretty = none ∨ findNextParamPosition pretty = some k) ∧
      (removeEscape (match findNextParamPosition pretty with | none => pretty | some j => pretty.take j)).length ≥ n ∧
      treeKey n pretty =
        pathHash n (removeEscape (match findNextParamPosition pretty with | none => pretty | some j => pretty.take j)) := by
  unfold treeKey
  by_cases he : pretty.isEmpty = true
  · left; simp [he]
  · simp only [he, Bool.false_eq_true, ↓reduceIte]
    by_cases h0 : (findNextParamPosition pretty == some 0) = true
    · left; simp [h0]
    · simp only [h0, Bool.false_eq_true, ↓reduceIte]
      cases hnpp : findNextParamPosition pretty with
      | none =>
        simp only
        by_cases hc : (removeEscape pretty).length ≥ n
        · by_cases hd : (!((removeEscape pretty).length == n && ((removeEscape pretty).getLast? == some slash &&
              ((none : Option Nat).isNone || paramIsOptional (pretty.drop pretty.length))))) = true
          · right
            refine ⟨0, by simp, hc, ?_⟩
            unfold pathHash
            simp only [hc, decide_true, Bool.true_and, hd, ↓reduceIte]
          · left
            simp only [hc, decide_true, Bool.true_and, hd, Bool.false_eq_true, ↓reduceIte]
        · left
          simp [hc]
      | some j =>
        simp only
        by_cases hc : (removeEscape (pretty.take j)).length ≥ n
        · by_cases hd : (!((removeEscape (pretty.take j)).length == n && ((removeEscape (pretty.take j)).getLast? == some slash &&
              ((some j : Option Nat).isNone || paramIsOptional (pretty.drop (pretty.take j).length))))) = true
          · right
            refine ⟨j, by simp, hc, ?_⟩
            unfold pathHash
            simp only [hc, decide_true, Bool.true_and, hd, ↓reduceIte]
          · left
            simp only [hc, decide_true, Bool.true_and, hd, Bool.false_eq_true, ↓reduceIte]
        · left
          simp [hc]

/-- **Locality of the key for literal endpoints.** router.go `Route.match` accepts a route without
parameters exactly when `detectionPath == r.path` (`r.path = RemoveEscapeChar(pathPretty)`); for such a
route a non-zero key is the hash of the request: the route is filed where the request looks. -/
theorem literal_endpoint_local (n : Nat) (pretty det : Bytes)
    (hnp : findNextParamPosition pretty = none) (hmatch : det = removeEscape pretty)
    (hk : treeKey n pretty ≠ 0) : treeKey n pretty = pathHash n det := by
  rcases treeKey_zero_or_hash n pretty with h0 | ⟨k, _, _, heq⟩
  · exact absurd h0 hk
  · rw [heq, hnp, hmatch]

/-- the same for literal `Use` prefixes: `Route.match` accepts when `detectionPath[:len(r.path)] == r.path` -/
theorem literal_use_local (n : Nat) (pretty det : Bytes)
    (hnp : findNextParamPosition pretty = none) (hmatch : (removeEscape pretty).isPrefixOf det = true)
    (hk : treeKey n pretty ≠ 0) : treeKey n pretty = pathHash n det := by
  rcases treeKey_zero_or_hash n pretty with h0 | ⟨k, _, hlen, heq⟩
  · exact absurd h0 hk
  · rw [hnp] at hlen heq
    simp only at hlen heq
    rw [heq]
    obtain ⟨t, ht⟩ := List.isPrefixOf_iff_prefix.mp hmatch
    have hdl : det.length ≥ n := by rw [← ht]; simp; omega
    apply pathHash_congr n _ _ hlen hdl
    rw [← ht, List.take_append_of_le_length hlen]

/-! ### unquote -/

/-- `AppendUnquotedArg` leaves a path without `%` and `+` alone -/
theorem unquote_id (s : Bytes) (h : ∀ c ∈ s, c ≠ 37 ∧ c ≠ 43) : unquote s = s := by
  induction s with
  | nil => simp [unquote]
  | cons a t ih =>
    have ha := h a List.mem_cons_self
    have iht := ih (fun c hc => h c (List.mem_cons_of_mem _ hc))
    have h37 : a ≠ 37 := ha.1
    have h43 : (a == 43) = false := by simpa using ha.2
    rw [unquote.eq_def]
    split <;> simp_all

end C01

/-! ### non-vacuity -/
namespace C01.ExN
open B C01

def cfg0 : Cfg := { caseSensitive := false, strict := false, unescape := false }

/-- `/API/Users/` is registered and requested as `/api/users` -/
example : prettyPath cfg0 (b "/API/Users/") = b "/api/users" ∧ detectionPath cfg0 (b "/API/Users/") = b "/api/users" := by
  decide
/-- a literal endpoint with a 4-byte constant carries the hash of the matching request -/
example : findNextParamPosition (b "/api/users") = none ∧ treeKey 3 (b "/api/users") ≠ 0 ∧
    treeKey 3 (b "/api/users") = pathHash 3 (b "/api/users") := by decide
/-- a `Use` prefix and a longer request path -/
example : (removeEscape (b "/api")).isPrefixOf (b "/api/users") = true ∧ treeKey 3 (b "/api") = pathHash 3 (b "/api/users") := by
  decide
/-- the F1 quirk: a 3-byte constant with optional slash stays in the global bucket -/
example : treeKey 3 (b "/a/:x?") = 0 ∧ treeKey 3 (b "/ab/:x?") ≠ 0 := by decide
example : getGroupPath (b "/api/") (b "v1") = b "/api/v1" ∧ getGroupPath (b "/api") [] = b "/api" := by decide
example : unquote [47, 97, 98, 99] = [47, 97, 98, 99] := unquote_id _ (by decide)

end C01.ExN
