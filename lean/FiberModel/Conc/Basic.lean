/-
Conc — generic interleaving semantics (DESIGN.md §5 / Appendix A), used by C13 and C17.

A system is a global state `G` and a partial step function over labels `A` (a label is a thread id
taking its next atomic step, or an environment action such as a clock tick): `step g a = none`
means the action is disabled (a thread waiting for a mutex, a finished thread …). A schedule is a
`List A`; running a schedule skips disabled actions (the scheduler picked a thread that cannot move:
nothing happens), so *every* list is a schedule and the reachable states are exactly the states
after some schedule. Invariants are proved for `init` and one step and lifted to every schedule by
induction (`inv_run`, `inv_reach`); properties of individual steps taken along a schedule are lifted
by `steps_run`.
-/
namespace Conc

structure System (G : Type) (A : Type) where
  step : G → A → Option G

variable {G A : Type}

/-- one scheduler decision: take the step if it is enabled, otherwise stutter -/
def System.next (S : System G A) (g : G) (a : A) : G :=
  match S.step g a with
  | some g' => g'
  | none => g

/-- run a schedule -/
def System.run (S : System G A) : G → List A → G
  | g, [] => g
  | g, a :: as => S.run (S.next g a) as

/-- the states reachable from `g0` under some schedule -/
def System.Reach (S : System G A) (g0 g : G) : Prop := ∃ as, S.run g0 as = g

@[simp] theorem run_nil (S : System G A) (g : G) : S.run g [] = g := rfl
@[simp] theorem run_cons (S : System G A) (g : G) (a : A) (as : List A) :
    S.run g (a :: as) = S.run (S.next g a) as := rfl

theorem run_append (S : System G A) (g : G) (as bs : List A) :
    S.run g (as ++ bs) = S.run (S.run g as) bs := by
  induction as generalizing g with
  | nil => rfl
  | cons a as ih => simp [ih]

theorem reach_refl (S : System G A) (g : G) : S.Reach g g := ⟨[], rfl⟩

theorem reach_step (S : System G A) {g0 g g' : G} {a : A} (h : S.Reach g0 g) (hs : S.step g a = some g') :
    S.Reach g0 g' := by
  obtain ⟨as, rfl⟩ := h
  refine ⟨as ++ [a], ?_⟩
  simp [run_append, System.next, hs]

/-- An inductive invariant holds after every schedule. -/
theorem inv_run (S : System G A) (Inv : G → Prop)
    (hstep : ∀ g a g', Inv g → S.step g a = some g' → Inv g')
    {g0 : G} (h0 : Inv g0) (as : List A) : Inv (S.run g0 as) := by
  induction as generalizing g0 with
  | nil => exact h0
  | cons a as ih =>
    apply ih
    unfold System.next
    cases hs : S.step g0 a with
    | none => exact h0
    | some g' => exact hstep g0 a g' h0 hs

theorem inv_reach (S : System G A) (Inv : G → Prop)
    (hstep : ∀ g a g', Inv g → S.step g a = some g' → Inv g')
    {g0 g : G} (h0 : Inv g0) (hr : S.Reach g0 g) : Inv g := by
  obtain ⟨as, rfl⟩ := hr
  exact inv_run S Inv hstep h0 as

/-- Induction principle for reachability. -/
theorem reach_induction (S : System G A) {g0 : G} (P : G → Prop) (h0 : P g0)
    (hstep : ∀ g a g', S.Reach g0 g → P g → S.step g a = some g' → P g') :
    ∀ g, S.Reach g0 g → P g := by
  intro g hr
  have : S.Reach g0 g ∧ P g := by
    apply inv_reach S (fun g => S.Reach g0 g ∧ P g) _ ⟨reach_refl S g0, h0⟩ hr
    intro g a g' ⟨hr, hp⟩ hs
    exact ⟨reach_step S hr hs, hstep g a g' hr hp hs⟩
  exact this.2

/-- Every step taken from a reachable state satisfies a two-state property that holds for all steps
out of states satisfying an invariant. -/
theorem step_of_reach (S : System G A) (Inv : G → Prop) (P : G → A → G → Prop)
    (hinv : ∀ g a g', Inv g → S.step g a = some g' → Inv g')
    (hP : ∀ g a g', Inv g → S.step g a = some g' → P g a g')
    {g0 g g' : G} {a : A} (h0 : Inv g0) (hr : S.Reach g0 g) (hs : S.step g a = some g') : P g a g' :=
  hP g a g' (inv_reach S Inv hinv h0 hr) hs

end Conc
