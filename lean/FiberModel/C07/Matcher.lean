import FiberModel.C07.Parsers2
import FiberModel.C02.Model
/-
C07 (a), third part — checked-index model of the route matcher: path.go `getMatch`, `findParamLen`,
`findGreedyParamLen`, `findParamLenForLastSegment`; router.go `Route.match`.

The segment structure and the route-pattern parser are C02's (`C02.Seg`, `C02.parseRouteW`,
`C02.register`: tied to path.go by C02's own correspondence run). What is new here: every slice /
index expression of the *request-time* code is a checked operation, so that "no request path makes
the matcher panic, whatever pattern was registered" is a theorem (`route_match_total` in Props).

After fix 36fcb1c `getMatch` refuses to write beyond the `[maxParams]string` value array.
Core Lean only (linked into the driver).
-/
namespace C07
open B

abbrev maxParams : Nat := 30

/-- path.go `findGreedyParamLen`: `s = s[:constPosition]` in the right-to-left loop -/
def findGreedyLoopC (cp : Bytes) : Nat → Nat → Bytes → P Bytes
  | 0, _, s => .ok s
  | _, 0, s => .ok s
  | i + 1, sc + 1, s =>
    match C02.lastIndexOf s cp with
    | none => .ok s
    | some k => sliceTo s k >>= fun s' => findGreedyLoopC cp i sc s'

/-- path.go `findParamLen` on the locals `comparePart, partCount` (= the fields of `seg`):
    `s[:segment.Length]`, `comparePart[0]`, `s[:constPosition]` -/
def findParamLenC (s : Bytes) (seg : C02.Seg) : P Int :=
  if seg.isLast then .ok (C02.findParamLenForLastSegment s seg)
  else if seg.length ≠ 0 ∧ s.length ≥ seg.length then
    sliceTo s seg.length >>= fun pre => .ok (if indexByteI pre 47 ≠ -1 then 0 else (seg.length : Int))
  else if seg.isGreedy ∧ C02.count s seg.comparePart > 1 then
    findGreedyLoopC seg.comparePart seg.partCount (C02.count s seg.comparePart) s >>= fun r => .ok (r.length : Int)
  else if seg.comparePart.length = 1 then
    idx seg.comparePart 0 >>= fun c0 =>
    let constPosition := indexByteI s c0
    if constPosition ≠ -1 then
      ((if !seg.isGreedy then sliceTo s constPosition >>= fun pre => .ok (decide (indexByteI pre 47 ≠ -1)) else .ok false) : P Bool) >>= fun slash =>
      .ok (if slash then 0 else constPosition)
    else .ok (s.length : Int)
  else
    let constPosition := indexOfI s seg.comparePart
    if constPosition ≠ -1 then
      ((if !seg.isGreedy then sliceTo s constPosition >>= fun pre => .ok (decide (indexByteI pre 47 ≠ -1)) else .ok false) : P Bool) >>= fun slash =>
      .ok (if slash then 0 else constPosition)
    else .ok (s.length : Int)

/-- path.go `findParamLen`, the locals `comparePart, partCount, full` (fix "a parameter in front of
    a constant with trailing slashes ends at that constant in full when the path holds it"):
    `following[0]` behind `len(following) > 0`. `some seg'` = replaced (`full`), as `C02.fullConst`. -/
def fullConstC (s : Bytes) (seg : C02.Seg) (following : List C02.Seg) : P (Option C02.Seg) :=
  if following.length > 0 then
    idxL following 0 >>= fun n =>
    .ok (if n.const.length > seg.comparePart.length ∧ indexOfI s n.const ≠ -1 then
      some { seg with comparePart := n.const, partCount := C02.partCountOf n.const following }
    else none)
  else .ok none

/-- path.go `findParamLen(s, segment, following)`: the two early returns, then the locals; with the
    full constant a greedy parameter always takes the right-to-left loop (`searchCount > 1 || full`),
    everything else is `findParamLenC` on the locals (as `C02.paramLen`). -/
def paramLenC (s : Bytes) (seg : C02.Seg) (following : List C02.Seg) : P Int :=
  if seg.isLast ∨ (seg.length ≠ 0 ∧ s.length ≥ seg.length) then findParamLenC s seg
  else
    fullConstC s seg following >>= fun fc =>
    match fc with
    | none => findParamLenC s seg
    | some seg' =>
      if seg.isGreedy then
        findGreedyLoopC seg'.comparePart seg'.partCount (C02.count s seg'.comparePart) s >>= fun r => .ok (r.length : Int)
      else findParamLenC s seg'

/-- `if partLen > 0 { detectionPath, path = detectionPath[i:], path[i:] }` -/
def advance (det path : Bytes) (i : Int) : P (Bytes × Bytes) :=
  if det.length > 0 then sliceFrom det i >>= fun d => sliceFrom path i >>= fun p => .ok (d, p)
  else .ok (det, path)

/-- path.go `getMatch`. `it` = `paramsIterator`; result: the values written to `params[0..]`, or
    `none` = no match. -/
def getMatchC (chk : C02.Constraint → Bytes → Bool) : List C02.Seg → Bytes → Bytes → Bool → Nat → P (Option (List Bytes))
  | [], det, _, partialCheck, _ => .ok (if !det.isEmpty && !partialCheck then none else some [])
  | seg :: rest, det, path, partialCheck, it =>
    let partLen : Int := det.length
    if !seg.isParam then
      let i : Int := seg.length
      -- `segment.HasOptionalSlash && partLen == i-1 && detectionPath == segment.Const[:i-1]`
      ((if seg.hasOptionalSlash ∧ partLen = i - 1 then sliceTo seg.const (i - 1) >>= fun c => .ok (decide (det = c))
        else .ok false) : P Bool) >>= fun optSlash =>
      if optSlash then
        advance det path (i - 1) >>= fun (d, p) => getMatchC chk rest d p partialCheck it
      else
        -- `!(i <= partLen && detectionPath[:i] == segment.Const)`
        ((if i ≤ partLen then sliceTo det i >>= fun d => .ok (decide (d = seg.const)) else .ok false) : P Bool) >>= fun same =>
        if !same then .ok none
        else advance det path i >>= fun (d, p) => getMatchC chk rest d p partialCheck it
    else
      paramLenC det seg rest >>= fun i =>              -- `parser.segs[idx+1:]` = the tail behind the range loop's element
      if !seg.isOptional ∧ i = 0 then .ok none
      else if it ≥ maxParams then .ok none          -- `paramsIterator >= len(params)`
      else
        sliceTo path i >>= fun v =>                 -- `params[paramsIterator] = path[:i]`
        if !(seg.isOptional ∧ i = 0) ∧ !(seg.constraints.all (chk · v)) then .ok none
        else
          advance det path i >>= fun (d, p) =>
          getMatchC chk rest d p partialCheck (it + 1) >>= fun r => .ok (r.map (v :: ·))

/-- router.go `Route.match`: `detectionPath[0]`, `path[1:]`, `detectionPath[:plen]` -/
def routeMatchC (chk : C02.Constraint → Bytes → Bool) (r : C02.Route) (det path : Bytes) : P (Option (List Bytes)) :=
  ((if r.root ∧ det.length = 1 then idx det 0 >>= fun c => .ok (decide (c = 47)) else .ok false) : P Bool) >>= fun isRoot =>
  if isRoot then .ok (some [])
  else if r.star then
    (if path.length > 1 then sliceFrom path 1 >>= fun v => .ok (some [v]) else .ok (some [[]]))
  else if r.params.length > 0 then getMatchC chk r.parser.segs det path r.use 0
  else if r.use then
    (if r.root then
       (if det.length > 0 then idx det 0 >>= fun c => .ok (if c = 47 then some [] else none) else .ok none)
     else if det.length ≥ r.path.length then
       sliceTo det r.path.length >>= fun d => .ok (if d = r.path then some [] else none)
     else .ok none)
  else .ok (if r.path.length = det.length ∧ det = r.path then some [] else none)

/-- `RoutePatternMatch`'s normalisation of the path argument: (path values are cut from, detection path) -/
def rpmPaths (cfg : C02.Config) (path : Bytes) : Bytes × Bytes :=
  let path := if path.isEmpty then [47] else path
  let path := if cfg.unescapePath then C02.unquote path else path
  let det := if !cfg.caseSensitive then toLower path else path
  let det := if !cfg.strictRouting && det.length > 1 then trimRight det 47 else det
  (path, det)

/-- the decision of `RoutePatternMatch` once the pattern is parsed -/
def rpmDecide (chk : C02.Constraint → Bytes → Bool) (pretty : Bytes) (pp : C02.Parser) (pd : Bytes × Bytes) : P Bool :=
  if pretty == [47] && pd.2 == [47] then .ok true
  else if pretty == [47, 42] then .ok true
  else if pp.params.length > 0 then getMatchC chk pp.segs pd.2 pd.1 false 0 >>= fun r => .ok r.isSome
  else .ok (C02.removeEscapeChar pretty == pd.2)

/-- path.go `RoutePatternMatch(path, pattern, cfg)`: `none` = the pattern cannot be parsed
    (registration-time panic, outside the request-time model) -/
def routePatternMatchC (chk : C02.Constraint → Bytes → Bool) (cfg : C02.Config) (path pattern : Bytes) : Option (P Bool) :=
  let pretty := C02.prettyPattern cfg pattern
  match C02.parseRouteW pretty ((C02.rawPattern pattern).take pretty.length) with
  | none => none
  | some pp => some (rpmDecide chk pretty pp (rpmPaths cfg path))

/-- a request through the router of an app holding one route: `configDependentPaths`, then
    `Route.match` -/
def requestMatch (chk : C02.Constraint → Bytes → Bool) (cfg : C02.Config) (r : C02.Route) (orig : Bytes) :
    P (Option (List Bytes)) :=
  configDependentPaths cfg.caseSensitive cfg.strictRouting cfg.unescapePath C02.unquote orig >>= fun (path, det, _) =>
  routeMatchC chk r det path

/-! ### path.go `CheckConstraint`: the `c.Data[0]` / `c.Data[1]` accesses (request time) -/

def needOneData (id : C02.CType) : Bool :=
  match id with
  | .minLen | .maxLen | .len | .min | .max | .datetime | .regex => true
  | _ => false

def needTwoData (id : C02.CType) : Bool :=
  match id with
  | .betweenLen | .range => true
  | _ => false

/-- the data `CheckConstraint` reads for a built-in constraint: `none` = refused by the
    "required data" gate before any access -/
def constraintDataC (id : C02.CType) (data : List Bytes) : P (Option (List Bytes)) :=
  if needOneData id ∧ data.length = 0 then .ok none
  else if needTwoData id ∧ data.length < 2 then .ok none
  else
    match id with
    | .minLen | .maxLen | .len | .min | .max | .datetime => idxL data 0 >>= fun d => .ok (some [d])
    | .betweenLen | .range => idxL data 0 >>= fun d0 => idxL data 1 >>= fun d1 => .ok (some [d0, d1])
    | _ => .ok (some [])

end C07
