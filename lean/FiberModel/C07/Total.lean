import FiberModel.C07.Lemmas
/-
C07 (a) — totality of the checked parser models: no input reaches a `Panic`.
-/
namespace C07
open B

/-! ### parseAddr, isNoCache, Subdomains, acceptsOfferType -/

theorem parseAddr_total (raw : Bytes) : Ok (parseAddr raw) := by
  unfold parseAddr
  rcases lastIndexByteI_range raw 58 with h | ⟨h1, h2⟩
  · simp [h]; exact Ok.pure _
  · have hne : lastIndexByteI raw 58 ≠ -1 := by omega
    simp only [hne, ne_eq, not_false_eq_true, if_true]
    refine Ok.bind (sliceTo_ok h1 (by omega)) fun h _ => ?_
    exact Ok.bind (sliceFrom_ok (by omega) (by omega)) fun p _ => Ok.pure _

theorem isNoCache_total (cc : Bytes) : Ok (isNoCache cc) := by
  unfold isNoCache
  rcases indexOfI_range cc noCache with h | ⟨h1, h2⟩
  · simp [h]; exact Ok.pure _
  · have hne : indexOfI cc noCache ≠ -1 := by omega
    simp only [hne, if_false]
    have hlen : noCache.length = 8 := by decide
    refine Ok.bind ?_ fun bad _ => ?_
    · split
      · exact Ok.bind (idx_ok (by omega) (by omega)) fun p _ => Ok.pure _
      · exact Ok.pure _
    · split
      · exact Ok.pure _
      · split
        · exact Ok.pure _
        · rename_i _ hneq
          exact Ok.bind (idx_ok (by omega) (by omega)) fun n _ => Ok.pure _

theorem subdomains_total (host : Bytes) (offset : Nat) : Ok (subdomains host offset) := by
  unfold subdomains sliceToL
  simp only
  by_cases hl : ((splitOn host 46).length : Int) - offset < 0
  · simp only [hl, if_true]
    have : (0:Int) ≤ (splitOn host 46).length ∧ ((splitOn host 46).length : Int) ≤ (splitOn host 46).length := by omega
    simp only [this, and_self, if_true]
    exact Ok.pure _
  · simp only [hl, if_false]
    have : (0:Int) ≤ (splitOn host 46).length - offset ∧
        ((splitOn host 46).length : Int) - offset ≤ (splitOn host 46).length := by omega
    simp only [this, and_self, if_true]
    exact Ok.pure _

theorem contains_indexByte (s : Bytes) (c : Nat) (h : s.contains c = true) : ∃ i, indexByte s c = some i := by
  induction s with
  | nil => simp at h
  | cons x xs ih =>
    simp only [indexByte]
    split
    · exact ⟨0, rfl⟩
    · rename_i hx
      simp only [List.contains_cons, Bool.or_eq_true] at h
      rcases h with h | h
      · simp at h; simp [h] at hx
      · obtain ⟨i, hi⟩ := ih h
        exact ⟨i + 1, by simp [hi]⟩

/-- In its documented domain (`offer` is an extension or a MIME type, so the MIME type looked up
    contains a `/`) `acceptsOfferType` does not panic. -/
theorem acceptsOfferType_total (spec mimetype : Bytes) (hm : mimetype.contains 47 = true) :
    Ok (acceptsOfferTypeSlices spec mimetype) := by
  unfold acceptsOfferTypeSlices
  split
  · exact Ok.pure _
  · have hidx : 0 ≤ indexByteI mimetype 47 ∧ indexByteI mimetype 47 < mimetype.length := by
      rcases indexByteI_range mimetype 47 with h | h
      · exfalso
        obtain ⟨i, hi⟩ := contains_indexByte mimetype 47 hm
        unfold indexByteI at h
        simp [hi] at h
      · exact h
    refine Ok.bind (sliceTo_ok hidx.1 (by omega)) fun pre hpre => ?_
    split
    · rename_i hp
      -- spec has the prefix mimetype[:s], so spec is at least s long
      have hpl := (sliceTo_len hpre).2.2
      have : pre.length ≤ spec.length := List.IsPrefix.length_le (List.isPrefixOf_iff_prefix.mp hp)
      refine Ok.bind (sliceFrom_ok hidx.1 (by omega)) fun st _ => ?_
      split
      · exact Ok.pure _
      · exact Ok.bind (sliceFrom_ok hidx.1 (by omega)) fun mt _ => Ok.pure _
    · exact Ok.pure _

/-- outside that domain the Go code does slice with -1 (e.g. `c.Accepts(";q=1")`): the model shows it -/
example : acceptsOfferTypeSlices (b "text/html") [] = .error .slice := by rfl

end C07

namespace C07
open B

/-! ### getSplicedStrList, isEtagStale -/

theorem splicedLoop_total (h rest : Bytes) (i segStart : Int) (lead : Bool) (acc : List Bytes)
    (hi : i + rest.length = h.length) (h0 : 0 ≤ segStart) (hs : segStart ≤ i) :
    Ok (splicedLoop h rest i segStart lead acc) := by
  induction rest generalizing i segStart lead acc with
  | nil =>
    simp only [splicedLoop]
    simp only [List.length_nil, Int.natCast_zero, Int.add_zero] at hi
    exact Ok.bind (sliceFrom_ok h0 (by omega)) fun _ _ => Ok.pure _
  | cons c rest ih =>
    simp only [List.length_cons, Int.natCast_add, Int.natCast_one] at hi
    simp only [splicedLoop]
    split
    · refine Ok.bind ⟨_, slice_ok h0 hs (by omega)⟩ fun seg _ => ?_
      exact ih _ _ _ _ (by omega) (by omega) (by omega)
    · split
      · exact ih _ _ _ _ (by omega) (by omega) (by omega)
      · exact ih _ _ _ _ (by omega) h0 (by omega)

theorem getSplicedStrList_total (h : Bytes) : Ok (getSplicedStrList h) := by
  unfold getSplicedStrList
  split
  · exact Ok.pure _
  · exact splicedLoop_total h h 0 0 true [] (by simp) (by omega) (by omega)

theorem etagLoop_total (etag nm rest : Bytes) (i start end_ : Int)
    (hi : i + rest.length = nm.length) (h0 : 0 ≤ start) (hs : start ≤ end_) (he : end_ ≤ i) :
    Ok (etagLoop etag nm rest i start end_) := by
  induction rest generalizing i start end_ with
  | nil =>
    simp only [etagLoop]
    simp only [List.length_nil, Int.natCast_zero, Int.add_zero] at hi
    exact Ok.bind ⟨_, slice_ok h0 hs (by omega)⟩ fun _ _ => Ok.pure _
  | cons c rest ih =>
    simp only [List.length_cons, Int.natCast_add, Int.natCast_one] at hi
    simp only [etagLoop]
    split
    · split
      · exact ih _ _ _ (by omega) (by omega) (by omega) (by omega)
      · exact ih _ _ _ (by omega) h0 hs (by omega)
    · split
      · refine Ok.bind ⟨_, slice_ok h0 hs (by omega)⟩ fun seg _ => ?_
        split
        · exact Ok.pure _
        · exact ih _ _ _ (by omega) (by omega) (by omega) (by omega)
      · exact ih _ _ _ (by omega) h0 (by omega) (by omega)

theorem isEtagStale_total (etag noneMatch : Bytes) : Ok (isEtagStale etag noneMatch) := by
  unfold isEtagStale
  exact etagLoop_total etag noneMatch noneMatch 0 0 0 (by simp) (by omega) (by omega) (by omega)

theorem fresh_total (cc nm etag : Bytes) : Ok (fresh cc nm etag) := by
  unfold fresh
  split
  · exact Ok.pure _
  · refine Ok.bind ?_ fun nc _ => ?_
    · split
      · exact isNoCache_total cc
      · exact Ok.pure _
    · split
      · exact Ok.pure _
      · split
        · split
          · exact Ok.pure _
          · exact Ok.bind (isEtagStale_total etag nm) fun _ _ => Ok.pure _
        · exact Ok.pure _

theorem bodyClass_total (ce : Bytes) : Ok (bodyClass ce) := by
  unfold bodyClass
  split
  · exact Ok.pure _
  · refine Ok.bind (getSplicedStrList_total ce) fun l _ => ?_
    split
    · exact Ok.pure _
    · split
      · exact Ok.pure _
      · split <;> exact Ok.pure _

end C07

namespace C07
open B

/-! ### extractIPsFromHeader / extractIPFromHeader -/

theorem scanSeg_spec (h : Bytes) (fuel : Nat) (j : Int) (v4 v6 : Bool)
    (hj0 : 0 ≤ j) (hjl : j ≤ h.length) (hf : (h.length : Int) - j < fuel) :
    ∃ j' a c, scanSeg h fuel j v4 v6 = .ok (j', a, c) ∧ j ≤ j' ∧ j' ≤ h.length := by
  induction fuel generalizing j v4 v6 with
  | zero => omega
  | succ fuel ih =>
    simp only [scanSeg]
    split
    · rename_i hlt
      obtain ⟨c, hc⟩ := idx_ok (s := h) hj0 hlt
      rw [hc]
      simp only [bind, Except.bind]
      split
      · obtain ⟨j', a, c', h1, h2, h3⟩ := ih (j + 1) (v4 || c == 46) (v6 || c == 58) (by omega) (by omega) (by omega)
        exact ⟨j', a, c', h1, by omega, h3⟩
      · exact ⟨j, v4, v6, rfl, by omega, by omega⟩
    · exact ⟨j, v4, v6, rfl, by omega, by omega⟩

theorem skipLead_spec (h : Bytes) (commaToo : Bool) (fuel : Nat) (i j : Int)
    (hi0 : 0 ≤ i) (hij : i ≤ j) (hjl : j ≤ h.length) (hf : j - i < fuel) :
    ∃ i', skipLead h commaToo fuel i j = .ok i' ∧ i ≤ i' ∧ i' ≤ j := by
  induction fuel generalizing i with
  | zero => omega
  | succ fuel ih =>
    simp only [skipLead]
    split
    · rename_i hlt
      obtain ⟨c, hc⟩ := idx_ok (s := h) hi0 (by omega : i < h.length)
      rw [hc]
      simp only [bind, Except.bind]
      split
      · obtain ⟨i', h1, h2, h3⟩ := ih (i + 1) (by omega) (by omega) (by omega)
        exact ⟨i', h1, by omega, h3⟩
      · exact ⟨i, rfl, by omega, by omega⟩
    · exact ⟨i, rfl, by omega, by omega⟩

theorem ipLoop_total (cfg : IPCfg) (h : Bytes) (first : Bool) (fuel : Nat) (jPrev : Int) (acc : List Bytes)
    (hlo : -1 ≤ jPrev) (hhi : jPrev ≤ h.length) (hf : (h.length : Int) - jPrev < fuel) :
    Ok (ipLoop cfg h first fuel jPrev acc) := by
  induction fuel generalizing jPrev acc with
  | zero => omega
  | succ fuel ih =>
    simp only [ipLoop]
    split
    · exact Ok.pure _
    · rename_i hj
      obtain ⟨j', a, c, hs, hj1, hj2⟩ := scanSeg_spec h (h.length + 1) (jPrev + 2) false false (by omega) (by omega) (by omega)
      rw [hs]
      simp only [bind, Except.bind]
      obtain ⟨i', hk, hi1, hi2⟩ := skipLead_spec h true (h.length + 1) (jPrev + 1) j' (by omega) (by omega) hj2 (by omega)
      rw [hk]
      simp only
      rw [slice_ok (by omega) hi2 hj2]
      simp only
      split
      · split
        · exact Ok.pure _
        · exact ih j' _ (by omega) hj2 (by omega)
      · exact ih j' _ (by omega) hj2 (by omega)

/-- `c.IPs()`: for every header value, with or without validation, whatever the verdicts of
    `utils.IsIPv4` / `utils.IsIPv6` -/
theorem extractIPs_total (cfg : IPCfg) (h : Bytes) : Ok (extractIPs cfg h) := by
  unfold extractIPs
  exact ipLoop_total cfg h false _ (-1) [] (by omega) (by omega) (by omega)

theorem extractIP_total (cfg : IPCfg) (h : Bytes) : Ok (extractIP cfg h) := by
  unfold extractIP
  exact ipLoop_total _ h true _ (-1) [] (by omega) (by omega) (by omega)

/-! ### forEachMediaRange -/

theorem mrScan_spec (h : Bytes) (fuel : Nat) (n : Int) (quotes : Nat) (esc : Bool)
    (hn0 : 0 ≤ n) (hnl : n ≤ h.length) (hf : (h.length : Int) - n < fuel) :
    ∃ n', mrScan h fuel n quotes esc = .ok n' ∧ n ≤ n' ∧ n' ≤ h.length := by
  induction fuel generalizing n quotes esc with
  | zero => omega
  | succ fuel ih =>
    simp only [mrScan]
    split
    · rename_i hlt
      split
      · obtain ⟨n', h1, h2, h3⟩ := ih (n + 1) quotes false (by omega) (by omega) (by omega)
        exact ⟨n', h1, by omega, h3⟩
      · obtain ⟨c, hc⟩ := idx_ok (s := h) hn0 hlt
        rw [hc]
        simp only [bind, Except.bind]
        split
        · split
          · exact ⟨n, rfl, by omega, by omega⟩
          · obtain ⟨n', h1, h2, h3⟩ := ih (n + 1) quotes false (by omega) (by omega) (by omega)
            exact ⟨n', h1, by omega, h3⟩
        · split
          · obtain ⟨n', h1, h2, h3⟩ := ih (n + 1) (quotes + 1) false (by omega) (by omega) (by omega)
            exact ⟨n', h1, by omega, h3⟩
          · split
            · obtain ⟨n', h1, h2, h3⟩ := ih (n + 1) quotes (decide (quotes % 2 = 1)) (by omega) (by omega) (by omega)
              exact ⟨n', h1, by omega, h3⟩
            · obtain ⟨n', h1, h2, h3⟩ := ih (n + 1) quotes false (by omega) (by omega) (by omega)
              exact ⟨n', h1, by omega, h3⟩
    · exact ⟨n, rfl, by omega, by omega⟩

theorem trimLeftOWS_length_le (s : Bytes) : (trimLeftOWS s).length ≤ s.length := by
  unfold trimLeftOWS
  exact (List.dropWhile_sublist _).length_le

theorem mediaRanges_total (dq : Bool) (fuel : Nat) (header : Bytes) (acc : List Bytes)
    (hf : header.length < fuel) : Ok (mediaRanges dq fuel header acc) := by
  induction fuel generalizing header acc with
  | zero => omega
  | succ fuel ih =>
    simp only [mediaRanges]
    split
    · exact Ok.pure _
    · have htl := trimLeftOWS_length_le header
      -- the position of the next top-level comma (or the end)
      have hn : ∃ n, (if dq = true then mrScan (trimLeftOWS header) ((trimLeftOWS header).length + 1) 0 0 false
            else Except.ok (let n := indexByteI (trimLeftOWS header) 44;
              if n = -1 then ((trimLeftOWS header).length : Int) else n)) = .ok n ∧ 0 ≤ n ∧ n ≤ (trimLeftOWS header).length := by
        split
        · obtain ⟨n', h1, h2, h3⟩ := mrScan_spec (trimLeftOWS header) ((trimLeftOWS header).length + 1) 0 0 false (by omega) (by omega) (by omega)
          exact ⟨n', h1, by omega, h3⟩
        · rcases indexByteI_range (trimLeftOWS header) 44 with h | ⟨h1, h2⟩
          · exact ⟨_, rfl, by simp [h], by simp [h]⟩
          · have : indexByteI (trimLeftOWS header) 44 ≠ -1 := by omega
            exact ⟨_, rfl, by simp [this]; omega, by simp [this]; omega⟩
      obtain ⟨n, hn1, hn2, hn3⟩ := hn
      rw [hn1]
      simp only [bind, Except.bind]
      obtain ⟨mr, hmr⟩ := sliceTo_ok (s := trimLeftOWS header) hn2 hn3
      rw [hmr]
      simp only
      split
      · exact Ok.pure _
      · rename_i hlt
        obtain ⟨rest, hrest⟩ := sliceFrom_ok (s := trimLeftOWS header) (i := n + 1) (by omega) (by omega)
        rw [hrest]
        simp only
        have := (sliceFrom_len hrest).2.2
        exact ih rest _ (by omega)

/-- every `Accept*` / `Content-Type` value is split without a panic -/
theorem forEachMediaRange_total (header : Bytes) : Ok (forEachMediaRange header) := by
  unfold forEachMediaRange
  exact mediaRanges_total _ _ header [] (by omega)

theorem acceptsCharsets_total (h : Bytes) (offers : List Bytes) : Ok (acceptsCharsets h offers) := by
  unfold acceptsCharsets
  split
  · exact Ok.pure _
  · split
    · exact Ok.pure _
    · exact Ok.bind (forEachMediaRange_total h) fun _ _ => Ok.pure _

end C07

namespace C07
open B

/-! ### Range -/

theorem rangeLoop_total (size : Int) (fuel : Nat) (more : Bytes) (acc : List (Int × Int))
    (hf : more.length < fuel) : Ok (rangeLoop size fuel more acc) := by
  induction fuel generalizing more acc with
  | zero => omega
  | succ fuel ih =>
    simp only [rangeLoop]
    split
    · exact Ok.pure _
    · rename_i hne
      have hpos : 0 < more.length := by
        cases more with
        | nil => exact absurd rfl hne
        | cons _ _ => simp
      -- singleRange / moreRanges
      have hsplit : ∃ single more', (if indexByteI more 44 ≥ 0 then
            (do let s ← sliceTo more (indexByteI more 44); let m ← sliceFrom more (indexByteI more 44 + 1); pure (s, m))
          else (Except.ok (more, []) : P (Bytes × Bytes))) = .ok (single, more') ∧ more'.length < more.length := by
        split
        · rename_i hge
          rcases indexByteI_range more 44 with h | ⟨h1, h2⟩
          · omega
          · obtain ⟨s, hs⟩ := sliceTo_ok (s := more) h1 (by omega)
            obtain ⟨m, hm⟩ := sliceFrom_ok (s := more) (i := indexByteI more 44 + 1) (by omega) (by omega)
            have := (sliceFrom_len hm).2.2
            refine ⟨s, m, ?_, by omega⟩
            rw [hs, hm]; rfl
        · exact ⟨more, [], rfl, by simpa using hpos⟩
      obtain ⟨single, more', hsp, hlen⟩ := hsplit
      rw [hsp]
      simp only [bind, Except.bind]
      split
      · exact Ok.pure _
      · rename_i hd
        rcases indexByteI_range single 45 with h | ⟨h1, h2⟩
        · exact absurd h hd
        · obtain ⟨a, ha⟩ := sliceTo_ok (s := single) h1 (by omega)
          obtain ⟨e, he⟩ := sliceFrom_ok (s := single) (i := indexByteI single 45 + 1) (by omega) (by omega)
          rw [ha]
          simp only
          rw [he]
          simp only [pure, Except.pure]
          exact Ok.ite (ih more' _ (by omega)) (ih more' _ (by omega))

/-- `c.Range(size)`: no `Range` header value reaches an out-of-range index or slice -/
theorem range_total (hdr : Bytes) (size : Int) : Ok (range hdr size) := by
  unfold range
  simp only
  split
  · exact Ok.pure _
  · rename_i hi
    rcases indexByteI_range hdr 61 with h | ⟨h1, h2⟩
    · exact absurd h hi
    · refine Ok.bind (sliceFrom_ok (by omega) (by omega)) fun after _ => ?_
      split
      · exact Ok.pure _
      · refine Ok.bind (sliceTo_ok h1 (by omega)) fun typ _ => ?_
        refine Ok.bind (sliceFrom_ok (by omega) (by omega)) fun ranges _ => ?_
        refine Ok.bind (rangeLoop_total size _ ranges [] (by omega)) fun r _ => ?_
        split <;> exact Ok.pure _

end C07
