import FiberModel.C07.Parsers
/-
C07 (a), second part — checked-index models of the remaining hand-written scanners that a request
reaches: helpers.go `isTokenByte`, `forEachParameter`, `getOffer` (parameter scan, quality fast path,
specificity), `acceptsOffer`, `acceptsOfferType` (whole function), `paramsMatch` with fasthttp
`VisitHeaderParams`, `sortAcceptedTypes`; ctx.go `Host`, `Hostname`, `Scheme`, `Port`, `IsFromLocal`,
`Params`, `configDependentPaths`, `tryDecodeBodyInOrder` + `Body`, `sanitizeHeaderValue`; helpers.go
`defaultString`, `genericParseDefault`/`genericParseType` (the `defaultValue[0]` accesses);
binder/mapping.go `parseParamSquareBrackets`, `FilterFlags`, `parseToMap`, `assignBindData`,
`formatBindData`.

Same discipline as Parsers.lean: every Go index / slice expression is `idx` / `slice` / `sliceFrom` /
`sliceTo` (or `idxL` on a slice of strings), loops that are not structurally recursive carry a fuel
whose exhaustion is the `Panic.fuel` the `*_total` theorems exclude.
Core Lean only (linked into the driver).
-/
namespace C07
open B

/-- Go `l[i]` on a slice of strings / structs -/
def idxL {α : Type} (l : List α) (i : Int) : P α :=
  if 0 ≤ i ∧ i < l.length then
    match l[i.toNat]? with
    | some x => .ok x
    | none => .error .index
  else .error .index

/-! ### binder/mapping.go -/

/-- `parseParamSquareBrackets`: the `for i, b := range kbytes` loop; `kbytes[i+1]` is the only index
    expression. `none` = the "unmatched brackets" error. -/
def bracketsLoop (k : Bytes) : Bytes → Int → Int → Bytes → P (Option Bytes)
  | [], _, opn, acc => .ok (if opn > 0 then none else some acc)
  | c :: rest, i, opn, acc =>
    if c = 91 then
      ((if i + 1 < k.length then idx k (i + 1) >>= fun d => .ok (decide (d ≠ 93)) else .ok false) : P Bool) >>= fun dot =>
      bracketsLoop k rest (i + 1) (opn + 1) (if dot then acc ++ [46] else acc)
    else if c = 93 then
      (if opn - 1 < 0 then .ok none else bracketsLoop k rest (i + 1) (opn - 1) acc)
    else bracketsLoop k rest (i + 1) opn (acc ++ [c])

def parseParamSquareBrackets (k : Bytes) : P (Option Bytes) := bracketsLoop k k 0 0 []

/-- `FilterFlags`: `for i, char := range content { if char == ' ' || char == ';' { return content[:i] } }`
    (SP and `;` are ASCII: ranging over runes or bytes finds the same offset) -/
def filterFlagsLoop (content : Bytes) : Bytes → Int → P Bytes
  | [], _ => .ok content
  | c :: rest, i => if c = 32 ∨ c = 59 then sliceTo content i else filterFlagsLoop content rest (i + 1)

def filterFlags (content : Bytes) : P Bytes := filterFlagsLoop content content 0

/-- assoc-list form of `data[key] = append(data[key], v…)` -/
def dataAppend : List (Bytes × List Bytes) → Bytes → List Bytes → List (Bytes × List Bytes)
  | [], k, vs => [(k, vs)]
  | (k', vs') :: rest, k, vs =>
    if k' = k then (k', vs' ++ vs) :: rest else (k', vs') :: dataAppend rest k vs

/-- `assignBindData`, the `for i := 0; i < len(values); i++ { … values[i] }` loop -/
def assignSplitLoop (values : List Bytes) : Nat → Int → List Bytes → P (List Bytes)
  | 0, _, _ => .error .fuel
  | fuel + 1, i, acc =>
    if i < values.length then idxL values i >>= fun v => assignSplitLoop values fuel (i + 1) (acc ++ [v])
    else .ok acc

/-- `assignBindData` for a map target (`equalFieldType` is constantly true for maps) -/
def assignBindData (split : Bool) (data : List (Bytes × List Bytes)) (key value : Bytes) :
    P (List (Bytes × List Bytes)) :=
  if split ∧ value.contains 44 then
    let values := splitOn value 44
    assignSplitLoop values (values.length + 1) 0 [] >>= fun vs => .ok (dataAppend data key vs)
  else .ok (dataAppend data key [value])

/-- `formatBindData` for one string value with bracket notation on; `none` = the bracket error -/
def formatBindData (split : Bool) (data : List (Bytes × List Bytes)) (key value : Bytes) :
    P (Option (List (Bytes × List Bytes))) :=
  if key.contains 91 then
    parseParamSquareBrackets key >>= fun r =>
    match r with
    | none => .ok none
    | some k => assignBindData split data k value >>= fun d => .ok (some d)
  else assignBindData split data key value >>= fun d => .ok (some d)

/-- the `VisitAll` loop of `QueryBinding.Bind` (the first error stops the accumulation) -/
def bindCollect (split : Bool) : List (Bytes × Bytes) → List (Bytes × List Bytes) → P (Option (List (Bytes × List Bytes)))
  | [], data => .ok (some data)
  | (k, v) :: rest, data =>
    formatBindData split data k v >>= fun r =>
    match r with
    | none => .ok none
    | some d => bindCollect split rest d

/-- `parseToMap` into `map[string]string`: `if len(v) == 0 { "" } else { v[len(v)-1] }` -/
def lastValue (v : List Bytes) : P Bytes :=
  if v.length = 0 then .ok [] else idxL v ((v.length : Int) - 1)

def parseToMapLast : List (Bytes × List Bytes) → P (List (Bytes × Bytes))
  | [] => .ok []
  | (k, v) :: rest => lastValue v >>= fun x => parseToMapLast rest >>= fun r => .ok ((k, x) :: r)

/-- `c.Bind().Query(&map[string][]string)` / `(&map[string]string)` on the decoded query arguments -/
def bindQuery (split : Bool) (args : List (Bytes × Bytes)) : P (Option (List (Bytes × List Bytes))) :=
  bindCollect split args []

def bindQueryLast (split : Bool) (args : List (Bytes × Bytes)) : P (Option (List (Bytes × Bytes))) :=
  bindCollect split args [] >>= fun r =>
  match r with
  | none => .ok none
  | some d => parseToMapLast d >>= fun m => .ok (some m)

/-! ### helpers.go `isTokenByte`, `forEachParameter` -/

/-- `isTokenByte`: tchar of RFC 9110 ("!#$%&'*+-.^_`|~", DIGIT, ALPHA) -/
def isTokenByte (c : Nat) : Bool :=
  (97 ≤ c && c ≤ 122) || (65 ≤ c && c ≤ 90) || (48 ≤ c && c ≤ 57) ||
  c = 33 || c = 35 || c = 36 || c = 37 || c = 38 || c = 39 || c = 42 || c = 43 || c = 45 || c = 46 ||
  c = 94 || c = 95 || c = 96 || c = 124 || c = 126

/-- `for len(b) > 0 && (b[0] == ' ' || (tab && b[0] == '\t')) { b = b[1:] }` -/
def skipOWS (tab : Bool) : Nat → Bytes → P Bytes
  | 0, _ => .error .fuel
  | fuel + 1, b =>
    if b.length > 0 then
      idx b 0 >>= fun c =>
      if c = 32 ∨ (tab ∧ c = 9) then sliceFrom b 1 >>= fun b' => skipOWS tab fuel b' else .ok b
    else .ok b

/-- `for n < len(b) && tok(b[n]) { n++ }` -/
def tokScan (tok : Nat → Bool) (b : Bytes) : Nat → Int → P Int
  | 0, _ => .error .fuel
  | fuel + 1, n =>
    if n < b.length then idx b n >>= fun c => if tok c then tokScan tok b fuel (n + 1) else .ok n
    else .ok n

/-- `for n++; n < len(b) && (b[n] != '"' || escaping); n++ { escaping = b[n] == '\\' && !escaping }` -/
def quotedScan (b : Bytes) : Nat → Int → Bool → P Int
  | 0, _, _ => .error .fuel
  | fuel + 1, n, escaping =>
    if n < b.length then
      idx b n >>= fun c =>
      if c ≠ 34 ∨ escaping then
        idx b n >>= fun c' => quotedScan b fuel (n + 1) (c' = 92 && !escaping)
      else .ok n
    else .ok n

/-- `forEachParameter(b, f)`. The callback is a state transformer `f st key value = (st', continue?)`.
    Loop state: the rest of the parameter list. -/
def fepLoop {σ : Type} (f : σ → Bytes → Bytes → P (σ × Bool)) : Nat → σ → Bytes → P σ
  | 0, _, _ => .error .fuel
  | fuel + 1, st, b0 =>
    let i := indexByteI b0 59
    if i = -1 then .ok st
    else
      sliceFrom b0 (i + 1) >>= fun b1 =>
      skipOWS true (b1.length + 1) b1 >>= fun b =>
      ((if b.length > 0 then idx b 0 >>= fun c => .ok (decide (c = 59)) else .ok false) : P Bool) >>= fun emptyParam =>
      if emptyParam then fepLoop f fuel st b
      else
        tokScan isTokenByte b (b.length + 1) 0 >>= fun n =>
        -- `n == 0 || n >= len(b)-1 || b[n] != '='` (short-circuit: b[n] only when n < len(b)-1)
        if n = 0 ∨ n ≥ (b.length : Int) - 1 then .ok st
        else
          idx b n >>= fun e =>
          if e ≠ 61 then .ok st
          else
            sliceTo b n >>= fun key =>
            let n1 := n + 1
            idx b n1 >>= fun c =>
            if isTokenByte c then
              tokScan isTokenByte b (b.length + 1) n1 >>= fun n2 =>
              slice b n1 n2 >>= fun v =>
              f st key v >>= fun r =>
              if !r.2 then .ok r.1
              else sliceFrom b n2 >>= fun rest => fepLoop f fuel r.1 rest
            else
              idx b n1 >>= fun c2 =>
              if c2 = 34 then
                quotedScan b (b.length + 1) (n1 + 1) false >>= fun n2 =>
                if n2 = b.length then .ok st
                else
                  slice b (n1 + 1) n2 >>= fun v =>
                  f st key v >>= fun r =>
                  if !r.2 then .ok r.1
                  else sliceFrom b (n2 + 1) >>= fun rest => fepLoop f fuel r.1 rest
              else .ok st

def forEachParameter {σ : Type} (f : σ → Bytes → Bytes → P (σ × Bool)) (st : σ) (b : Bytes) : P σ :=
  fepLoop f (b.length + 1) st b

/-- the parameters `forEachParameter` reports when never stopped -/
def parameters (b : Bytes) : P (List (Bytes × Bytes)) :=
  forEachParameter (fun acc k v => .ok (acc ++ [(k, v)], true)) [] b

/-! ### fasthttp `VisitHeaderParams` (header.go), as `paramsMatch` uses it on the offer's parameters -/

/-- `validHeaderFieldByte`: the token table, 7-bit -/
def validHeaderFieldByte (c : Nat) : Bool := isTokenByte c

/-- `for idxSemi < len(b) && b[idxSemi] != ';' { idxSemi++ }` -/
def semiScan (b : Bytes) : Nat → Int → P Int
  | 0, _ => .error .fuel
  | fuel + 1, n =>
    if n < b.length then idx b n >>= fun c => if c ≠ 59 then semiScan b fuel (n + 1) else .ok n
    else .ok n

/-- quoted value scan of `VisitHeaderParams`: returns (n, foundEndQuote) -/
def vhpQuoted (b : Bytes) : Nat → Int → Bool → P (Int × Bool)
  | 0, _, _ => .error .fuel
  | fuel + 1, n, escaping =>
    if n < b.length then
      idx b n >>= fun c =>
      if c = 34 ∧ !escaping then .ok (n, true)
      else idx b n >>= fun c' => vhpQuoted b fuel (n + 1) (c' = 92 && !escaping)
    else .ok (n, false)

def vhpLoop {σ : Type} (f : σ → Bytes → Bytes → P (σ × Bool)) : Nat → σ → Bytes → P σ
  | 0, _, _ => .error .fuel
  | fuel + 1, st, b0 =>
    if b0.length > 0 then
      semiScan b0 (b0.length + 1) 0 >>= fun idxSemi =>
      if idxSemi ≥ b0.length then .ok st
      else
        sliceFrom b0 (idxSemi + 1) >>= fun b1 =>
        skipOWS false (b1.length + 1) b1 >>= fun b =>
        -- `len(b) == 0 || !validHeaderFieldByte(b[n])` with n = 0
        if b.length = 0 then .ok st
        else
          idx b 0 >>= fun c0 =>
          if !validHeaderFieldByte c0 then .ok st
          else
            tokScan validHeaderFieldByte b (b.length + 1) 1 >>= fun n =>
            if n ≥ (b.length : Int) - 1 then .ok st
            else
              idx b n >>= fun e =>
              if e ≠ 61 then .ok st
              else
                sliceTo b n >>= fun param =>
                let n1 := n + 1
                idx b n1 >>= fun c =>
                if validHeaderFieldByte c then
                  tokScan validHeaderFieldByte b (b.length + 1) (n1 + 1) >>= fun n2 =>
                  slice b n1 n2 >>= fun v =>
                  f st param v >>= fun r =>
                  if !r.2 then .ok r.1
                  else sliceFrom b n2 >>= fun rest => vhpLoop f fuel r.1 rest
                else
                  idx b n1 >>= fun c2 =>
                  if c2 = 34 then
                    vhpQuoted b (b.length + 1) (n1 + 1) false >>= fun (n2, found) =>
                    if !found then .ok st
                    else
                      slice b (n1 + 1) n2 >>= fun v =>
                      f st param v >>= fun r =>
                      if !r.2 then .ok r.1
                      else sliceFrom b (n2 + 1) >>= fun rest => vhpLoop f fuel r.1 rest
                  else .ok st
    else .ok st

def visitHeaderParams {σ : Type} (f : σ → Bytes → Bytes → P (σ × Bool)) (st : σ) (b : Bytes) : P σ :=
  vhpLoop f (b.length + 1) st b

/-! ### helpers.go `paramsMatch`, `acceptsOffer`, `acceptsOfferType` -/

/-- `headerParams` as an association list; `params[lowerKey] = value` overwrites -/
abbrev HParams := List (Bytes × Bytes)

def hpSet : HParams → Bytes → Bytes → HParams
  | [], k, v => [(k, v)]
  | (k', v') :: rest, k, v => if k' = k then (k', v) :: rest else (k', v') :: hpSet rest k v

/-- one round of the `for specParam, specVal := range specParamStr` loop: the first offer parameter
    with that name (ASCII case-insensitively) decides -/
def paramFound (specParam specVal offerParams : Bytes) : P (Bool × Bool) :=
  visitHeaderParams (fun (st : Bool × Bool) key value =>
    if equalFold specParam key then .ok ((true, equalFold specVal value), false) else .ok (st, true))
    (false, true) offerParams

/-- `paramsMatch(specParams, offerParams)`; the verdict does not depend on the map's iteration order -/
def paramsMatch : HParams → Bytes → P Bool
  | [], _ => .ok true
  | (k, v) :: rest, offerParams =>
    paramFound k v offerParams >>= fun (found, ok) =>
    if !found ∨ !ok then .ok false else paramsMatch rest offerParams

/-- `acceptsOffer`: `len(spec) >= 1 && spec[len(spec)-1] == '*'`, else prefix -/
def acceptsOfferC (spec offer : Bytes) : P Bool :=
  ((if spec.length ≥ 1 then idx spec ((spec.length : Int) - 1) >>= fun c => .ok (decide (c = 42)) else .ok false) : P Bool) >>= fun star =>
  if star then .ok true else .ok (hasPrefix spec offer)

/-- `mimetype`: the offer itself when it contains a `/`, else `utils.GetMIME(offer)` -/
def offerMimetype (getMIME : Bytes → Bytes) (offerMime : Bytes) : Bytes :=
  if indexByteI offerMime 47 ≠ -1 then offerMime else getMIME offerMime

/-- `acceptsOfferType(spec, offerType, specParams)`; `getMIME` = `utils.GetMIME` -/
def acceptsOfferType (getMIME : Bytes → Bytes) (spec offerType : Bytes) (specParams : HParams) : P Bool :=
  let i := indexByteI offerType 59
  ((if i = -1 then .ok (offerType, [])
    else sliceTo offerType i >>= fun m => sliceFrom offerType i >>= fun p => .ok (m, p)) : P (Bytes × Bytes)) >>= fun (offerMime, offerParams) =>
  if spec = b "*/*" then paramsMatch specParams offerParams
  else
    let mimetype := offerMimetype getMIME offerMime
    if spec = mimetype then paramsMatch specParams offerParams
    else
      let s := indexByteI mimetype 47
      sliceTo mimetype s >>= fun pre =>
      if hasPrefix spec pre then
        sliceFrom spec s >>= fun specTail =>
        ((if specTail = b "/*" then .ok true
          else sliceFrom mimetype s >>= fun mimeTail => .ok (decide (mimeTail = b "/*"))) : P Bool) >>= fun wild =>
        if wild then paramsMatch specParams offerParams else .ok false
      else .ok false

/-! ### helpers.go `getOffer`: what is done with one media range -/

/-- `fasthttp.ParseUfloat` is a parameter: 0 = error, 1 = the value 0.0, 2 = any other value.
    (Only "is the quality zero" matters for whether a range is dropped; the order among the kept
    ranges is C09's subject.) -/
abbrev QVerdict := Bytes → Nat

structure Accepted where
  spec : Bytes
  params : Option HParams     -- `nil` unless the general path ran
  specificity : Nat
  deriving Repr, DecidableEq

/-- the callback `getOffer` hands to `forEachParameter`; state = (params, quality verdict) -/
def offerParamStep (qv : QVerdict) (st : HParams × Nat) (key value : Bytes) : P ((HParams × Nat) × Bool) :=
  -- `len(key) == 1 && (key[0] == 'q' || key[0] == 'Q')`
  ((if key.length = 1 then
      idx key 0 >>= fun c => if c = 113 then .ok true else idx key 0 >>= fun c' => .ok (decide (c' = 81))
    else .ok false) : P Bool) >>= fun isQ =>
  if isQ then .ok ((st.1, if qv value = 0 then st.2 else qv value), false)
  else .ok ((hpSet st.1 (toLower key) value, st.2), true)

/-- the `switch` on the trimmed spec: `spec[0]` is guarded by `len(spec) == 1` -/
def specificityC (spec : Bytes) : P Nat :=
  ((if spec.length = 1 then idx spec 0 >>= fun c => .ok (decide (c = 42)) else .ok false) : P Bool) >>= fun star =>
  if star then .ok 1
  else if spec = b "*/*" then .ok 1
  else if hasSuffix spec (b "/*") then .ok 2
  else if indexByteI spec 47 ≠ -1 then .ok 3
  else .ok 4

/-- the functor of `getOffer` on one media range: `none` = dropped (quality 0) -/
def offerRange (qv : QVerdict) (accept : Bytes) : P (Option Accepted) :=
  let i := indexByteI accept 59
  ((if i ≠ -1 then
      sliceTo accept i >>= fun spec =>
      let qIndex := i + 3
      sliceFrom accept i >>= fun tail =>
      -- `bytes.HasPrefix(accept[i:], ";q=") && bytes.IndexByte(accept[qIndex:], ';') == -1`
      ((if hasPrefix tail (b ";q=") then sliceFrom accept qIndex >>= fun r => .ok (decide (indexByteI r 59 = -1))
        else .ok false) : P Bool) >>= fun fast =>
      if fast then
        sliceFrom accept qIndex >>= fun r =>
        let v := qv ((r.reverse.dropWhile isOWSb).reverse)
        .ok (spec, (none : Option HParams), if v = 0 then 2 else v)
      else
        sliceFrom accept i >>= fun plist =>
        forEachParameter (offerParamStep qv) (([] : HParams), 2) plist >>= fun st =>
        .ok (spec, some st.1, st.2)
    else .ok (accept, none, 2)) : P (Bytes × Option HParams × Nat)) >>= fun (spec, params, q) =>
  if i ≠ -1 ∧ q = 1 then .ok none
  else
    let spec := trimBothOWS spec
    specificityC spec >>= fun sp => .ok (some ⟨spec, params, sp⟩)

def offerRanges (qv : QVerdict) : List Bytes → P (List Accepted)
  | [] => .ok []
  | r :: rest => offerRange qv r >>= fun a => offerRanges qv rest >>= fun as => .ok (match a with | some x => x :: as | none => as)

/-- `getOffer(header, acceptsOfferType, offer)` for ONE offer: is it accepted by some kept range?
    (with a single offer the order of the accepted types is immaterial) -/
def anyAccepts (getMIME : Bytes → Bytes) (offer : Bytes) : List Accepted → P Bool
  | [] => .ok false
  | a :: rest =>
    acceptsOfferType getMIME a.spec offer (a.params.getD []) >>= fun ok =>
    if ok then .ok true else anyAccepts getMIME offer rest

def acceptsOne (qv : QVerdict) (getMIME : Bytes → Bytes) (header offer : Bytes) : P Bool :=
  if header = [] then .ok true
  else if offer = [] then .ok false
  else
    forEachMediaRange header >>= fun rs =>
    offerRanges qv rs >>= fun as => anyAccepts getMIME offer as

/-! ### helpers.go `sortAcceptedTypes`: the binary insertion sort's index arithmetic

Elements are abstracted to their sort key: `before x y` is the four-line comparison
"`at[i]` sorts after `at[mid]`" (quality, specificity, number of parameters, order). -/

/-- `at[j-1], at[j] = at[j], at[j-1]` -/
def swapL {α : Type} (l : List α) (j : Int) : P (List α) :=
  idxL l (j - 1) >>= fun a => idxL l j >>= fun c =>
  .ok ((l.set (j - 1).toNat c).set j.toNat a)

/-- `for lo <= hi { mid := (lo+hi)/2; if after(at[i], at[mid]) { lo = mid+1 } else { hi = mid-1 } }` -/
def bsearch {α : Type} (after : α → α → Bool) (l : List α) (i : Int) : Nat → Int → Int → P Int
  | 0, _, _ => .error .fuel
  | fuel + 1, lo, hi =>
    if lo ≤ hi then
      let mid := (lo + hi) / 2
      idxL l i >>= fun x => idxL l mid >>= fun y =>
      if after x y then bsearch after l i fuel (mid + 1) hi else bsearch after l i fuel lo (mid - 1)
    else .ok lo

/-- `for j := i; j > lo; j-- { swap }` -/
def shiftDown {α : Type} : Nat → List α → Int → Int → P (List α)
  | 0, _, _, _ => .error .fuel
  | fuel + 1, l, j, lo => if j > lo then swapL l j >>= fun l' => shiftDown fuel l' (j - 1) lo else .ok l

/-- `for i := 1; i < len(at); i++ { … }` -/
def sortLoop {α : Type} (after : α → α → Bool) : Nat → List α → Int → P (List α)
  | 0, _, _ => .error .fuel
  | fuel + 1, l, i =>
    if i < l.length then
      bsearch after l i (l.length + 1) 0 (i - 1) >>= fun lo =>
      shiftDown (l.length + 1) l i lo >>= fun l' => sortLoop after fuel l' (i + 1)
    else .ok l

def sortAcceptedTypes {α : Type} (after : α → α → Bool) (l : List α) : P (List α) :=
  sortLoop after (l.length + 1) l 1

/-! ### ctx.go `Host`, `Hostname`, `Scheme`, `Port`, `IsFromLocal` -/

/-- `Host()` with a trusted proxy (the default: `TrustProxy` off): first element of
    X-Forwarded-Host if present, else the request's host -/
def host (xfh uriHost : Bytes) : P Bytes :=
  if xfh.length > 0 then
    let commaPos := indexOfI xfh [44]
    if commaPos ≠ -1 then sliceTo xfh commaPos else .ok xfh
  else .ok uriHost

/-- `Hostname()` = `parseAddr(c.Host())` first component -/
def hostname (xfh uriHost : Bytes) : P Bytes :=
  host xfh uriHost >>= fun h => parseAddr h >>= fun (a, _) => .ok a

/-- `Scheme()` (not TLS, proxy trusted): the `VisitAll` callback folded over the request headers in
    wire order; `key` is the normalised header name -/
def schemeStep (scheme : Bytes) (kv : Bytes × Bytes) : P Bytes :=
  let (key, val) := kv
  if key.length < 12 then .ok scheme
  else if hasPrefix key (b "X-Forwarded-") then
    if key = b "X-Forwarded-Proto" ∨ key = b "X-Forwarded-Protocol" then
      let commaPos := indexOfI val [44]
      if commaPos ≠ -1 then sliceTo val commaPos else .ok val
    else if key = b "X-Forwarded-Ssl" ∧ val = b "on" then .ok (b "https")
    else .ok scheme
  else if key = b "X-Url-Scheme" then .ok val
  else .ok scheme

def schemeFold : List (Bytes × Bytes) → Bytes → P Bytes
  | [], s => .ok s
  | kv :: rest, s => schemeStep s kv >>= fun s' => schemeFold rest s'

def scheme (headers : List (Bytes × Bytes)) : P Bytes := schemeFold headers (b "http")

/-- what `fasthttp.RequestCtx.RemoteAddr()` can be -/
inductive Remote where
  | tcp (ip : List Nat) (port : Nat)      -- `*net.TCPAddr`
  | other                                  -- e.g. `*net.UnixAddr`
  deriving Repr, DecidableEq

/-- `Port()`: a failed type assertion panics (`index` stands for that panic here): the accessor's
    documented domain is a TCP listener -/
def port : Remote → P Nat
  | .tcp _ p => .ok p
  | .other => .error .index

/-- `IsFromLocal()` = `RemoteIP().IsLoopback()`; `RemoteIP` answers 0.0.0.0 for a non-TCP peer -/
def isFromLocal : Remote → P Bool
  | .tcp ip _ => .ok (match ip with
      | [127, _, _, _] => true
      | [0,0,0,0,0,0,0,0,0,0,0,0,0,0,0,1] => true
      | [0,0,0,0,0,0,0,0,0,0,255,255,127,_,_,_] => true
      | _ => false)
  | .other => .ok false

/-! ### ctx.go `Params`, helpers.go `defaultString` / `genericParse*` -/

/-- `defaultString(value, defaultValue)`: `defaultValue[0]` behind `len(defaultValue) > 0` -/
def defaultString (value : Bytes) (dflt : List Bytes) : P Bytes :=
  if value.length = 0 ∧ dflt.length > 0 then idxL dflt 0 else .ok value

/-- `Params(key, defaultValue…)`: `route.Params[i]`, `c.route.Params[i]`, `c.values[i]`
    (`values` is the fixed array of `maxParams` strings; `nvals` = its length) -/
def paramsLoop (caseSensitive : Bool) (names : List Bytes) (values : List Bytes) (key : Bytes) (dflt : List Bytes) :
    Nat → Int → P Bytes
  | 0, _ => .error .fuel
  | fuel + 1, i =>
    if i < names.length then
      idxL names i >>= fun nm =>
      if key.length ≠ nm.length then paramsLoop caseSensitive names values key dflt fuel (i + 1)
      else
        idxL names i >>= fun nm2 =>
        if nm2 = key ∨ (!caseSensitive ∧ equalFold nm2 key) then
          -- `len(c.values) <= i || len(c.values[i]) == 0`
          if (values.length : Int) ≤ i then defaultString [] dflt
          else idxL values i >>= fun v =>
            if v.length = 0 then defaultString [] dflt
            else idxL values i
        else paramsLoop caseSensitive names values key dflt fuel (i + 1)
    else defaultString [] dflt

def params (caseSensitive : Bool) (names values : List Bytes) (key : Bytes) (dflt : List Bytes) : P Bytes :=
  let key := if key = [42] ∨ key = [43] then key ++ [49] else key
  paramsLoop caseSensitive names values key dflt (names.length + 1) 0

/-- `genericParseDefault` / `genericParseType`: the parser's verdict is a parameter
    (`strconv.ParseInt/ParseUint/ParseFloat/ParseBool`: `none` = error); string kinds take the
    default on the empty string -/
inductive GKind where
  | parsed      -- int*, uint*, float*, bool
  | text        -- string, []byte
  | unknown
  deriving Repr, DecidableEq

def genericParseType {α : Type} (kind : GKind) (parse : Bytes → Option α) (ofText : Bytes → α) (zero : α)
    (str : Bytes) (dflt : List α) : P α :=
  match kind with
  | .parsed =>
    match parse str with
    | some v => .ok v
    | none => if dflt.length > 0 then idxL dflt 0 else .ok zero
  | .text => if str = [] ∧ dflt.length > 0 then idxL dflt 0 else .ok (ofText str)
  | .unknown => if dflt.length > 0 then idxL dflt 0 else .ok zero

/-! ### ctx.go `configDependentPaths`, `sanitizeHeaderValue` -/

def cdpPath (unescape : Bool) (unq : Bytes → Bytes) (orig : Bytes) : Bytes := if unescape then unq orig else orig
def cdpFold (caseSensitive : Bool) (path : Bytes) : Bytes := if !caseSensitive then toLower path else path

/-- `configDependentPaths`: `(path, detectionPath, treePathHash)`; `unq` = fasthttp
    `AppendUnquotedArg`. Index expressions: `detectionPath[len-1]`, `[0]`, `[1]`, `[2]`. -/
def configDependentPaths (caseSensitive strict unescape : Bool) (unq : Bytes → Bytes) (orig : Bytes) :
    P (Bytes × Bytes × Nat) :=
  let path := cdpPath unescape unq orig
  let det := cdpFold caseSensitive path
  ((if !strict ∧ det.length > 1 then
      idx det ((det.length : Int) - 1) >>= fun l => .ok (if l = 47 then trimRight det 47 else det)
    else .ok det) : P Bytes) >>= fun det =>
  if det.length ≥ 3 then
    idx det 0 >>= fun a => idx det 1 >>= fun c => idx det 2 >>= fun d => .ok (path, det, a * 65536 + c * 256 + d)
  else .ok (path, det, 0)

/-- `sanitizeHeaderValue`: `for i := range b { if b[i] == '\r' || b[i] == '\n' { b[i] = ' ' } }` -/
def sanitizeLoop (bs : Bytes) : Nat → Int → Bytes → P Bytes
  | 0, _, _ => .error .fuel
  | fuel + 1, i, acc =>
    if i < bs.length then
      idx bs i >>= fun c => sanitizeLoop bs fuel (i + 1) (acc ++ [if c = 13 ∨ c = 10 then 32 else c])
    else .ok acc

def sanitizeHeaderValueC (v : Bytes) : P Bytes :=
  if indexByteI v 13 = -1 ∧ indexByteI v 10 = -1 then .ok v else sanitizeLoop v (v.length + 1) 0 []

/-! ### ctx.go `tryDecodeBodyInOrder` + `Body`

The decompressors (fasthttp `BodyGunzip/BodyUnbrotli/BodyInflate/BodyUnzstd`, third party) are a
parameter `dec : coding → body → Option body` (`none` = the decoder reported an error).
`decodesRealized` is a `uint8`: the arithmetic is modulo 256. -/

inductive Coding where
  | gzip | br | deflate | zstd
  deriving Repr, DecidableEq

def codingOf (e : Bytes) : Option Coding :=
  if e = b "gzip" then some .gzip else if e = b "br" ∨ e = b "brotli" then some .br
  else if e = b "deflate" then some .deflate else if e = b "zstd" then some .zstd else none

structure DecodeRes (β : Type) where
  body : Option β            -- `nil` or the decoded body
  realized : Nat             -- uint8
  failed : Bool              -- err != nil
  raw : β                    -- the request's body after the loop (`SetBodyRaw`)
  original : Option β        -- `*originalBody`
  deriving Repr

/-- the `for index, encoding := range encodings` loop -/
def decodeLoop {β : Type} (dec : Coding → β → Option β) (total : Nat) :
    List Bytes → Nat → Option β → Nat → β → Option β → DecodeRes β
  | [], _, body, realized, raw, original => ⟨body, realized, false, raw, original⟩
  | e :: rest, index, body, realized, raw, original =>
    let realized := (realized + 1) % 256
    match codingOf e with
    | none =>
      let realized := (realized + 255) % 256
      ⟨if total = 1 then some raw else body, realized, false, raw, original⟩
    | some c =>
      match dec c raw with
      | none => ⟨none, realized, true, raw, original⟩
      | some out =>
        if index + 1 < total ∧ realized > 0 then
          decodeLoop dec total rest (index + 1) (some out) realized out (if index = 0 then some raw else original)
        else decodeLoop dec total rest (index + 1) (some out) realized raw original

inductive BodyRes (β : Type) where
  | body (v : Option β)      -- what `Body()` returns (`none` = nil)
  | errText                  -- `[]byte(err.Error())`
  deriving Repr

/-- `Body()`: (result, the request's raw body afterwards) -/
def bodyDecode {β : Type} (dec : Coding → β → Option β) (ce : Bytes) (raw : β) : P (BodyRes β × β) :=
  if ce.length = 0 then .ok (.body (some raw), raw)
  else
    getSplicedStrList ce >>= fun order =>
    if order.length = 0 then .ok (.body (some raw), raw)
    else
      let r := decodeLoop dec order.length order 0 none 0 raw none
      let rawAfter := match r.original with
        | some o => if r.realized > 0 then o else r.raw
        | none => r.raw
      if r.failed then .ok (.errText, rawAfter) else .ok (.body r.body, rawAfter)

/-! ### ctx.go `isIPv6` (fix 9558aaf: groups of more than four hex digits are refused before `utils.IsIPv6`) -/

/-- `for i := 0; i < len(s); i++ { if s[i] == ':' || s[i] == '.' { digits = 0 } else if digits++; digits > 4 { return false } }` -/
def ipv6GroupsLoop (s : Bytes) : Nat → Int → Nat → P Bool
  | 0, _, _ => .error .fuel
  | fuel + 1, i, digits =>
    if i < s.length then
      idx s i >>= fun c =>
      if c = 58 then ipv6GroupsLoop s fuel (i + 1) 0
      else
        idx s i >>= fun c' =>
        if c' = 46 then ipv6GroupsLoop s fuel (i + 1) 0
        else if digits + 1 > 4 then .ok false
        else ipv6GroupsLoop s fuel (i + 1) (digits + 1)
    else .ok true

/-- `isIPv6(s)`; `v6` = `utils.IsIPv6` -/
def isIPv6C (v6 : Bytes → Bool) (s : Bytes) : P Bool :=
  ipv6GroupsLoop s (s.length + 1) 0 0 >>= fun ok => .ok (ok && v6 s)

/-! ### helpers.go `getOffer`: `offers[0]` when the request has no such header -/

def getOfferNoHeader (offers : List Bytes) : P Bytes :=
  if offers.length = 0 then .ok [] else idxL offers 0

end C07
