import FiberModel.Basic
/-
C07 (a) — checked-index models of fiber's own hand-written request parsers.

Every Go index / slice expression is modelled by a *checked* operation returning `Except Panic`:
`s[i]` ↦ `idx s i`, `s[i:j]` ↦ `slice s i j`, `s[i:]` ↦ `sliceFrom s i`, `s[:j]` ↦ `sliceTo s j`
(indices are `Int`, as Go's `int`, so a `-1` coming out of `IndexByte` really is out of range).
"Cannot panic" is then a theorem (`*_total` in Props.lean), not an artefact of totalisation.

Go sources: ctx.go `Range`, `extractIPsFromHeader`, `extractIPFromHeader`, `Subdomains`;
helpers.go `getSplicedStrList`, `forEachMediaRange`, `acceptsOfferType`, `isEtagStale`, `matchEtag`,
`isNoCache`, `parseAddr`; fasthttp `ParseUint` (bytesconv.go) as used by `Range`.
-/
namespace C07
open B

inductive Panic where
  | index      -- index out of range
  | slice      -- slice bounds out of range
  | fuel       -- a loop of the model ran out of fuel (must be unreachable too)
  deriving Repr, DecidableEq

abbrev P := Except Panic

/-- Go `s[i]` -/
def idx (s : Bytes) (i : Int) : P Nat :=
  if 0 ≤ i ∧ i < s.length then .ok (s.getD i.toNat 0) else .error .index

/-- Go `s[i:j]` -/
def slice (s : Bytes) (i j : Int) : P Bytes :=
  if 0 ≤ i ∧ i ≤ j ∧ j ≤ s.length then .ok ((s.take j.toNat).drop i.toNat) else .error .slice

/-- Go `s[i:]` -/
def sliceFrom (s : Bytes) (i : Int) : P Bytes := slice s i s.length

/-- Go `s[:j]` -/
def sliceTo (s : Bytes) (j : Int) : P Bytes := slice s 0 j

/-- `strings.IndexByte`, as an `int` (-1 = absent) -/
def indexByteI (s : Bytes) (c : Nat) : Int :=
  match indexByte s c with
  | some i => i
  | none => -1

/-- `strings.Index` as an `int` -/
def indexOfI (s pat : Bytes) : Int :=
  match indexOf s pat with
  | some i => i
  | none => -1

/-- `strings.LastIndex(s, string(c))` as an `int` -/
def lastIndexByteI (s : Bytes) (c : Nat) : Int :=
  match indexByte s.reverse c with
  | some i => (s.length : Int) - 1 - i
  | none => -1

/-! ### ctx.go `Range` -/

def wrap64 (x : Int) : Int := (x + 9223372036854775808) % 18446744073709551616 - 9223372036854775808

/-- fasthttp `parseUintBuf` + `ParseUint`: (value, error?). On every error the value is -1.
    `10*v + k` is computed in 64-bit two's complement; "overflow" is detected as `vNew < v`. -/
def parseUintLoop : Bytes → Int → Int × Bool
  | [], v => (v, false)
  | c :: cs, v =>
    if 48 ≤ c ∧ c ≤ 57 then
      let vNew := wrap64 (10 * v + ((c : Int) - 48))
      if vNew < v then (-1, true) else parseUintLoop cs vNew
    else (-1, true)     -- first char: errUnexpectedFirstChar; later: n ≠ len(buf) → errUnexpectedTrailingChar

def parseUint (s : Bytes) : Int × Bool :=
  if s = [] then (-1, true) else parseUintLoop s 0

inductive RangeRes where
  | ok (typ : Bytes) (ranges : List (Int × Int))
  | malformed
  | unsatisfiable
  deriving Repr, DecidableEq

/-- the `for moreRanges != ""` loop. `fuel` only makes the recursion structural; the theorem
    `range_total` shows `Panic.fuel` is never produced when `fuel > more.length`. -/
def rangeLoop (size : Int) : Nat → Bytes → List (Int × Int) → P (Option (List (Int × Int)))
  | 0, _, _ => .error .fuel
  | fuel + 1, more, acc =>
    if more = [] then .ok (some acc)
    else
      let ci := indexByteI more 44
      -- singleRange, moreRanges
      (if ci ≥ 0 then
         (do let s ← sliceTo more ci; let m ← sliceFrom more (ci + 1); pure (s, m))
       else (.ok (more, []) : P (Bytes × Bytes))) >>= fun (single, more') =>
      let di := indexByteI single 45
      if di = -1 then .ok none                    -- ErrRangeMalformed
      else
        (do let a ← sliceTo single di; let e ← sliceFrom single (di + 1); pure (a, e)) >>= fun (startStr, endStr) =>
        let (start0, startErr) := parseUint startStr
        let (end0, endErr) := parseUint endStr
        let (start1, end1) :=
          if startErr then (size - end0, size - 1)       -- -nnn
          else if endErr then (start0, size - 1)         -- nnn-
          else (start0, end0)
        let end2 := if end1 > size - 1 then size - 1 else end1
        if start1 > end2 ∨ start1 < 0 then rangeLoop size fuel more' acc
        else rangeLoop size fuel more' (acc ++ [(start1, end2)])

/-- ctx.go `Range(size)` on the value of the `Range` header -/
def range (hdr : Bytes) (size : Int) : P RangeRes :=
  let i := indexByteI hdr 61
  if i = -1 then .ok .malformed
  else
    sliceFrom hdr (i + 1) >>= fun after =>
    if after.contains 61 then .ok .malformed
    else
      sliceTo hdr i >>= fun typ =>
      sliceFrom hdr (i + 1) >>= fun ranges =>
      rangeLoop size (ranges.length + 1) ranges [] >>= fun r =>
      match r with
      | none => .ok .malformed
      | some [] => .ok .unsatisfiable
      | some rs => .ok (.ok typ rs)

/-! ### ctx.go `extractIPsFromHeader` / `extractIPFromHeader`

`utils.IsIPv4` / `utils.IsIPv6` (gofiber/utils) are parameters. -/

structure IPCfg where
  validate : Bool
  isV4 : Bytes → Bool
  isV6 : Bytes → Bool

/-- inner scan `for j < len(h) && h[j] != ','`: returns (j, v4, v6) -/
def scanSeg (h : Bytes) : Nat → Int → Bool → Bool → P (Int × Bool × Bool)
  | 0, _, _, _ => .error .fuel
  | fuel + 1, j, v4, v6 =>
    if j < h.length then
      idx h j >>= fun c =>
      if c ≠ 44 then scanSeg h fuel (j + 1) (v4 || c == 46) (v6 || c == 58)
      else .ok (j, v4, v6)
    else .ok (j, v4, v6)

/-- `for i < j && (h[i] == ' ' || (commaToo && h[i] == ','))` -/
def skipLead (h : Bytes) (commaToo : Bool) : Nat → Int → Int → P Int
  | 0, _, _ => .error .fuel
  | fuel + 1, i, j =>
    if i < j then
      idx h i >>= fun c =>
      if c = 32 ∨ (commaToo ∧ c = 44) then skipLead h commaToo fuel (i + 1) j else .ok i
    else .ok i

def ipAccept (cfg : IPCfg) (s : Bytes) (v4 v6 : Bool) : Bool :=
  !(cfg.validate && ((!v6 && !v4) || (v6 && !cfg.isV6 s) || (v4 && !v6 && !cfg.isV4 s)))

/-- the `iploop` of `extractIPsFromHeader` (`first = false`) and of `extractIPFromHeader`
    (`first = true`: return at the first accepted segment). State: `j` of the previous round. -/
def ipLoop (cfg : IPCfg) (h : Bytes) (first : Bool) : Nat → Int → List Bytes → P (List Bytes)
  | 0, _, _ => .error .fuel
  | fuel + 1, jPrev, acc =>
    let i := jPrev + 1
    let j := jPrev + 2
    if j > h.length then .ok acc
    else
      scanSeg h (h.length + 1) j false false >>= fun (j', v4, v6) =>
      skipLead h true (h.length + 1) i j' >>= fun i' =>
      slice h i' j' >>= fun seg =>
      let s := trimRight seg 32
      if ipAccept cfg s v4 v6 then
        (if first then .ok [s] else ipLoop cfg h first fuel j' (acc ++ [s]))
      else ipLoop cfg h first fuel j' acc

/-- `extractIPsFromHeader` (IPs()) -/
def extractIPs (cfg : IPCfg) (h : Bytes) : P (List Bytes) := ipLoop cfg h false (h.length + 2) (-1) []

/-- `extractIPFromHeader` with validation enabled: first accepted segment, `[]` = fall back to the
    remote address -/
def extractIP (cfg : IPCfg) (h : Bytes) : P (List Bytes) :=
  ipLoop { cfg with validate := true } h true (h.length + 2) (-1) []

/-! ### ctx.go `Subdomains` -/

/-- `subdomains[:l]` on a slice of strings -/
def sliceToL (l : List Bytes) (j : Int) : P (List Bytes) :=
  if 0 ≤ j ∧ j ≤ l.length then .ok (l.take j.toNat) else .error .slice

/-- `Subdomains(offset)`; the documented domain of `offset` is the non-negative integers -/
def subdomains (host : Bytes) (offset : Nat) : P (List Bytes) :=
  let parts := splitOn host 46
  let l : Int := (parts.length : Int) - offset
  let l := if l < 0 then (parts.length : Int) else l
  sliceToL parts l

/-! ### helpers.go `getSplicedStrList` -/

/-- the `for i, c := range headerValue` loop (bytes: `,` and space are ASCII, so iterating runes or
    bytes selects the same positions). `i` = index of the byte at the head of `rest`. -/
def splicedLoop (h : Bytes) : Bytes → Int → Int → Bool → List Bytes → P (List Bytes)
  | [], _, segStart, _, acc => sliceFrom h segStart >>= fun last => .ok (acc ++ [last])
  | c :: rest, i, segStart, lead, acc =>
    if c = 44 then
      slice h segStart i >>= fun seg => splicedLoop h rest (i + 1) (i + 1) true (acc ++ [seg])
    else if c = 32 ∧ lead then splicedLoop h rest (i + 1) (i + 1) lead acc
    else splicedLoop h rest (i + 1) segStart false acc

def getSplicedStrList (h : Bytes) : P (List Bytes) :=
  if h = [] then .ok [] else splicedLoop h h 0 0 true []

/-! ### helpers.go `forEachMediaRange` -/

/-- the quoted-string aware scan for the next top-level comma (`hasDQuote` branch): a backslash
    inside a quoted string makes the following byte literal -/
def mrScan (h : Bytes) : Nat → Int → Nat → Bool → P Int
  | 0, _, _, _ => .error .fuel
  | fuel + 1, n, quotes, escaping =>
    if n < h.length then
      if escaping then mrScan h fuel (n + 1) quotes false
      else
        idx h n >>= fun c =>
        if c = 44 then
          (if quotes % 2 = 0 then .ok n else mrScan h fuel (n + 1) quotes false)
        else if c = 34 then mrScan h fuel (n + 1) (quotes + 1) false
        else if c = 92 then mrScan h fuel (n + 1) quotes (quotes % 2 = 1)
        else mrScan h fuel (n + 1) quotes false
    else .ok n

/-- `bytes.TrimLeft(b, " \t")` / `bytes.Trim(b, " \t")`: optional whitespace is SP or HTAB
    (forEachMediaRange and getOffer after the C09 fixes 3ad7bde / 5f398b2) -/
def isOWSb (c : Nat) : Bool := c == 32 || c == 9
def trimLeftOWS (s : Bytes) : Bytes := s.dropWhile isOWSb
def trimBothOWS (s : Bytes) : Bytes := ((trimLeftOWS s).reverse.dropWhile isOWSb).reverse

/-- `for len(header) > 0 { … }`; returns the media ranges handed to `functor` -/
def mediaRanges (hasDQuote : Bool) : Nat → Bytes → List Bytes → P (List Bytes)
  | 0, _, _ => .error .fuel
  | fuel + 1, header, acc =>
    if header = [] then .ok acc
    else
      let header := trimLeftOWS header
      (if hasDQuote then mrScan header (header.length + 1) 0 0 false
       else .ok (let n := indexByteI header 44; if n = -1 then (header.length : Int) else n)) >>= fun n =>
      sliceTo header n >>= fun mr =>
      if n ≥ header.length then .ok (acc ++ [mr])
      else sliceFrom header (n + 1) >>= fun rest => mediaRanges hasDQuote fuel rest (acc ++ [mr])

def forEachMediaRange (header : Bytes) : P (List Bytes) :=
  mediaRanges (header.contains 34) (header.length + 1) header []

/-! ### helpers.go `acceptsOfferType` (the slicing) -/

/-- `mimetype[:s]`, `spec[s:]`, `mimetype[s:]` with `s = IndexByte(mimetype, '/')`.
    `mimetype` is the offer itself when it contains a `/`, otherwise `utils.GetMIME(offer)`,
    which for a non-empty extension always contains a `/` and for the empty string is empty.
    `none` results of the Go `&&`/`||` short-circuits are respected. -/
def acceptsOfferTypeSlices (spec mimetype : Bytes) : P Bool :=
  if spec = mimetype then .ok true
  else
    let s := indexByteI mimetype 47
    sliceTo mimetype s >>= fun pre =>
    if hasPrefix spec pre then
      sliceFrom spec s >>= fun specTail =>
      if specTail = b "/*" then .ok true
      else sliceFrom mimetype s >>= fun mimeTail => .ok (mimeTail = b "/*")
    else .ok false

/-! ### helpers.go `isEtagStale`, `isNoCache`, `parseAddr` -/

def matchEtag (s etag : Bytes) : Bool :=
  s = etag || s = b "W/" ++ etag || b "W/" ++ s = etag

def etagLoop (etag nm : Bytes) : Bytes → Int → Int → Int → P Bool
  | [], _, start, end_ => slice nm start end_ >>= fun seg => .ok (!matchEtag seg etag)
  | c :: rest, i, start, end_ =>
    if c = 32 then
      (if start = end_ then etagLoop etag nm rest (i + 1) (i + 1) (i + 1)
       else etagLoop etag nm rest (i + 1) start end_)
    else if c = 44 then
      slice nm start end_ >>= fun seg =>
      if matchEtag seg etag then .ok false else etagLoop etag nm rest (i + 1) (i + 1) (i + 1)
    else etagLoop etag nm rest (i + 1) start (i + 1)

def isEtagStale (etag noneMatch : Bytes) : P Bool := etagLoop etag noneMatch noneMatch 0 0 0

def noCache : Bytes := b "no-cache"

def isNoCache (cc : Bytes) : P Bool :=
  let i := indexOfI cc noCache
  if i = -1 then .ok false
  else
    (if i > 0 then idx cc (i - 1) >>= fun p => .ok (!(p = 32 ∨ p = 44)) else .ok false) >>= fun bad =>
    if bad then .ok false
    else if i + noCache.length = cc.length then .ok true
    else idx cc (i + noCache.length) >>= fun n => .ok (n = 44)

def parseAddr (raw : Bytes) : P (Bytes × Bytes) :=
  let i := lastIndexByteI raw 58
  if i ≠ -1 then
    sliceTo raw i >>= fun h => sliceFrom raw (i + 1) >>= fun p => .ok (h, p)
  else .ok (raw, [])

end C07

namespace C07
open B

/-! ### accessors built on the parsers (as far as the correspondence check drives them) -/

/-- ctx.go `Fresh` without If-Modified-Since: `cc`, `nm` are the request's Cache-Control and
    If-None-Match values, `etag` the response's ETag -/
def fresh (cc nm etag : Bytes) : P Bool :=
  if nm = [] then .ok false
  else
    (if cc ≠ [] then isNoCache cc else .ok false) >>= fun nc =>
    if nc then .ok false
    else if nm ≠ b "*" then
      (if etag = [] then .ok false else isEtagStale etag nm >>= fun st => .ok (!st))
    else .ok true

def knownEncodings : List Bytes := [b "gzip", b "br", b "brotli", b "deflate", b "zstd"]

/-- ctx.go `Body` / `tryDecodeBodyInOrder` for a body that is not compressed: "raw" (body returned),
    "empty" (nil), "other" (a decoder ran and reported an error) -/
def bodyClass (ce : Bytes) : P String :=
  if ce = [] then .ok "raw"
  else getSplicedStrList ce >>= fun l =>
    match l with
    | [] => .ok "raw"
    | first :: _ =>
      if knownEncodings.contains first then .ok "other"
      else if l.length = 1 then .ok "raw" else .ok "empty"

/-- helpers.go `getOffer`'s specificity for a spec without parameters -/
def specificity (spec : Bytes) : Nat :=
  if spec = [42] then 1 else if spec = b "*/*" then 1 else if hasSuffix spec (b "/*") then 2
  else if spec.contains 47 then 3 else 4

/-- stable insertion by specificity, descending (helpers.go `sortAcceptedTypes` when all qualities
    are 1 and no media range has parameters) -/
def insertSpec (x : Bytes) : List Bytes → List Bytes
  | [] => [x]
  | y :: ys => if specificity x > specificity y then x :: y :: ys else y :: insertSpec x ys
def sortSpecs (l : List Bytes) : List Bytes := l.foldl (fun acc x => insertSpec x acc) []

/-- helpers.go `acceptsOffer` -/
def acceptsOffer (spec offer : Bytes) : Bool := spec.getLast? = some 42 || hasPrefix spec offer

/-- `AcceptsCharsets(offers…)` for an `Accept-Charset` value without `;` -/
def acceptsCharsets (h : Bytes) (offers : List Bytes) : P Bytes :=
  match offers with
  | [] => .ok []
  | o0 :: _ =>
    if h = [] then .ok o0
    else forEachMediaRange h >>= fun rs =>
      let specs := rs.map fun r => trimBothOWS r
      let sorted := if specs.length > 1 then sortSpecs specs else specs
      .ok ((sorted.findSome? fun s => offers.find? fun o => o ≠ [] && acceptsOffer s o).getD [])

end C07
