import FiberModel.DriverUtil
import FiberModel.C07.Known
import FiberModel.C07.Matcher
/-
C07 driver, second family of parser cases (see harness/cmd/c07/parsers2.go): the model side of
bindq / ff / accp / match / fwd / enc2 / pdef. Core Lean only.
-/
namespace C07.Cases
open B DriverUtil C07

def pShow (r : P String) : String :=
  match r with
  | .ok s => s
  | .error e => s!"panic({repr e})"

def noPanic (obs : String) : Option String :=
  if obs = "panic" ∨ obs = "unparsable" ∨ obs.startsWith "panic:" ∨ (obs.splitOn "|").any (fun f => f = "panic" ∨ f.startsWith "panic:") then
    some "no-panic"
  else none

/-- an observation of unexpected shape: a panic is judged, anything else is outside the domain
    (e.g. a shrunk case whose request no longer reaches the handler) -/
def shapeless (id kind obs : String) : Except String Verdict :=
  match noPanic obs with
  | some c => pure { id := id, modelObs := "no panic", implObs := obs, spec := some c, tags := [kind, kind ++ "-panic"] }
  | none => throw s!"outside-domain: {kind} observation shape"

def hx (bs : Bytes) : String := if bs.isEmpty then "_" else toHex bs
def unhx (s : String) : Option Bytes := if s == "_" then some [] else fromHexAux s.toList

/-- "k:v,k:v" / "-" -/
def parseKV (s : String) : Option (List (Bytes × Bytes)) :=
  if s == "-" then some [] else (s.splitOn ",").mapM fun e =>
    match e.splitOn ":" with
    | [k, v] => do let k ← unhx k; let v ← unhx v; pure (k, v)
    | _ => none

def insertBy {α : Type} (key : α → String) (x : α) : List α → List α
  | [] => [x]
  | y :: ys => if key x ≤ key y then x :: y :: ys else y :: insertBy key x ys
def sortBy {α : Type} (key : α → String) (l : List α) : List α := l.foldr (insertBy key) []

/-! ### bindq -/

def renderMulti (r : Option (List (Bytes × List Bytes))) : String :=
  match r with
  | none => "err:" ++ toHex (b "unmatched brackets")
  | some d => "ok:" ++ ",".intercalate ((sortBy (fun (kv : Bytes × List Bytes) => toHex kv.1) d).map fun (k, vs) =>
      hx k ++ "=" ++ ";".intercalate (vs.map hx))

def renderLast (r : Option (List (Bytes × Bytes))) : String :=
  match r with
  | none => "err:" ++ toHex (b "unmatched brackets")
  | some d => "ok:" ++ ",".intercalate ((sortBy (fun (kv : Bytes × Bytes) => toHex kv.1) d).map fun (k, v) => hx k ++ "=" ++ hx v)

def handleBindQ (id cfg obs : String) : Except String Verdict := do
  match obs.splitOn "|" with
  | [args, m1, m2] =>
    let some a := parseKV args | throw "outside-domain: args"
    let split := cfg == "p"
    let model : P String := do
      let r1 ← bindQuery split a
      let r2 ← bindQueryLast split a
      pure s!"{renderMulti r1}|{renderLast r2}"
    let brackets := a.any fun kv => kv.1.contains 91 || kv.1.contains 93
    pure { id := id, modelObs := pShow model, implObs := s!"{m1}|{m2}", spec := noPanic obs,
           tags := ["bindq"] ++ (if brackets then ["nt-bindq-brackets"] else ["bindq-plain"]) }
  | _ => shapeless id "bindq" obs

def handleFF (id content obs : String) : Except String Verdict := do
  let some c := fromHex content | throw "outside-domain: content"
  pure { id := id, modelObs := pShow ((filterFlags c).map toHexField), implObs := obs, spec := noPanic obs,
         tags := ["ff", "nt-ff"] }

/-! ### accp -/

def getMIME (e : Bytes) : Bytes :=
  if e = [] then [] else (mimeOf (if e.head? = some 46 then e.drop 1 else e)).getD (b "application/octet-stream")

def knownExt (offer : Bytes) : Bool :=
  let m := match indexByte offer 59 with | some i => offer.take i | none => offer
  m.contains 47 || (mimeOf m).isSome

def parseQTable (s : String) : Option (List (Bytes × Nat)) :=
  if s == "-" then some [] else (s.splitOn ",").mapM fun e =>
    match e.splitOn ":" with
    | [k, v] => do let k ← unhx k; let n ← v.toNat?; pure (k, n)
    | _ => none

def handleAccP (id probes obs : String) : Except String Verdict := do
  let some ps := hexList probes | throw "outside-domain: probes"
  if ps.any (fun p => p = [] ∨ p.head? = some 59) then throw "outside-domain: offer must be an extension or a MIME type"
  if ps.any (fun p => !knownExt p) then throw "outside-domain: extension outside the modelled MIME table"
  match obs.splitOn "|" with
  | [seen, qt, bits] =>
    let some h := fromHex seen | throw "outside-domain: header"
    let some table := parseQTable qt | throw "outside-domain: q table"
    let qv (missing : Nat) : QVerdict := fun s => match table.find? (·.1 = s) with | some (_, v) => v | none => missing
    let run (missing : Nat) : P String := do
      let bs ← ps.mapM fun p => acceptsOne (qv missing) getMIME h p
      pure (String.ofList (bs.map fun x => if x then '1' else '0'))
    let m1 := run 1
    let m2 := run 2
    if pShow m1 ≠ pShow m2 then
      -- a quality string the harness did not tabulate decides: no guess
      return { id := id, modelObs := bits, implObs := bits, spec := noPanic obs, tags := ["accp", "outside-model"] }
    let hasParams := h.contains 59
    pure { id := id, modelObs := pShow m1, implObs := bits, spec := noPanic obs,
           tags := ["accp"] ++ (if hasParams then (if h.contains 34 then ["nt-accp-quoted"] else ["nt-accp-params"]) else ["accp-plain"]) }
  | _ => shapeless id "accp" obs

/-! ### match -/

def cfgOfBits (bits : String) : C02.Config :=
  let bl := bits.toList
  { caseSensitive := bl[0]? == some '1', strictRouting := bl[1]? == some '1', unescapePath := bl[2]? == some '1' }

def abstractId (id : C02.CType) : Bool :=
  match id with
  | .datetime | .regex | .alpha | .float | .guid => true
  | _ => false

def chk : C02.Constraint → Bytes → Bool := C02.checkConstraint [] (fun _ _ => true)

def wireSafe (p : Bytes) : Bool :=
  p.head? = some 47 && p.length ≤ 200 && p.all fun c => c > 32 && c ≠ 127 && c ≠ 63 && c ≠ 35

def handleMatch (id bits pattern path obs : String) : Except String Verdict := do
  let some pat := fromHex pattern | throw "outside-domain: pattern"
  let some pth := fromHex path | throw "outside-domain: path"
  if bits.length ≠ 3 ∨ bits.toList.any (fun c => c ≠ '0' ∧ c ≠ '1') then throw "outside-domain: config bits"
  let cfg := cfgOfBits bits
  -- the pattern must be one the parser accepts (a registration-time panic is the developer's, not a request's)
  -- a pattern the route parser refuses panics at registration (the developer's error, not a request's):
  -- not judged, not guessed
  let unparsable : Verdict := { id := id, modelObs := obs, implObs := obs, spec := none, tags := ["match", "outside-model", "match-bad-pattern"] }
  let some rpmModel := routePatternMatchC chk cfg pth pat | return unparsable
  let some r := C02.register cfg false pat | return unparsable
  if r.parser.segs.any (fun s => s.constraints.any fun c => abstractId c.id) then throw "outside-domain: constraint kind outside the model"
  match obs.splitOn "|" with
  | [rpm, route] =>
    let rpmM := pShow (rpmModel.map fun v => if v then "1" else "0")
    let tooMany := r.params.length > maxParams
    let routeM : String :=
      if !wireSafe pth then "skip"
      else if tooMany then "reg-panic"
      else
        match C02.register cfg true [] with
        | none => "?"
        | some fb =>
          let res : P String := do
            let (p, det, _) ← configDependentPaths cfg.caseSensitive cfg.strictRouting cfg.unescapePath C02.unquote pth
            let visible := C02.routeTreeKey r == [] || C02.routeTreeKey r == C02.reqTreeKey det
            let m ← (if visible then routeMatchC chk r det p else .ok none)
            match m with
            | some vals =>
              let byName ← r.params.mapM fun n => params cfg.caseSensitive r.params vals n []
              pure s!"m:{hexListField byName}:{toHexField pth}"
            | none =>
              let f ← routeMatchC chk fb det p
              pure (match f with | some _ => s!"n:{toHexField pth}" | none => "status:404")
          pShow res
    let spec := if rpm.startsWith "panic" ∨ route = "panic" ∨ route = "unparsable" ∨ (route = "reg-panic" ∧ !tooMany) then some "no-panic" else none
    let nt := if route.startsWith "m:" ∨ rpm = "1" then ["nt-match-hit"] else ["match-miss"]
    pure { id := id, modelObs := s!"{rpmM}|{routeM}", implObs := obs, spec := spec,
           tags := ["match"] ++ nt ++ (if tooMany then ["match-over-maxparams"] else []) }
  | _ => shapeless id "match" obs

/-! ### fwd -/

def handleFwd (id obs : String) : Except String Verdict := do
  match obs.splitOn "|" with
  | [hs, uh, hostO, hostnameO, schemeO, portO, localO] =>
    let some headers := parseKV hs | throw "outside-domain: headers"
    let some uriHost := fromHex uh | throw "outside-domain: uri host"
    let xfh := (headers.find? (·.1 = b "X-Forwarded-Host")).map (·.2) |>.getD []
    let remote := Remote.tcp [127, 0, 0, 1] 4242
    let model : P String := do
      let h ← host xfh uriHost
      let hn ← hostname xfh uriHost
      let s ← scheme headers
      let p ← port remote
      let l ← isFromLocal remote
      pure s!"{toHexField h}|{toHexField hn}|{toHexField s}|{p}|{if l then "1" else "0"}"
    pure { id := id, modelObs := pShow model, implObs := s!"{hostO}|{hostnameO}|{schemeO}|{portO}|{localO}", spec := noPanic obs,
           tags := ["fwd"] ++ (if xfh.contains 44 then ["nt-fwd-list"] else ["nt-fwd"]) }
  | _ => shapeless id "fwd" obs

/-! ### enc2: bodies as levels (number of outer layers already removed) -/

def codingOfLayer (s : String) : Option Coding :=
  if s = "gzip" then some .gzip else if s = "deflate" then some .deflate else if s = "zstd" then some .zstd
  else if s = "br" then some .br else none

def handleEnc2 (id layers obs : String) : Except String Verdict := do
  let ls : List String := if layers = "-" ∨ layers = "" then [] else layers.splitOn ","
  let some cs := ls.mapM codingOfLayer | throw "outside-domain: layer"
  match obs.splitOn "|" with
  | [seen, res, after] =>
    let some ce := fromHex seen | throw "outside-domain: content-encoding"
    -- decoding level j with coding c succeeds exactly when layer j was made by c
    let dec : Coding → Nat → Option Nat := fun c lvl => if cs[lvl]? = some c then some (lvl + 1) else none
    let lv (n : Nat) : String := s!"L{n}"
    let model : P String := (bodyDecode dec ce 0).map fun (r, rawAfter) =>
      let rs := match r with
        | .errText => "err"
        | .body none => "nil"
        | .body (some n) => lv n
      s!"{rs}|{lv rawAfter}"
    pure { id := id, modelObs := pShow model, implObs := s!"{res}|{after}", spec := noPanic obs,
           tags := ["enc2"] ++ (if cs.length > 200 then ["nt-enc2-deep"] else if cs.length > 0 then ["nt-enc2"] else ["enc2-plain"]) }
  | _ => shapeless id "enc2" obs

/-! ### pdef -/

def pdefPattern : Bytes := b "/p/:id/:name?/*"

def intText (i : Int) : String := toString i

def handlePdef (id key dflt intDflt obs : String) : Except String Verdict := do
  let some k := fromHex key | throw "outside-domain: key"
  let some ds := hexList dflt | throw "outside-domain: defaults"
  let idf : List Int ← (if intDflt = "-" then pure [] else match intDflt.toInt? with | some n => pure [n] | none => throw "outside-domain: int default")
  let some r := C02.register {} false pdefPattern | throw "outside-domain: pattern"
  match obs.splitOn "|" with
  | [mt, orig, qseen, pO, piO, qO, qiO] =>
    let some o := fromHex orig | throw "outside-domain: path"
    let some qs := fromHex qseen | throw "outside-domain: query value"
    let parseInt : Bytes → Option Int := fun s => if (C02.atoi s).2 then some (C02.atoi s).1 else none
    let model : P String := do
      let m ← requestMatch chk {} r o
      let (names, vals, tag) := match m with | some v => (r.params, v, "m") | none => (([] : List Bytes), ([] : List Bytes), "n")
      let p ← params false names vals k ds
      let p0 ← params false names vals k []
      let pi ← genericParseType .parsed parseInt (fun _ => (0 : Int)) 0 p0 idf
      let q ← genericParseType .text (fun _ => (none : Option Bytes)) (fun s => s) [] qs ds
      let qi ← genericParseType .parsed parseInt (fun _ => (0 : Int)) 0 qs idf
      pure s!"{tag}|{toHexField p}|{intText pi}|{toHexField q}|{intText qi}"
    pure { id := id, modelObs := pShow model, implObs := s!"{mt}|{pO}|{piO}|{qO}|{qiO}", spec := noPanic obs,
           tags := ["pdef"] ++ (if mt = "m" then ["nt-pdef"] else ["pdef-unmatched"]) }
  | _ => shapeless id "pdef" obs

/-- dispatch for the second family; `none` = not one of these kinds -/
def handle (f : List String) : Option (Except String Verdict) :=
  match f with
  | [id, "bindq", cfg, _, obs] => some (handleBindQ id cfg obs)
  | [id, "ff", content, obs] => some (handleFF id content obs)
  | [id, "accp", _, _, probes, obs] => some (handleAccP id probes obs)
  | [id, "match", bits, pattern, path, obs] => some (handleMatch id bits pattern path obs)
  | [id, "fwd", _, _, _, _, obs] => some (handleFwd id obs)
  | [id, "enc2", _, _, layers, obs] => some (handleEnc2 id layers obs)
  | [id, "pdef", _, key, dflt, intDflt, _, obs] => some (handlePdef id key dflt intDflt obs)
  | _ => none

end C07.Cases
