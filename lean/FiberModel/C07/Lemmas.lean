import FiberModel.C07.Known
/-
C07 — helper lemmas: the checked operations succeed under their side conditions, index functions
stay in range, loops consume their input.
-/
namespace C07
open B

/-- "does not panic" -/
def Ok {α : Type} (x : P α) : Prop := ∃ v, x = .ok v

theorem Ok.pure {α : Type} (v : α) : Ok (.ok v : P α) := ⟨v, rfl⟩

theorem Ok.bind {α β : Type} {x : P α} {f : α → P β} (hx : Ok x) (hf : ∀ v, x = .ok v → Ok (f v)) :
    Ok (x >>= f) := by
  obtain ⟨v, hv⟩ := hx
  subst hv
  exact hf v rfl

theorem Ok.ite {α : Type} {c : Prop} [Decidable c] {x y : P α} (hx : Ok x) (hy : Ok y) :
    Ok (if c then x else y) := by
  split <;> assumption

theorem Ok.map {α β : Type} {x : P α} (f : α → β) (hx : Ok x) : Ok (f <$> x) := by
  obtain ⟨v, hv⟩ := hx
  subst hv
  exact ⟨f v, rfl⟩

theorem slice_ok {s : Bytes} {i j : Int} (h1 : 0 ≤ i) (h2 : i ≤ j) (h3 : j ≤ s.length) :
    slice s i j = .ok ((s.take j.toNat).drop i.toNat) := by
  simp [slice, h1, h2, h3]

theorem slice_len {s r : Bytes} {i j : Int} (h : slice s i j = .ok r) :
    0 ≤ i ∧ i ≤ j ∧ j ≤ s.length ∧ (r.length : Int) = j - i := by
  unfold slice at h
  split at h
  · rename_i hc
    obtain ⟨h1, h2, h3⟩ := hc
    simp only [Except.ok.injEq] at h
    subst h
    refine ⟨h1, h2, h3, ?_⟩
    simp only [List.length_drop, List.length_take]
    omega
  · simp at h

theorem sliceFrom_ok {s : Bytes} {i : Int} (h1 : 0 ≤ i) (h2 : i ≤ s.length) :
    Ok (sliceFrom s i) := ⟨_, slice_ok h1 h2 (Int.le_refl _)⟩

theorem sliceTo_ok {s : Bytes} {j : Int} (h1 : 0 ≤ j) (h2 : j ≤ s.length) :
    Ok (sliceTo s j) := ⟨_, slice_ok (Int.le_refl _) h1 h2⟩

theorem sliceFrom_len {s r : Bytes} {i : Int} (h : sliceFrom s i = .ok r) :
    0 ≤ i ∧ i ≤ s.length ∧ (r.length : Int) = s.length - i := by
  have := slice_len h; omega

theorem sliceTo_len {s r : Bytes} {j : Int} (h : sliceTo s j = .ok r) :
    0 ≤ j ∧ j ≤ s.length ∧ (r.length : Int) = j := by
  have := slice_len h; omega

theorem idx_ok {s : Bytes} {i : Int} (h1 : 0 ≤ i) (h2 : i < s.length) : Ok (idx s i) := by
  simp [idx, h1, h2, Ok]

theorem indexByte_lt (s : Bytes) (c i : Nat) (h : indexByte s c = some i) : i < s.length := by
  induction s generalizing i with
  | nil => simp [indexByte] at h
  | cons x xs ih =>
    simp only [indexByte] at h
    split at h
    · simp at h; subst h; simp
    · cases hx : indexByte xs c with
      | none => simp [hx] at h
      | some k =>
        simp [hx] at h; subst h
        have := ih k hx
        simp; omega

/-- `strings.IndexByte` returns -1 or a valid index -/
theorem indexByteI_range (s : Bytes) (c : Nat) :
    indexByteI s c = -1 ∨ (0 ≤ indexByteI s c ∧ indexByteI s c < s.length) := by
  unfold indexByteI
  cases h : indexByte s c with
  | none => left; rfl
  | some i =>
    right
    have := indexByte_lt s c i h
    simp only
    omega

theorem indexOf_le (s pat : Bytes) (i : Nat) (h : indexOf s pat = some i) : i + pat.length ≤ s.length := by
  induction s generalizing i with
  | nil =>
    simp only [indexOf] at h
    split at h
    · rename_i hp; simp at h; subst h; simp at hp; simp [hp]
    · simp at h
  | cons x xs ih =>
    simp only [indexOf] at h
    split at h
    · rename_i hp
      simp at h; subst h
      have := List.IsPrefix.length_le (List.isPrefixOf_iff_prefix.mp hp)
      simpa using this
    · cases hx : indexOf xs pat with
      | none => simp [hx] at h
      | some k =>
        simp [hx] at h; subst h
        have := ih k hx
        simp; omega

theorem indexOfI_range (s pat : Bytes) :
    indexOfI s pat = -1 ∨ (0 ≤ indexOfI s pat ∧ indexOfI s pat + pat.length ≤ s.length) := by
  unfold indexOfI
  cases h : indexOf s pat with
  | none => left; rfl
  | some i =>
    right
    have := indexOf_le s pat i h
    simp only
    omega

theorem lastIndexByteI_range (s : Bytes) (c : Nat) :
    lastIndexByteI s c = -1 ∨ (0 ≤ lastIndexByteI s c ∧ lastIndexByteI s c < s.length) := by
  unfold lastIndexByteI
  cases h : indexByte s.reverse c with
  | none => left; rfl
  | some i =>
    right
    have := indexByte_lt s.reverse c i h
    simp only [List.length_reverse] at this
    simp only
    omega

end C07
