import FiberModel.Basic
import FiberModel.C12.Model
import FiberModel.Generated.C07Facts
/-
C07 (b) — `Emit`: for each response helper, the header lines it hands to fasthttp's header writer
(`appendHeaderLine`: name ": " value CRLF, nothing escaped), the status and the body.

Which fasthttp setter a helper routes its value through, and whether `sanitizeHeaderValue` sits in
between, is NOT written down here: it is read from `Generated/C07Facts.lean`, which the translator
re-extracts from /repo on every run (`sinkSafe`). If a helper is re-routed through a raw setter the
model follows the code, `all_sinks_safe` stops being provable, and the check searches for the
failing input.

Go sources: ctx.go Set, Append, Vary, Location, Cookie, ClearCookie, Links, Attachment, Type, Format,
JSON, JSONP, setCanonical, sanitizeHeaderValue; redirect.go To, processFlashMessages;
fasthttp header.go Set / removeNewLines, SetCanonical, SetContentType, SetCookie, cookie.go AppendBytes,
bytesconv.go AppendQuotedArg (modelled, validated differentially).
-/
namespace C07
open B

/-- ctx.go `sanitizeHeaderValue`: which bytes, and what replaces them, comes from the generated facts -/
def sanitize (v : Bytes) : Bytes :=
  v.map fun c => if Facts.sanitizerReplaces.contains c then Facts.sanitizerWith else c

/-- fasthttp `removeNewLines` (inside `ResponseHeader.Set`): CR and LF become a space -/
def removeNewLines (v : Bytes) : Bytes := v.map fun c => if c = 13 ∨ c = 10 then 32 else c

/-- every occurrence of sink `method` inside function `fn` receives a value that cannot carry CR/LF -/
def sinkSafe (fn method : String) : Bool :=
  let rows := Facts.sinks.filter fun r => r.1 == fn && r.2.1 == method
  !rows.isEmpty && rows.all fun r => r.2.2 != "raw" && r.2.2 != "unknown"

/-- a handler-supplied value on its way to sink (`fn`, `method`) -/
def through (fn method : String) (v : Bytes) : Bytes := if sinkSafe fn method then sanitize v else v

def viaSetCanonical (v : Bytes) : Bytes := through "Ctx.setCanonical" "SetCanonical" v

/-- no CR, no LF -/
def clean (v : Bytes) : Bool := !v.contains 13 && !v.contains 10

structure Resp where
  status : Nat
  lines : List (Bytes × Bytes)     -- the helper's own header lines (name, value), in no particular order
  ctype : Option Bytes             -- Content-Type, when the helper determines it
  body : Bytes
  deriving Repr

/-- what the handler of the harness sends after calling a helper that does not produce a body -/
def okBody : Bytes := b "ok"

/-- ctx.go `Append` on a response that does not have the header yet -/
def appendValue (vals : List Bytes) : Bytes :=
  vals.foldl (fun h v =>
    if h = [] then v
    else if h ≠ v ∧ !hasPrefix h (v ++ [44]) ∧ !hasSuffix h (32 :: v) ∧ (indexOf h (32 :: v ++ [44])).isNone then
      h ++ b ", " ++ v
    else h) []

/-- fasthttp `AppendQuotedArg` (behind app.quoteString): unreserved bytes stay, space ↦ `+`, the rest
    is percent-encoded with upper-case hex -/
def upperHex (n : Nat) : Nat := if n < 10 then 48 + n else 55 + n
def quoteByte (c : Nat) : Bytes :=
  if c = 32 then [43]
  else if isAlpha c || isDigit c || c = 45 || c = 95 || c = 46 || c = 126 then [c]
  else [37, upperHex (c / 16 % 16), upperHex (c % 16)]
def quoteString (s : Bytes) : Bytes := s.flatMap quoteByte

/-- ctx.go `Links` -/
def linksValue : List Bytes → Nat → Bytes
  | [], _ => []
  | l :: ls, i =>
    (if i % 2 = 0 then [60] ++ l ++ [62] else b "; rel=\"" ++ l ++ b "\",") ++ linksValue ls (i + 1)

/-- utils.GetMIME for the extensions the harness uses -/
def mimeOf (ext : Bytes) : Option Bytes :=
  if ext = b "html" then some (b "text/html")
  else if ext = b "json" then some (b "application/json")
  else if ext = b "txt" then some (b "text/plain")
  else if ext = b "png" then some (b "image/png")
  else if ext = b "xml" then some (b "application/xml")
  else none

/-- decimal digits of a natural (fasthttp `AppendUint`) -/
def decAux : Nat → Nat → Bytes → Bytes
  | 0, _, acc => acc
  | fuel + 1, n, acc => if n < 10 then (48 + n) :: acc else decAux fuel (n / 10) ((48 + n % 10) :: acc)
def dec (n : Nat) : Bytes := decAux (n + 1) n []

structure CookieArgs where
  name : Bytes
  value : Bytes
  path : Bytes
  domain : Bytes
  maxAge : Int
  secure : Bool
  httpOnly : Bool
  partitioned : Bool
  sessionOnly : Bool
  sameSite : Bytes

/-- fasthttp `normalizePath` on the domain the driver admits (`pathInDomain`): only the leading
    slash is added -/
def normalizePath (p : Bytes) : Bytes := if p.head? = some 47 then p else 47 :: p

def pathInDomain (p : Bytes) : Bool :=
  !p.contains 37 && !p.contains 46 && !p.contains 92 && (indexOf p [47, 47]).isNone

/-- ctx.go `Cookie` + fasthttp cookie.go `AppendBytes`: the value of the Set-Cookie line -/
def cookieLine (a : CookieArgs) : Bytes :=
  let key := through "Ctx.Cookie" "SetKey" a.name
  let value := through "Ctx.Cookie" "SetValue" a.value
  -- fasthttp SetPartitioned(true) forces Secure and Path=/
  let path := if a.partitioned then [47] else normalizePath (through "Ctx.Cookie" "SetPath" a.path)
  let domain := through "Ctx.Cookie" "SetDomain" a.domain
  let ss := toLower a.sameSite
  let secure := a.secure || ss = b "none" || a.partitioned     -- fasthttp SetSameSite(None) forces Secure
  (if key = [] then [] else key ++ [61]) ++ value
    ++ (if !a.sessionOnly ∧ a.maxAge ≠ 0 then b "; max-age=" ++ dec (if a.maxAge < 0 then 0 else a.maxAge.toNat) else [])
    ++ (if domain = [] then [] else b "; domain=" ++ domain)
    ++ (b "; path=" ++ path)
    ++ (if a.httpOnly then b "; HttpOnly" else [])
    ++ (if secure then b "; secure" else [])
    ++ (if ss = b "strict" then b "; SameSite=Strict" else if ss = b "none" then b "; SameSite=None"
        else if ss = b "disabled" then [] else b "; SameSite=Lax")
    ++ (if a.partitioned then b "; Partitioned" else [])

def expireSuffix : Bytes := b "=; expires=Tue, 10 Nov 2009 23:00:00 GMT"

def hLocation := b "Location"
def hSetCookie := b "Set-Cookie"
def hLink := b "Link"
def hVary := b "Vary"
def hCD := b "Content-Disposition"
def hXCTO := b "X-Content-Type-Options"

/-- the flash messages a `With` chain attaches (redirect.go `With`) -/
def flashMsgs (calls : List (Bytes × Bytes × Nat)) : List C12.Msg :=
  calls.foldl (fun ms c => C12.withMsg ms c.1 c.2.1 c.2.2) []

inductive Call where
  | set (key val : Bytes)
  | append (field : Bytes) (vals : List Bytes)
  | vary (fields : List Bytes)
  | location (path : Bytes)
  | redirectTo (loc : Bytes) (flash : List (Bytes × Bytes × Nat))
  | cookie (a : CookieArgs)
  | clearCookie (keys : List Bytes)
  | links (ls : List Bytes)
  | attachment (filename : Bytes)
  | type (ext charset : Bytes)
  | format (mediaType : Bytes)
  | json (ctype : Bytes)
  | jsonp (callback : Bytes)

/-- header names the harness passes to `Set` / `Append` -/
def headerVocab : List Bytes := [b "X-Custom", b "X-Frame-Options", b "Cache-Control", b "X-Request-Id", b "Link"]

/-- the documented domain of the helper arguments, as far as the model depends on it: header
    *names* are fixed tokens (values are arbitrary), a cookie path is one fasthttp's `normalizePath`
    leaves alone, a file name has no separator, media types are non-empty -/
def Call.inDomain : Call → Bool
  | .set k _ => headerVocab.contains k
  | .append f _ => headerVocab.contains f
  | .cookie a => pathInDomain a.path && (a.path = [] || a.path.head? = some 47)
  | .clearCookie keys => !keys.isEmpty && keys.all (· ≠ [])
  | .attachment f => f ≠ [] && !f.contains 47 && !f.contains 92 && f ≠ b "." && f ≠ b ".."
  | .format mt => mt ≠ []
  | .json ct => ct ≠ []
  | _ => true

def jsonBody : Bytes := b "\"x\""

/-- the response the handler of the harness produces for one helper call -/
def emit : Call → Resp
  | .set k v => ⟨200, [(k, removeNewLines v)], none, okBody⟩
  | .append f vs =>
    let h := appendValue vs
    ⟨200, if h = [] then [] else [(f, removeNewLines h)], none, okBody⟩
  | .vary fs =>
    let h := appendValue fs
    ⟨200, if h = [] then [] else [(hVary, removeNewLines h)], none, okBody⟩
  | .location p => ⟨200, [(hLocation, viaSetCanonical p)], none, okBody⟩
  | .redirectTo loc flash =>
    let ms := flashMsgs flash
    ⟨302, (hLocation, viaSetCanonical loc) ::
      (match C12.issue ms with
       | none => []
       | some v => [(hSetCookie, b "fiber_flash=" ++ through "Ctx.Cookie" "SetValue" v ++ b "; path=/; SameSite=Lax")]),
     none, []⟩
  | .cookie a => ⟨200, [(hSetCookie, cookieLine a)], none, okBody⟩
  | .clearCookie keys =>
    ⟨200, keys.map fun k => (hSetCookie, through "Ctx.ClearCookie" "DelClientCookie" k ++ expireSuffix), none, okBody⟩
  | .links ls =>
    ⟨200, if ls = [] then [] else [(hLink, viaSetCanonical (trimRight (linksValue ls 0) 44))], none, okBody⟩
  | .attachment fname =>
    ⟨200, [(hCD, viaSetCanonical (b "attachment; filename=\"" ++ quoteString fname ++ b "\""))], none, okBody⟩
  | .type ext cs =>
    ⟨200, [], some ((mimeOf ext).getD (b "application/octet-stream") ++ b "; charset=" ++ through "Ctx.Type" "SetContentType" cs), okBody⟩
  | .format mt => ⟨200, [(hVary, b "Accept")], some (through "Ctx.Format" "SetContentType" mt), okBody⟩
  | .json ct => ⟨200, [], some (through "Ctx.JSON" "SetContentType" ct), jsonBody⟩
  | .jsonp cb => ⟨200, [(hXCTO, b "nosniff")], some (b "text/javascript; charset=utf-8"), cb ++ b "(" ++ jsonBody ++ b ");"⟩

/-! ### (c) method table and error → status table (from the generated facts) -/

/-- app.methodInt with the default method set -/
def methodInt (m : Bytes) : Int :=
  match Facts.methodTable.find? (fun r => b r.1 = m) with
  | some r => r.2
  | none => Facts.methodDefault

/-- app.methodInt with `Config.RequestMethods` customised: `slices.Index` -/
def methodIntCustom (methods : List Bytes) (m : Bytes) : Int :=
  match methods.findIdx? (· = m) with
  | some i => i
  | none => -1

/-- router.go defaultRequestHandler: status for a request whose method is outside the configured set
    (`none`: the request is routed) -/
def unknownMethodStatus (custom : Option (List Bytes)) (m : Bytes) : Option String :=
  let mi := match custom with
    | none => methodInt m
    | some ms => methodIntCustom ms m
  if mi = -1 then some Facts.unknownMethodStatusDefault else none

inductive ServerErr where
  | smallBuffer | netTimeout | netOther | bodyTooLarge | getOnly | textTimeout | other
  deriving Repr, DecidableEq

def ServerErr.label : ServerErr → String
  | .smallBuffer => "ErrSmallBuffer"
  | .netTimeout => "errNetOP;Timeout();errNetOP"
  | .netOther => "netErr"
  | .bodyTooLarge => "ErrBodyTooLarge"
  | .getOnly => "ErrGetOnly"
  | .textTimeout => "\"timeout\""
  | .other => "default"

/-- app.serverErrorHandler: the status of the fiber error the case assigns -/
def serverErrorStatus (e : ServerErr) : String :=
  match Facts.errorTable.find? (fun r => r.1 == e.label) with
  | some r => r.2
  | none => "?"

end C07
