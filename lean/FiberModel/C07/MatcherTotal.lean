import FiberModel.C07.Total3
import FiberModel.C07.Matcher
/-
C07 (a) — the checked-index route matcher is total: for every registered pattern (every segment list
the route parser can produce) and every request path, `getMatch` / `Route.match` reach no
out-of-range index or slice.
-/
namespace C07
open B

/-- the only fact about the parsed segments the matcher's slicing depends on: a constant segment's
    `Length` is the length of its `Const` (`analyseConstantPart`: `Length: len(constPart)`) -/
def SegWF (s : C02.Seg) : Prop := s.isParam = false → s.length = s.const.length

def SegsWF (segs : List C02.Seg) : Prop := ∀ s ∈ segs, SegWF s

theorem lastIndexOf_le (s cp : Bytes) (k : Nat) (h : C02.lastIndexOf s cp = some k) : k ≤ s.length := by
  induction s generalizing k with
  | nil =>
    simp only [C02.lastIndexOf] at h
    split at h
    · simp at h; omega
    · simp at h
  | cons x xs ih =>
    simp only [C02.lastIndexOf] at h
    cases hx : C02.lastIndexOf xs cp with
    | some j =>
      simp only [hx] at h
      have := ih j hx
      simp at h
      simp
      omega
    | none =>
      simp only [hx] at h
      split at h
      · simp at h; omega
      · simp at h

theorem findParamLenForLastSegment_le (s : Bytes) (seg : C02.Seg) :
    C02.findParamLenForLastSegment s seg ≤ s.length := by
  unfold C02.findParamLenForLastSegment
  split
  · cases h : indexByte s C02.SLASH with
    | none => simp
    | some i => simp only; exact Nat.le_of_lt (indexByte_lt s _ i h)
  · exact Nat.le_refl _

theorem findGreedyLoopC_spec (cp : Bytes) (i sc : Nat) (s : Bytes) :
    ∃ r, findGreedyLoopC cp i sc s = .ok r ∧ r.length ≤ s.length := by
  induction i generalizing sc s with
  | zero => exact ⟨s, by simp [findGreedyLoopC], Nat.le_refl _⟩
  | succ i ih =>
    cases sc with
    | zero => exact ⟨s, by simp [findGreedyLoopC], Nat.le_refl _⟩
    | succ sc =>
      simp only [findGreedyLoopC]
      cases hk : C02.lastIndexOf s cp with
      | none => exact ⟨s, rfl, Nat.le_refl _⟩
      | some k =>
        simp only
        have hle := lastIndexOf_le s cp k hk
        obtain ⟨s', hs', hl⟩ := sliceTo_spec (s := s) (j := (k : Int)) (by omega) (by omega)
        rw [hs']
        simp only [bind, Except.bind]
        obtain ⟨r, hr, hrl⟩ := ih sc s'
        exact ⟨r, hr, by omega⟩

theorem bind_spec_ex {α β : Type} {x : P α} {f : α → P β} {Q : α → Prop} {R : β → Prop}
    (hx : ∃ v, x = .ok v ∧ Q v) (hf : ∀ v, Q v → ∃ w, f v = .ok w ∧ R w) : ∃ w, (x >>= f) = .ok w ∧ R w := by
  obtain ⟨v, hv, hq⟩ := hx
  subst hv
  exact hf v hq

theorem slashCheck_ok (greedy : Bool) (s : Bytes) (k : Int) (h0 : 0 ≤ k) (h1 : k ≤ s.length) :
    ∃ v, ((if !greedy then sliceTo s k >>= fun pre => .ok (decide (indexByteI pre 47 ≠ -1)) else .ok false) : P Bool) = .ok v ∧ True := by
  split
  · obtain ⟨pre, hp⟩ := sliceTo_ok (s := s) h0 h1
    rw [hp]
    exact ⟨_, rfl, trivial⟩
  · exact ⟨false, rfl, trivial⟩

/-- `findParamLen` answers a length within the string it was given -/
theorem findParamLenC_spec (s : Bytes) (seg : C02.Seg) :
    ∃ i, findParamLenC s seg = .ok i ∧ 0 ≤ i ∧ i ≤ s.length := by
  unfold findParamLenC
  split
  · have := findParamLenForLastSegment_le s seg
    exact ⟨_, rfl, by omega, by omega⟩
  · split
    · rename_i hc
      refine bind_spec_ex (sliceTo_spec (s := s) (j := (seg.length : Int)) (by omega) (by omega)) fun pre _ => ?_
      split
      · exact ⟨0, rfl, by omega, by omega⟩
      · exact ⟨_, rfl, by omega, by omega⟩
    · split
      · refine bind_spec_ex (findGreedyLoopC_spec seg.comparePart seg.partCount (C02.count s seg.comparePart) s) fun r hr => ?_
        exact ⟨_, rfl, by omega, by omega⟩
      · split
        · rename_i hone
          refine bind_spec_ex (idx_spec (s := seg.comparePart) (i := 0) (by omega) (by omega)) fun c0 _ => ?_
          simp only
          split
          · rename_i hne
            rcases indexByteI_range s c0 with h | ⟨h1, h2⟩
            · exact absurd h hne
            · refine bind_spec_ex (slashCheck_ok seg.isGreedy s _ h1 (by omega)) fun slash _ => ?_
              split
              · exact ⟨0, rfl, by omega, by omega⟩
              · exact ⟨_, rfl, h1, by omega⟩
          · exact ⟨_, rfl, by omega, by omega⟩
        · simp only
          split
          · rename_i hne
            rcases indexOfI_range s seg.comparePart with h | ⟨h1, h2⟩
            · exact absurd h hne
            · refine bind_spec_ex (slashCheck_ok seg.isGreedy s _ h1 (by omega)) fun slash _ => ?_
              split
              · exact ⟨0, rfl, by omega, by omega⟩
              · exact ⟨_, rfl, h1, by omega⟩
          · exact ⟨_, rfl, by omega, by omega⟩

/-- `findParamLen(s, segment, following)` answers a length within the string it was given -/
theorem paramLenC_spec (s : Bytes) (seg : C02.Seg) (following : List C02.Seg) :
    ∃ i, paramLenC s seg following = .ok i ∧ 0 ≤ i ∧ i ≤ s.length := by
  unfold paramLenC
  split
  · exact findParamLenC_spec s seg
  · refine bind_spec_ex (Q := fun _ => True) ?_ fun fc _ => ?_
    · unfold fullConstC
      split
      · rename_i hl
        obtain ⟨n, hn⟩ := idxL_ok (l := following) (i := 0) (by omega) (by omega)
        rw [hn]
        exact ⟨_, rfl, trivial⟩
      · exact ⟨_, rfl, trivial⟩
    · split
      · exact findParamLenC_spec s seg
      · rename_i seg'
        split
        · refine bind_spec_ex (findGreedyLoopC_spec seg'.comparePart seg'.partCount (C02.count s seg'.comparePart) s) fun r hr => ?_
          exact ⟨_, rfl, by omega, by omega⟩
        · exact findParamLenC_spec s seg'

theorem advance_spec (det path : Bytes) (i : Int) (h0 : 0 ≤ i) (h1 : i ≤ det.length)
    (hl : det.length ≤ path.length) :
    ∃ r, advance det path i = .ok r ∧ r.1.length ≤ r.2.length := by
  unfold advance
  split
  · obtain ⟨d, hd, hdl⟩ := sliceFrom_spec (s := det) h0 h1
    obtain ⟨p, hp, hpl⟩ := sliceFrom_spec (s := path) h0 (by omega)
    rw [hd]
    simp only [bind, Except.bind]
    rw [hp]
    exact ⟨(d, p), rfl, by simp only; omega⟩
  · exact ⟨(det, path), rfl, hl⟩

theorem getMatchC_total (chk : C02.Constraint → Bytes → Bool) (segs : List C02.Seg) (hwf : SegsWF segs)
    (det path : Bytes) (hl : det.length ≤ path.length) (partialCheck : Bool) (it : Nat) :
    Ok (getMatchC chk segs det path partialCheck it) := by
  induction segs generalizing det path it with
  | nil => simp only [getMatchC]; exact Ok.pure _
  | cons seg rest ih =>
    have hrest : SegsWF rest := fun s hs => hwf s (List.mem_cons_of_mem _ hs)
    have hseg : SegWF seg := hwf seg (List.mem_cons_self ..)
    simp only [getMatchC]
    split
    · rename_i hnp
      have hlen : seg.length = seg.const.length := hseg (by simpa using hnp)
      refine Ok.bind_spec (Q := fun (o : Bool) => o = true → (det.length : Int) = (seg.length : Int) - 1) ?_ fun optSlash hopt => ?_
      · split
        · rename_i hc
          obtain ⟨c, hcc⟩ := sliceTo_ok (s := seg.const) (j := (seg.length : Int) - 1) (by omega) (by omega)
          rw [hcc]
          exact ⟨_, rfl, fun _ => hc.2⟩
        · exact ⟨false, rfl, by simp⟩
      · split
        · rename_i ho
          have := hopt ho
          refine Ok.bind_spec (advance_spec det path _ (by omega) (by omega) hl) fun r hr => ?_
          exact ih hrest _ _ hr _
        · refine Ok.bind_spec (Q := fun (o : Bool) => o = true → (seg.length : Int) ≤ det.length) ?_ fun same hsame => ?_
          · split
            · rename_i hc
              obtain ⟨d, hd⟩ := sliceTo_ok (s := det) (j := (seg.length : Int)) (by omega) (by omega)
              rw [hd]
              exact ⟨_, rfl, fun _ => hc⟩
            · exact ⟨false, rfl, by simp⟩
          · split
            · exact Ok.pure _
            · rename_i hs
              have := hsame (by simpa using hs)
              refine Ok.bind_spec (advance_spec det path _ (by omega) (by omega) hl) fun r hr => ?_
              exact ih hrest _ _ hr _
    · refine Ok.bind_spec (paramLenC_spec det seg rest) fun i hi => ?_
      split
      · exact Ok.pure _
      · split
        · exact Ok.pure _
        · refine Ok.bind (sliceTo_ok hi.1 (by omega)) fun v _ => ?_
          split
          · exact Ok.pure _
          · refine Ok.bind_spec (advance_spec det path i hi.1 hi.2 hl) fun r hr => ?_
            exact Ok.bind (ih hrest _ _ hr _) fun _ _ => Ok.pure _

end C07

namespace C07
open B

/-! ### every segment list the route parser produces is well-formed -/

theorem analyseConstantPart_wf (p : Bytes) (np : Option Nat) : SegWF (C02.analyseConstantPart p np).2 := by
  intro _
  simp [C02.analyseConstantPart]

theorem analyseParameterPartW_isParam (p w : Bytes) (wc pc n : Nat) (seg : C02.Seg) (wc' pc' : Nat)
    (h : C02.analyseParameterPartW p w wc pc = some (n, seg, wc', pc')) : seg.isParam = true := by
  unfold C02.analyseParameterPartW at h
  simp only at h
  split at h
  · cases h
  · simp only [Option.some.injEq, Prod.mk.injEq] at h
    rw [← h.2.1]

theorem analyseParameterPart_isParam (p : Bytes) (wc pc n : Nat) (seg : C02.Seg) (wc' pc' : Nat)
    (h : C02.analyseParameterPart p wc pc = some (n, seg, wc', pc')) : seg.isParam = true := by
  unfold C02.analyseParameterPart at h
  simp only at h
  split at h
  · cases h
  · simp only [Option.some.injEq, Prod.mk.injEq] at h
    rw [← h.2.1]

theorem SegsWF.cons {s : C02.Seg} {rest : List C02.Seg} (hs : SegWF s) (hr : SegsWF rest) : SegsWF (s :: rest) := by
  intro x hx
  rcases List.mem_cons.mp hx with rfl | h
  · exact hs
  · exact hr x h

theorem parseLoopW_wf (fuel : Nat) (p w : Bytes) (wc pc : Nat) (segs : List C02.Seg)
    (h : C02.parseLoopW fuel p w wc pc = some segs) : SegsWF segs := by
  induction fuel generalizing p w wc pc segs with
  | zero =>
    simp only [C02.parseLoopW, Option.some.injEq] at h
    subst h
    intro s hs; cases hs
  | succ fuel ih =>
    simp only [C02.parseLoopW] at h
    split at h
    · simp only [Option.some.injEq] at h
      subst h
      intro s hs; cases hs
    · split at h
      · split at h
        · cases h
        · rename_i n seg wc' pc' hap
          cases hr : C02.parseLoopW fuel (p.drop n) (w.drop n) wc' pc' with
          | none => simp [hr] at h
          | some rest =>
            simp only [hr, Option.map_some, Option.some.injEq] at h
            subst h
            have hp := analyseParameterPartW_isParam p w wc pc n seg wc' pc' hap
            exact SegsWF.cons (fun hf => by rw [hp] at hf; cases hf) (ih _ _ _ _ _ hr)
      · simp at h
        obtain ⟨rest, hr, rfl⟩ := h
        exact SegsWF.cons (analyseConstantPart_wf p _) (ih _ _ _ _ _ hr)

theorem parseLoop_wf (fuel : Nat) (p : Bytes) (wc pc : Nat) (segs : List C02.Seg)
    (h : C02.parseLoop fuel p wc pc = some segs) : SegsWF segs := by
  induction fuel generalizing p wc pc segs with
  | zero =>
    simp only [C02.parseLoop, Option.some.injEq] at h
    subst h
    intro s hs; cases hs
  | succ fuel ih =>
    simp only [C02.parseLoop] at h
    split at h
    · simp only [Option.some.injEq] at h
      subst h
      intro s hs; cases hs
    · split at h
      · split at h
        · cases h
        · rename_i n seg wc' pc' hap
          cases hr : C02.parseLoop fuel (p.drop n) wc' pc' with
          | none => simp [hr] at h
          | some rest =>
            simp only [hr, Option.map_some, Option.some.injEq] at h
            subst h
            have hp := analyseParameterPart_isParam p wc pc n seg wc' pc' hap
            exact SegsWF.cons (fun hf => by rw [hp] at hf; cases hf) (ih _ _ _ _ hr)
      · simp at h
        obtain ⟨rest, hr, rfl⟩ := h
        exact SegsWF.cons (analyseConstantPart_wf p _) (ih _ _ _ _ hr)

theorem markLast_wf (segs : List C02.Seg) (h : SegsWF segs) : SegsWF (C02.markLast segs) := by
  induction segs with
  | nil => simpa [C02.markLast] using h
  | cons s rest ih =>
    have hs : SegWF s := h s (List.mem_cons_self ..)
    have hr : SegsWF rest := fun x hx => h x (List.mem_cons_of_mem _ hx)
    cases rest with
    | nil =>
      simp only [C02.markLast]
      exact SegsWF.cons (fun hp => hs hp) (fun _ hx => by cases hx)
    | cons r rest' =>
      simp only [C02.markLast]
      exact SegsWF.cons hs (ih hr)

theorem setCompareParts_wf (segs : List C02.Seg) (h : SegsWF segs) : SegsWF (C02.setCompareParts segs).1 := by
  induction segs with
  | nil => simpa [C02.setCompareParts] using h
  | cons s rest ih =>
    have hs : SegWF s := h s (List.mem_cons_self ..)
    have hr : SegsWF rest := fun x hx => h x (List.mem_cons_of_mem _ hx)
    simp only [C02.setCompareParts]
    split
    · exact SegsWF.cons (fun hp => hs hp) (ih hr)
    · exact SegsWF.cons hs (ih hr)

theorem metaForward_wf (segs out : List C02.Seg) (h : SegsWF segs) (hm : C02.metaForward segs = some out) :
    SegsWF out := by
  induction segs generalizing out with
  | nil =>
    simp only [C02.metaForward, Option.some.injEq] at hm
    subst hm; exact h
  | cons s rest ih =>
    have hs : SegWF s := h s (List.mem_cons_self ..)
    have hr : SegsWF rest := fun x hx => h x (List.mem_cons_of_mem _ hx)
    simp only [C02.metaForward] at hm
    cases hrest : C02.metaForward rest with
    | none => simp [hrest] at hm
    | some rest' =>
      simp only [hrest] at hm
      have hr' := ih rest' hr hrest
      split at hm
      · rename_i hp
        simp only [Option.some.injEq] at hm
        subst hm
        refine SegsWF.cons (fun hf => ?_) hr'
        -- a parameter segment: the premise `isParam = false` is contradictory
        exfalso
        revert hf
        split <;> split <;> simp [hp]
      · split at hm
        · cases hm
        · split at hm
          · simp only [Option.some.injEq] at hm
            subst hm
            exact SegsWF.cons (fun hp => hs hp) hr'
          · simp only [Option.some.injEq] at hm
            subst hm
            exact SegsWF.cons hs hr'

theorem addParameterMetaInfo_wf (segs out : List C02.Seg) (h : SegsWF segs)
    (hm : C02.addParameterMetaInfo segs = some out) : SegsWF out :=
  metaForward_wf _ out (setCompareParts_wf segs h) hm

/-- whatever pattern is parsed (as written or case-folded with the constraints as written): the
    segments satisfy the matcher's precondition -/
theorem parseRouteW_wf (pattern written : Bytes) (pr : C02.Parser)
    (h : C02.parseRouteW pattern written = some pr) : SegsWF pr.segs := by
  unfold C02.parseRouteW at h
  simp only at h
  split at h
  · cases h
  · rename_i raw hraw
    split at h
    · cases h
    · rename_i segs hsegs
      simp only [Option.some.injEq] at h
      subst h
      exact addParameterMetaInfo_wf _ _ (markLast_wf _ (parseLoopW_wf _ _ _ _ _ _ hraw)) hsegs

theorem parseRoute_wf (pattern : Bytes) (pr : C02.Parser)
    (h : C02.parseRoute pattern = some pr) : SegsWF pr.segs := by
  unfold C02.parseRoute at h
  split at h
  · cases h
  · rename_i raw hraw
    split at h
    · cases h
    · rename_i segs hsegs
      simp only [Option.some.injEq] at h
      subst h
      exact addParameterMetaInfo_wf _ _ (markLast_wf _ (parseLoop_wf _ _ _ _ _ hraw)) hsegs

theorem register_wf (cfg : C02.Config) (use : Bool) (pattern : Bytes) (r : C02.Route)
    (h : C02.register cfg use pattern = some r) : SegsWF r.parser.segs := by
  unfold C02.register at h
  simp only at h
  split at h
  · rename_i pr pp hpr hpp
    simp only [Option.some.injEq] at h
    subst h
    exact parseRouteW_wf _ _ _ hpp
  · cases h

end C07

namespace C07
open B

/-! ### headline statements -/

theorem trimRight_length_le (s : Bytes) (c : Nat) : (trimRight s c).length ≤ s.length := by
  unfold trimRight
  rw [List.length_reverse]
  have := (List.dropWhile_sublist (l := s.reverse) (· == c)).length_le
  simpa using this

theorem configDependentPaths_spec (cs strict unescape : Bool) (unq : Bytes → Bytes) (orig : Bytes) :
    ∃ r, configDependentPaths cs strict unescape unq orig = .ok r ∧ r.2.1.length ≤ r.1.length := by
  unfold configDependentPaths
  simp only
  have hfold : (cdpFold cs (cdpPath unescape unq orig)).length = (cdpPath unescape unq orig).length := by
    unfold cdpFold; split
    · exact toLower_length _
    · rfl
  refine bind_spec_ex (Q := fun det => det.length ≤ (cdpPath unescape unq orig).length) ?_ fun det hdet => ?_
  · split
    · refine bind_spec_ex (idx_spec (by omega) (by omega)) fun l _ => ?_
      refine ⟨_, rfl, ?_⟩
      split
      · have := trimRight_length_le (cdpFold cs (cdpPath unescape unq orig)) 47
        omega
      · omega
    · exact ⟨_, rfl, by omega⟩
  · split
    · refine bind_spec_ex (idx_spec (by omega) (by omega)) fun _ _ => ?_
      refine bind_spec_ex (idx_spec (by omega) (by omega)) fun _ _ => ?_
      refine bind_spec_ex (idx_spec (by omega) (by omega)) fun _ _ => ?_
      exact ⟨_, rfl, hdet⟩
    · exact ⟨_, rfl, hdet⟩

/-- `Route.match` of any route `register` accepts, on any detection path / path pair as
    `configDependentPaths` produces them (the detection path is never longer than the path):
    no out-of-range index, no out-of-range slice. -/
theorem route_match_total (cfg : C02.Config) (use : Bool) (pattern : Bytes) (r : C02.Route)
    (hreg : C02.register cfg use pattern = some r)
    (chk : C02.Constraint → Bytes → Bool) (det path : Bytes) (hl : det.length ≤ path.length) :
    Ok (routeMatchC chk r det path) := by
  unfold routeMatchC
  refine Ok.bind ?_ fun isRoot _ => ?_
  · split
    · exact Ok.bind (idx_ok (by omega) (by omega)) fun _ _ => Ok.pure _
    · exact Ok.pure _
  · split
    · exact Ok.pure _
    · split
      · split
        · exact Ok.bind (sliceFrom_ok (by omega) (by omega)) fun _ _ => Ok.pure _
        · exact Ok.pure _
      · split
        · exact getMatchC_total chk _ (register_wf cfg use pattern r hreg) det path hl _ _
        · split
          · split
            · split
              · exact Ok.bind (idx_ok (by omega) (by omega)) fun _ _ => Ok.pure _
              · exact Ok.pure _
            · split
              · exact Ok.bind (sliceTo_ok (by omega) (by omega)) fun _ _ => Ok.pure _
              · exact Ok.pure _
          · exact Ok.pure _

/-- a request through the router: for EVERY registered pattern, every configuration of
    CaseSensitive / StrictRouting / UnescapePath, every request path (any bytes), every behaviour of
    the constraint checkers and of `AppendUnquotedArg`: normalising the path and matching it against
    the route panics nowhere. -/
theorem request_match_total (cfg : C02.Config) (use : Bool) (pattern : Bytes) (r : C02.Route)
    (hreg : C02.register cfg use pattern = some r)
    (chk : C02.Constraint → Bytes → Bool) (orig : Bytes) : Ok (requestMatch chk cfg r orig) := by
  unfold requestMatch
  refine Ok.bind_spec (configDependentPaths_spec _ _ _ _ orig) fun v hv => ?_
  obtain ⟨path, det, h⟩ := v
  exact route_match_total cfg use pattern r hreg chk det path hv

theorem rpmPaths_len (cfg : C02.Config) (path : Bytes) : (rpmPaths cfg path).2.length ≤ (rpmPaths cfg path).1.length := by
  unfold rpmPaths
  simp only
  generalize (if cfg.unescapePath = true then C02.unquote (if path.isEmpty = true then [47] else path)
    else if path.isEmpty = true then [47] else path) = p
  have hfold : (if (!cfg.caseSensitive) = true then toLower p else p).length = p.length := by
    split
    · exact toLower_length _
    · rfl
  have key : ∀ d : Bytes, d.length = p.length →
      (if (!cfg.strictRouting && decide (d.length > 1)) = true then trimRight d 47 else d).length ≤ p.length := by
    intro d hd
    split
    · have := trimRight_length_le d 47; omega
    · omega
  exact key _ hfold

/-- the public `RoutePatternMatch(path, pattern, cfg)`: whenever the pattern parses, matching any
    path against it panics nowhere -/
theorem routePatternMatch_total (chk : C02.Constraint → Bytes → Bool) (cfg : C02.Config) (path pattern : Bytes)
    (x : P Bool) (h : routePatternMatchC chk cfg path pattern = some x) : Ok x := by
  unfold routePatternMatchC at h
  simp only at h
  split at h
  · cases h
  · rename_i pp hpp
    obtain rfl := Option.some.inj h
    unfold rpmDecide
    split
    · exact Ok.pure _
    · split
      · exact Ok.pure _
      · split
        · exact Ok.bind (getMatchC_total chk _ (parseRouteW_wf _ _ _ hpp) _ _ (rpmPaths_len cfg path) _ _) fun _ _ => Ok.pure _
        · exact Ok.pure _

-- non-vacuity: a pattern with a constant, two parameters, an optional one and a wildcard registers,
-- and a request is matched with the values cut where expected
example : (C02.register {} false (b "/api/:user/files-:id?/*")).isSome = true := by decide
example : (C02.register {} false (b "/api/:user/files-:id?/*")).bind
    (fun r => match requestMatch (fun _ _ => true) {} r (b "/API/bob/files-7/a/b/") with
      | .ok v => v | .error _ => none) = some [b "bob", b "7", b "a/b"] := by decide

end C07

namespace C07
open B

set_option linter.unusedSimpArgs false in
/-- path.go `CheckConstraint`: whatever data a pattern's constraint was written with (none, one,
    two, more items), the accesses `c.Data[0]` / `c.Data[1]` stay in range -/
theorem constraintData_total (id : C02.CType) (data : List Bytes) : Ok (constraintDataC id data) := by
  unfold constraintDataC
  split
  · exact Ok.pure _
  · rename_i h1
    split
    · exact Ok.pure _
    · rename_i h2
      cases id <;> simp only [needOneData, needTwoData, true_and, false_and, not_false_eq_true] at h1 h2 ⊢
      all_goals first
        | exact Ok.pure _
        | exact Ok.bind (idxL_ok (by omega) (by omega)) fun _ _ => Ok.pure _
        | exact Ok.bind (idxL_ok (by omega) (by omega)) fun _ _ => Ok.bind (idxL_ok (by omega) (by omega)) fun _ _ => Ok.pure _

end C07

