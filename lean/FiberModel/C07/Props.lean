import FiberModel.C07.Total
import FiberModel.C07.MatcherTotal
import FiberModel.C07.MatcherEq
import FiberModel.C07.Accounted
import FiberModel.C12.Props
/-
C07 — property theorems.

(a) `*_total` (Total.lean, Total2.lean, Total3.lean, MatcherTotal.lean; listed in props/C07.json):
    no input reaches a panic in fiber's own request parsers, binder key parser, negotiation scanners,
    accessors and route matcher. `index_sites_accounted` / `modelled_sites_pinned` (Accounted.lean):
    which Go functions those models cover, over a table regenerated from /repo on every run.
    Here: the flash decoder's allocation bound (from C12).
(b) `no_header_injection`, `emitted_block_reads_back`: whatever a handler passes to a response helper,
    every value handed to the header writer is free of CR/LF, so a strict reader recovers exactly the
    intended header lines and the body starts where intended. Rests on `all_sinks_safe`, a statement
    about the table the translator regenerates from /repo on every run.
(c) `unknown_method_501`, `server_error_status_table`.
-/
namespace C07
open B

/-! ### facts regenerated from /repo -/

/-- no helper hands a handler-controlled value to a raw fasthttp setter -/
theorem all_sinks_safe :
    Facts.sinks.all (fun r => r.2.2 != "raw" && r.2.2 != "unknown") = true := by decide

theorem sanitizer_facts : Facts.sanitizerReplaces = [10, 13] ∧ Facts.sanitizerWith = 32 := by decide

theorem safe_setCanonical : sinkSafe "Ctx.setCanonical" "SetCanonical" = true := by decide
theorem safe_cookie_key : sinkSafe "Ctx.Cookie" "SetKey" = true := by decide
theorem safe_cookie_value : sinkSafe "Ctx.Cookie" "SetValue" = true := by decide
theorem safe_cookie_path : sinkSafe "Ctx.Cookie" "SetPath" = true := by decide
theorem safe_cookie_domain : sinkSafe "Ctx.Cookie" "SetDomain" = true := by decide
theorem safe_clearcookie : sinkSafe "Ctx.ClearCookie" "DelClientCookie" = true := by decide
theorem safe_type : sinkSafe "Ctx.Type" "SetContentType" = true := by decide
theorem safe_format : sinkSafe "Ctx.Format" "SetContentType" = true := by decide
theorem safe_json : sinkSafe "Ctx.JSON" "SetContentType" = true := by decide

/-! ### cleanliness algebra -/

theorem clean_iff (v : Bytes) : clean v = true ↔ ∀ c ∈ v, c ≠ 13 ∧ c ≠ 10 := by
  unfold clean
  simp only [Bool.and_eq_true, Bool.not_eq_true', List.contains_eq_mem, decide_eq_false_iff_not]
  constructor
  · intro ⟨h1, h2⟩ c hc
    exact ⟨fun e => h1 (e ▸ hc), fun e => h2 (e ▸ hc)⟩
  · intro h
    exact ⟨fun hm => (h 13 hm).1 rfl, fun hm => (h 10 hm).2 rfl⟩

theorem clean_append (a c : Bytes) : clean (a ++ c) = (clean a && clean c) := by
  unfold clean
  simp only [List.contains_eq_mem, List.mem_append, Bool.decide_or, Bool.not_or]
  cases decide (13 ∈ a) <;> cases decide (13 ∈ c) <;> cases decide (10 ∈ a) <;> cases decide (10 ∈ c) <;> rfl

theorem clean_cons (x : Nat) (a : Bytes) : clean (x :: a) = (decide (x ≠ 13 ∧ x ≠ 10) && clean a) := by
  unfold clean
  by_cases h1 : x = 13
  · subst h1; simp
  · by_cases h2 : x = 10
    · subst h2; simp
    · have e1 : ¬ (13 = x) := fun e => h1 e.symm
      have e2 : ¬ (10 = x) := fun e => h2 e.symm
      simp [e1, e2, h1, h2]

theorem clean_nil : clean [] = true := rfl

theorem sanitize_clean (v : Bytes) : clean (sanitize v) = true := by
  rw [clean_iff]
  intro c hc
  simp only [sanitize, List.mem_map] at hc
  obtain ⟨x, _, rfl⟩ := hc
  simp only [sanitizer_facts.1, sanitizer_facts.2]
  by_cases h1 : x = 10
  · subst h1; decide
  · by_cases h2 : x = 13
    · subst h2; decide
    · have : ([10, 13] : List Nat).contains x = false := by simp [h1, h2]
      simp only [this]
      exact ⟨h2, h1⟩

theorem removeNewLines_clean (v : Bytes) : clean (removeNewLines v) = true := by
  rw [clean_iff]
  intro c hc
  simp only [removeNewLines, List.mem_map] at hc
  obtain ⟨x, _, rfl⟩ := hc
  split
  · decide
  · rename_i h; exact ⟨fun e => h (Or.inl e), fun e => h (Or.inr e)⟩

theorem through_clean (fn m : String) (h : sinkSafe fn m = true) (v : Bytes) : clean (through fn m v) = true := by
  simp [through, h, sanitize_clean]

theorem decAux_clean (fuel n : Nat) (acc : Bytes) (h : clean acc = true) : clean (decAux fuel n acc) = true := by
  induction fuel generalizing n acc with
  | zero => simpa [decAux] using h
  | succ f ih =>
    simp only [decAux]
    split
    · rw [clean_cons, h]; simp; omega
    · apply ih
      rw [clean_cons, h]; simp; omega

theorem dec_clean (n : Nat) : clean (dec n) = true := decAux_clean _ _ _ rfl

theorem vocab_nameOK (k : Bytes) (h : headerVocab.contains k = true) : nameOK k = true := by
  simp only [headerVocab, List.contains_cons, List.contains_nil, Bool.or_false, Bool.or_eq_true, beq_iff_eq] at h
  rcases h with h | h | h | h | h <;> (subst h; decide)

/-! ### (b) no header injection -/

theorem nok_location : nameOK hLocation = true := by decide
theorem nok_setcookie : nameOK hSetCookie = true := by decide
theorem nok_link : nameOK hLink = true := by decide
theorem nok_cd : nameOK hCD = true := by decide
theorem nok_ct : nameOK hCT = true := by decide
theorem nok_vary : nameOK hVary = true := by decide
theorem nok_xcto : nameOK hXCTO = true := by decide

/-- every line the helper hands to the writer, including Content-Type when the helper sets it -/
def allLines (c : Call) : List (Bytes × Bytes) :=
  (emit c).lines ++ (match (emit c).ctype with | some ct => [(hCT, ct)] | none => [])

theorem cookieLine_clean (a : CookieArgs) : clean (cookieLine a) = true := by
  unfold cookieLine
  simp only [clean_append]
  have k := through_clean _ _ safe_cookie_key a.name
  have v := through_clean _ _ safe_cookie_value a.value
  have p := through_clean _ _ safe_cookie_path a.path
  have d := through_clean _ _ safe_cookie_domain a.domain
  have np : clean (normalizePath (through "Ctx.Cookie" "SetPath" a.path)) = true := by
    unfold normalizePath; split
    · exact p
    · rw [clean_cons, p]; decide
  have hmax : clean (dec (if a.maxAge < 0 then 0 else a.maxAge.toNat)) = true := dec_clean _
  simp only [Bool.and_eq_true]
  refine ⟨⟨⟨⟨⟨⟨⟨⟨?_, v⟩, ?_⟩, ?_⟩, ?_⟩, ?_⟩, ?_⟩, ?_⟩, ?_⟩
  · split
    · rfl
    · rw [clean_append, k]; decide
  · split
    · rw [clean_append, hmax]; decide
    · rfl
  · split
    · rfl
    · rw [clean_append, d]; decide
  · refine ⟨by decide, ?_⟩
    split
    · decide
    · exact np
  · split <;> decide
  · split <;> decide
  · split
    · decide
    · split
      · decide
      · split <;> decide
  · split <;> decide

/-- `no_header_injection`: for every response helper and every argument (any byte strings; header
    *names* from the documented domain), every value reaching the header writer is free of CR and LF
    and every name is a proper field name. -/
theorem no_header_injection (c : Call) (hd : c.inDomain = true) :
    ∀ l ∈ allLines c, nameOK l.1 = true ∧ clean l.2 = true := by
  have sc := fun v => through_clean _ _ safe_setCanonical v
  cases c with
  | set k v =>
    simp only [Call.inDomain] at hd
    simp [allLines, emit, vocab_nameOK k hd, removeNewLines_clean]
  | append f vs =>
    simp only [Call.inDomain] at hd
    simp only [allLines, emit]
    split <;> simp [vocab_nameOK f hd, removeNewLines_clean]
  | vary fs =>
    simp only [allLines, emit]
    split <;> simp [removeNewLines_clean]
    decide
  | location p =>
    simp only [allLines, emit, viaSetCanonical, List.append_nil, List.mem_singleton]
    rintro l rfl
    exact ⟨nok_location, sc p⟩
  | redirectTo loc flash =>
    simp only [allLines, emit, viaSetCanonical, List.append_nil]
    intro l hl
    simp only [List.mem_cons] at hl
    rcases hl with rfl | hl
    · exact ⟨nok_location, sc loc⟩
    · split at hl
      · simp at hl
      · simp only [List.mem_singleton] at hl
        subst hl
        refine ⟨nok_setcookie, ?_⟩
        simp only [clean_append, through_clean _ _ safe_cookie_value]
        decide
  | cookie a =>
    simp only [allLines, emit, List.append_nil, List.mem_singleton]
    rintro l rfl
    exact ⟨nok_setcookie, cookieLine_clean a⟩
  | clearCookie keys =>
    simp only [allLines, emit, List.append_nil, List.mem_map]
    rintro l ⟨k, _, rfl⟩
    refine ⟨nok_setcookie, ?_⟩
    simp only [clean_append, through_clean _ _ safe_clearcookie]
    decide
  | links ls =>
    simp only [allLines, emit, viaSetCanonical]
    split
    · simp
    · simp only [List.append_nil, List.mem_singleton]
      rintro l rfl
      exact ⟨nok_link, sc _⟩
  | attachment f =>
    simp only [allLines, emit, viaSetCanonical, List.append_nil, List.mem_singleton]
    rintro l rfl
    exact ⟨nok_cd, sc _⟩
  | type ext cs =>
    simp only [allLines, emit, List.nil_append, List.mem_singleton]
    rintro l rfl
    refine ⟨nok_ct, ?_⟩
    simp only [clean_append, through_clean _ _ safe_type]
    have : clean ((mimeOf ext).getD (b "application/octet-stream")) = true := by
      unfold mimeOf
      repeat' split
      all_goals decide
    simp [this]
    decide
  | format mt =>
    simp only [allLines, emit]
    intro l hl
    simp only [List.cons_append, List.nil_append, List.mem_cons, List.not_mem_nil, or_false] at hl
    rcases hl with rfl | rfl
    · exact ⟨nok_vary, by decide⟩
    · exact ⟨nok_ct, through_clean _ _ safe_format mt⟩
  | json ct =>
    simp only [allLines, emit, List.nil_append, List.mem_singleton]
    rintro l rfl
    exact ⟨nok_ct, through_clean _ _ safe_json ct⟩
  | jsonp cb =>
    simp only [allLines, emit]
    intro l hl
    simp only [List.cons_append, List.nil_append, List.mem_cons, List.not_mem_nil, or_false] at hl
    rcases hl with rfl | rfl
    · exact ⟨nok_xcto, by decide⟩
    · exact ⟨nok_ct, by decide⟩

-- a redirect target that tries to add a header and start the body: neutralised
example : (emit (.location (b "/x\r\nSet-Cookie: a=b\r\n\r\n<html>"))).lines =
    [(b "Location", b "/x  Set-Cookie: a=b    <html>")] := by decide

/-! ### the strict reader recovers exactly what was written -/

theorem readLine_clean (l rest : Bytes) (h : clean l = true) : readLine (l ++ crlf ++ rest) = some (l, rest) := by
  induction l with
  | nil => simp [readLine, crlf]
  | cons c l ih =>
    rw [clean_cons] at h
    simp only [Bool.and_eq_true, decide_eq_true_eq] at h
    obtain ⟨⟨h1, h2⟩, h3⟩ := h
    simp only [List.cons_append, readLine, h1, h2, if_false]
    rw [ih h3]
    rfl

theorem splitField_name (n v : Bytes) (h : n.contains 58 = false) : splitField (n ++ [58, 32] ++ v) = some (n, v) := by
  induction n with
  | nil => simp [splitField]
  | cons c n ih =>
    simp only [List.contains_cons, Bool.or_eq_false_iff, beq_eq_false_iff_ne, ne_eq] at h
    obtain ⟨h1, h2⟩ := h
    have : ¬ c = 58 := fun e => h1 e.symm
    simp only [List.cons_append, splitField, this, if_false]
    have := ih h2
    simp only [List.append_assoc, List.cons_append, List.nil_append] at this
    simp only [List.append_assoc, List.cons_append, List.nil_append, this]
    rfl

theorem readBlock_writeBlock (lines : List (Bytes × Bytes)) (body : Bytes) (fuel : Nat)
    (hf : lines.length < fuel) (hl : ∀ l ∈ lines, nameOK l.1 = true ∧ clean l.2 = true) :
    readBlock fuel (writeBlock lines body) = some (lines, body) := by
  induction lines generalizing fuel with
  | nil =>
    cases fuel with
    | zero => omega
    | succ f => simp [readBlock, writeBlock, readLine, crlf]
  | cons nv rest ih =>
    obtain ⟨n, v⟩ := nv
    cases fuel with
    | zero => omega
    | succ f =>
      have ⟨hn, hv⟩ := hl (n, v) (by simp)
      simp only [nameOK, Bool.and_eq_true, ne_eq, Bool.not_eq_true', decide_eq_true_eq] at hn
      obtain ⟨⟨hne, hcolon⟩, hclean⟩ := hn
      have hline : clean (n ++ [58, 32] ++ v) = true := by
        simp only [clean_append, hclean, hv]; decide
      simp only [readBlock, writeBlock]
      have e : n ++ [58, 32] ++ v ++ crlf ++ writeBlock rest body = (n ++ [58, 32] ++ v) ++ crlf ++ writeBlock rest body := by
        simp
      rw [e, readLine_clean _ _ hline]
      have hnonempty : n ++ [58, 32] ++ v ≠ [] := by
        cases n with
        | nil => exact absurd rfl hne
        | cons _ _ => simp
      have ihr := ih f (by simp at hf; omega) (fun l hm => hl l (by simp [hm]))
      cases hcase : n ++ [58, 32] ++ v with
      | nil => exact absurd hcase hnonempty
      | cons x xs =>
        simp only
        rw [← hcase, splitField_name n v hcolon, ihr]

/-- `emitted_block_reads_back`: for every helper call in the documented domain, a strict reader
    (CRLF line ends only, a bare CR or LF is an error) recovers from the bytes the header writer
    produces exactly the intended lines, in order, and exactly the intended body: no value adds a
    header line or starts the body early. -/
theorem emitted_block_reads_back (c : Call) (hd : c.inDomain = true) :
    readBlock ((allLines c).length + 1) (writeBlock (allLines c) (emit c).body) = some (allLines c, (emit c).body) :=
  readBlock_writeBlock _ _ _ (by omega) (no_header_injection c hd)

-- without the sanitiser the same bytes WOULD read back as two header lines and an early body
example : readBlock 5 (writeBlock [(b "Location", b "/x\r\nSet-Cookie: a=b\r\n\r\n<html>")] (b "ok")) =
    some ([(b "Location", b "/x"), (b "Set-Cookie", b "a=b")], b "<html>\r\n\r\nok") := by decide

/-! ### (a) the flash decoder (shared with C12) -/

/-- `flash_decode_alloc_linear`: element allocation ≤ 40 bytes per byte of cookie, for every cookie
    and every state of the pooled slice -/
theorem flash_decode_alloc_linear (s : C12.Slice) (cookie : Bytes) :
    (C12.parseAndClear s cookie).alloc ≤ 40 * cookie.length :=
  C12.decode_alloc_linear s cookie

/-! ### (c) methods and server errors -/

theorem methodInt_known (m : Bytes) (h : defaultMethods.contains m = true) : methodInt m ≠ -1 := by
  simp only [defaultMethods, List.contains_cons, List.contains_nil, Bool.or_false, Bool.or_eq_true, beq_iff_eq] at h
  rcases h with h | h | h | h | h | h | h | h | h <;> (subst h; decide)

theorem methodInt_unknown (m : Bytes) (h : defaultMethods.contains m = false) : methodInt m = -1 := by
  simp only [defaultMethods, List.contains_cons, List.contains_nil, Bool.or_false, Bool.or_eq_false_iff,
    beq_eq_false_iff_ne, ne_eq] at h
  obtain ⟨h1, h2, h3, h4, h5, h6, h7, h8, h9⟩ := h
  have t : Facts.methodTable = [("GET", 0), ("HEAD", 1), ("POST", 2), ("PUT", 3), ("DELETE", 4), ("CONNECT", 5),
      ("OPTIONS", 6), ("TRACE", 7), ("PATCH", 8)] := by decide
  have d : Facts.methodDefault = -1 := by decide
  unfold methodInt
  rw [t, d]
  have e : ∀ (s : String), (decide (b s = m)) = false ↔ m ≠ b s := by
    intro s; simp [eq_comm]
  simp only [List.find?_cons, List.find?_nil]
  rw [(e "GET").2 h1, (e "HEAD").2 h2, (e "POST").2 h3, (e "PUT").2 h4, (e "DELETE").2 h5, (e "CONNECT").2 h6,
    (e "OPTIONS").2 h7, (e "TRACE").2 h8, (e "PATCH").2 h9]

/-- `unknown_method_501`, default method set: a request is answered 501 by the request handler iff
    its method is outside the nine default methods (and both handlers have the guard) -/
theorem unknown_method_501 (m : Bytes) :
    unknownMethodStatus none m = (if defaultMethods.contains m then none else some "501") := by
  have g : Facts.unknownMethodStatusDefault = "501" ∧ Facts.unknownMethodStatusCustom = "501" := by decide
  unfold unknownMethodStatus
  cases h : defaultMethods.contains m with
  | true => simp [methodInt_known m h]
  | false => simp [methodInt_unknown m h, g.1]

theorem findIdx_none_iff (ms : List Bytes) (m : Bytes) : ms.findIdx? (· = m) = none ↔ ms.contains m = false := by
  rw [List.findIdx?_eq_none_iff]
  simp only [decide_eq_false_iff_not, List.contains_eq_mem]
  constructor
  · intro h hm; exact h m hm rfl
  · intro h x hx e; exact h (e ▸ hx)

/-- `unknown_method_501`, customised `RequestMethods`: 501 iff the method is not in the list -/
theorem unknown_method_501_custom (methods : List Bytes) (m : Bytes) :
    unknownMethodStatus (some methods) m = (if methods.contains m then none else some "501") := by
  have g : Facts.unknownMethodStatusDefault = "501" := by decide
  unfold unknownMethodStatus methodIntCustom
  cases h : methods.contains m with
  | true =>
    cases hf : methods.findIdx? (· = m) with
    | none => rw [(findIdx_none_iff methods m).1 hf] at h; cases h
    | some i =>
      have : ((i : Nat) : Int) ≠ -1 := by omega
      simp [hf, this]
  | false =>
    have hf := (findIdx_none_iff methods m).2 h
    simp [hf, g]

/-- `server_error_status_table`: what `serverErrorHandler` maps each class of fasthttp error to -/
theorem server_error_status_table :
    serverErrorStatus .smallBuffer = "431" ∧ serverErrorStatus .netTimeout = "408" ∧
    serverErrorStatus .netOther = "502" ∧ serverErrorStatus .bodyTooLarge = "413" ∧
    serverErrorStatus .getOnly = "405" ∧ serverErrorStatus .textTimeout = "408" ∧
    serverErrorStatus .other = "400" := by decide

end C07

namespace C07
open B

/-! ### known finding K1: control bytes in the flash cookie value -/

/-- full statement (false): the Set-Cookie value of every redirect with flash messages consists of
    field-value bytes. Level 0 puts a NUL into it. -/
theorem flash_value_bytes_witness_K1 :
    ¬ (∀ c : Call, ∀ l ∈ (emit c).lines, l.2.all fieldByte = true) := by
  intro h
  have hm : (emit (.redirectTo (b "/x") [(b "k", b "v", 0)])).lines.any (fun l => !l.2.all fieldByte) = true := by decide
  rw [List.any_eq_true] at hm
  obtain ⟨l, hl, hbad⟩ := hm
  have := h _ l hl
  simp [this] at hbad

/-- outside K1 the flash cookie line is made of field-value bytes only -/
theorem flash_value_bytes_partial (loc : Bytes) (flash : List (Bytes × Bytes × Nat))
    (hk : Known.K1 (.redirectTo loc flash) = false) (v : Bytes) (hv : C12.issue (flashMsgs flash) = some v) :
    (b "fiber_flash=" ++ through "Ctx.Cookie" "SetValue" v ++ b "; path=/; SameSite=Lax").all fieldByte = true := by
  simp only [Known.K1, hv, Bool.not_eq_false'] at hk
  have hs : through "Ctx.Cookie" "SetValue" v = C12.sanitize v := by
    simp only [through, safe_cookie_value, if_true, sanitize, C12.sanitize, sanitizer_facts.1, sanitizer_facts.2]
    apply List.map_congr_left
    intro c _
    by_cases h1 : c = 13
    · subst h1; decide
    · by_cases h2 : c = 10
      · subst h2; decide
      · have : ([10, 13] : List Nat).contains c = false := by simp [h1, h2]
        simp [h1, h2]
  rw [hs]
  simp only [List.all_append, hk, Bool.and_true]
  decide

end C07

namespace C07
open B

/-! ### model ⊑ spec for the "exactly the intended lines / body / status" clauses -/

theorem appendFold_nil_iff (vs : List Bytes) (acc : Bytes) :
    vs.foldl (fun h v =>
      if h = [] then v
      else if h ≠ v ∧ !hasPrefix h (v ++ [44]) ∧ !hasSuffix h (32 :: v) ∧ (indexOf h (32 :: v ++ [44])).isNone then
        h ++ b ", " ++ v
      else h) acc = [] ↔ acc = [] ∧ ∀ v ∈ vs, v = [] := by
  induction vs generalizing acc with
  | nil => simp
  | cons v vs ih =>
    simp only [List.foldl_cons]
    rw [ih]
    by_cases ha : acc = []
    · subst ha; simp
    · simp only [ha, if_false, false_and, iff_false, not_and]
      intro h
      exfalso
      split at h
      · simp only [List.append_eq_nil_iff] at h; exact ha h.1.1
      · exact ha h

theorem appendValue_nil_iff (vs : List Bytes) : appendValue vs = [] ↔ ∀ v ∈ vs, v = [] := by
  unfold appendValue
  rw [appendFold_nil_iff]; simp

/-- the header names the model emits are exactly the names the spec says the call intends, the body
    is the intended body and the status the intended status -/
theorem emit_meets_intent (c : Call) :
    (emit c).lines.map (·.1) = intendedNames c ∧ (emit c).body = intendedBody c ∧ (emit c).status = intendedStatus c := by
  cases c with
  | append f vs =>
    refine ⟨?_, rfl, rfl⟩
    simp only [emit, intendedNames]
    by_cases h : appendValue vs = []
    · have := (appendValue_nil_iff vs).1 h
      have hany : vs.any (· ≠ []) = false := by
        rw [List.any_eq_false]; intro v hv; simp [this v hv]
      simp only [h, hany]; rfl
    · have hany : vs.any (· ≠ []) = true := by
        refine Classical.byContradiction fun hc => h ?_
        rw [appendValue_nil_iff]
        intro v hv
        refine Classical.byContradiction fun hne => hc ?_
        rw [List.any_eq_true]
        exact ⟨v, hv, by simp [hne]⟩
      simp only [h, hany]; rfl
  | vary fs =>
    refine ⟨?_, rfl, rfl⟩
    simp only [emit, intendedNames]
    by_cases h : appendValue fs = []
    · have := (appendValue_nil_iff fs).1 h
      have hany : fs.any (· ≠ []) = false := by
        rw [List.any_eq_false]; intro v hv; simp [this v hv]
      simp only [h, hany]; rfl
    · have hany : fs.any (· ≠ []) = true := by
        refine Classical.byContradiction fun hc => h ?_
        rw [appendValue_nil_iff]
        intro v hv
        refine Classical.byContradiction fun hne => hc ?_
        rw [List.any_eq_true]
        exact ⟨v, hv, by simp [hne]⟩
      simp only [h, hany]; rfl
  | redirectTo loc flash =>
    refine ⟨?_, rfl, rfl⟩
    simp only [emit, intendedNames, C12.issue]
    by_cases hf : flash = []
    · subst hf; simp [flashMsgs]
    · have hne : flashMsgs flash ≠ [] := by
        unfold flashMsgs
        -- `withMsg` never returns the empty list
        have key : ∀ (l : List (Bytes × Bytes × Nat)) (acc : List C12.Msg), (acc ≠ [] ∨ l ≠ []) →
            l.foldl (fun ms c => C12.withMsg ms c.1 c.2.1 c.2.2) acc ≠ [] := by
          intro l
          induction l with
          | nil => intro acc h; simpa using h
          | cons x xs ih =>
            intro acc _
            simp only [List.foldl_cons]
            apply ih
            left
            cases acc with
            | nil => simp [C12.withMsg]
            | cons m ms => simp only [C12.withMsg]; split <;> simp
        exact key flash [] (Or.inr hf)
      simp [hf, hne]
  | clearCookie keys => exact ⟨by simp [emit, intendedNames], rfl, rfl⟩
  | links ls =>
    refine ⟨?_, rfl, rfl⟩
    simp only [emit, intendedNames]
    split <;> simp
  | set k v => exact ⟨rfl, rfl, rfl⟩
  | location p => exact ⟨rfl, rfl, rfl⟩
  | cookie a => exact ⟨rfl, rfl, rfl⟩
  | attachment f => exact ⟨rfl, rfl, rfl⟩
  | type e cs => exact ⟨rfl, rfl, rfl⟩
  | format mt => exact ⟨rfl, rfl, rfl⟩
  | json ct => exact ⟨rfl, rfl, rfl⟩
  | jsonp cb =>
    refine ⟨rfl, ?_, rfl⟩
    show cb ++ b "(" ++ jsonBody ++ b ");" = cb ++ b "(\"x\");"
    rw [List.append_assoc, List.append_assoc]
    congr 1

end C07
