import FiberModel.C07.Total
import FiberModel.C07.Parsers2
/-
C07 (a) — totality of the checked models of Parsers2.lean: for every input no checked index / slice
operation fails and no loop of the model runs out of fuel.
-/
namespace C07
open B

/-! ### spec-style bind: the bound value comes with what is known about it -/

theorem Ok.bind_spec {α β : Type} {x : P α} {f : α → P β} {Q : α → Prop}
    (hx : ∃ v, x = .ok v ∧ Q v) (hf : ∀ v, Q v → Ok (f v)) : Ok (x >>= f) := by
  obtain ⟨v, hv, hq⟩ := hx
  subst hv
  exact hf v hq

theorem idx_spec {s : Bytes} {i : Int} (h1 : 0 ≤ i) (h2 : i < s.length) : ∃ c, idx s i = .ok c ∧ True := by
  obtain ⟨c, hc⟩ := idx_ok h1 h2
  exact ⟨c, hc, trivial⟩

theorem sliceFrom_spec {s : Bytes} {i : Int} (h1 : 0 ≤ i) (h2 : i ≤ s.length) :
    ∃ r, sliceFrom s i = .ok r ∧ (r.length : Int) = s.length - i := by
  obtain ⟨r, hr⟩ := sliceFrom_ok h1 h2
  exact ⟨r, hr, (sliceFrom_len hr).2.2⟩

theorem sliceTo_spec {s : Bytes} {j : Int} (h1 : 0 ≤ j) (h2 : j ≤ s.length) :
    ∃ r, sliceTo s j = .ok r ∧ (r.length : Int) = j := by
  obtain ⟨r, hr⟩ := sliceTo_ok h1 h2
  exact ⟨r, hr, (sliceTo_len hr).2.2⟩

theorem slice_spec {s : Bytes} {i j : Int} (h1 : 0 ≤ i) (h2 : i ≤ j) (h3 : j ≤ s.length) :
    ∃ r, slice s i j = .ok r ∧ (r.length : Int) = j - i :=
  ⟨_, slice_ok h1 h2 h3, (slice_len (slice_ok h1 h2 h3)).2.2.2⟩

theorem idxL_ok {α : Type} {l : List α} {i : Int} (h1 : 0 ≤ i) (h2 : i < l.length) : Ok (idxL l i) := by
  unfold idxL
  have hc : 0 ≤ i ∧ i < l.length := ⟨h1, h2⟩
  simp only [hc, and_self, if_true]
  have hlt : i.toNat < l.length := by omega
  rw [List.getElem?_eq_getElem hlt]
  exact Ok.pure _

/-! ### binder/mapping.go -/

theorem bracketsLoop_total (k rest : Bytes) (i opn : Int) (acc : Bytes)
    (hi : i + rest.length = k.length) (h0 : 0 ≤ i) : Ok (bracketsLoop k rest i opn acc) := by
  induction rest generalizing i opn acc with
  | nil => simp only [bracketsLoop]; exact Ok.pure _
  | cons c rest ih =>
    simp only [List.length_cons, Int.natCast_add, Int.natCast_one] at hi
    simp only [bracketsLoop]
    split
    · refine Ok.bind ?_ fun dot _ => ih _ _ _ (by omega) (by omega)
      split
      · exact Ok.bind (idx_ok (by omega) (by omega)) fun _ _ => Ok.pure _
      · exact Ok.pure _
    · split
      · split
        · exact Ok.pure _
        · exact ih _ _ _ (by omega) (by omega)
      · exact ih _ _ _ (by omega) (by omega)

/-- binder `parseParamSquareBrackets`: every query / form / header key -/
theorem parseParamSquareBrackets_total (k : Bytes) : Ok (parseParamSquareBrackets k) :=
  bracketsLoop_total k k 0 0 [] (by simp) (by omega)

theorem filterFlagsLoop_total (content rest : Bytes) (i : Int)
    (hi : i + rest.length = content.length) (h0 : 0 ≤ i) : Ok (filterFlagsLoop content rest i) := by
  induction rest generalizing i with
  | nil => simp only [filterFlagsLoop]; exact Ok.pure _
  | cons c rest ih =>
    simp only [List.length_cons, Int.natCast_add, Int.natCast_one] at hi
    simp only [filterFlagsLoop]
    split
    · exact sliceTo_ok h0 (by omega)
    · exact ih _ (by omega) (by omega)

/-- binder `FilterFlags`: every Content-Type value -/
theorem filterFlags_total (content : Bytes) : Ok (filterFlags content) :=
  filterFlagsLoop_total content content 0 (by simp) (by omega)

theorem assignSplitLoop_total (values : List Bytes) (fuel : Nat) (i : Int) (acc : List Bytes)
    (h0 : 0 ≤ i) (hl : i ≤ values.length) (hf : (values.length : Int) - i < fuel) :
    Ok (assignSplitLoop values fuel i acc) := by
  induction fuel generalizing i acc with
  | zero => omega
  | succ fuel ih =>
    simp only [assignSplitLoop]
    split
    · exact Ok.bind (idxL_ok h0 (by omega)) fun _ _ => ih _ _ (by omega) (by omega) (by omega)
    · exact Ok.pure _

theorem assignBindData_total (split : Bool) (data : List (Bytes × List Bytes)) (key value : Bytes) :
    Ok (assignBindData split data key value) := by
  unfold assignBindData
  split
  · exact Ok.bind (assignSplitLoop_total _ _ 0 [] (by omega) (by omega) (by omega)) fun _ _ => Ok.pure _
  · exact Ok.pure _

theorem formatBindData_total (split : Bool) (data : List (Bytes × List Bytes)) (key value : Bytes) :
    Ok (formatBindData split data key value) := by
  unfold formatBindData
  split
  · refine Ok.bind (parseParamSquareBrackets_total key) fun r _ => ?_
    split
    · exact Ok.pure _
    · exact Ok.bind (assignBindData_total _ _ _ _) fun _ _ => Ok.pure _
  · exact Ok.bind (assignBindData_total _ _ _ _) fun _ _ => Ok.pure _

theorem bindCollect_total (split : Bool) (args : List (Bytes × Bytes)) (data : List (Bytes × List Bytes)) :
    Ok (bindCollect split args data) := by
  induction args generalizing data with
  | nil => simp only [bindCollect]; exact Ok.pure _
  | cons kv rest ih =>
    obtain ⟨k, v⟩ := kv
    simp only [bindCollect]
    refine Ok.bind (formatBindData_total _ _ _ _) fun r _ => ?_
    split
    · exact Ok.pure _
    · exact ih _

/-- `c.Bind().Query(&map[string][]string)`: every list of decoded query arguments, with or without
    `EnableSplittingOnParsers` -/
theorem bindQuery_total (split : Bool) (args : List (Bytes × Bytes)) : Ok (bindQuery split args) :=
  bindCollect_total split args []

theorem lastValue_total (v : List Bytes) : Ok (lastValue v) := by
  unfold lastValue
  split
  · exact Ok.pure _
  · exact idxL_ok (by omega) (by omega)

theorem parseToMapLast_total (d : List (Bytes × List Bytes)) : Ok (parseToMapLast d) := by
  induction d with
  | nil => simp only [parseToMapLast]; exact Ok.pure _
  | cons kv rest ih =>
    obtain ⟨k, v⟩ := kv
    simp only [parseToMapLast]
    exact Ok.bind (lastValue_total v) fun _ _ => Ok.bind ih fun _ _ => Ok.pure _

theorem bindQueryLast_total (split : Bool) (args : List (Bytes × Bytes)) : Ok (bindQueryLast split args) := by
  unfold bindQueryLast
  refine Ok.bind (bindCollect_total split args []) fun r _ => ?_
  split
  · exact Ok.pure _
  · exact Ok.bind (parseToMapLast_total _) fun _ _ => Ok.pure _

/-! ### the scanners shared by `forEachParameter` and `VisitHeaderParams` -/

theorem skipOWS_spec (tab : Bool) (fuel : Nat) (b : Bytes) (hf : b.length < fuel) :
    ∃ b', skipOWS tab fuel b = .ok b' ∧ b'.length ≤ b.length := by
  induction fuel generalizing b with
  | zero => omega
  | succ fuel ih =>
    simp only [skipOWS]
    split
    · rename_i hpos
      obtain ⟨c, hc⟩ := idx_ok (s := b) (i := 0) (by omega) (by omega)
      rw [hc]
      simp only [bind, Except.bind]
      split
      · obtain ⟨b1, hb1, hl⟩ := sliceFrom_spec (s := b) (i := 1) (by omega) (by omega)
        rw [hb1]
        simp only
        obtain ⟨b', h1, h2⟩ := ih b1 (by omega)
        exact ⟨b', h1, by omega⟩
      · exact ⟨b, rfl, by omega⟩
    · exact ⟨b, rfl, by omega⟩

theorem tokScan_spec (tok : Nat → Bool) (b : Bytes) (fuel : Nat) (n : Int)
    (h0 : 0 ≤ n) (hl : n ≤ b.length) (hf : (b.length : Int) - n < fuel) :
    ∃ n', tokScan tok b fuel n = .ok n' ∧ n ≤ n' ∧ n' ≤ b.length := by
  induction fuel generalizing n with
  | zero => omega
  | succ fuel ih =>
    simp only [tokScan]
    split
    · rename_i hlt
      obtain ⟨c, hc⟩ := idx_ok (s := b) h0 hlt
      rw [hc]
      simp only [bind, Except.bind]
      split
      · obtain ⟨n', h1, h2, h3⟩ := ih (n + 1) (by omega) (by omega) (by omega)
        exact ⟨n', h1, by omega, h3⟩
      · exact ⟨n, rfl, by omega, by omega⟩
    · exact ⟨n, rfl, by omega, by omega⟩

theorem quotedScan_spec (b : Bytes) (fuel : Nat) (n : Int) (esc : Bool)
    (h0 : 0 ≤ n) (hl : n ≤ b.length) (hf : (b.length : Int) - n < fuel) :
    ∃ n', quotedScan b fuel n esc = .ok n' ∧ n ≤ n' ∧ n' ≤ b.length := by
  induction fuel generalizing n esc with
  | zero => omega
  | succ fuel ih =>
    simp only [quotedScan]
    split
    · rename_i hlt
      obtain ⟨c, hc⟩ := idx_ok (s := b) h0 hlt
      rw [hc]
      simp only [bind, Except.bind]
      split
      · obtain ⟨n', h1, h2, h3⟩ := ih (n + 1) (c = 92 && !esc) (by omega) (by omega) (by omega)
        exact ⟨n', h1, by omega, h3⟩
      · exact ⟨n, rfl, by omega, by omega⟩
    · exact ⟨n, rfl, by omega, by omega⟩

/-! ### helpers.go `forEachParameter` -/

theorem fepLoop_total {σ : Type} (f : σ → Bytes → Bytes → P (σ × Bool)) (hf : ∀ st k v, Ok (f st k v))
    (fuel : Nat) (st : σ) (b0 : Bytes) (hlen : b0.length < fuel) : Ok (fepLoop f fuel st b0) := by
  induction fuel generalizing st b0 with
  | zero => omega
  | succ fuel ih =>
    simp only [fepLoop]
    split
    · exact Ok.pure _
    · rename_i hi
      rcases indexByteI_range b0 59 with h | ⟨h1, h2⟩
      · exact absurd h hi
      · refine Ok.bind_spec (sliceFrom_spec (by omega) (by omega)) fun b1 hb1 => ?_
        refine Ok.bind_spec (skipOWS_spec true _ b1 (by omega)) fun b hb => ?_
        refine Ok.bind ?_ fun emptyParam _ => ?_
        · split
          · exact Ok.bind (idx_ok (by omega) (by omega)) fun _ _ => Ok.pure _
          · exact Ok.pure _
        · split
          · exact ih _ _ (by omega)
          · refine Ok.bind_spec (tokScan_spec isTokenByte b _ 0 (by omega) (by omega) (by omega)) fun n hn => ?_
            split
            · exact Ok.pure _
            · rename_i hcond
              refine Ok.bind (idx_ok (by omega) (by omega)) fun e _ => ?_
              split
              · exact Ok.pure _
              · refine Ok.bind (sliceTo_ok (by omega) (by omega)) fun key _ => ?_
                refine Ok.bind (idx_ok (by omega) (by omega)) fun c _ => ?_
                split
                · refine Ok.bind_spec (tokScan_spec isTokenByte b _ (n + 1) (by omega) (by omega) (by omega)) fun n2 hn2 => ?_
                  refine Ok.bind ⟨_, slice_ok (by omega) (by omega) (by omega)⟩ fun v _ => ?_
                  refine Ok.bind (hf _ _ _) fun r _ => ?_
                  split
                  · exact Ok.pure _
                  · refine Ok.bind_spec (sliceFrom_spec (by omega) (by omega)) fun rest hrest => ?_
                    exact ih _ _ (by omega)
                · refine Ok.bind (idx_ok (by omega) (by omega)) fun c2 _ => ?_
                  split
                  · refine Ok.bind_spec (quotedScan_spec b _ (n + 1 + 1) false (by omega) (by omega) (by omega)) fun n2 hn2 => ?_
                    split
                    · exact Ok.pure _
                    · rename_i hne
                      refine Ok.bind ⟨_, slice_ok (by omega) (by omega) (by omega)⟩ fun v _ => ?_
                      refine Ok.bind (hf _ _ _) fun r _ => ?_
                      split
                      · exact Ok.pure _
                      · refine Ok.bind_spec (sliceFrom_spec (by omega) (by omega)) fun rest hrest => ?_
                        exact ih _ _ (by omega)
                  · exact Ok.pure _

/-- helpers.go `forEachParameter`: every parameter list and every (total) callback -/
theorem forEachParameter_total {σ : Type} (f : σ → Bytes → Bytes → P (σ × Bool)) (hf : ∀ st k v, Ok (f st k v))
    (st : σ) (b : Bytes) : Ok (forEachParameter f st b) :=
  fepLoop_total f hf _ st b (by omega)

theorem parameters_total (b : Bytes) : Ok (parameters b) :=
  forEachParameter_total _ (fun _ _ _ => Ok.pure _) _ b

/-! ### fasthttp `VisitHeaderParams`, helpers.go `paramsMatch` -/

theorem semiScan_spec (b : Bytes) (fuel : Nat) (n : Int)
    (h0 : 0 ≤ n) (hl : n ≤ b.length) (hf : (b.length : Int) - n < fuel) :
    ∃ n', semiScan b fuel n = .ok n' ∧ n ≤ n' ∧ n' ≤ b.length := by
  induction fuel generalizing n with
  | zero => omega
  | succ fuel ih =>
    simp only [semiScan]
    split
    · rename_i hlt
      obtain ⟨c, hc⟩ := idx_ok (s := b) h0 hlt
      rw [hc]
      simp only [bind, Except.bind]
      split
      · obtain ⟨n', h1, h2, h3⟩ := ih (n + 1) (by omega) (by omega) (by omega)
        exact ⟨n', h1, by omega, h3⟩
      · exact ⟨n, rfl, by omega, by omega⟩
    · exact ⟨n, rfl, by omega, by omega⟩

theorem vhpQuoted_spec (b : Bytes) (fuel : Nat) (n : Int) (esc : Bool)
    (h0 : 0 ≤ n) (hl : n ≤ b.length) (hf : (b.length : Int) - n < fuel) :
    ∃ r, vhpQuoted b fuel n esc = .ok r ∧ n ≤ r.1 ∧ r.1 ≤ b.length ∧ (r.2 = true → r.1 < b.length) := by
  induction fuel generalizing n esc with
  | zero => omega
  | succ fuel ih =>
    simp only [vhpQuoted]
    split
    · rename_i hlt
      obtain ⟨c, hc⟩ := idx_ok (s := b) h0 hlt
      rw [hc]
      simp only [bind, Except.bind]
      split
      · exact ⟨(n, true), rfl, by simp, by simp; omega, by simp; omega⟩
      · obtain ⟨r, h1, h2, h3, h4⟩ := ih (n + 1) (c = 92 && !esc) (by omega) (by omega) (by omega)
        exact ⟨r, h1, by omega, h3, h4⟩
    · exact ⟨(n, false), rfl, by simp, by simp; omega, by simp⟩

theorem vhpLoop_total {σ : Type} (f : σ → Bytes → Bytes → P (σ × Bool)) (hf : ∀ st k v, Ok (f st k v))
    (fuel : Nat) (st : σ) (b0 : Bytes) (hlen : b0.length < fuel) : Ok (vhpLoop f fuel st b0) := by
  induction fuel generalizing st b0 with
  | zero => omega
  | succ fuel ih =>
    simp only [vhpLoop]
    split
    · refine Ok.bind_spec (semiScan_spec b0 _ 0 (by omega) (by omega) (by omega)) fun idxSemi hs => ?_
      split
      · exact Ok.pure _
      · refine Ok.bind_spec (sliceFrom_spec (by omega) (by omega)) fun b1 hb1 => ?_
        refine Ok.bind_spec (skipOWS_spec false _ b1 (by omega)) fun b hb => ?_
        split
        · exact Ok.pure _
        · refine Ok.bind (idx_ok (by omega) (by omega)) fun c0 _ => ?_
          split
          · exact Ok.pure _
          · refine Ok.bind_spec (tokScan_spec validHeaderFieldByte b _ 1 (by omega) (by omega) (by omega)) fun n hn => ?_
            split
            · exact Ok.pure _
            · refine Ok.bind (idx_ok (by omega) (by omega)) fun e _ => ?_
              split
              · exact Ok.pure _
              · refine Ok.bind (sliceTo_ok (by omega) (by omega)) fun param _ => ?_
                refine Ok.bind (idx_ok (by omega) (by omega)) fun c _ => ?_
                split
                · refine Ok.bind_spec (tokScan_spec validHeaderFieldByte b _ (n + 1 + 1) (by omega) (by omega) (by omega)) fun n2 hn2 => ?_
                  refine Ok.bind ⟨_, slice_ok (by omega) (by omega) (by omega)⟩ fun v _ => ?_
                  refine Ok.bind (hf _ _ _) fun r _ => ?_
                  split
                  · exact Ok.pure _
                  · refine Ok.bind_spec (sliceFrom_spec (by omega) (by omega)) fun rest hrest => ?_
                    exact ih _ _ (by omega)
                · refine Ok.bind (idx_ok (by omega) (by omega)) fun c2 _ => ?_
                  split
                  · refine Ok.bind_spec (vhpQuoted_spec b _ (n + 1 + 1) false (by omega) (by omega) (by omega)) fun r hr => ?_
                    obtain ⟨n2, found⟩ := r
                    simp only at hr ⊢
                    split
                    · exact Ok.pure _
                    · rename_i hfound
                      have hlt : n2 < b.length := hr.2.2 (by simpa using hfound)
                      refine Ok.bind ⟨_, slice_ok (by omega) (by omega) (by omega)⟩ fun v _ => ?_
                      refine Ok.bind (hf _ _ _) fun r _ => ?_
                      split
                      · exact Ok.pure _
                      · refine Ok.bind_spec (sliceFrom_spec (by omega) (by omega)) fun rest hrest => ?_
                        exact ih _ _ (by omega)
                  · exact Ok.pure _
    · exact Ok.pure _

/-- fasthttp `VisitHeaderParams` as transcribed: every parameter string, every total callback -/
theorem visitHeaderParams_total {σ : Type} (f : σ → Bytes → Bytes → P (σ × Bool)) (hf : ∀ st k v, Ok (f st k v))
    (st : σ) (b : Bytes) : Ok (visitHeaderParams f st b) :=
  vhpLoop_total f hf _ st b (by omega)

theorem paramFound_total (k v offerParams : Bytes) : Ok (paramFound k v offerParams) := by
  unfold paramFound
  refine visitHeaderParams_total _ (fun st key value => ?_) _ _
  split <;> exact Ok.pure _

/-- helpers.go `paramsMatch`: every parameter map of the request's media range × every offer -/
theorem paramsMatch_total (sp : HParams) (offerParams : Bytes) : Ok (paramsMatch sp offerParams) := by
  induction sp with
  | nil => simp only [paramsMatch]; exact Ok.pure _
  | cons kv rest ih =>
    obtain ⟨k, v⟩ := kv
    simp only [paramsMatch]
    refine Ok.bind (paramFound_total k v offerParams) fun r _ => ?_
    obtain ⟨found, ok⟩ := r
    simp only
    split
    · exact Ok.pure _
    · exact ih

/-! ### helpers.go `acceptsOffer`, `acceptsOfferType` -/

theorem acceptsOffer_total (spec offer : Bytes) : Ok (acceptsOfferC spec offer) := by
  unfold acceptsOfferC
  refine Ok.bind ?_ fun star _ => ?_
  · split
    · exact Ok.bind (idx_ok (by omega) (by omega)) fun _ _ => Ok.pure _
    · exact Ok.pure _
  · split <;> exact Ok.pure _

theorem indexByteI_contains (s : Bytes) (c : Nat) (h : s.contains c = true) :
    0 ≤ indexByteI s c ∧ indexByteI s c < s.length := by
  rcases indexByteI_range s c with h' | h'
  · exfalso
    obtain ⟨i, hi⟩ := contains_indexByte s c h
    unfold indexByteI at h'
    simp [hi] at h'
  · exact h'

theorem indexByte_some_mem (s : Bytes) (c i : Nat) (h : indexByte s c = some i) : c ∈ s := by
  induction s generalizing i with
  | nil => simp [indexByte] at h
  | cons x xs ih =>
    simp only [indexByte] at h
    split at h
    · rename_i hx
      have : x = c := by simpa using hx
      simp [this]
    · cases hxs : indexByte xs c with
      | none => simp [hxs] at h
      | some k => exact List.mem_cons_of_mem _ (ih k hxs)

theorem indexByteI_ne_contains (s : Bytes) (c : Nat) (h : indexByteI s c ≠ -1) : s.contains c = true := by
  unfold indexByteI at h
  cases hi : indexByte s c with
  | none => simp [hi] at h
  | some i => simpa using indexByte_some_mem s c i hi

/-- the first occurrence is not at offset 0 when the string does not start with the byte -/
theorem indexByteI_pos (s : Bytes) (c : Nat) (hh : s.head? ≠ some c) (hne : indexByteI s c ≠ -1) :
    0 < indexByteI s c := by
  cases s with
  | nil => simp [indexByteI, indexByte] at hne
  | cons x xs =>
    have hx : ¬ x = c := by intro e; apply hh; simp [e]
    have hb : (x == c) = false := by simpa using hx
    unfold indexByteI at hne ⊢
    simp only [indexByte, hb]
    cases hxs : indexByte xs c with
    | none => simp [indexByte, hb, hxs] at hne
    | some k => simp <;> omega

theorem offerSplit_spec (offerType : Bytes) (hoff : offerType ≠ [] ∧ offerType.head? ≠ some 59) :
    ∃ v, ((if indexByteI offerType 59 = -1 then .ok (offerType, [])
        else sliceTo offerType (indexByteI offerType 59) >>= fun m =>
          sliceFrom offerType (indexByteI offerType 59) >>= fun p => .ok (m, p)) : P (Bytes × Bytes)) = .ok v ∧ v.1 ≠ [] := by
  split
  · exact ⟨(offerType, []), rfl, hoff.1⟩
  · rename_i hi
    rcases indexByteI_range offerType 59 with h | ⟨h1, h2⟩
    · exact absurd h hi
    · obtain ⟨m, hm', hml⟩ := sliceTo_spec (s := offerType) h1 (by omega)
      obtain ⟨p', hp'⟩ := sliceFrom_ok (s := offerType) h1 (by omega)
      refine ⟨(m, p'), by rw [hm', hp']; rfl, ?_⟩
      have hpos := indexByteI_pos offerType 59 hoff.2 hi
      intro hnil
      simp only at hnil
      rw [hnil] at hml
      simp at hml
      omega

/-- `acceptsOfferType` in its documented domain: the offer is a non-empty extension or a MIME type
    (possibly followed by parameters), and `utils.GetMIME` answers a MIME type for a non-empty
    extension. Spec and parameters: anything the request carries. -/
theorem acceptsOfferType_full_total (getMIME : Bytes → Bytes) (hm : ∀ e, e ≠ [] → (getMIME e).contains 47 = true)
    (spec offerType : Bytes) (specParams : HParams)
    (hoff : offerType ≠ [] ∧ offerType.head? ≠ some 59) :
    Ok (acceptsOfferType getMIME spec offerType specParams) := by
  unfold acceptsOfferType
  simp only
  refine Ok.bind_spec (offerSplit_spec offerType hoff) fun v hv => ?_
  obtain ⟨om, op⟩ := v
  simp only at hv ⊢
  split
  · exact paramsMatch_total _ _
  · split
    · exact paramsMatch_total _ _
    · -- the looked-up MIME type contains a slash
      have hslash : (offerMimetype getMIME om).contains 47 = true := by
        unfold offerMimetype
        split
        · rename_i h; exact indexByteI_ne_contains om 47 h
        · exact hm om hv
      have hidx := indexByteI_contains _ 47 hslash
      refine Ok.bind_spec (sliceTo_spec hidx.1 (by omega)) fun pre hpre => ?_
      split
      · rename_i hp
        have : pre.length ≤ spec.length := List.IsPrefix.length_le (List.isPrefixOf_iff_prefix.mp hp)
        refine Ok.bind (sliceFrom_ok hidx.1 (by omega)) fun st _ => ?_
        refine Ok.bind ?_ fun wild _ => ?_
        · split
          · exact Ok.pure _
          · exact Ok.bind (sliceFrom_ok hidx.1 (by omega)) fun _ _ => Ok.pure _
        · split
          · exact paramsMatch_total _ _
          · exact Ok.pure _
      · exact Ok.pure _

-- outside that domain the Go code slices with -1 (`c.Accepts(";q=1")`); the model shows it
example : acceptsOfferType (fun _ => []) (b "text/html") (b ";q=1") [] = .error .slice := by rfl

/-! ### helpers.go `getOffer`: one media range -/

theorem offerParamStep_total (qv : QVerdict) (st : HParams × Nat) (key value : Bytes) :
    Ok (offerParamStep qv st key value) := by
  unfold offerParamStep
  refine Ok.bind ?_ fun isQ _ => ?_
  · split
    · refine Ok.bind (idx_ok (by omega) (by omega)) fun c _ => ?_
      split
      · exact Ok.pure _
      · exact Ok.bind (idx_ok (by omega) (by omega)) fun _ _ => Ok.pure _
    · exact Ok.pure _
  · split <;> exact Ok.pure _

theorem specificityC_total (spec : Bytes) : Ok (specificityC spec) := by
  unfold specificityC
  refine Ok.bind ?_ fun star _ => ?_
  · split
    · exact Ok.bind (idx_ok (by omega) (by omega)) fun _ _ => Ok.pure _
    · exact Ok.pure _
  · repeat' split
    all_goals exact Ok.pure _

/-- the functor `getOffer` runs on every media range of `Accept*`: spec / `;q=` fast path /
    parameter scan / specificity -/
theorem offerRange_total (qv : QVerdict) (accept : Bytes) : Ok (offerRange qv accept) := by
  unfold offerRange
  simp only
  refine Ok.bind ?_ fun r _ => ?_
  · split
    · rename_i hi
      rcases indexByteI_range accept 59 with h | ⟨h1, h2⟩
      · exact absurd h hi
      · refine Ok.bind (sliceTo_ok h1 (by omega)) fun spec _ => ?_
        refine Ok.bind_spec (sliceFrom_spec h1 (by omega)) fun tail htail => ?_
        refine Ok.bind_spec (Q := fun fast => fast = true → indexByteI accept 59 + 3 ≤ accept.length) ?_ fun fast hfast => ?_
        · split
          · rename_i hp
            have hpl : (b ";q=").length ≤ tail.length := List.IsPrefix.length_le (List.isPrefixOf_iff_prefix.mp hp)
            have h3 : (b ";q=").length = 3 := by decide
            obtain ⟨r, hr⟩ := sliceFrom_ok (s := accept) (i := indexByteI accept 59 + 3) (by omega) (by omega)
            rw [hr]
            exact ⟨_, rfl, fun _ => by omega⟩
          · exact ⟨false, rfl, by simp⟩
        · split
          · rename_i hf
            have := hfast hf
            exact Ok.bind (sliceFrom_ok (by omega) (by omega)) fun _ _ => Ok.pure _
          · refine Ok.bind (sliceFrom_ok h1 (by omega)) fun plist _ => ?_
            exact Ok.bind (forEachParameter_total _ (offerParamStep_total qv) _ _) fun _ _ => Ok.pure _
    · exact Ok.pure _
  · obtain ⟨spec, params, q⟩ := r
    simp only
    split
    · exact Ok.pure _
    · exact Ok.bind (specificityC_total _) fun _ _ => Ok.pure _

theorem offerRanges_total (qv : QVerdict) (rs : List Bytes) : Ok (offerRanges qv rs) := by
  induction rs with
  | nil => simp only [offerRanges]; exact Ok.pure _
  | cons r rest ih =>
    simp only [offerRanges]
    exact Ok.bind (offerRange_total qv r) fun _ _ => Ok.bind ih fun _ _ => Ok.pure _

theorem anyAccepts_total (getMIME : Bytes → Bytes) (hm : ∀ e, e ≠ [] → (getMIME e).contains 47 = true)
    (offer : Bytes) (hoff : offer ≠ [] ∧ offer.head? ≠ some 59) (as : List Accepted) :
    Ok (anyAccepts getMIME offer as) := by
  induction as with
  | nil => simp only [anyAccepts]; exact Ok.pure _
  | cons a rest ih =>
    simp only [anyAccepts]
    refine Ok.bind (acceptsOfferType_full_total getMIME hm _ _ _ hoff) fun ok _ => ?_
    split
    · exact Ok.pure _
    · exact ih

/-- `c.Accepts(offer)`: for EVERY `Accept` header value, every verdict of `ParseUfloat`, and every
    offer in the documented domain (extension or MIME type, optional parameters) -/
theorem acceptsOne_total (qv : QVerdict) (getMIME : Bytes → Bytes)
    (hm : ∀ e, e ≠ [] → (getMIME e).contains 47 = true) (header offer : Bytes)
    (hoff : offer.head? ≠ some 59) : Ok (acceptsOne qv getMIME header offer) := by
  unfold acceptsOne
  split
  · exact Ok.pure _
  · split
    · exact Ok.pure _
    · rename_i hne
      refine Ok.bind (forEachMediaRange_total header) fun rs _ => ?_
      refine Ok.bind (offerRanges_total qv rs) fun as _ => ?_
      exact anyAccepts_total getMIME hm offer ⟨hne, hoff⟩ as

end C07
