import FiberModel.C07.MatcherTotal
/-
C07 — the checked-index matcher computes what C02's matcher computes.

`getMatchC_eq`: on well-formed segment lists whose parameters fit the value array, the checked
`getMatchC` returns `.ok` of exactly `C02.getMatch`'s answer. So the totality theorems of
MatcherTotal.lean are about the same function C02's soundness theorems are about (C02 ties it to
path.go by its own correspondence run), not about a second, independent transcription.
-/
namespace C07
open B

theorem ok_bind {α β : Type} (v : α) (f : α → P β) : ((.ok v : P α) >>= f) = f v := rfl

theorem sliceTo_nat (s : Bytes) (k : Nat) (h : k ≤ s.length) : sliceTo s (k : Int) = .ok (s.take k) := by
  unfold sliceTo
  rw [slice_ok (by omega) (by omega) (by omega)]
  simp

theorem sliceFrom_nat (s : Bytes) (k : Nat) (h : k ≤ s.length) : sliceFrom s (k : Int) = .ok (s.drop k) := by
  unfold sliceFrom
  rw [slice_ok (by omega) (by omega) (by omega)]
  simp

theorem indexByteI_ne_iff (s : Bytes) (c : Nat) : indexByteI s c ≠ -1 ↔ s.contains c = true := by
  constructor
  · exact indexByteI_ne_contains s c
  · intro h
    have := indexByteI_contains s c h
    omega

theorem indexByteI_some (s : Bytes) (c k : Nat) (h : indexByte s c = some k) : indexByteI s c = (k : Int) := by
  simp [indexByteI, h]

theorem indexByteI_none (s : Bytes) (c : Nat) (h : indexByte s c = none) : indexByteI s c = -1 := by
  simp [indexByteI, h]

theorem indexOfI_some (s p : Bytes) (k : Nat) (h : indexOf s p = some k) : indexOfI s p = (k : Int) := by
  simp [indexOfI, h]

theorem indexOfI_none (s p : Bytes) (h : indexOf s p = none) : indexOfI s p = -1 := by
  simp [indexOfI, h]

theorem findGreedyLoopC_eq (cp : Bytes) (i sc : Nat) (s : Bytes) :
    findGreedyLoopC cp i sc s = .ok (C02.findGreedyLoop cp i sc s) := by
  induction i generalizing sc s with
  | zero => simp [findGreedyLoopC, C02.findGreedyLoop]
  | succ i ih =>
    cases sc with
    | zero => simp [findGreedyLoopC, C02.findGreedyLoop]
    | succ sc =>
      simp only [findGreedyLoopC, C02.findGreedyLoop]
      cases hk : C02.lastIndexOf s cp with
      | none => rfl
      | some k =>
        simp only
        rw [sliceTo_nat s k (lastIndexOf_le s cp k hk)]
        exact ih sc (s.take k)

theorem slashBool (pre : Bytes) : decide (indexByteI pre 47 ≠ -1) = pre.contains C02.SLASH := by
  by_cases hc : pre.contains 47 = true
  · have := (indexByteI_ne_iff pre 47).2 hc
    rw [hc]; exact decide_eq_true this
  · have hn : ¬ indexByteI pre 47 ≠ -1 := fun h' => hc ((indexByteI_ne_iff _ _).1 h')
    have hc' : pre.contains 47 = false := by simpa using hc
    rw [hc']; exact decide_eq_false hn

/-- the slash test of `findParamLen`'s delimiter branches -/
theorem slashCheck_eq (greedy : Bool) (s : Bytes) (k : Nat) (h : k ≤ s.length) :
    ((if !greedy then sliceTo s (k : Int) >>= fun pre => .ok (decide (indexByteI pre 47 ≠ -1)) else .ok false) : P Bool)
      = .ok (!greedy && (s.take k).contains C02.SLASH) := by
  cases greedy with
  | true => rfl
  | false =>
    simp only [Bool.not_false, if_true, Bool.true_and]
    rw [sliceTo_nat s k h]
    show Except.ok (decide (indexByteI (s.take k) 47 ≠ -1)) = _
    rw [slashBool]

/-- one delimiter branch of `findParamLen`, as a function of the position found -/
def delimC (greedy : Bool) (s : Bytes) (pos : Int) : P Int :=
  if pos ≠ -1 then
    (((if !greedy then sliceTo s pos >>= fun pre => .ok (decide (indexByteI pre 47 ≠ -1)) else .ok false) : P Bool) >>= fun slash =>
      (.ok (if slash then 0 else pos) : P Int))
  else .ok (s.length : Int)

theorem delimC_some (greedy : Bool) (s : Bytes) (k : Nat) (hle : k ≤ s.length) :
    delimC greedy s (k : Int) = .ok (((if !greedy && (s.take k).contains C02.SLASH then 0 else k : Nat)) : Int) := by
  unfold delimC
  have hne : (k : Int) ≠ -1 := by omega
  rw [if_pos hne, slashCheck_eq greedy s k hle]
  show Except.ok (if (!greedy && (s.take k).contains C02.SLASH) = true then (0 : Int) else (k : Int)) = _
  split <;> simp

theorem delimC_none (greedy : Bool) (s : Bytes) : delimC greedy s (-1) = .ok (s.length : Int) := by
  unfold delimC
  simp

theorem findParamLenC_eq (s : Bytes) (seg : C02.Seg) :
    findParamLenC s seg = .ok ((C02.findParamLen s seg : Nat) : Int) := by
  unfold findParamLenC C02.findParamLen
  split
  · rfl
  · split
    · rename_i hl
      have hb : (seg.length != 0 && decide (s.length ≥ seg.length)) = true := by simp [hl.1, hl.2]
      rw [if_pos hb, sliceTo_nat s seg.length hl.2]
      show Except.ok (if indexByteI (s.take seg.length) 47 ≠ -1 then (0 : Int) else (seg.length : Int)) = _
      by_cases hc : (s.take seg.length).contains C02.SLASH = true
      · have := (indexByteI_ne_iff (s.take seg.length) 47).2 hc
        rw [if_pos this, if_pos hc]; rfl
      · have hn : ¬ indexByteI (s.take seg.length) 47 ≠ -1 := fun h' => hc ((indexByteI_ne_iff _ _).1 h')
        rw [if_neg hn, if_neg hc]
    · rename_i hl
      have hb : ¬ (seg.length != 0 && decide (s.length ≥ seg.length)) = true := by
        intro h
        apply hl
        simp only [Bool.and_eq_true, bne_iff_ne, ne_eq, decide_eq_true_eq] at h
        exact h
      rw [if_neg hb]
      split
      · rename_i hg
        have hgb : (seg.isGreedy && decide (C02.count s seg.comparePart > 1)) = true := by simp [hg.1, hg.2]
        rw [if_pos hgb, findGreedyLoopC_eq]
        rfl
      · rename_i hg
        have hgb : ¬ (seg.isGreedy && decide (C02.count s seg.comparePart > 1)) = true := by
          intro h
          apply hg
          simp only [Bool.and_eq_true, decide_eq_true_eq] at h
          exact h
        rw [if_neg hgb]
        split
        · rename_i hone
          have hob : (seg.comparePart.length == 1) = true := by simp [hone]
          rw [if_pos hob]
          obtain ⟨c0, hcp⟩ : ∃ c0, seg.comparePart = [c0] := by
            cases hcp : seg.comparePart with
            | nil => simp [hcp] at hone
            | cons x xs =>
              cases xs with
              | nil => exact ⟨x, rfl⟩
              | cons _ _ => simp [hcp] at hone
          have hidx : idx seg.comparePart 0 = .ok c0 := by simp [idx, hcp]
          rw [hidx]
          have hh : seg.comparePart.headD 0 = c0 := by simp [hcp]
          rw [hh]
          show delimC seg.isGreedy s (indexByteI s c0) = _
          cases hk : indexByte s c0 with
          | none => rw [indexByteI_none s c0 hk]; exact delimC_none _ _
          | some k =>
            rw [indexByteI_some s c0 k hk]
            exact delimC_some _ _ k (Nat.le_of_lt (indexByte_lt s c0 k hk))
        · rename_i hone
          have hob : ¬ (seg.comparePart.length == 1) = true := by simpa using hone
          rw [if_neg hob]
          show delimC seg.isGreedy s (indexOfI s seg.comparePart) = _
          cases hk : indexOf s seg.comparePart with
          | none => rw [indexOfI_none s _ hk]; exact delimC_none _ _
          | some k =>
            rw [indexOfI_some s _ k hk]
            exact delimC_some _ _ k (by have := indexOf_le s seg.comparePart k hk; omega)

theorem findParamLen_le (s : Bytes) (seg : C02.Seg) : C02.findParamLen s seg ≤ s.length := by
  obtain ⟨i, hi, _, h2⟩ := findParamLenC_spec s seg
  rw [findParamLenC_eq] at hi
  injection hi with hi
  omega

theorem indexOfI_ne_iff (s p : Bytes) : indexOfI s p ≠ -1 ↔ (indexOf s p).isSome = true := by
  cases h : indexOf s p with
  | none => rw [indexOfI_none s p h]; simp
  | some k => rw [indexOfI_some s p k h]; simp

theorem fullConstC_eq (s : Bytes) (seg : C02.Seg) (following : List C02.Seg)
    (hg : ¬ (seg.isLast = true ∨ (seg.length ≠ 0 ∧ s.length ≥ seg.length))) :
    fullConstC s seg following = .ok (C02.fullConst s seg following) := by
  have hgb : (seg.isLast || (seg.length != 0 && decide (s.length ≥ seg.length))) = false := by
    cases hb : (seg.isLast || (seg.length != 0 && decide (s.length ≥ seg.length)))
    · rfl
    · exfalso; apply hg
      simp only [Bool.or_eq_true, Bool.and_eq_true, bne_iff_ne, ne_eq, decide_eq_true_eq] at hb
      exact hb
  unfold fullConstC C02.fullConst
  rw [hgb]
  simp only [Bool.false_eq_true, if_false]
  cases following with
  | nil => simp
  | cons n tl =>
    have hpos : (n :: tl).length > 0 := by simp
    rw [if_pos hpos]
    have hi : idxL (n :: tl) 0 = .ok n := by simp [idxL]
    rw [hi, ok_bind]
    by_cases hc : n.const.length > seg.comparePart.length ∧ indexOfI s n.const ≠ -1
    · have hb : (decide (n.const.length > seg.comparePart.length) && (indexOf s n.const).isSome) = true := by
        simp only [Bool.and_eq_true, decide_eq_true_eq]
        exact ⟨hc.1, (indexOfI_ne_iff _ _).1 hc.2⟩
      rw [if_pos hc]
      simp only [hb, if_true]
    · have hb : ¬ (decide (n.const.length > seg.comparePart.length) && (indexOf s n.const).isSome) = true := by
        intro h
        simp only [Bool.and_eq_true, decide_eq_true_eq] at h
        exact hc ⟨h.1, (indexOfI_ne_iff _ _).2 h.2⟩
      rw [if_neg hc]
      simp only [hb, Bool.false_eq_true, if_false]

theorem fullConst_guard (s : Bytes) (seg : C02.Seg) (following : List C02.Seg)
    (hg : seg.isLast = true ∨ (seg.length ≠ 0 ∧ s.length ≥ seg.length)) :
    C02.fullConst s seg following = none := by
  unfold C02.fullConst
  have hgb : (seg.isLast || (seg.length != 0 && decide (s.length ≥ seg.length))) = true := by
    simp only [Bool.or_eq_true, Bool.and_eq_true, bne_iff_ne, ne_eq, decide_eq_true_eq]
    exact hg
  rw [if_pos hgb]

theorem paramLenC_eq (s : Bytes) (seg : C02.Seg) (following : List C02.Seg) :
    paramLenC s seg following = .ok ((C02.paramLen s seg following : Nat) : Int) := by
  unfold paramLenC C02.paramLen
  split
  · rename_i hg
    rw [fullConst_guard s seg following hg]
    exact findParamLenC_eq s seg
  · rename_i hg
    rw [fullConstC_eq s seg following hg, ok_bind]
    cases C02.fullConst s seg following with
    | none => exact findParamLenC_eq s seg
    | some seg' =>
      simp only
      cases hgr : seg.isGreedy with
      | false => simp only [Bool.false_eq_true, if_false]; exact findParamLenC_eq s seg'
      | true =>
        simp only [if_true]
        rw [findGreedyLoopC_eq]
        rfl

theorem paramLen_le (s : Bytes) (seg : C02.Seg) (following : List C02.Seg) :
    C02.paramLen s seg following ≤ s.length := by
  obtain ⟨i, hi, _, h2⟩ := paramLenC_spec s seg following
  rw [paramLenC_eq] at hi
  injection hi with hi
  omega

theorem advance_nat (det path : Bytes) (i : Nat) (h1 : i ≤ det.length) (hl : det.length ≤ path.length) :
    advance det path (i : Int) = .ok (if det.length > 0 then (det.drop i, path.drop i) else (det, path)) := by
  unfold advance
  split
  · rw [sliceFrom_nat det i h1, sliceFrom_nat path i (by omega)]; rfl
  · rfl

/-- what both matchers do after a segment consumed `i` bytes -/
theorem step_eq (chk : C02.Constraint → Bytes → Bool) (rest : List C02.Seg) (det path : Bytes) (i : Nat) (pc : Bool) (it : Nat)
    (h1 : i ≤ det.length) (hl : det.length ≤ path.length)
    (ih : ∀ (d p : Bytes), d.length ≤ p.length → getMatchC chk rest d p pc it = .ok (C02.getMatch chk rest d p pc)) :
    (advance det path (i : Int) >>= fun (d, p) => getMatchC chk rest d p pc it)
      = .ok (if det.length > 0 then C02.getMatch chk rest (det.drop i) (path.drop i) pc else C02.getMatch chk rest det path pc) := by
  rw [advance_nat det path i h1 hl]
  by_cases hpos : det.length > 0
  · rw [if_pos hpos, if_pos hpos]
    exact ih _ _ (by simp only [List.length_drop]; omega)
  · rw [if_neg hpos, if_neg hpos]
    exact ih _ _ hl

/-- the constant-segment comparison `i <= partLen && detectionPath[:i] == segment.Const` -/
theorem constBranch (chk : C02.Constraint → Bytes → Bool) (seg : C02.Seg) (rest : List C02.Seg) (det path : Bytes) (pc : Bool) (it : Nat)
    (hl : det.length ≤ path.length)
    (ih : ∀ (d p : Bytes), d.length ≤ p.length → getMatchC chk rest d p pc it = .ok (C02.getMatch chk rest d p pc)) :
    ((((if (seg.length : Int) ≤ (det.length : Int) then sliceTo det (seg.length : Int) >>= fun d => .ok (decide (d = seg.const))
        else .ok false) : P Bool) >>= fun same =>
      if !same then (.ok none : P (Option (List Bytes)))
      else advance det path (seg.length : Int) >>= fun (d, p) => getMatchC chk rest d p pc it))
    = .ok (if seg.length ≤ det.length && det.take seg.length == seg.const then
        (if det.length > 0 then C02.getMatch chk rest (det.drop seg.length) (path.drop seg.length) pc
         else C02.getMatch chk rest det path pc)
      else none) := by
  by_cases hle : seg.length ≤ det.length
  · have hle' : (seg.length : Int) ≤ (det.length : Int) := by omega
    rw [if_pos hle', sliceTo_nat det seg.length hle]
    by_cases hd : det.take seg.length = seg.const
    · have hb : (decide (seg.length ≤ det.length) && det.take seg.length == seg.const) = true := by simp [hle, hd]
      rw [if_pos hb]
      show (if (!decide (det.take seg.length = seg.const)) = true then _ else _) = _
      rw [if_neg (by simp [hd])]
      exact step_eq chk rest det path seg.length pc it hle hl ih
    · have hb : ¬ (decide (seg.length ≤ det.length) && det.take seg.length == seg.const) = true := by simp [hd]
      rw [if_neg hb]
      show (if (!decide (det.take seg.length = seg.const)) = true then _ else _) = _
      rw [if_pos (by simp [hd])]
  · have hle' : ¬ (seg.length : Int) ≤ (det.length : Int) := by omega
    have hb : ¬ (decide (seg.length ≤ det.length) && det.take seg.length == seg.const) = true := by simp [hle]
    rw [if_neg hle', if_neg hb]
    rfl

theorem stepParam_eq (chk : C02.Constraint → Bytes → Bool) (rest : List C02.Seg) (det path : Bytes) (i : Nat) (pc : Bool) (it : Nat)
    (v : Bytes) (h1 : i ≤ det.length) (hl : det.length ≤ path.length)
    (ih : ∀ (d p : Bytes), d.length ≤ p.length → getMatchC chk rest d p pc it = .ok (C02.getMatch chk rest d p pc)) :
    (advance det path (i : Int) >>= fun (d, p) => getMatchC chk rest d p pc it >>= fun r => (.ok (r.map (v :: ·)) : P (Option (List Bytes))))
      = .ok ((if det.length > 0 then C02.getMatch chk rest (det.drop i) (path.drop i) pc
              else C02.getMatch chk rest det path pc).map (v :: ·)) := by
  rw [advance_nat det path i h1 hl]
  by_cases hpos : det.length > 0
  · rw [if_pos hpos, if_pos hpos]
    show (getMatchC chk rest (det.drop i) (path.drop i) pc it >>= fun r => Except.ok (r.map (v :: ·))) = _
    rw [ih _ _ (by simp only [List.length_drop]; omega)]
    rfl
  · rw [if_neg hpos, if_neg hpos]
    show (getMatchC chk rest det path pc it >>= fun r => Except.ok (r.map (v :: ·))) = _
    rw [ih _ _ hl]
    rfl

/-- on well-formed segments whose parameters fit the value array the checked matcher is C02's matcher -/
theorem getMatchC_eq (chk : C02.Constraint → Bytes → Bool) (segs : List C02.Seg) (hwf : SegsWF segs)
    (det path : Bytes) (hl : det.length ≤ path.length) (pc : Bool) (it : Nat)
    (hcap : it + (segs.filter (·.isParam)).length ≤ maxParams) :
    getMatchC chk segs det path pc it = .ok (C02.getMatch chk segs det path pc) := by
  induction segs generalizing det path it with
  | nil => simp only [getMatchC, C02.getMatch]
  | cons seg rest ih =>
    have hrest : SegsWF rest := fun s hs => hwf s (List.mem_cons_of_mem _ hs)
    have hseg : SegWF seg := hwf seg (List.mem_cons_self ..)
    cases hp : seg.isParam with
    | false =>
      have hcap' : it + (rest.filter (·.isParam)).length ≤ maxParams := by
        simpa [List.filter_cons, hp] using hcap
      have ih' := fun d p hdp => ih hrest d p hdp it hcap'
      have hlen : seg.length = seg.const.length := hseg hp
      simp only [getMatchC, C02.getMatch, hp, Bool.not_false, if_true]
      -- the optional-slash test
      by_cases hopt : seg.hasOptionalSlash = true ∧ (det.length : Int) = (seg.length : Int) - 1
      · have hpos : seg.length > 0 := by omega
        have hdl : det.length = seg.length - 1 := by omega
        rw [if_pos hopt, show ((seg.length : Int) - 1) = ((seg.length - 1 : Nat) : Int) by omega, sliceTo_nat seg.const (seg.length - 1) (by omega)]
        show (if decide (det = seg.const.take (seg.length - 1)) = true then _ else _) = _
        by_cases hd : det = seg.const.take (seg.length - 1)
        · have hb : (seg.hasOptionalSlash && decide (seg.length > 0) && det.length == seg.length - 1 &&
              det == seg.const.take (seg.length - 1)) = true := by simp [hopt.1, hpos, hdl, ← hd]
          rw [if_pos (by simpa using hd), if_pos hb]
          exact step_eq chk rest det path (seg.length - 1) pc it (by omega) hl ih'
        · have hb : ¬ (seg.hasOptionalSlash && decide (seg.length > 0) && det.length == seg.length - 1 &&
              det == seg.const.take (seg.length - 1)) = true := by simp [hd]
          rw [if_neg (by simpa using hd), if_neg hb]
          exact constBranch chk seg rest det path pc it hl ih'
      · have hb : ¬ (seg.hasOptionalSlash && decide (seg.length > 0) && det.length == seg.length - 1 &&
            det == seg.const.take (seg.length - 1)) = true := by
          intro h
          apply hopt
          simp only [Bool.and_eq_true, decide_eq_true_eq, beq_iff_eq] at h
          exact ⟨h.1.1.1, by omega⟩
        rw [if_neg hopt, if_neg hb]
        exact constBranch chk seg rest det path pc it hl ih'
    | true =>
      have hf : (List.filter (·.isParam) (seg :: rest)).length = (rest.filter (·.isParam)).length + 1 := by
        simp [hp]
      have hcap' : (it + 1) + (rest.filter (·.isParam)).length ≤ maxParams := by omega
      have hit : ¬ it ≥ maxParams := by omega
      have ih' := fun d p hdp => ih hrest d p hdp (it + 1) hcap'
      simp only [getMatchC, C02.getMatch, hp, Bool.not_true, Bool.false_eq_true, if_false]
      rw [paramLenC_eq, ok_bind]
      have hn := paramLen_le det seg rest
      generalize C02.paramLen det seg rest = n at hn ⊢
      by_cases h0 : (!seg.isOptional) = true ∧ (n : Int) = 0
      · have hb : (!seg.isOptional && n == 0) = true := by
          have : n = 0 := by omega
          simp [h0.1, this]
        rw [if_pos h0, if_pos hb]
      · have hb : ¬ (!seg.isOptional && n == 0) = true := by
          intro h
          apply h0
          simp only [Bool.and_eq_true, beq_iff_eq] at h
          exact ⟨h.1, by omega⟩
        rw [if_neg h0, if_neg hb, if_neg hit, sliceTo_nat path n (by omega), ok_bind]
        by_cases hc : (!decide (seg.isOptional = true ∧ (n : Int) = 0)) = true ∧ (!(seg.constraints.all (chk · (path.take n)))) = true
        · have h1 : (seg.isOptional && n == 0) = false := by
            cases ho : seg.isOptional with
            | false => simp
            | true =>
              have h' := hc.1
              simp only [ho, true_and, Bool.not_eq_true', decide_eq_false_iff_not] at h'
              have : n ≠ 0 := by omega
              simp [this]
          have hb2 : (!(seg.isOptional && n == 0) && !(seg.constraints.all (chk · (path.take n)))) = true := by
            simp [h1, hc.2]
          rw [if_pos hc, if_pos hb2]
        · have hb2 : ¬ (!(seg.isOptional && n == 0) && !(seg.constraints.all (chk · (path.take n)))) = true := by
            intro h
            apply hc
            simp only [Bool.and_eq_true, Bool.not_eq_true', Bool.and_eq_false_iff, beq_eq_false_iff_ne] at h
            refine ⟨?_, by simpa using h.2⟩
            simp only [Bool.not_eq_true', decide_eq_false_iff_not]
            rintro ⟨ho, hz⟩
            rcases h.1 with h' | h'
            · rw [ho] at h'; cases h'
            · exact h' (by omega)
          rw [if_neg hc, if_neg hb2]
          exact stepParam_eq chk rest det path n pc (it + 1) (path.take n) hn hl ih'

-- non-vacuity: a registered pattern's segments satisfy the hypotheses, and both matchers give the values
example : (C02.register {} false (b "/u/:id/*")).map (fun r =>
    (getMatchC (fun _ _ => true) r.parser.segs (b "/u/7/a/b") (b "/u/7/a/b") false 0,
     C02.getMatch (fun _ _ => true) r.parser.segs (b "/u/7/a/b") (b "/u/7/a/b") false))
    = some (.ok (some [b "7", b "a/b"]), some [b "7", b "a/b"]) := by rfl

end C07
