import FiberModel.C07.Emit
import FiberModel.C07.Parsers
/-
C07 — the property as executable predicates over what the harness observed on the real server.

"… the server neither panics nor hangs nor allocates memory out of proportion to the request size.
Whatever it writes back is a well-formed HTTP/1.1 response that a strict client parses, in which no
value a handler passed to a response helper (header value, redirect target, cookie field, link,
content-type parameter, flash message) adds a header line or starts the body early; methods outside
the configured set get 501 and malformed requests get the mapped 4xx status."

The strict parsing itself is done by the harness (own parser, CRLF only, token names, Content-Length
framing, nothing after the body). Here: which header lines / body / status were *intended* by the
call (independently of the `emit` model) and the comparison.
-/
namespace C07
open B

structure Reply where
  status : Nat
  headers : List (Bytes × Bytes)      -- wire order
  body : Bytes
  deriving Repr

inductive Obs where
  | reply (r : Reply)
  | unparsable
  | noreply
  | panic
  deriving Repr

/-- field-value bytes a strict client accepts: HTAB, SP, VCHAR, obs-text (RFC 9110 §5.5; the table
    Go's net/textproto and fasthttp's own request parser enforce) -/
def fieldByte (c : Nat) : Bool := c = 9 || (32 ≤ c && c ≤ 126) || (128 ≤ c && c ≤ 255)

def hDate := b "Date"
def hCT := b "Content-Type"
def hCL := b "Content-Length"

/-- header names the call is meant to add (sorted multiset), apart from Date / Content-Type /
    Content-Length which the server manages -/
def intendedNames : Call → List Bytes
  | .set k _ => [k]
  | .append f vs => if vs.any (· ≠ []) then [f] else []
  | .vary fs => if fs.any (· ≠ []) then [hVary] else []
  | .location _ => [hLocation]
  | .redirectTo _ flash => if flash = [] then [hLocation] else [hLocation, hSetCookie]
  | .cookie _ => [hSetCookie]
  | .clearCookie keys => keys.map fun _ => hSetCookie
  | .links ls => if ls = [] then [] else [hLink]
  | .attachment _ => [hCD]
  | .type _ _ => []
  | .format _ => [hVary]
  | .json _ => []
  | .jsonp _ => [hXCTO]

def intendedBody : Call → Bytes
  | .redirectTo _ _ => []
  | .json _ => b "\"x\""
  | .jsonp cb => cb ++ b "(\"x\");"
  | _ => b "ok"

def intendedStatus : Call → Nat
  | .redirectTo _ _ => 302
  | _ => 200

def insertB (x : Bytes) : List Bytes → List Bytes
  | [] => [x]
  | y :: ys => if toHex x ≤ toHex y then x :: y :: ys else y :: insertB x ys
def sortB (l : List Bytes) : List Bytes := l.foldr insertB []

def countName (r : Reply) (n : Bytes) : Nat := (r.headers.filter (·.1 = n)).length

def otherNames (r : Reply) : List Bytes :=
  sortB ((r.headers.map (·.1)).filter fun n => n ≠ hDate ∧ n ≠ hCT ∧ n ≠ hCL)

/-- first failing clause for a response-helper case -/
def specEmit (c : Call) : Obs → Option String
  | .panic => some "no-panic"
  | .noreply => some "replied"
  | .unparsable => some "well-formed"
  | .reply r =>
    if r.headers.any (fun h => !h.2.all fieldByte) then some "field-value-bytes"
    else if countName r hDate ≠ 1 ∨ countName r hCL ≠ 1 ∨ countName r hCT > 1 then some "framing-headers"
    else if otherNames r ≠ sortB (intendedNames c) then some "no-added-header-line"
    else if r.body ≠ intendedBody c then some "body-starts-where-intended"
    else if r.status ≠ intendedStatus c then some "status"
    else none

/-- the default method set (fiber.DefaultMethods, as documented) -/
def defaultMethods : List Bytes :=
  [b "GET", b "HEAD", b "POST", b "PUT", b "DELETE", b "CONNECT", b "OPTIONS", b "TRACE", b "PATCH"]

/-- "methods outside the configured set get 501" (and the others do not) -/
def specMethod (configured : List Bytes) (m : Bytes) (status : String) : Option String :=
  if status = "panic" then some "no-panic"
  else if status = "unparsable" ∨ status = "noreply" then some "well-formed"
  else if configured.contains m then (if status = "501" then some "known-method-not-501" else none)
  else (if status = "501" then none else some "unknown-method-501")

/-- "malformed requests get the mapped 4xx status" -/
def expectedErrStatus (cls : String) : Option String :=
  if cls = "ErrSmallBuffer" then some "431"
  else if cls = "ErrBodyTooLarge" then some "413"
  else if cls = "ErrGetOnly" then some "405"
  else if cls = "default" then some "400"
  else none

def specSrvErr (cls status : String) : Option String :=
  if status = "panic" then some "no-panic"
  else if status = "unparsable" ∨ status = "noreply" then some "well-formed"
  else if expectedErrStatus cls ≠ some status then some "mapped-4xx"
  else none

/-- memory budget for one connection's worth of requests. A request that names a content coding
    makes `c.Body()` run a third-party decompressor (brotli / zstd / flate), whose window buffer is
    sized by the stream header (bounded by the format, up to 16 MiB for brotli) and not by fiber:
    such requests get that constant on top. -/
def wireBudget (reqLen : Nat) (hasCoding : Bool) : Nat :=
  524288 + 256 * reqLen + (if hasCoding then 33554432 else 0)

def specWire (req : Bytes) (obs : String) (alloc : Nat) : Option String :=
  let hasCoding := (indexOf (toLower req) (b "content-encoding")).isSome
  if obs.startsWith "panic" then some "no-panic"
  else if obs.startsWith "unparsable" then some "well-formed"
  else if alloc > wireBudget req.length hasCoding then some "alloc-proportional"
  else none

/-- parsers: the property asks for "no panic"; on top, results that are cheap to sanity-check -/
def specRange (size : Int) (obs : String) (ranges : List (Int × Int)) : Option String :=
  if obs = "panic" then some "no-panic"
  else if ranges.any (fun r => r.1 < 0 ∨ r.1 > r.2 ∨ r.2 > size - 1) then some "range-within-size"
  else none

def specNoPanic (obs : String) : Option String :=
  if obs = "panic" ∨ obs = "unparsable" then some "no-panic" else none

end C07

namespace C07
open B

/-! ### The header writer and a strict reader (for the theorem `emitted_block_reads_back`) -/

def crlf : Bytes := [13, 10]

/-- fasthttp `appendHeaderLine` for each line, then the empty line, then the body -/
def writeBlock (lines : List (Bytes × Bytes)) (body : Bytes) : Bytes :=
  match lines with
  | [] => crlf ++ body
  | (n, v) :: rest => n ++ [58, 32] ++ v ++ crlf ++ writeBlock rest body

/-- strict line reader: the line ends at the first CRLF; a bare CR or LF is an error -/
def readLine : Bytes → Option (Bytes × Bytes)
  | [] => none
  | c :: rest =>
    if c = 13 then (match rest with | 10 :: r => some ([], r) | _ => none)
    else if c = 10 then none
    else (readLine rest).map fun (l, r) => (c :: l, r)

/-- `name ":" SP value` -/
def splitField : Bytes → Option (Bytes × Bytes)
  | [] => none
  | c :: rest =>
    if c = 58 then (match rest with | 32 :: v => some ([], v) | _ => none)
    else (splitField rest).map fun (n, v) => (c :: n, v)

/-- strict block reader: header lines up to the empty line; what follows is the body -/
def readBlock : Nat → Bytes → Option (List (Bytes × Bytes) × Bytes)
  | 0, _ => none
  | fuel + 1, bs =>
    match readLine bs with
    | none => none
    | some ([], rest) => some ([], rest)
    | some (line, rest) =>
      match splitField line, readBlock fuel rest with
      | some nv, some (ls, body) => some (nv :: ls, body)
      | _, _ => none

/-- a header name the writer may be given: non-empty, no `:`, no CR/LF -/
def nameOK (n : Bytes) : Bool := n ≠ [] && !n.contains 58 && clean n

end C07
