import FiberModel.C07.Total2
/-
C07 (a) — totality, continued: `sortAcceptedTypes`, `Host`/`Hostname`/`Scheme`/`Port`/`IsFromLocal`,
`Params`, the `defaultValue[0]` helpers, `configDependentPaths`, `sanitizeHeaderValue`,
`tryDecodeBodyInOrder` + `Body`.
-/
namespace C07
open B

/-! ### helpers.go `sortAcceptedTypes` -/

theorem swapL_spec {α : Type} (l : List α) (j : Int) (h1 : 1 ≤ j) (h2 : j < l.length) :
    ∃ l', swapL l j = .ok l' ∧ l'.length = l.length := by
  unfold swapL
  obtain ⟨a, ha⟩ := idxL_ok (l := l) (i := j - 1) (by omega) (by omega)
  obtain ⟨c, hc⟩ := idxL_ok (l := l) (i := j) (by omega) h2
  rw [ha]
  simp only [bind, Except.bind]
  rw [hc]
  exact ⟨_, rfl, by simp⟩

theorem bsearch_spec {α : Type} (after : α → α → Bool) (l : List α) (i : Int) (fuel : Nat) (lo hi : Int)
    (hi0 : 0 ≤ i) (hil : i < l.length) (hlo : 0 ≤ lo) (hlh : lo ≤ hi + 1) (hhi : hi < i)
    (hf : hi - lo + 1 < fuel) :
    ∃ r, bsearch after l i fuel lo hi = .ok r ∧ 0 ≤ r ∧ r ≤ i := by
  induction fuel generalizing lo hi with
  | zero => omega
  | succ fuel ih =>
    simp only [bsearch]
    split
    · rename_i hle
      have hm0 : 0 ≤ (lo + hi) / 2 := Int.ediv_nonneg (by omega) (by omega)
      have hm1 : lo ≤ (lo + hi) / 2 := by omega
      have hm2 : (lo + hi) / 2 ≤ hi := by omega
      obtain ⟨x, hx⟩ := idxL_ok (l := l) (i := i) hi0 hil
      obtain ⟨y, hy⟩ := idxL_ok (l := l) (i := (lo + hi) / 2) hm0 (by omega)
      rw [hx]
      simp only [bind, Except.bind]
      rw [hy]
      simp only
      split
      · exact ih _ _ (by omega) (by omega) hhi (by omega)
      · exact ih _ _ hlo (by omega) (by omega) (by omega)
    · exact ⟨lo, rfl, hlo, by omega⟩

theorem shiftDown_spec {α : Type} (fuel : Nat) (l : List α) (j lo : Int)
    (hlo : 0 ≤ lo) (hjl : lo ≤ j) (hj : j < l.length) (hf : j - lo < fuel) :
    ∃ l', shiftDown fuel l j lo = .ok l' ∧ l'.length = l.length := by
  induction fuel generalizing l j with
  | zero => omega
  | succ fuel ih =>
    simp only [shiftDown]
    split
    · obtain ⟨l1, h1, hl1⟩ := swapL_spec l j (by omega) hj
      rw [h1]
      simp only [bind, Except.bind]
      obtain ⟨l', h2, hl2⟩ := ih l1 (j - 1) (by omega) (by omega) (by omega)
      exact ⟨l', h2, by omega⟩
    · exact ⟨l, rfl, rfl⟩

theorem sortLoop_total {α : Type} (after : α → α → Bool) (fuel : Nat) (l : List α) (i : Int)
    (h1 : 1 ≤ i) (hle : i ≤ (l.length : Int) + 1) (hf : (l.length : Int) + 1 - i < fuel) :
    Ok (sortLoop after fuel l i) := by
  induction fuel generalizing l i with
  | zero => omega
  | succ fuel ih =>
    simp only [sortLoop]
    split
    · rename_i hlt
      refine Ok.bind_spec (bsearch_spec after l i _ 0 (i - 1) (by omega) hlt (by omega) (by omega) (by omega) (by omega)) fun lo hlo => ?_
      refine Ok.bind_spec (shiftDown_spec _ l i lo hlo.1 hlo.2 hlt (by omega)) fun l' hl' => ?_
      exact ih l' (i + 1) (by omega) (by omega) (by omega)
    · exact Ok.pure _

/-- helpers.go `sortAcceptedTypes`: the binary insertion sort never indexes outside the slice,
    whatever the comparison answers and however many media ranges the header has -/
theorem sortAcceptedTypes_total {α : Type} (after : α → α → Bool) (l : List α) : Ok (sortAcceptedTypes after l) := by
  unfold sortAcceptedTypes
  exact sortLoop_total after _ l 1 (by omega) (by omega) (by omega)

example : sortAcceptedTypes (fun (x y : Nat) => x < y) [3, 1, 2] = .ok [3, 2, 1] := by rfl

/-! ### ctx.go `Host`, `Hostname`, `Scheme`, `Port`, `IsFromLocal` -/

theorem host_total (xfh uriHost : Bytes) : Ok (host xfh uriHost) := by
  unfold host
  split
  · simp only
    split
    · rename_i hc
      rcases indexOfI_range xfh [44] with h | ⟨h1, h2⟩
      · exact absurd h hc
      · simp only [List.length_cons, List.length_nil] at h2
        exact sliceTo_ok h1 (by omega)
    · exact Ok.pure _
  · exact Ok.pure _

theorem hostname_total (xfh uriHost : Bytes) : Ok (hostname xfh uriHost) := by
  unfold hostname
  refine Ok.bind (host_total xfh uriHost) fun h _ => ?_
  exact Ok.bind (parseAddr_total h) fun _ _ => Ok.pure _

theorem schemeStep_total (s : Bytes) (kv : Bytes × Bytes) : Ok (schemeStep s kv) := by
  obtain ⟨key, val⟩ := kv
  unfold schemeStep
  simp only
  split
  · exact Ok.pure _
  · split
    · split
      · split
        · rename_i hc
          rcases indexOfI_range val [44] with h | ⟨h1, h2⟩
          · exact absurd h hc
          · simp only [List.length_cons, List.length_nil] at h2
            exact sliceTo_ok h1 (by omega)
        · exact Ok.pure _
      · split <;> exact Ok.pure _
    · split <;> exact Ok.pure _

theorem scheme_total (headers : List (Bytes × Bytes)) : Ok (scheme headers) := by
  unfold scheme
  generalize b "http" = s
  induction headers generalizing s with
  | nil => simp only [schemeFold]; exact Ok.pure _
  | cons kv rest ih =>
    simp only [schemeFold]
    exact Ok.bind (schemeStep_total s kv) fun s' _ => ih s'

/-- `Port()` on a TCP connection (its documented domain) -/
theorem port_total_tcp (ip : List Nat) (p : Nat) : Ok (port (.tcp ip p)) := Ok.pure _

-- on a non-TCP listener (unix socket) the type assertion in `Port()` does panic: the model shows it
example : port .other = .error .index := rfl

theorem isFromLocal_total (r : Remote) : Ok (isFromLocal r) := by
  cases r <;> exact Ok.pure _

/-! ### `defaultValue[0]` helpers, `Params` -/

theorem defaultString_total (value : Bytes) (dflt : List Bytes) : Ok (defaultString value dflt) := by
  unfold defaultString
  split
  · exact idxL_ok (by omega) (by omega)
  · exact Ok.pure _

theorem genericParseType_total {α : Type} (kind : GKind) (parse : Bytes → Option α) (ofText : Bytes → α) (zero : α)
    (str : Bytes) (dflt : List α) : Ok (genericParseType kind parse ofText zero str dflt) := by
  unfold genericParseType
  cases kind with
  | parsed =>
    simp only
    split
    · exact Ok.pure _
    · split
      · exact idxL_ok (by omega) (by omega)
      · exact Ok.pure _
  | text =>
    simp only
    split
    · exact idxL_ok (by omega) (by omega)
    · exact Ok.pure _
  | unknown =>
    simp only
    split
    · exact idxL_ok (by omega) (by omega)
    · exact Ok.pure _

theorem paramsLoop_total (cs : Bool) (names values : List Bytes) (key : Bytes) (dflt : List Bytes)
    (fuel : Nat) (i : Int) (h0 : 0 ≤ i) (hle : i ≤ names.length) (hf : (names.length : Int) - i < fuel) :
    Ok (paramsLoop cs names values key dflt fuel i) := by
  induction fuel generalizing i with
  | zero => omega
  | succ fuel ih =>
    simp only [paramsLoop]
    split
    · rename_i hlt
      refine Ok.bind (idxL_ok h0 hlt) fun nm _ => ?_
      split
      · exact ih _ (by omega) (by omega) (by omega)
      · refine Ok.bind (idxL_ok h0 hlt) fun nm2 _ => ?_
        split
        · split
          · exact defaultString_total _ _
          · refine Ok.bind (idxL_ok h0 (by omega)) fun v _ => ?_
            split
            · exact defaultString_total _ _
            · exact idxL_ok h0 (by omega)
        · exact ih _ (by omega) (by omega) (by omega)
    · exact defaultString_total _ _

/-- `c.Params(key, default…)`: every key, every list of declared names and of values (whatever their
    lengths), every default list -/
theorem params_total (cs : Bool) (names values : List Bytes) (key : Bytes) (dflt : List Bytes) :
    Ok (params cs names values key dflt) := by
  unfold params
  exact paramsLoop_total cs names values _ dflt _ 0 (by omega) (by omega) (by omega)

/-! ### `configDependentPaths`, `sanitizeHeaderValue` -/

theorem configDependentPaths_total (cs strict unescape : Bool) (unq : Bytes → Bytes) (orig : Bytes) :
    Ok (configDependentPaths cs strict unescape unq orig) := by
  unfold configDependentPaths
  simp only
  refine Ok.bind ?_ fun det _ => ?_
  · split
    · exact Ok.bind (idx_ok (by omega) (by omega)) fun _ _ => Ok.pure _
    · exact Ok.pure _
  · split
    · refine Ok.bind (idx_ok (by omega) (by omega)) fun _ _ => ?_
      refine Ok.bind (idx_ok (by omega) (by omega)) fun _ _ => ?_
      exact Ok.bind (idx_ok (by omega) (by omega)) fun _ _ => Ok.pure _
    · exact Ok.pure _

theorem sanitizeLoop_total (bs : Bytes) (fuel : Nat) (i : Int) (acc : Bytes)
    (h0 : 0 ≤ i) (hle : i ≤ bs.length) (hf : (bs.length : Int) - i < fuel) : Ok (sanitizeLoop bs fuel i acc) := by
  induction fuel generalizing i acc with
  | zero => omega
  | succ fuel ih =>
    simp only [sanitizeLoop]
    split
    · exact Ok.bind (idx_ok h0 (by omega)) fun _ _ => ih _ _ (by omega) (by omega) (by omega)
    · exact Ok.pure _

theorem sanitizeHeaderValueC_total (v : Bytes) : Ok (sanitizeHeaderValueC v) := by
  unfold sanitizeHeaderValueC
  split
  · exact Ok.pure _
  · exact sanitizeLoop_total v _ 0 [] (by omega) (by omega) (by omega)

/-! ### `tryDecodeBodyInOrder` + `Body` -/

/-- `c.Body()`: every Content-Encoding value, every body, every behaviour of the decompressors -/
theorem bodyDecode_total {β : Type} (dec : Coding → β → Option β) (ce : Bytes) (raw : β) : Ok (bodyDecode dec ce raw) := by
  unfold bodyDecode
  split
  · exact Ok.pure _
  · refine Ok.bind (getSplicedStrList_total ce) fun order _ => ?_
    split
    · exact Ok.pure _
    · simp only
      split <;> exact Ok.pure _

/-! ### `isIPv6`, `getOffer` without header -/

theorem ipv6GroupsLoop_total (s : Bytes) (fuel : Nat) (i : Int) (digits : Nat)
    (h0 : 0 ≤ i) (hle : i ≤ s.length) (hf : (s.length : Int) - i < fuel) : Ok (ipv6GroupsLoop s fuel i digits) := by
  induction fuel generalizing i digits with
  | zero => omega
  | succ fuel ih =>
    simp only [ipv6GroupsLoop]
    split
    · refine Ok.bind (idx_ok h0 (by omega)) fun c _ => ?_
      split
      · exact ih _ _ (by omega) (by omega) (by omega)
      · refine Ok.bind (idx_ok h0 (by omega)) fun c' _ => ?_
        split
        · exact ih _ _ (by omega) (by omega) (by omega)
        · split
          · exact Ok.pure _
          · exact ih _ _ (by omega) (by omega) (by omega)
    · exact Ok.pure _

/-- ctx.go `isIPv6`: every candidate segment of a proxy header, every verdict of `utils.IsIPv6` -/
theorem isIPv6_total (v6 : Bytes → Bool) (s : Bytes) : Ok (isIPv6C v6 s) := by
  unfold isIPv6C
  exact Ok.bind (ipv6GroupsLoop_total s _ 0 0 (by omega) (by omega) (by omega)) fun _ _ => Ok.pure _

example : isIPv6C (fun _ => true) (b "0:0:0:0:0:0:0:00001") = .ok false := by rfl
example : isIPv6C (fun _ => true) (b "2001:db8::ffff:1.2.3.4") = .ok true := by rfl

theorem getOfferNoHeader_total (offers : List Bytes) : Ok (getOfferNoHeader offers) := by
  unfold getOfferNoHeader
  split
  · exact Ok.pure _
  · exact idxL_ok (by omega) (by omega)

end C07

namespace C07
open B

/-! ### non-vacuity: the models compute the expected values on concrete inputs (so the `*_total`
    theorems are about functions that do the parsing, not about constants) -/

example : parseParamSquareBrackets (b "a[b][c]") = .ok (some (b "a.b.c")) := by rfl
example : parseParamSquareBrackets (b "a[]") = .ok (some (b "a")) := by rfl
example : parseParamSquareBrackets (b "a[b") = .ok none := by rfl
example : parseParamSquareBrackets (b "a]") = .ok none := by rfl
example : filterFlags (b "application/json; charset=utf-8") = .ok (b "application/json") := by rfl
example : bindQuery true [(b "a[b]", b "1,2"), (b "a[b]", b "3")] = .ok (some [(b "a.b", [b "1", b "2", b "3"])]) := by rfl
example : parameters (b ";a=1; b=\"x y\";;c=\"p\\\"q\" ;d") = .ok [(b "a", b "1"), (b "b", b "x y"), (b "c", b "p\\\"q")] := by rfl
-- a parameter list ending right after `=`: the guard `n >= len(b)-1` stops the scan
example : parameters (b ";a=") = .ok [] := by rfl
example : parameters (b ";a=\"open") = .ok [] := by rfl
example : offerRange (fun _ => 1) (b "text/html;q=0") = .ok none := by rfl
example : offerRange (fun _ => 2) (b "text/html ;level=1;Q=0.5;x=y") =
    .ok (some ⟨b "text/html", some [(b "level", b "1")], 3⟩) := by rfl
example : acceptsOne (fun _ => 2) (fun _ => b "text/html") (b "text/*;a=1, application/json") (b "html;A=\"1\"") = .ok true := by rfl
example : acceptsOne (fun _ => 2) (fun _ => b "text/html") (b "text/*;a=1") (b "text/html;a=2") = .ok false := by rfl
example : host (b "a.example:8080, b") (b "x") = .ok (b "a.example:8080") := by rfl
example : hostname (b "a.example:8080, b") (b "x") = .ok (b "a.example") := by rfl
example : scheme [(b "X-Forwarded-Proto", b "https,http")] = .ok (b "https") := by rfl
example : params false [b "id", b "name"] [b "7", []] (b "NAME") [b "dflt"] = .ok (b "dflt") := by rfl
example : params false [b "id", b "*1"] [b "7", b "a/b"] [42] [] = .ok (b "a/b") := by rfl
example : configDependentPaths false false false id (b "/API/Users//") = .ok (b "/API/Users//", b "/api/users", 3105136) := by rfl
-- two layers: both decoded, the request's raw body is put back afterwards
example : (bodyDecode (fun _ (n : Nat) => some (n + 1)) (b "gzip,gzip") 0) = .ok (.body (some 2), 0) := by rfl

end C07
