import FiberModel.C07.Spec
/-
C07 — regions of recorded known findings (known/C07.json).

K1: a redirect with flash messages writes the raw msgpack encoding into `Set-Cookie`. For in-domain
arguments (e.g. any message with level 0..31, or a key/value of 127 bytes) that value contains control
bytes (NUL …) which no strict client accepts in a field value. Same root cause as C12.K1 (the raw
encoding is pinned by redirect_test.go). CR/LF inside it are neutralised by `Cookie`'s sanitiser, so
no header line is added – only the field-value alphabet is violated.
-/
namespace C07.Known
open B C07

def K1 : Call → Bool
  | .redirectTo _ flash =>
    match C12.issue (flashMsgs flash) with
    | none => false
    | some v => !(C12.sanitize v).all fieldByte
  | _ => false

end C07.Known
