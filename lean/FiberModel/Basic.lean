/-
Shared byte-string vocabulary for all models.

Go strings and []byte are byte sequences. We model a byte as a `Nat` (the driver only ever
produces values < 256) so that `omega` and `decide` work directly; every theorem is therefore
stated for a superset of the real inputs. Core Lean only: this file is linked into the drivers.
-/

abbrev Bytes := List Nat

namespace B

/-- ASCII/UTF-8 literal as bytes (`b "text/html"`); reduces under `decide`. -/
def b (s : String) : Bytes := s.toList.map Char.toNat

def hexDigit (n : Nat) : Char :=
  if n < 10 then Char.ofNat (48 + n) else Char.ofNat (87 + n)

def toHex (bs : Bytes) : String :=
  String.ofList (bs.flatMap fun x => [hexDigit (x / 16 % 16), hexDigit (x % 16)])

def hexVal (c : Char) : Option Nat :=
  let n := c.toNat
  if 48 ≤ n ∧ n ≤ 57 then some (n - 48)
  else if 97 ≤ n ∧ n ≤ 102 then some (n - 87)
  else if 65 ≤ n ∧ n ≤ 70 then some (n - 55)
  else none

def fromHexAux : List Char → Option Bytes
  | [] => some []
  | [_] => none
  | c :: d :: rest =>
    match hexVal c, hexVal d, fromHexAux rest with
    | some x, some y, some r => some ((x * 16 + y) :: r)
    | _, _, _ => none

/-- Parse a hex field; the single character `-` denotes the empty string. -/
def fromHex (s : String) : Option Bytes :=
  if s == "-" then some [] else fromHexAux s.toList

def toHexField (bs : Bytes) : String := if bs.isEmpty then "-" else toHex bs

/-- Printable rendering for samples / messages (non-printables as \xNN). -/
def render (bs : Bytes) : String :=
  String.ofList (bs.flatMap fun x =>
    if 32 ≤ x ∧ x < 127 ∧ x ≠ 92 then [Char.ofNat x]
    else ['\\', 'x', hexDigit (x / 16 % 16), hexDigit (x % 16)])

/-! ### ASCII helpers (as gofiber/utils) -/

def isUpper (c : Nat) : Bool := 65 ≤ c && c ≤ 90
def isLower (c : Nat) : Bool := 97 ≤ c && c ≤ 122
def isDigit (c : Nat) : Bool := 48 ≤ c && c ≤ 57
def isAlpha (c : Nat) : Bool := isUpper c || isLower c

/-- `utils.ToLower` on one byte: ASCII only. -/
def lowerByte (c : Nat) : Nat := if isUpper c then c + 32 else c
def upperByte (c : Nat) : Nat := if isLower c then c - 32 else c
def toLower (s : Bytes) : Bytes := s.map lowerByte
def toUpper (s : Bytes) : Bytes := s.map upperByte

/-- `utils.EqualFold` (ASCII). -/
def equalFold (a b : Bytes) : Bool := toLower a == toLower b

def trimLeft (s : Bytes) (c : Nat) : Bytes := s.dropWhile (· == c)
def trimRight (s : Bytes) (c : Nat) : Bytes := (s.reverse.dropWhile (· == c)).reverse
def trim (s : Bytes) (c : Nat) : Bytes := trimRight (trimLeft s c) c

def hasPrefix (s p : Bytes) : Bool := p.isPrefixOf s
def hasSuffix (s p : Bytes) : Bool := p.isSuffixOf s

/-- `bytes.IndexByte`: position of the first `c`, if any. -/
def indexByte : Bytes → Nat → Option Nat
  | [], _ => none
  | x :: xs, c => if x == c then some 0 else (indexByte xs c).map (· + 1)

/-- `strings.Index`: least offset at which `pat` occurs. -/
def indexOf : Bytes → Bytes → Option Nat
  | [], pat => if pat.isEmpty then some 0 else none
  | x :: xs, pat =>
    if pat.isPrefixOf (x :: xs) then some 0 else (indexOf xs pat).map (· + 1)

/-- Split on a single byte, like `strings.Split(s, string(c))` (always ≥ 1 piece). -/
def splitOn (s : Bytes) (c : Nat) : List Bytes :=
  let rec go : Bytes → Bytes → List Bytes
    | [], acc => [acc.reverse]
    | x :: xs, acc => if x == c then acc.reverse :: go xs [] else go xs (x :: acc)
  go s []

def join (parts : List Bytes) (sep : Bytes) : Bytes :=
  match parts with
  | [] => []
  | [p] => p
  | p :: ps => p ++ sep ++ join ps sep

def natToDec (n : Nat) : Bytes := (toString n).toList.map Char.toNat

/-- Decimal `Nat` parser: non-empty, digits only. -/
def decToNat? (s : Bytes) : Option Nat :=
  if s.isEmpty then none
  else s.foldl (fun acc c => acc.bind fun a => if isDigit c then some (a * 10 + (c - 48)) else none) (some 0)

theorem lowerByte_idem (c : Nat) : lowerByte (lowerByte c) = lowerByte c := by
  unfold lowerByte isUpper
  split <;> simp_all <;> omega

theorem toLower_idem (s : Bytes) : toLower (toLower s) = toLower s := by
  simp [toLower, List.map_map, Function.comp_def, lowerByte_idem]

theorem toLower_append (s t : Bytes) : toLower (s ++ t) = toLower s ++ toLower t := by
  simp [toLower]

theorem toLower_length (s : Bytes) : (toLower s).length = s.length := by simp [toLower]

end B
