import FiberModel.C11.Spec
/-
C11 — helper lemmas (codec laws). Property theorems are in Props.lean.
-/
namespace C11
open B

/-! ### percent-encoding -/

theorem hex2int_hexUpper (n : Nat) (h : n < 16) : hex2int (hexUpper n) = some n := by
  unfold hex2int hexUpper
  split <;> (split <;> try (split <;> try split)) <;> simp_all <;> omega

theorem hexUpper_ne (n : Nat) (h : n < 16) : hexUpper n ≠ 38 ∧ hexUpper n ≠ 61 ∧ hexUpper n ≠ 37 ∧ hexUpper n ≠ 43 := by
  unfold hexUpper; split <;> omega

theorem urldecode_plus (r : Bytes) : urldecode (43 :: r) = 32 :: urldecode r := by
  rcases r with _ | ⟨d, _ | ⟨e, tl⟩⟩ <;> simp [urldecode]

theorem urldecode_plain (c : Nat) (r : Bytes) (h1 : c ≠ 37) (h2 : c ≠ 43) :
    urldecode (c :: r) = c :: urldecode r := by
  rcases r with _ | ⟨d, _ | ⟨e, tl⟩⟩ <;> simp [urldecode, h1, h2]

theorem urldecode_pct (hi lo : Nat) (r : Bytes) (a b' : Nat)
    (ha : hex2int hi = some a) (hb : hex2int lo = some b') :
    urldecode (37 :: hi :: lo :: r) = (a * 16 + b') :: urldecode r := by
  simp [urldecode, ha, hb]

theorem unreserved_ne (c : Nat) (h : unreserved c = true) : c ≠ 37 ∧ c ≠ 43 ∧ c ≠ 38 ∧ c ≠ 61 := by
  unfold unreserved isAlpha isUpper isLower isDigit at h
  simp at h
  omega

theorem urldecode_quoteByte (c : Nat) (hc : c < 256) (r : Bytes) :
    urldecode (quoteByte c ++ r) = c :: urldecode r := by
  unfold quoteByte
  by_cases h32 : c = 32
  · subst h32; simp [urldecode_plus]
  · by_cases hu : unreserved c = true
    · have := unreserved_ne c hu
      simp [h32, hu, urldecode_plain c r this.1 this.2.1]
    · have h1 : c / 16 < 16 := by omega
      have h2 : c % 16 < 16 := by omega
      simp only [beq_iff_eq, h32, if_false, hu, Bool.false_eq_true]
      rw [List.cons_append, List.cons_append, List.cons_append, List.nil_append,
        urldecode_pct _ _ r _ _ (hex2int_hexUpper _ h1) (hex2int_hexUpper _ h2)]
      congr 1
      omega

/-- every byte `AppendQuotedArg` emits is neither '&' nor '=' -/
theorem quoteByte_clean (c : Nat) (hc : c < 256) : ∀ x ∈ quoteByte c, x ≠ 38 ∧ x ≠ 61 := by
  unfold quoteByte
  intro x hx
  by_cases h32 : c = 32
  · subst h32; simp at hx; omega
  · by_cases hu : unreserved c = true
    · have := unreserved_ne c hu
      simp [h32, hu] at hx; subst hx; omega
    · have h1 := hexUpper_ne (c / 16) (by omega)
      have h2 := hexUpper_ne (c % 16) (by omega)
      simp [h32, hu] at hx
      rcases hx with rfl | rfl | rfl <;> omega

theorem urlencode_clean (s : Bytes) (hs : ∀ c ∈ s, c < 256) : ∀ x ∈ urlencode s, x ≠ 38 ∧ x ≠ 61 := by
  induction s with
  | nil => simp [urlencode]
  | cons c cs ih =>
    intro x hx
    simp only [urlencode, List.mem_append] at hx
    rcases hx with hx | hx
    · exact quoteByte_clean c (hs c (by simp)) x hx
    · exact ih (fun c hc => hs c (by simp [hc])) x hx

theorem urldecode_urlencode_append (s r : Bytes) (hs : ∀ c ∈ s, c < 256) :
    urldecode (urlencode s ++ r) = s ++ urldecode r := by
  induction s with
  | nil => simp [urlencode]
  | cons c cs ih =>
    simp only [urlencode, List.append_assoc]
    rw [urldecode_quoteByte c (hs c (by simp)), ih (fun c hc => hs c (by simp [hc]))]
    rfl

/-! ### splitting on one byte -/

theorem splitOn_go_append (c : Nat) (a : Bytes) (ha : ∀ x ∈ a, x ≠ c) (rest acc : Bytes) :
    splitOn.go c (a ++ rest) acc = splitOn.go c rest (a.reverse ++ acc) := by
  induction a generalizing acc with
  | nil => simp
  | cons x xs ih =>
    have hx : (x == c) = false := by simpa using ha x (by simp)
    simp only [List.cons_append, splitOn.go, hx, Bool.false_eq_true, if_false]
    rw [ih (fun y hy => ha y (by simp [hy]))]
    simp

/-- a separator-free prefix followed by the separator is the first piece -/
theorem splitOn_append_sep (c : Nat) (a rest : Bytes) (ha : ∀ x ∈ a, x ≠ c) :
    splitOn (a ++ c :: rest) c = a :: splitOn rest c := by
  unfold splitOn
  rw [splitOn_go_append c a ha]
  simp [splitOn.go]

theorem splitOn_clean (c : Nat) (a : Bytes) (ha : ∀ x ∈ a, x ≠ c) : splitOn a c = [a] := by
  unfold splitOn
  have := splitOn_go_append c a ha [] []
  simp at this
  rw [this]; simp [splitOn.go]

/-- splitting a `sep`-joined list of `sep`-free segments gives the segments back -/
theorem splitOn_join (c : Nat) (segs : List Bytes) (hne : segs ≠ [])
    (hs : ∀ s ∈ segs, ∀ x ∈ s, x ≠ c) : splitOn (join segs [c]) c = segs := by
  induction segs with
  | nil => exact absurd rfl hne
  | cons s rest ih =>
    cases rest with
    | nil => simp [join, splitOn_clean c s (hs s (by simp))]
    | cons t ts =>
      have : join (s :: t :: ts) [c] = s ++ c :: join (t :: ts) [c] := by simp [join]
      rw [this, splitOn_append_sep c s _ (hs s (by simp)), ih (by simp) (fun u hu => hs u (by simp [hu]))]

/-! ### `k=v&…` -/

theorem cutEq_append (k v : Bytes) (hk : ∀ x ∈ k, x ≠ 61) : cutEq (k ++ 61 :: v) = (k, v) := by
  induction k with
  | nil => simp [cutEq]
  | cons x xs ih =>
    have hx : (x == 61) = false := by simpa using hk x (by simp)
    simp [cutEq, hx, ih (fun y hy => hk y (by simp [hy]))]

theorem urldecode_urlencode' (s : Bytes) (hs : ∀ c ∈ s, c < 256) : urldecode (urlencode s) = s := by
  have := urldecode_urlencode_append s [] hs
  simpa [urldecode] using this

theorem parseSeg_renderArg (kv : Bytes × Bytes) (hk : ∀ c ∈ kv.1, c < 256) (hv : ∀ c ∈ kv.2, c < 256) :
    parseSeg (renderArg kv) = kv := by
  unfold parseSeg renderArg
  have h1 : ∀ x ∈ urlencode kv.1, x ≠ 61 := fun x hx => (urlencode_clean kv.1 hk x hx).2
  rw [List.append_assoc, List.singleton_append, cutEq_append _ _ h1]
  simp [urldecode_urlencode' _ hk, urldecode_urlencode' _ hv]

theorem renderArg_clean (kv : Bytes × Bytes) (hk : ∀ c ∈ kv.1, c < 256) (hv : ∀ c ∈ kv.2, c < 256) :
    ∀ x ∈ renderArg kv, x ≠ 38 := by
  intro x hx
  unfold renderArg at hx
  simp only [List.mem_append, List.mem_singleton] at hx
  rcases hx with (hx | hx) | hx
  · exact (urlencode_clean _ hk x hx).1
  · omega
  · exact (urlencode_clean _ hv x hx).1

/-! ### decimal text -/

theorem parseDigits_digit (d : Nat) (hd : d < 10) (rest : Bytes) (a : Nat) :
    parseDigits ((48 + d) :: rest) a = parseDigits rest (a * 10 + d) := by
  have : isDigit (48 + d) = true := by unfold isDigit; simp; omega
  simp [parseDigits, this]

/-- characterisation of the digit loop: it prepends a non-empty block of digits denoting `n` -/
theorem natDigitsAux_spec (fuel : Nat) : ∀ (n : Nat) (acc : Bytes), n < fuel →
    ∃ ds : Bytes, natDigitsAux fuel n acc = ds ++ acc ∧ ds ≠ [] ∧ (∀ d ∈ ds, isDigit d = true) ∧
      ∀ (a : Nat) (rest : Bytes), parseDigits (ds ++ rest) a = parseDigits rest (a * 10 ^ ds.length + n) := by
  induction fuel with
  | zero => intro n acc h; omega
  | succ fuel ih =>
    intro n acc hn
    by_cases h10 : n < 10
    · refine ⟨[48 + n], by simp [natDigitsAux, h10], by simp, ?_, ?_⟩
      · intro d hd; simp at hd; subst hd; unfold isDigit; simp; omega
      · intro a rest; simp [parseDigits_digit n h10]
    · obtain ⟨ds, h1, h2, h3, h4⟩ := ih (n / 10) ((48 + n % 10) :: acc) (by omega)
      refine ⟨ds ++ [48 + n % 10], by simp [natDigitsAux, h10, h1], by simp, ?_, ?_⟩
      · intro d hd
        simp only [List.mem_append, List.mem_singleton] at hd
        rcases hd with hd | hd
        · exact h3 d hd
        · subst hd; unfold isDigit; simp; omega
      · intro a rest
        rw [List.append_assoc, h4, List.singleton_append, parseDigits_digit _ (by omega)]
        congr 1
        simp only [List.length_append, List.length_singleton, Nat.pow_succ]
        have : (a * 10 ^ ds.length + n / 10) * 10 = a * (10 ^ ds.length * 10) + n / 10 * 10 := by
          rw [Nat.add_mul, Nat.mul_assoc]
        omega

theorem formatNat_spec (n : Nat) :
    formatNat n ≠ [] ∧ (∀ d ∈ formatNat n, isDigit d = true) ∧ parseNat (formatNat n) = some n := by
  obtain ⟨ds, h1, h2, h3, h4⟩ := natDigitsAux_spec (n + 1) n [] (by omega)
  unfold formatNat
  simp only [List.append_nil] at h1
  rw [h1]
  refine ⟨h2, h3, ?_⟩
  unfold parseNat
  have := h4 0 []
  simp only [List.append_nil, Nat.zero_mul, Nat.zero_add] at this
  cases ds with
  | nil => exact absurd rfl h2
  | cons d ds' => simpa [parseDigits] using this

theorem formatNat_head (n : Nat) : ∃ d ds, formatNat n = d :: ds ∧ isDigit d = true := by
  obtain ⟨h1, h2, _⟩ := formatNat_spec n
  cases h : formatNat n with
  | nil => exact absurd h h1
  | cons d ds => exact ⟨d, ds, rfl, h2 d (by simp [h])⟩

theorem parseArgs_renderArgs' (args : List (Bytes × Bytes))
    (hb : ∀ kv ∈ args, (∀ c ∈ kv.1, c < 256) ∧ (∀ c ∈ kv.2, c < 256))
    (hne : ∀ kv ∈ args, ¬ (kv.1 = [] ∧ kv.2 = [])) :
    parseArgs (renderArgs args) = args := by
  unfold parseArgs renderArgs
  cases hargs : args with
  | nil => simp [join, splitOn, splitOn.go, parseSeg, cutEq, urldecode]
  | cons a as =>
    rw [← hargs]
    have hne' : args.map renderArg ≠ [] := by simp [hargs]
    rw [splitOn_join 38 _ hne' (by
      intro s hs x hx
      simp only [List.mem_map] at hs
      obtain ⟨kv, hkv, rfl⟩ := hs
      exact renderArg_clean kv (hb kv hkv).1 (hb kv hkv).2 x hx)]
    rw [List.map_map]
    have : args.map (parseSeg ∘ renderArg) = args := by
      conv => rhs; rw [← List.map_id args]
      apply List.map_congr_left
      intro kv hkv
      simpa using parseSeg_renderArg kv (hb kv hkv).1 (hb kv hkv).2
    rw [this]
    apply List.filter_eq_self.mpr
    intro kv hkv
    have := hne kv hkv
    simp only [Bool.not_eq_true', Bool.and_eq_false_iff, List.isEmpty_eq_false_iff]
    by_cases h1 : kv.1 = []
    · right; exact fun h2 => this ⟨h1, h2⟩
    · left; exact h1

theorem parseUint_formatNat' (bits n : Nat) (h : n < 2 ^ bits) : parseUint bits (formatNat n) = some n := by
  unfold parseUint
  simp [(formatNat_spec n).2.2, h]

theorem parseInt_formatInt' (bits : Nat) (i : Int)
    (h : -(2 ^ (bits - 1) : Int) ≤ i ∧ i < (2 ^ (bits - 1) : Int)) :
    parseInt bits (formatInt i) = some i := by
  unfold formatInt
  by_cases hneg : i < 0
  · simp only [hneg, if_true, parseInt]
    have hp := (formatNat_spec i.natAbs).2.2
    have hle : i.natAbs ≤ 2 ^ (bits - 1) := by
      have : ((2 ^ (bits - 1) : Nat) : Int) = (2 ^ (bits - 1) : Int) := by simp
      omega
    simp [hp, hle]
    omega
  · simp only [hneg, if_false]
    obtain ⟨d, ds, hd, hdig⟩ := formatNat_head i.natAbs
    have hp := (formatNat_spec i.natAbs).2.2
    rw [hd] at hp ⊢
    unfold isDigit at hdig
    simp at hdig
    have h45 : (d == 45) = false := by simp; omega
    have h43 : (d == 43) = false := by simp; omega
    have hlt : i.natAbs < 2 ^ (bits - 1) := by
      have : ((2 ^ (bits - 1) : Nat) : Int) = (2 ^ (bits - 1) : Int) := by simp
      omega
    simp [parseInt, h45, h43, hp, hlt]
    omega

theorem parseBool_formatBool' (v : Bool) : parseBool (formatBool v) = some v := by
  cases v <;> decide

end C11
