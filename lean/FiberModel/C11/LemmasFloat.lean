import FiberModel.C11.Float
import FiberModel.C11.Lemmas
/-
C11 — lemmas about the float text model (Float.lean):
correct rounding is the identity on representable values; the exact decimal expansion of a dyadic
rational parses back to its digits.
-/
namespace C11
open B

/-! ### rounding a representable value -/

theorem rne_exact (c d : Nat) (hd : 0 < d) : rne (c * d) d = c := by
  unfold rne
  simp [Nat.mul_div_cancel c hd, Nat.mul_mod_left, hd]

theorem stripTwos_odd (m : Nat) (hodd : m % 2 = 1) : ∀ (j fuel q : Nat), j ≤ fuel →
    stripTwos fuel (m * 2 ^ j) q = (m, q + j) := by
  intro j
  induction j with
  | zero =>
    intro fuel q _
    cases fuel with
    | zero => simp [stripTwos]
    | succ f => simp [stripTwos, hodd]
  | succ j ih =>
    intro fuel q hf
    cases fuel with
    | zero => omega
    | succ f =>
      have h2 : m * 2 ^ (j + 1) = (m * 2 ^ j) * 2 := by rw [Nat.pow_succ, Nat.mul_assoc]
      have hpos : 0 < m * 2 ^ j := Nat.mul_pos (by omega) (Nat.two_pow_pos j)
      have he : (m * 2 ^ j * 2) % 2 = 0 := Nat.mul_mod_left _ _
      have hne : m * 2 ^ j * 2 ≠ 0 := by omega
      have hdiv : m * 2 ^ j * 2 / 2 = m * 2 ^ j := Nat.mul_div_cancel _ (by decide)
      rw [h2]
      simp only [stripTwos, he, hne, ne_eq, not_false_eq_true, and_self, if_true, hdiv]
      rw [ih f (q + 1) (by omega)]
      congr 1; omega

theorem canon_odd_shift (bs m j q : Nat) (hodd : m % 2 = 1) : canon bs (m * 2 ^ j) q = (m, q + j) := by
  unfold canon
  have hpos : 0 < m * 2 ^ j := Nat.mul_pos (by omega) (Nat.two_pow_pos j)
  have hne : m * 2 ^ j ≠ 0 := by omega
  simp only [hne, if_false]
  apply stripTwos_odd m hodd j
  have h1 : j < 2 ^ j := Nat.lt_two_pow_self
  have h2 : 2 ^ j ≤ m * 2 ^ j := Nat.le_mul_of_pos_left _ (by omega)
  omega

/-- **Correct rounding is the identity on representable values.** If `num / den = m · 2^(eB − f.bias)`
    with `m` odd, `m < 2^p`, the exponent not below the smallest ulp and the value below the overflow
    threshold, `roundBin` returns exactly `(m, eB)`. -/
theorem roundBin_exact (f : FFmt) (num den m eB : Nat)
    (hden : 0 < den) (hodd : m % 2 = 1) (hmp : m < 2 ^ f.p) (hq : f.qminB ≤ eB)
    (hov : m * 2 ^ eB < 2 ^ (f.emax + f.bias))
    (H : num * 2 ^ f.bias = m * 2 ^ eB * den) :
    roundBin f num den = some (m, eB) := by
  have hm : 0 < m := by omega
  have hnum : num ≠ 0 := by
    intro h0
    rw [h0, Nat.zero_mul] at H
    have : 0 < m * 2 ^ eB * den := Nat.mul_pos (Nat.mul_pos hm (Nat.two_pow_pos eB)) hden
    omega
  -- the estimate of the ulp exponent is not above `eB`
  have hL : num.log2 + f.bias - den.log2 - f.p ≤ eB := by
    have h1 : 2 ^ num.log2 ≤ num := Nat.log2_self_le hnum
    have h2 : den < 2 ^ (den.log2 + 1) := Nat.lt_log2_self
    have h3 : 2 ^ (num.log2 + f.bias) ≤ num * 2 ^ f.bias := by
      rw [Nat.pow_add]; exact Nat.mul_le_mul_right _ h1
    have h4 : m * 2 ^ eB * den < 2 ^ (f.p + eB + (den.log2 + 1)) := by
      rw [Nat.pow_add, Nat.pow_add]
      exact Nat.mul_lt_mul_of_le_of_lt
        (Nat.le_of_lt (Nat.mul_lt_mul_of_lt_of_le hmp (Nat.le_refl _) (Nat.two_pow_pos eB))) h2
        (Nat.mul_pos (Nat.two_pow_pos _) (Nat.two_pow_pos _))
    have h5 : 2 ^ (num.log2 + f.bias) < 2 ^ (f.p + eB + (den.log2 + 1)) := by
      rw [← H] at h4; exact Nat.lt_of_le_of_lt h3 h4
    have := (Nat.pow_lt_pow_iff_right (by decide : 1 < 2)).mp h5
    omega
  -- the value is a whole multiple of every ulp candidate `2^q`, `q ≤ eB`
  have hB : ∀ q, q ≤ eB → num * 2 ^ f.bias = (m * 2 ^ (eB - q)) * (den * 2 ^ q) := by
    intro q hqe
    rw [H]
    have : 2 ^ eB = 2 ^ (eB - q) * 2 ^ q := by rw [← Nat.pow_add]; congr 1; omega
    rw [this]
    simp only [Nat.mul_assoc, Nat.mul_comm, Nat.mul_left_comm]
  have hq0 : max f.qminB (num.log2 + f.bias - den.log2 - f.p) ≤ eB := Nat.max_le.mpr ⟨hq, hL⟩
  -- the chosen exponent
  have hulp : ∃ q, ulpExp f num den = q ∧ q ≤ eB := by
    unfold ulpExp
    generalize max f.qminB (num.log2 + f.bias - den.log2 - f.p) = q0 at hq0
    have hpos : 0 < den * 2 ^ q0 := Nat.mul_pos hden (Nat.two_pow_pos _)
    simp only [hB q0 hq0, Nat.mul_div_cancel _ hpos]
    by_cases hlt : m * 2 ^ (eB - q0) < 2 ^ f.p
    · exact ⟨q0, by simp [hlt], hq0⟩
    · refine ⟨q0 + 1, by simp [hlt], ?_⟩
      have : eB - q0 ≠ 0 := by
        intro h0
        rw [h0] at hlt
        simp at hlt
        omega
      omega
  obtain ⟨q, hqeq, hqle⟩ := hulp
  unfold roundBin
  simp only [hnum, if_false, hqeq]
  have hpos : 0 < den * 2 ^ q := Nat.mul_pos hden (Nat.two_pow_pos _)
  rw [hB q hqle, rne_exact _ _ hpos]
  have hval : m * 2 ^ (eB - q) * 2 ^ q = m * 2 ^ eB := by
    rw [Nat.mul_assoc, ← Nat.pow_add]; congr 2; omega
  have hno : ¬ (m * 2 ^ (eB - q) * 2 ^ q ≥ 2 ^ (f.emax + f.bias)) := by rw [hval]; omega
  simp only [hno, if_false]
  rw [canon_odd_shift f.bias m (eB - q) q hodd]
  congr 2; omega

/-! ### digits -/

theorem parseDigits_formatNat_append (n a : Nat) (rest : Bytes) :
    parseDigits (formatNat n ++ rest) a = parseDigits rest (a * 10 ^ (formatNat n).length + n) := by
  obtain ⟨ds, h1, _, _, h4⟩ := natDigitsAux_spec (n + 1) n [] (by omega)
  simp only [List.append_nil] at h1
  unfold formatNat
  rw [h1]
  exact h4 a rest

theorem formatNat_digits (n : Nat) : ∀ d ∈ formatNat n, isDigit d = true := (formatNat_spec n).2.1

theorem padNat_length (w n : Nat) : (padNat w n).length = w := by
  induction w generalizing n with
  | zero => rfl
  | succ w ih => simp [padNat, ih]

theorem padNat_digits (w n : Nat) : ∀ d ∈ padNat w n, isDigit d = true := by
  induction w generalizing n with
  | zero => intro d hd; simp [padNat] at hd
  | succ w ih =>
    intro d hd
    simp only [padNat, List.mem_append, List.mem_singleton] at hd
    rcases hd with hd | hd
    · exact ih _ d hd
    · subst hd; unfold isDigit; simp; omega

theorem parseDigits_padNat (w : Nat) : ∀ (n a : Nat) (rest : Bytes),
    parseDigits (padNat w n ++ rest) a = parseDigits rest (a * 10 ^ w + n % 10 ^ w) := by
  induction w with
  | zero => intro n a rest; simp [padNat, Nat.mod_one]
  | succ w ih =>
    intro n a rest
    simp only [padNat, List.append_assoc, List.singleton_append]
    rw [ih, parseDigits_digit _ (by omega)]
    congr 1
    have hm : n % 10 ^ (w + 1) = n % 10 + 10 * (n / 10 % 10 ^ w) := by
      rw [Nat.pow_succ, Nat.mul_comm (10 ^ w) 10]; exact Nat.mod_mul
    rw [hm, Nat.pow_succ, Nat.add_mul, Nat.mul_assoc]
    omega

theorem spanDigits_append (ds rest : Bytes) (hd : ∀ d ∈ ds, isDigit d = true)
    (hr : ∀ c, rest.head? = some c → isDigit c = false) : spanDigits (ds ++ rest) = (ds, rest) := by
  induction ds with
  | nil =>
    cases rest with
    | nil => rfl
    | cons c cs => simp [spanDigits, hr c rfl]
  | cons d ds ih =>
    have := ih (fun x hx => hd x (by simp [hx]))
    simp [spanDigits, hd d (by simp), this]

/-- bytes of a plain decimal text: '-', '.', digits -/
def plainByte (c : Nat) : Bool := c == 45 || c == 46 || isDigit c

theorem plainByte_lt (c : Nat) (h : plainByte c = true) : c < 65 ∧ c ≠ 95 ∧ c ≠ 120 ∧ c ≠ 88 ∧ c ≠ 44 := by
  unfold plainByte isDigit at h
  simp only [Bool.or_eq_true, beq_iff_eq, Bool.and_eq_true, decide_eq_true_eq] at h
  omega

theorem parseSpecial_plain (t : Bytes) (h : ∀ c ∈ t, c < 65) : parseSpecial t = none := by
  have hl : toLower t = t := by
    unfold toLower
    conv => rhs; rw [← List.map_id t]
    apply List.map_congr_left
    intro c hc
    have := h c hc
    unfold lowerByte isUpper
    have : ¬ (65 ≤ c) := by omega
    simp [this]
  unfold parseSpecial
  simp only [hl]
  have key : ∀ lit : Bytes, (∃ c ∈ lit, 65 ≤ c) → t ≠ lit := by
    intro lit ⟨c, hc, hge⟩ heq
    have := h c (heq ▸ hc)
    omega
  have e1 := key (b "inf") ⟨105, by decide, by decide⟩
  have e2 := key (b "+inf") ⟨105, by decide, by decide⟩
  have e3 := key (b "infinity") ⟨105, by decide, by decide⟩
  have e4 := key (b "+infinity") ⟨105, by decide, by decide⟩
  have e5 := key (b "-inf") ⟨105, by decide, by decide⟩
  have e6 := key (b "-infinity") ⟨105, by decide, by decide⟩
  have e7 := key (b "nan") ⟨110, by decide, by decide⟩
  simp [e1, e2, e3, e4, e5, e6, e7]

theorem hexPrefix_plain (r : Bytes) (h : ∀ c ∈ r, c ≠ 120 ∧ c ≠ 88) : hexPrefix r = false := by
  match r with
  | [] => rfl
  | [_] => rfl
  | c :: x :: rest =>
    have := h x (by simp)
    simp [hexPrefix, this.1, this.2]

/-- the unsigned body of `exactText`: integer digits, and `w` fraction digits when `w > 0` -/
def plainBody (c w : Nat) : Bytes :=
  if w = 0 then formatNat c else formatNat (c / 10 ^ w) ++ [46] ++ padNat w (c % 10 ^ w)

theorem plainBody_bytes (c w : Nat) : ∀ x ∈ plainBody c w, plainByte x = true := by
  intro x hx
  unfold plainBody at hx
  unfold plainByte
  split at hx
  · simp [formatNat_digits c x hx]
  · simp only [List.mem_append, List.mem_singleton] at hx
    rcases hx with (hx | hx) | hx
    · simp [formatNat_digits _ x hx]
    · simp [hx]
    · simp [padNat_digits _ _ x hx]

theorem plainBody_head (c w : Nat) : ∃ d ds, plainBody c w = d :: ds ∧ isDigit d = true := by
  unfold plainBody
  split
  · exact formatNat_head c
  · obtain ⟨d, ds, h1, h2⟩ := formatNat_head (c / 10 ^ w)
    exact ⟨d, ds ++ [46] ++ padNat w (c % 10 ^ w), by simp [h1], h2⟩

/-- **The decimal reader on a plain decimal text.** `sign ++ digits [ '.' w digits ]` is read as the
    number the digits denote, scaled by `10^-w`. -/
theorem parseDecimal_plain (neg : Bool) (c w : Nat) :
    parseDecimal ((if neg then [45] else []) ++ plainBody c w)
      = .ok { neg := neg, digits := c, scale := w, exp10 := 0 } := by
  have hbody := plainBody_bytes c w
  obtain ⟨d, ds, hhd, hdd⟩ := plainBody_head c w
  have hall : ∀ x ∈ (if neg then [45] else []) ++ plainBody c w, plainByte x = true := by
    intro x hx
    simp only [List.mem_append] at hx
    rcases hx with hx | hx
    · cases neg <;> simp at hx
      subst hx; decide
    · exact hbody x hx
  have hspecial := parseSpecial_plain _ (fun x hx => (plainByte_lt x (hall x hx)).1)
  have hunders : ((if neg then [45] else []) ++ plainBody c w).contains 95 = false := by
    apply Bool.eq_false_iff.mpr
    intro h
    have hm : 95 ∈ (if neg then [45] else []) ++ plainBody c w := by simpa using h
    exact (plainByte_lt 95 (hall 95 hm)).2.1 rfl
  have hd43 : (d == 43) = false ∧ (d == 45) = false := by
    unfold isDigit at hdd
    simp only [Bool.and_eq_true, decide_eq_true_eq] at hdd
    constructor <;> (simp; omega)
  have hsign : cutSign ((if neg then [45] else []) ++ plainBody c w) = (neg, plainBody c w) := by
    cases neg
    · simp [hhd, cutSign, hd43.1, hd43.2]
    · simp [cutSign]
  have hhex : hexPrefix (plainBody c w) = false :=
    hexPrefix_plain _ (fun x hx => ⟨(plainByte_lt x (hbody x hx)).2.2.1, (plainByte_lt x (hbody x hx)).2.2.2.1⟩)
  unfold parseDecimal
  simp only [hspecial, hsign, hunders, hhex, Bool.false_eq_true, if_false]
  by_cases hw : w = 0
  · subst hw
    have hsp : spanDigits (plainBody c 0) = (formatNat c, []) := by
      have := spanDigits_append (formatNat c) [] (formatNat_digits c) (by simp)
      simpa [plainBody] using this
    have hne : (formatNat c).isEmpty = false := by
      have := (formatNat_spec c).1
      cases h : formatNat c <;> simp_all
    have hval : digitsVal (formatNat c) = c := by
      have := parseDigits_formatNat_append c 0 []
      simp only [List.append_nil, Nat.zero_mul, Nat.zero_add, parseDigits] at this
      simp [digitsVal, this]
    simp [hsp, cutFrac, hne, parseExp10, hval]
  · have hsp : spanDigits (plainBody c w) = (formatNat (c / 10 ^ w), 46 :: padNat w (c % 10 ^ w)) := by
      have := spanDigits_append (formatNat (c / 10 ^ w)) (46 :: padNat w (c % 10 ^ w)) (formatNat_digits _)
        (by intro x hx; simp at hx; subst hx; decide)
      simpa [plainBody, hw] using this
    have hfr : cutFrac (46 :: padNat w (c % 10 ^ w)) = (padNat w (c % 10 ^ w), []) := by
      have := spanDigits_append (padNat w (c % 10 ^ w)) [] (padNat_digits _ _) (by simp)
      simpa [cutFrac] using this
    have hne : (formatNat (c / 10 ^ w)).isEmpty = false := by
      have := (formatNat_spec (c / 10 ^ w)).1
      cases h : formatNat (c / 10 ^ w) <;> simp_all
    have hval : digitsVal (formatNat (c / 10 ^ w) ++ padNat w (c % 10 ^ w)) = c := by
      have h1 := parseDigits_formatNat_append (c / 10 ^ w) 0 (padNat w (c % 10 ^ w))
      have h2 := parseDigits_padNat w (c % 10 ^ w) (c / 10 ^ w) []
      simp only [List.append_nil] at h2
      simp only [Nat.zero_mul, Nat.zero_add] at h1
      have hpos : 0 < 10 ^ w := Nat.pow_pos (by decide)
      have hmm : c % 10 ^ w % 10 ^ w = c % 10 ^ w := Nat.mod_eq_of_lt (Nat.mod_lt _ hpos)
      unfold digitsVal
      rw [h1, h2, hmm, Nat.div_add_mod']
      simp [parseDigits]
    simp [hsp, hfr, hne, parseExp10, hval, padNat_length]

/-! ### exact expansions parse back to the value -/

theorem fmtOf_facts (bits : Nat) :
    (fmtOf bits).qminB ≤ (fmtOf bits).bias ∧ (fmtOf bits).p ≤ (fmtOf bits).emax ∧ 0 < (fmtOf bits).p := by
  unfold fmtOf
  split <;> decide

theorem exactText_int (neg : Bool) (m a : Nat) :
    exactText neg m (a : Int) = (if neg then [45] else []) ++ plainBody (m * 2 ^ a) 0 := by
  unfold exactText plainBody
  have : ((a : Int) ≥ 0) := Int.natCast_nonneg a
  simp [this]

theorem exactText_frac (neg : Bool) (m k : Nat) (hk : 0 < k) :
    exactText neg m (-(k : Int)) = (if neg then [45] else []) ++ plainBody (m * 5 ^ k) k := by
  unfold exactText plainBody fmtF
  have h1 : ¬ (-(k : Int) ≥ 0) := by omega
  have h2 : (-(-(k : Int))).toNat = k := by simp
  have h3 : k ≠ 0 := by omega
  simp [h1, h2, h3]

theorem parseFloat_exact_int' (bits : Nat) (neg : Bool) (m a : Nat) (hodd : m % 2 = 1)
    (hmp : m < 2 ^ (fmtOf bits).p) (hov : m * 2 ^ a < 2 ^ (fmtOf bits).emax) :
    parseFloat bits (exactText neg m (a : Int)) = some (some (.fin neg m (a : Int))) := by
  obtain ⟨hq, _, _⟩ := fmtOf_facts bits
  rw [exactText_int]
  unfold parseFloat
  rw [parseDecimal_plain]
  simp only [Dec.ratio]
  have hk : ((0 : Int) - ((0 : Nat) : Int) ≥ 0) := by omega
  simp only [hk, if_true]
  generalize fmtOf bits = f at *
  have hR := roundBin_exact f (m * 2 ^ a * 10 ^ ((0 : Int) - ((0 : Nat) : Int)).toNat) 1 m (a + f.bias)
    (by decide) hodd hmp (by omega)
    (by rw [Nat.pow_add, Nat.pow_add, ← Nat.mul_assoc]
        exact (Nat.mul_lt_mul_right (Nat.two_pow_pos _)).mpr hov)
    (by simp [Nat.pow_add, Nat.mul_assoc])
  rw [hR]
  simp only
  congr 3
  omega

theorem parseFloat_exact_frac' (bits : Nat) (neg : Bool) (m k : Nat) (hodd : m % 2 = 1)
    (hmp : m < 2 ^ (fmtOf bits).p) (hk : 0 < k) (hkmin : (fmtOf bits).qminB + k ≤ (fmtOf bits).bias) :
    parseFloat bits (exactText neg m (-(k : Int))) = some (some (.fin neg m (-(k : Int)))) := by
  obtain ⟨_, hpe, _⟩ := fmtOf_facts bits
  rw [exactText_frac neg m k hk]
  unfold parseFloat
  rw [parseDecimal_plain]
  simp only [Dec.ratio]
  have hneg : ¬ ((0 : Int) - (k : Int) ≥ 0) := by omega
  have htn : (-((0 : Int) - (k : Int))).toNat = k := by omega
  simp only [hneg, if_false, htn]
  generalize fmtOf bits = f at *
  have h10 : (10 : Nat) ^ k = 2 ^ k * 5 ^ k := by rw [← Nat.mul_pow]
  have hR := roundBin_exact f (m * 5 ^ k) (10 ^ k) m (f.bias - k)
    (Nat.pow_pos (by decide)) hodd hmp (by omega)
    (by
      have h1 : m * 2 ^ (f.bias - k) < 2 ^ f.p * 2 ^ f.bias :=
        Nat.mul_lt_mul_of_lt_of_le hmp (Nat.pow_le_pow_right (by decide) (by omega)) (Nat.two_pow_pos _)
      have h2 : 2 ^ f.p * 2 ^ f.bias ≤ 2 ^ f.emax * 2 ^ f.bias :=
        Nat.mul_le_mul_right _ (Nat.pow_le_pow_right (by decide) hpe)
      rw [Nat.pow_add]; omega)
    (by
      have h2 : 2 ^ f.bias = 2 ^ (f.bias - k) * 2 ^ k := by rw [← Nat.pow_add]; congr 1; omega
      rw [h2, h10]
      simp only [Nat.mul_assoc, Nat.mul_comm, Nat.mul_left_comm])
  rw [hR]
  simp only
  congr 3
  omega

/-! ### the texts of the model's formatters are non-empty plain texts -/

theorem fmtF_bytes (c : Nat) (k : Int) : fmtF c k ≠ [] ∧ ∀ x ∈ fmtF c k, plainByte x = true := by
  unfold fmtF
  split
  · refine ⟨(formatNat_spec _).1, fun x hx => ?_⟩
    unfold plainByte; simp [formatNat_digits _ x hx]
  · refine ⟨by simp, fun x hx => ?_⟩
    simp only [List.mem_append, List.mem_singleton] at hx
    unfold plainByte
    rcases hx with (hx | hx) | hx
    · simp [formatNat_digits _ x hx]
    · simp [hx]
    · simp [padNat_digits _ _ x hx]

theorem noComma_of_plain (t : Bytes) (h : ∀ x ∈ t, plainByte x = true) : t.contains 44 = false := by
  apply Bool.eq_false_iff.mpr
  intro hc
  have hm : 44 ∈ t := by simpa using hc
  exact (plainByte_lt 44 (h 44 hm)).2.2.2.2 rfl

theorem exactText_plain (neg : Bool) (m : Nat) (e : Int) :
    exactText neg m e ≠ [] ∧ (exactText neg m e).contains 44 = false := by
  have hb : ∀ x ∈ exactText neg m e, plainByte x = true := by
    intro x hx
    unfold exactText at hx
    simp only [List.mem_append] at hx
    rcases hx with hx | hx
    · cases neg <;> simp at hx
      subst hx; decide
    · split at hx
      · unfold plainByte; simp [formatNat_digits _ x hx]
      · exact (fmtF_bytes _ _).2 x hx
  refine ⟨?_, noComma_of_plain _ hb⟩
  unfold exactText
  by_cases he : e ≥ 0
  · have := (formatNat_spec (m * 2 ^ e.toNat)).1
    simp [he, this]
  · have := (fmtF_bytes (m * 5 ^ (-e).toNat) e).1
    simp [he, this]

theorem shortestText_plain (v : FVal) (t : Bytes) (h : shortestText v = some t) :
    t ≠ [] ∧ t.contains 44 = false := by
  cases v with
  | nan => simp [shortestText] at h; subst h; decide
  | inf neg => cases neg <;> (simp [shortestText] at h; subst h; decide)
  | fin neg m e =>
    simp only [shortestText] at h
    split at h
    · simp at h; subst h
      cases neg <;> decide
    · split at h
      · simp at h
      · rename_i c k _
        simp at h; subst h
        have hf := fmtF_bytes (stripTens c c k).1 (stripTens c c k).2
        refine ⟨by simp [hf.1], noComma_of_plain _ ?_⟩
        intro x hx
        simp only [List.mem_append] at hx
        rcases hx with hx | hx
        · cases neg <;> simp at hx
          subst hx; decide
        · exact hf.2 x hx

/-- `parseFloat 64 ∘ fmtShortest = id`, by construction of `fmtShortest` -/
theorem parseFloat_fmtShortest' (v : FVal) (t : Bytes) (h : fmtShortest v = some t) :
    parseFloat 64 t = some (some v) ∧ t ≠ [] ∧ t.contains 44 = false := by
  unfold fmtShortest at h
  split at h
  · simp at h
  · rename_i t' ht'
    split at h
    · rename_i hp
      simp at h; subst h
      exact ⟨hp, shortestText_plain v t' ht'⟩
    · simp at h

theorem parseFloat_zero (bits : Nat) (neg : Bool) :
    parseFloat bits (exactText neg 0 0) = some (some (.fin neg 0 0)) := by
  have ht : exactText neg 0 0 = (if neg then [45] else []) ++ plainBody 0 0 := by
    unfold exactText plainBody; simp
  rw [ht]
  unfold parseFloat
  rw [parseDecimal_plain]
  simp [Dec.ratio, roundBin]

end C11
