import FiberModel.C11.Lemmas
/-
C11 — helper lemmas for the struct-level round trip: the data map built by the binders from the
client's pairs, field lookup, text → value, and the cookie header scanner.
-/
namespace C11
open B

/-! ### the data map -/

def keysOf (d : List (Bytes × List Bytes)) : List Bytes := d.map (·.1)

def dataFind (d : List (Bytes × List Bytes)) (k : Bytes) : Option (List Bytes) :=
  (d.find? (·.1 = k)).map (·.2)

theorem keysOf_dataAppend (d : List (Bytes × List Bytes)) (k : Bytes) (vs : List Bytes) :
    keysOf (dataAppend d k vs) = if k ∈ keysOf d then keysOf d else keysOf d ++ [k] := by
  induction d with
  | nil => simp [dataAppend, keysOf]
  | cons e rest ih =>
    obtain ⟨k', vs'⟩ := e
    by_cases h : k' = k
    · subst h; simp [dataAppend, keysOf]
    · have h' : ¬ k = k' := fun e => h e.symm
      unfold keysOf at ih
      simp only [dataAppend, h, if_false, keysOf, List.map_cons, List.mem_cons, h', false_or]
      rw [ih]
      split <;> simp

theorem nodup_dataAppend (d : List (Bytes × List Bytes)) (k : Bytes) (vs : List Bytes)
    (h : (keysOf d).Nodup) : (keysOf (dataAppend d k vs)).Nodup := by
  rw [keysOf_dataAppend]
  split
  · exact h
  · rename_i hk
    exact List.nodup_append.mpr ⟨h, by simp, by
      intro a ha b hb; simp at hb; subst hb; exact fun e => hk (e ▸ ha)⟩

theorem dataFind_dataAppend (d : List (Bytes × List Bytes)) (k k' : Bytes) (vs : List Bytes) :
    dataFind (dataAppend d k vs) k' =
      if k = k' then some ((dataFind d k').getD [] ++ vs) else dataFind d k' := by
  induction d with
  | nil =>
    by_cases h : k = k' <;> simp [dataAppend, dataFind, h]
  | cons e rest ih =>
    obtain ⟨k0, vs0⟩ := e
    by_cases h0 : k0 = k
    · subst h0
      by_cases h : k0 = k' <;> simp [dataAppend, dataFind, h]
    · simp only [dataAppend, h0, if_false]
      by_cases h1 : k0 = k'
      · subst h1
        have : ¬ k = k0 := fun e => h0 e.symm
        simp [dataFind, this]
      · simp only [dataFind, List.find?_cons, h1, decide_false] at ih ⊢
        exact ih

/-- all values added under their keys, one at a time -/
def groupPairs (pairs : List (Bytes × Bytes)) (d : List (Bytes × List Bytes)) : List (Bytes × List Bytes) :=
  pairs.foldl (fun d kv => dataAppend d kv.1 [kv.2]) d

theorem nodup_groupPairs (pairs : List (Bytes × Bytes)) (d : List (Bytes × List Bytes))
    (h : (keysOf d).Nodup) : (keysOf (groupPairs pairs d)).Nodup := by
  induction pairs generalizing d with
  | nil => exact h
  | cons kv rest ih => exact ih _ (nodup_dataAppend d kv.1 [kv.2] h)

theorem keys_groupPairs (pairs : List (Bytes × Bytes)) (d : List (Bytes × List Bytes)) :
    ∀ k ∈ keysOf (groupPairs pairs d), k ∈ keysOf d ∨ k ∈ pairs.map (·.1) := by
  induction pairs generalizing d with
  | nil => intro k hk; exact Or.inl hk
  | cons kv rest ih =>
    intro k hk
    rcases ih (dataAppend d kv.1 [kv.2]) k hk with h | h
    · rw [keysOf_dataAppend] at h
      split at h
      · exact Or.inl h
      · simp only [List.mem_append, List.mem_singleton] at h
        rcases h with h | h
        · exact Or.inl h
        · right; simp [h]
    · right; simp only [List.map_cons, List.mem_cons]; exact Or.inr h

theorem dataFind_groupPairs (pairs : List (Bytes × Bytes)) (d : List (Bytes × List Bytes)) (k : Bytes) :
    dataFind (groupPairs pairs d) k =
      match (pairs.filter (·.1 = k)).map (·.2) with
      | [] => dataFind d k
      | vs => some ((dataFind d k).getD [] ++ vs) := by
  induction pairs generalizing d with
  | nil => simp [groupPairs]
  | cons kv rest ih =>
    simp only [groupPairs, List.foldl_cons] at ih ⊢
    rw [ih (dataAppend d kv.1 [kv.2]), dataFind_dataAppend]
    by_cases h : kv.1 = k
    · simp only [h, if_true, List.filter_cons, decide_true, List.map_cons, Option.getD_some]
      cases hrest : (rest.filter (·.1 = k)).map (·.2) with
      | nil => simp
      | cons v vs => simp
    · simp [h, List.filter_cons]

/-- when no key needs bracket normalisation and nothing is split, the binder's loop is `groupPairs` -/
theorem collect_plain (sliceKey : Bytes → Bool) (split brackets : Bool) (pairs : List (Bytes × Bytes))
    (d : List (Bytes × List Bytes))
    (hb : ∀ kv ∈ pairs, kv.1.contains 91 = false)
    (hs : split = false ∨ ∀ kv ∈ pairs, kv.2.contains 44 = false) :
    collect sliceKey split brackets pairs d = some (groupPairs pairs d) := by
  induction pairs generalizing d with
  | nil => simp [collect, groupPairs]
  | cons kv rest ih =>
    obtain ⟨k, v⟩ := kv
    have hk : k.contains 91 = false := hb (k, v) (by simp)
    have hv : (split && v.contains 44) = false := by
      rcases hs with hs | hs
      · simp [hs]
      · have := hs (k, v) (by simp)
        simp only at this
        rw [this]; simp
    have : formatBindData sliceKey split brackets d k v = some (dataAppend d k [v]) := by
      unfold formatBindData assignBindData
      rw [hk, hv]; simp
    simp only [collect, this, groupPairs, List.foldl_cons]
    exact ih _ (fun kv h => hb kv (by simp [h])) (by
      rcases hs with hs | hs
      · exact Or.inl hs
      · exact Or.inr (fun kv h => hs kv (by simp [h])))

/-! ### field lookup -/

theorem filter_getLast_eq_find (d : List (Bytes × List Bytes)) (al : Bytes) (h : (keysOf d).Nodup) :
    (d.filter (·.1 = al)).getLast? = d.find? (·.1 = al) := by
  induction d with
  | nil => simp
  | cons e rest ih =>
    obtain ⟨k, vs⟩ := e
    simp only [keysOf, List.map_cons, List.nodup_cons] at h
    by_cases hk : k = al
    · subst hk
      have : rest.filter (·.1 = k) = [] := by
        apply List.filter_eq_nil_iff.mpr
        intro e he hek
        simp at hek
        exact h.1 (by rw [← hek]; exact List.mem_map_of_mem he)
      simp [List.filter_cons, this]
    · simp only [List.filter_cons, hk, decide_false, Bool.false_eq_true, if_false, List.find?_cons]
      exact ih h.2

theorem toLower_contains_dot (a : Bytes) : (toLower a).contains 46 = a.contains 46 := by
  induction a with
  | nil => simp [toLower]
  | cons x xs ih =>
    simp only [toLower, List.map_cons, List.contains_cons] at ih ⊢
    rw [ih]
    congr 1
    unfold lowerByte isUpper
    split
    · rename_i h
      simp at h
      have h1 : (46 == x + 32) = false := by simp; omega
      have h2 : (46 == x) = false := by simp; omega
      rw [h1, h2]
    · rfl

theorem aliasOK_noDot (a : Bytes) (h : aliasOK a = true) : a.contains 46 = false := by
  unfold aliasOK at h
  simp only [Bool.and_eq_true, List.all_eq_true] at h
  apply Bool.eq_false_iff.mpr
  intro hc
  simp at hc
  have := h.2 46 hc
  simp [isAlpha, isUpper, isLower, isDigit] at this

theorem aliasOK_noBracket (a : Bytes) (h : aliasOK a = true) : a.contains 91 = false := by
  unfold aliasOK at h
  simp only [Bool.and_eq_true, List.all_eq_true] at h
  apply Bool.eq_false_iff.mpr
  intro hc
  simp at hc
  have := h.2 91 hc
  simp [isAlpha, isUpper, isLower, isDigit] at this

theorem aliasOK_bytes (a : Bytes) (h : aliasOK a = true) : ∀ c ∈ a, c < 256 := by
  unfold aliasOK at h
  simp only [Bool.and_eq_true, List.all_eq_true] at h
  intro c hc
  have := h.2 c hc
  simp [isAlpha, isUpper, isLower, isDigit] at this
  omega

theorem aliasOK_ne_nil (a : Bytes) (h : aliasOK a = true) : a ≠ [] := by
  unfold aliasOK at h
  intro e; subst e; simp at h

/-- `lookupField` on a data map whose keys are aliases of a fold-injective, dot-free alias set -/
theorem lookupField_eq_find (d : List (Bytes × List Bytes)) (A : List Bytes) (al : Bytes)
    (hn : (keysOf d).Nodup) (hsub : ∀ k ∈ keysOf d, k ∈ A) (hal : al ∈ A)
    (hinj : ∀ x ∈ A, ∀ y ∈ A, toLower x = toLower y → x = y)
    (hdot : ∀ x ∈ A, x.contains 46 = false) :
    lookupField d al = dataFind d al := by
  unfold lookupField dataFind
  have : d.filter (fun kv => !kv.1.contains 46 && toLower kv.1 == toLower al) = d.filter (·.1 = al) := by
    apply List.filter_congr
    intro e he
    have hk : e.1 ∈ A := hsub e.1 (List.mem_map_of_mem he)
    by_cases h : e.1 = al
    · have := hdot al hal
      rw [h, this]; simp
    · have : ¬ toLower e.1 = toLower al := fun hh => h (hinj _ hk _ hal hh)
      simp [h, this]
  rw [this, filter_getLast_eq_find d al hn]

/-! ### pairs of one field -/

theorem filter_clientPairs (st : Struct) (hn : (st.map (·.spec.calias)).Nodup) (f : Field) (hf : f ∈ st) :
    ((clientPairs st).filter (·.1 = f.spec.calias)).map (·.2) = f.vals.map textOf := by
  induction st with
  | nil => simp at hf
  | cons g rest ih =>
    simp only [List.map_cons, List.nodup_cons] at hn
    have hsplit : clientPairs (g :: rest) = g.vals.map (fun v => (g.spec.calias, textOf v)) ++ clientPairs rest := by
      simp [clientPairs]
    rw [hsplit, List.filter_append, List.map_append]
    rcases List.mem_cons.mp hf with rfl | hf'
    · have h1 : (f.vals.map fun v => (f.spec.calias, textOf v)).filter (·.1 = f.spec.calias)
                = f.vals.map fun v => (f.spec.calias, textOf v) := by
        apply List.filter_eq_self.mpr; intro e he; simp at he; obtain ⟨v, _, rfl⟩ := he; simp
      have h2 : (clientPairs rest).filter (·.1 = f.spec.calias) = [] := by
        apply List.filter_eq_nil_iff.mpr
        intro e he hek
        simp only [clientPairs, List.mem_flatMap, List.mem_map] at he
        obtain ⟨g', hg', v, _, rfl⟩ := he
        simp at hek
        exact hn.1 (by rw [← hek]; exact List.mem_map_of_mem (f := fun x => x.spec.calias) hg')
      rw [h1, h2]; simp [List.map_map, Function.comp_def]
    · have hne : g.spec.calias ≠ f.spec.calias := by
        intro e; exact hn.1 (by rw [e]; exact List.mem_map_of_mem (f := fun x => x.spec.calias) hf')
      have h1 : (g.vals.map fun v => (g.spec.calias, textOf v)).filter (·.1 = f.spec.calias) = [] := by
        apply List.filter_eq_nil_iff.mpr; intro e he; simp at he; obtain ⟨v, _, rfl⟩ := he; simp [hne]
      rw [h1]; simpa using ih hn.2 hf'

/-! ### text → value -/

/-- the float parser agrees with the client's float formatter on the float texts of a value: parsed
    with the bit size of the field it stands in, a text comes back as the same (canonical) text -/
def FloatOK (floatConv : Nat → Bytes → Option Bytes) (st : Struct) : Prop :=
  ∀ f ∈ st, ∀ t, Val.float t ∈ f.vals → t ≠ [] ∧ t.contains 44 = false ∧
    ∀ bits, f.spec.kind = .float bits → floatConv bits t = some t

theorem formatNat_ne_nil (n : Nat) : formatNat n ≠ [] := (formatNat_spec n).1

theorem formatInt_ne_nil (i : Int) : formatInt i ≠ [] := by
  unfold formatInt; split
  · simp
  · exact formatNat_ne_nil _

theorem formatBool_ne_nil (v : Bool) : formatBool v ≠ [] := by cases v <;> decide

/-- one element: "" ↦ zero, otherwise the converter; both give the value back -/
theorem decode_text (floatConv : Nat → Bytes → Option Bytes) (fz : Bytes) (k : Kind) (v : Val)
    (hfit : v.fits k = true)
    (hfl : ∀ t, v = .float t → t ≠ [] ∧ ∀ bits, k = .float bits → floatConv bits t = some t) :
    (if (textOf v).isEmpty then some (zeroOf fz k) else convert floatConv k (textOf v)) = some v := by
  cases v with
  | str s =>
    cases k <;> simp [Val.fits] at hfit
    by_cases hs : s = []
    · subst hs; simp [textOf, zeroOf]
    · simp [textOf, hs, convert]
  | int i =>
    cases k <;> simp [Val.fits] at hfit
    rename_i bits
    have := formatInt_ne_nil i
    simp [textOf, this, convert, parseInt_formatInt' bits i hfit]
  | uint n =>
    cases k <;> simp [Val.fits] at hfit
    rename_i bits
    have := formatNat_ne_nil n
    simp [textOf, this, convert, parseUint_formatNat' bits n hfit]
  | bool bv =>
    cases k <;> simp [Val.fits] at hfit
    have := formatBool_ne_nil bv
    simp [textOf, this, convert, parseBool_formatBool']
  | float t =>
    cases k <;> simp [Val.fits] at hfit
    rename_i bits
    obtain ⟨h1, h2⟩ := hfl t rfl
    simp [textOf, h1, convert, h2 bits rfl]

theorem decodeSlice_texts (floatConv : Nat → Bytes → Option Bytes) (fz : Bytes) (k : Kind) (vs : List Val)
    (hfit : ∀ v ∈ vs, v.fits k = true)
    (hfl : ∀ t, Val.float t ∈ vs → t ≠ [] ∧ ∀ bits, k = .float bits → floatConv bits t = some t) :
    decodeSlice (convert floatConv k) (zeroOf fz k) (vs.map textOf) = some vs := by
  induction vs with
  | nil => simp [decodeSlice]
  | cons v rest ih =>
    have h := decode_text floatConv fz k v (hfit v (by simp)) (fun t e => hfl t (by simp [e]))
    have ih' := ih (fun v hv => hfit v (by simp [hv])) (fun t ht => hfl t (by simp [ht]))
    simp only [List.map_cons, decodeSlice, ih']
    by_cases he : (textOf v).isEmpty = true
    · simp only [he, if_true] at h ⊢
      simp at h; simp [h]
    · simp only [he, Bool.false_eq_true, if_false] at h ⊢
      simp [h]

/-! ### the cookie header scanner -/

theorem dropWhile_head (s : Bytes) (c : Nat) (h : s.head? ≠ some c) : s.dropWhile (· == c) = s := by
  cases s with
  | nil => rfl
  | cons x xs =>
    have : (x == c) = false := by simpa using h
    simp [List.dropWhile, this]

theorem trimLeft_id (s : Bytes) (c : Nat) (h : s.head? ≠ some c) : trimLeft s c = s :=
  dropWhile_head s c h

theorem trimRight_id (s : Bytes) (c : Nat) (h : s.getLast? ≠ some c) : trimRight s c = s := by
  unfold trimRight
  rw [dropWhile_head s.reverse c (by simpa [List.head?_reverse] using h)]
  simp

theorem trim_id (s : Bytes) (c : Nat) (h1 : s.head? ≠ some c) (h2 : s.getLast? ≠ some c) : trim s c = s := by
  unfold trim; rw [trimLeft_id s c h1, trimRight_id s c h2]

theorem trim_lead (s : Bytes) (c : Nat) (h1 : s.head? ≠ some c) (h2 : s.getLast? ≠ some c) :
    trim (c :: s) c = s := by
  unfold trim trimLeft
  simp only [List.dropWhile, beq_self_eq_true, if_true]
  rw [dropWhile_head s c h1, trimRight_id s c h2]

/-- a cookie name the request scanner returns unchanged -/
def cookieKeyOK (k : Bytes) : Bool :=
  !k.isEmpty && !k.contains 61 && !k.contains 59 && k.head? != some 32 && k.getLast? != some 32

theorem aliasOK_cookieKey (a : Bytes) (h : aliasOK a = true) : cookieKeyOK a = true := by
  have hne := aliasOK_ne_nil a h
  unfold aliasOK at h
  simp only [Bool.and_eq_true, List.all_eq_true] at h
  have hno : ∀ x, x ∈ a → x ≠ 61 ∧ x ≠ 59 ∧ x ≠ 32 := by
    intro x hx
    have := h.2 x hx
    simp [isAlpha, isUpper, isLower, isDigit] at this
    omega
  unfold cookieKeyOK
  simp only [Bool.and_eq_true, Bool.not_eq_true', bne_iff_ne, ne_eq]
  refine ⟨⟨⟨⟨by simpa using hne, ?_⟩, ?_⟩, ?_⟩, ?_⟩
  · apply Bool.eq_false_iff.mpr; intro hc; simp at hc; exact (hno 61 hc).1 rfl
  · apply Bool.eq_false_iff.mpr; intro hc; simp at hc; exact (hno 59 hc).2.1 rfl
  · intro e; have := List.mem_of_mem_head? e; exact (hno 32 this).2.2 rfl
  · intro e; have := List.mem_of_getLast? e; exact (hno 32 this).2.2 rfl

theorem splitOn_go_acc (c : Nat) (s acc : Bytes) :
    splitOn.go c s acc = match splitOn.go c s [] with
      | h :: t => (acc.reverse ++ h) :: t
      | [] => [] := by
  induction s generalizing acc with
  | nil => simp [splitOn.go]
  | cons x xs ih =>
    by_cases hx : (x == c) = true
    · simp [splitOn.go, hx]
    · simp only [splitOn.go, hx, Bool.false_eq_true, if_false]
      rw [ih (x :: acc), ih [x]]
      cases splitOn.go c xs [] <;> simp

theorem splitOn_cons_ne (c x : Nat) (s : Bytes) (hx : x ≠ c) :
    splitOn (x :: s) c = match splitOn s c with
      | h :: t => (x :: h) :: t
      | [] => [] := by
  unfold splitOn
  have : (x == c) = false := by simpa using hx
  simp only [splitOn.go, this, Bool.false_eq_true, if_false]
  rw [splitOn_go_acc]
  cases splitOn.go c s [] <;> simp

def spaced : List Bytes → List Bytes
  | [] => [[]]
  | i :: rest => i :: rest.map (32 :: ·)

/-- `; `-joined items without ';' split at ';' into the first item and the others with a leading space -/
theorem splitOn_join_semi (items : List Bytes) (hs : ∀ s ∈ items, ∀ x ∈ s, x ≠ 59) :
    splitOn (join items [59, 32]) 59 = spaced items := by
  induction items with
  | nil => simp [join, splitOn, splitOn.go, spaced]
  | cons i rest ih =>
    cases rest with
    | nil => simp [join, splitOn_clean 59 i (hs i (by simp)), spaced]
    | cons j js =>
      have : join (i :: j :: js) [59, 32] = i ++ 59 :: (32 :: join (j :: js) [59, 32]) := by simp [join]
      rw [this, splitOn_append_sep 59 i _ (hs i (by simp)), splitOn_cons_ne 59 32 _ (by omega),
        ih (fun s h => hs s (by simp [h]))]
      simp [spaced]

theorem hasEq_item (k v : Bytes) : hasEq (k ++ 61 :: v) = true := by simp [hasEq]

theorem cookieValue_decode (v : Bytes) (h : cookieValueOK v = true) : decodeCookieArg v true = v := by
  unfold cookieValueOK noOuterBlank at h
  simp only [Bool.and_eq_true, Bool.not_eq_true'] at h
  obtain ⟨⟨⟨_, hb1, hb2⟩, _⟩, hq⟩ := h
  have h1 : v.head? ≠ some 32 := by
    intro e; rw [e] at hb1; simp at hb1
  have h2 : v.getLast? ≠ some 32 := by
    intro e; rw [e] at hb2; simp at hb2
  unfold decodeCookieArg trimSpaces
  rw [trim_id v 32 h1 h2]
  unfold quoted at hq
  simp only [hq, Bool.true_and, Bool.false_eq_true, if_false]

theorem cookieKey_decode (k : Bytes) (h : cookieKeyOK k = true) :
    decodeCookieArg k false = k ∧ decodeCookieArg (32 :: k) false = k := by
  unfold cookieKeyOK at h
  simp only [Bool.and_eq_true, Bool.not_eq_true', bne_iff_ne, ne_eq] at h
  obtain ⟨⟨⟨⟨_, _⟩, _⟩, h1⟩, h2⟩ := h
  unfold decodeCookieArg trimSpaces
  simp [trim_id k 32 h1 h2, trim_lead k 32 h1 h2]

theorem parseCookieSeg_item (k v : Bytes) (hk : cookieKeyOK k = true) (hv : cookieValueOK v = true) :
    parseCookieSeg (k ++ 61 :: v) = (k, v) ∧ parseCookieSeg (32 :: (k ++ 61 :: v)) = (k, v) := by
  have hk61 : ∀ x ∈ k, x ≠ 61 := by
    unfold cookieKeyOK at hk
    simp only [Bool.and_eq_true, Bool.not_eq_true'] at hk
    intro x hx e; subst e
    have := hk.1.1.1.2
    simp at this; exact this hx
  have hkd := cookieKey_decode k hk
  have hvd := cookieValue_decode v hv
  constructor
  · unfold parseCookieSeg
    simp only [hasEq_item, if_true, cutEq_append k v hk61, hkd.1, hvd]
  · unfold parseCookieSeg
    have h1 : hasEq (32 :: (k ++ 61 :: v)) = true := by simp [hasEq]
    have h2 : cutEq (32 :: (k ++ 61 :: v)) = (32 :: k, v) := by
      have := cutEq_append (32 :: k) v (by intro x hx; simp at hx; rcases hx with rfl | hx; omega; exact hk61 x hx)
      simpa using this
    simp only [h1, if_true, h2, hkd.2, hvd]

theorem parseCookies_renderCookies' (ps : List (Bytes × Bytes))
    (hk : ∀ kv ∈ ps, cookieKeyOK kv.1 = true) (hv : ∀ kv ∈ ps, cookieValueOK kv.2 = true) :
    parseCookies (renderCookies ps) = ps := by
  unfold parseCookies renderCookies
  have hclean : ∀ s ∈ ps.map (fun kv => kv.1 ++ [61] ++ kv.2), ∀ x ∈ s, x ≠ 59 := by
    intro s hs x hx e; subst e
    simp only [List.mem_map] at hs
    obtain ⟨kv, hkv, rfl⟩ := hs
    have h1 := hk kv hkv
    have h2 := hv kv hkv
    unfold cookieKeyOK at h1; unfold cookieValueOK at h2
    simp only [Bool.and_eq_true, Bool.not_eq_true'] at h1 h2
    simp only [List.mem_append, List.mem_singleton] at hx
    rcases hx with (hx | hx) | hx
    · have := h1.1.1.2; simp at this; exact this hx
    · omega
    · have := h2.1.2; simp at this; exact this hx
  rw [splitOn_join_semi _ hclean]
  cases ps with
  | nil => decide
  | cons p rest =>
    simp only [List.map_cons, List.map_map, spaced]
    have hp := parseCookieSeg_item p.1 p.2 (hk p (by simp)) (hv p (by simp))
    have hrest : rest.map (parseCookieSeg ∘ (fun x => 32 :: x) ∘ fun kv => kv.1 ++ [61] ++ kv.2) = rest := by
      conv => rhs; rw [← List.map_id rest]
      apply List.map_congr_left
      intro kv hkv
      have := (parseCookieSeg_item kv.1 kv.2 (hk kv (by simp [hkv])) (hv kv (by simp [hkv]))).2
      simpa using this
    have hp1 : parseCookieSeg (p.1 ++ [61] ++ p.2) = p := by simpa using hp.1
    rw [hp1, hrest]
    apply List.filter_eq_self.mpr
    intro kv hkv
    have := hk kv hkv
    unfold cookieKeyOK at this
    simp only [Bool.and_eq_true, Bool.not_eq_true'] at this
    simp [this.1.1.1.1]


/-! ### no commas in generated texts -/

theorem formatNat_noComma (n : Nat) : (formatNat n).contains 44 = false := by
  apply Bool.eq_false_iff.mpr
  intro h
  simp at h
  have := (formatNat_spec n).2.1 44 h
  simp [isDigit] at this

theorem formatInt_noComma (i : Int) : (formatInt i).contains 44 = false := by
  unfold formatInt
  split
  · simp only [List.contains_cons]
    rw [formatNat_noComma]; decide
  · exact formatNat_noComma _

theorem formatBool_noComma (v : Bool) : (formatBool v).contains 44 = false := by cases v <;> decide

theorem textOf_noComma (v : Val) (h : hasComma v = false) (hf : ∀ t, v = .float t → t.contains 44 = false) :
    (textOf v).contains 44 = false := by
  cases v with
  | str s => simpa [hasComma, textOf] using h
  | int i => exact formatInt_noComma i
  | uint n => exact formatNat_noComma n
  | bool bv => exact formatBool_noComma bv
  | float t => exact hf t rfl

/-! ### nodup as a Bool -/

theorem nodupB_iff (l : List Bytes) : nodupB l = true ↔ l.Nodup := by
  induction l with
  | nil => simp [nodupB]
  | cons x xs ih => simp [nodupB, ih]

theorem inj_of_nodup_map {α β : Type} (g : α → β) (l : List α) (h : (l.map g).Nodup) :
    ∀ x ∈ l, ∀ y ∈ l, g x = g y → x = y := by
  induction l with
  | nil => intro x hx; simp at hx
  | cons a as ih =>
    simp only [List.map_cons, List.nodup_cons] at h
    intro x hx y hy hg
    rcases List.mem_cons.mp hx with rfl | hx' <;> rcases List.mem_cons.mp hy with rfl | hy'
    · rfl
    · exact absurd (hg ▸ List.mem_map_of_mem hy') h.1
    · exact absurd (hg ▸ List.mem_map_of_mem hx') h.1
    · exact ih h.2 x hx' y hy' hg

theorem nodup_of_nodup_map {α β : Type} (g : α → β) (l : List α) (h : (l.map g).Nodup) : l.Nodup := by
  induction l with
  | nil => simp
  | cons a as ih =>
    simp only [List.map_cons, List.nodup_cons] at h ⊢
    exact ⟨fun ha => h.1 (List.mem_map_of_mem ha), ih h.2⟩


/-! ### byte-ness of the client's texts -/

/-- every string of the struct is made of bytes -/
def bytesStruct (st : Struct) : Prop := ∀ f ∈ st, ∀ v ∈ f.vals, bytesOK v = true

theorem textOf_bytes (v : Val) (hb : bytesOK v = true) (hf : ∀ t, v = .float t → ∀ c ∈ t, c < 256) :
    ∀ c ∈ textOf v, c < 256 := by
  have hdig : ∀ n, ∀ c ∈ formatNat n, c < 256 := by
    intro n c hc
    have := (formatNat_spec n).2.1 c hc
    simp [isDigit] at this; omega
  cases v with
  | str s => simpa [bytesOK, textOf] using hb
  | int i =>
    intro c hc
    simp only [textOf, formatInt] at hc
    split at hc
    · simp only [List.mem_cons] at hc; rcases hc with rfl | hc; omega; exact hdig _ c hc
    · exact hdig _ c hc
  | uint n => exact hdig n
  | bool bv => cases bv <;> (intro c hc; simp [textOf, formatBool, b] at hc; omega)
  | float t => exact hf t rfl

/-- the urlencoded wire form of the client's pairs parses back to the pairs -/
theorem parseArgs_clientPairs (st : Struct)
    (hspecs : specsOK (st.map (·.spec)) = true)
    (hfb : ∀ f ∈ st, ∀ t, Val.float t ∈ f.vals → ∀ c ∈ t, c < 256)
    (hbytes : bytesStruct st) :
    parseArgs (renderArgs (clientPairs st)) = clientPairs st := by
  unfold specsOK at hspecs
  simp only [Bool.and_eq_true, List.all_eq_true, List.mem_map, forall_exists_index, and_imp,
    forall_apply_eq_imp_iff₂] at hspecs
  apply parseArgs_renderArgs'
  · intro kv hkv
    simp only [clientPairs, List.mem_flatMap, List.mem_map] at hkv
    obtain ⟨f, hf, v, hv, rfl⟩ := hkv
    exact ⟨aliasOK_bytes _ (hspecs.1 f hf).1, textOf_bytes v (hbytes f hf v hv) (fun t e => hfb f hf t (e ▸ hv))⟩
  · intro kv hkv
    simp only [clientPairs, List.mem_flatMap, List.mem_map] at hkv
    obtain ⟨f, hf, v, hv, rfl⟩ := hkv
    exact fun h => aliasOK_ne_nil _ (hspecs.1 f hf).1 h.1

/-- the Cookie header of the client's pairs scans back to the pairs -/
theorem parseCookies_clientPairs (st : Struct)
    (hspecs : specsOK (st.map (·.spec)) = true)
    (hwf : ∀ f ∈ st, ∀ v ∈ f.vals, cookieValueOK (textOf v) = true) :
    parseCookies (renderCookies (clientPairs st)) = clientPairs st := by
  unfold specsOK at hspecs
  simp only [Bool.and_eq_true, List.all_eq_true, List.mem_map, forall_exists_index, and_imp,
    forall_apply_eq_imp_iff₂] at hspecs
  apply parseCookies_renderCookies'
  · intro kv hkv
    simp only [clientPairs, List.mem_flatMap, List.mem_map] at hkv
    obtain ⟨f, hf, v, hv, rfl⟩ := hkv
    exact aliasOK_cookieKey _ (hspecs.1 f hf).1
  · intro kv hkv
    simp only [clientPairs, List.mem_flatMap, List.mem_map] at hkv
    obtain ⟨f, hf, v, hv, rfl⟩ := hkv
    exact hwf f hf v hv

/-! ### the core of every textual round trip -/

theorem clientPairsN_id (st : Struct) : clientPairsN (fun k => k) st = clientPairs st := rfl

theorem clientPairsN_eq_map (norm : Bytes → Bytes) (st : Struct) :
    clientPairsN norm st = (clientPairs st).map fun kv => (norm kv.1, kv.2) := by
  simp [clientPairsN, clientPairs, List.map_flatMap, List.map_map, Function.comp_def]

/-- `lookupField` finds the one key that folds to the alias -/
theorem lookupField_eq_find' (d : List (Bytes × List Bytes)) (A : List Bytes) (al k : Bytes)
    (hn : (keysOf d).Nodup) (hsub : ∀ k ∈ keysOf d, k ∈ A) (hk : k ∈ A) (hlow : toLower k = toLower al)
    (hinj : ∀ x ∈ A, ∀ y ∈ A, toLower x = toLower y → x = y)
    (hdot : ∀ x ∈ A, x.contains 46 = false) :
    lookupField d al = dataFind d k := by
  unfold lookupField dataFind
  have : d.filter (fun kv => !kv.1.contains 46 && toLower kv.1 == toLower al) = d.filter (·.1 = k) := by
    apply List.filter_congr
    intro e he
    have hek : e.1 ∈ A := hsub e.1 (List.mem_map_of_mem he)
    by_cases h : e.1 = k
    · have := hdot k hk
      rw [h, this, hlow]; simp
    · have : ¬ toLower e.1 = toLower al := fun hh => h (hinj _ hek _ hk (hh.trans hlow.symm))
      simp [h, this]
  rw [this, filter_getLast_eq_find d k hn]

theorem filter_clientPairsN (norm : Bytes → Bytes) (st : Struct)
    (hn : (st.map fun f => norm f.spec.calias).Nodup) (f : Field) (hf : f ∈ st) :
    ((clientPairsN norm st).filter (·.1 = norm f.spec.calias)).map (·.2) = f.vals.map textOf := by
  induction st with
  | nil => simp at hf
  | cons g rest ih =>
    simp only [List.map_cons, List.nodup_cons] at hn
    have hsplit : clientPairsN norm (g :: rest)
        = g.vals.map (fun v => (norm g.spec.calias, textOf v)) ++ clientPairsN norm rest := by
      simp [clientPairsN]
    rw [hsplit, List.filter_append, List.map_append]
    rcases List.mem_cons.mp hf with rfl | hf'
    · have h1 : (f.vals.map fun v => (norm f.spec.calias, textOf v)).filter (·.1 = norm f.spec.calias)
                = f.vals.map fun v => (norm f.spec.calias, textOf v) := by
        apply List.filter_eq_self.mpr; intro e he; simp at he; obtain ⟨v, _, rfl⟩ := he; simp
      have h2 : (clientPairsN norm rest).filter (·.1 = norm f.spec.calias) = [] := by
        apply List.filter_eq_nil_iff.mpr
        intro e he hek
        simp only [clientPairsN, List.mem_flatMap, List.mem_map] at he
        obtain ⟨g', hg', v, _, rfl⟩ := he
        simp at hek
        exact hn.1 (by rw [← hek]; exact List.mem_map_of_mem (f := fun x => norm x.spec.calias) hg')
      rw [h1, h2]; simp [List.map_map, Function.comp_def]
    · have hne : norm g.spec.calias ≠ norm f.spec.calias := by
        intro e; exact hn.1 (by rw [e]; exact List.mem_map_of_mem (f := fun x => norm x.spec.calias) hf')
      have h1 : (g.vals.map fun v => (norm g.spec.calias, textOf v)).filter (·.1 = norm f.spec.calias) = [] := by
        apply List.filter_eq_nil_iff.mpr; intro e he; simp at he; obtain ⟨v, _, rfl⟩ := he; simp [hne]
      rw [h1]; simpa using ih hn.2 hf'

/-- Binding the pairs `SetValWithStruct` produced gives the struct back, with no error — whatever
    order `order` the transport delivers the *fields* in (a Go map iteration for multipart; the
    declaration order for the others) and however it re-spells the names (`norm`: any rewriting that
    changes ASCII case only and introduces no '.' or '[' — fasthttp's header-name canonicalisation is
    one). -/
theorem bind_clientPairs_gen (floatConv : Nat → Bytes → Option Bytes) (fz : Bytes) (st order : Struct)
    (src : Source) (split : Bool) (norm : Bytes → Bytes)
    (hperm : order.Perm st)
    (hnorm : ∀ f ∈ st, toLower (norm f.spec.calias) = toLower f.spec.calias ∧
        (norm f.spec.calias).contains 46 = false ∧ (norm f.spec.calias).contains 91 = false)
    (hspecs : specsOK (st.map (·.spec)) = true)
    (htyped : ∀ f ∈ st, f.wellTyped = true)
    (hfloat : FloatOK floatConv st)
    (hsplit : split = true → noCommas st = true) :
    bindPairs floatConv fz (st.map (·.spec)) src split (clientPairsN norm order) = { value := st, err := false } := by
  have hmem : ∀ f, f ∈ order ↔ f ∈ st := fun f => hperm.mem_iff
  -- facts about the tags
  unfold specsOK at hspecs
  simp only [Bool.and_eq_true, List.all_eq_true, List.mem_map, forall_exists_index, and_imp,
    forall_apply_eq_imp_iff₂, beq_iff_eq] at hspecs
  obtain ⟨hal, hnd⟩ := hspecs
  rw [List.map_map, nodupB_iff] at hnd
  have hcs : ∀ f ∈ st, f.spec.salias = f.spec.calias := fun f hf => (hal f hf).2
  let A := st.map (fun f => norm f.spec.calias)
  have hAeq : st.map ((fun f : FieldSpec => toLower f.salias) ∘ fun f => f.spec) = A.map toLower := by
    simp only [A, List.map_map]
    apply List.map_congr_left
    intro f hf; simp [hcs f hf, (hnorm f hf).1]
  rw [hAeq] at hnd
  have hAnd : A.Nodup := nodup_of_nodup_map toLower A hnd
  have hAnd' : (order.map (fun f => norm f.spec.calias)).Nodup :=
    ((hperm.map (fun f => norm f.spec.calias)).nodup_iff).mpr hAnd
  have hinj : ∀ x ∈ A, ∀ y ∈ A, toLower x = toLower y → x = y := inj_of_nodup_map toLower A hnd
  have hdot : ∀ x ∈ A, x.contains 46 = false := by
    intro x hx; simp only [A, List.mem_map] at hx; obtain ⟨f, hf, rfl⟩ := hx
    exact (hnorm f hf).2.1
  -- the binder's loop is `groupPairs`
  have hkeys : ∀ kv ∈ clientPairsN norm order, kv.1 ∈ A := by
    intro kv hkv
    simp only [clientPairsN, List.mem_flatMap, List.mem_map] at hkv
    obtain ⟨f, hf, v, _, rfl⟩ := hkv
    exact List.mem_map_of_mem (f := fun f : Field => norm f.spec.calias) ((hmem f).mp hf)
  have hcollect : collect (equalFieldType (st.map (·.spec))) split src.brackets (clientPairsN norm order) []
      = some (groupPairs (clientPairsN norm order) []) := by
    apply collect_plain
    · intro kv hkv
      have := hkeys kv hkv
      simp only [A, List.mem_map] at this; obtain ⟨f, hf, hfe⟩ := this
      rw [← hfe]; exact (hnorm f hf).2.2
    · cases split with
      | false => exact Or.inl rfl
      | true =>
        right
        have hnc := hsplit rfl
        unfold noCommas at hnc
        simp only [List.all_eq_true, Bool.not_eq_true'] at hnc
        intro kv hkv
        simp only [clientPairsN, List.mem_flatMap, List.mem_map] at hkv
        obtain ⟨f, hf, v, hv, rfl⟩ := hkv
        have hf := (hmem f).mp hf
        exact textOf_noComma v (hnc f hf v hv) (fun t e => ((hfloat f hf t (e ▸ hv)).2.1))
  let data := groupPairs (clientPairsN norm order) []
  have hdn : (keysOf data).Nodup := nodup_groupPairs _ [] (by simp [keysOf])
  have hdsub : ∀ k ∈ keysOf data, k ∈ A := by
    intro k hk
    rcases keys_groupPairs (clientPairsN norm order) [] k hk with h | h
    · simp [keysOf] at h
    · simp only [List.mem_map] at h; obtain ⟨kv, hkv, rfl⟩ := h; exact hkeys kv hkv
  -- every field decodes to its own values
  have hfield : ∀ f ∈ st, decodeField floatConv fz data f.spec = (f.vals, false) := by
    intro f hf
    have hlook : lookupField data f.spec.salias
        = match f.vals.map textOf with
          | [] => none
          | vs => some vs := by
      rw [hcs f hf, lookupField_eq_find' data A _ (norm f.spec.calias) hdn hdsub
            (List.mem_map_of_mem (f := fun f : Field => norm f.spec.calias) hf) (hnorm f hf).1 hinj hdot,
          dataFind_groupPairs, filter_clientPairsN norm order hAnd' f ((hmem f).mpr hf)]
      cases f.vals.map textOf <;> simp [dataFind]
    have hty := htyped f hf
    unfold Field.wellTyped at hty
    simp only [Bool.and_eq_true, Bool.or_eq_true, beq_iff_eq, List.all_eq_true] at hty
    obtain ⟨hshape, hfits⟩ := hty
    have hfl : ∀ t, Val.float t ∈ f.vals → t ≠ [] ∧ ∀ bits, f.spec.kind = .float bits → floatConv bits t = some t :=
      fun t ht => ⟨(hfloat f hf t ht).1, (hfloat f hf t ht).2.2⟩
    unfold decodeField
    rw [hlook]
    cases hvals : f.vals with
    | nil =>
      rcases hshape with hs | hs
      · simp [hs]
      · rw [hvals] at hs; simp at hs
    | cons v rest =>
      simp only [List.map_cons]
      by_cases hs : f.spec.isSlice = true
      · have := decodeSlice_texts floatConv fz f.spec.kind (v :: rest)
          (fun w hw => hfits w (hvals ▸ hw)) (fun t ht => hfl t (hvals ▸ ht))
        simp only [List.map_cons] at this
        simp [hs, this]
      · have hlen : f.vals.length = 1 := by rcases hshape with h | h; exact absurd h hs; exact h
        rw [hvals] at hlen
        have hrest : rest = [] := by cases rest <;> simp_all
        subst hrest
        have hd := decode_text floatConv fz f.spec.kind v (hfits v (by simp [hvals]))
          (fun t e => hfl t (by simp [hvals, e]))
        simp only [hs, Bool.false_eq_true, if_false, List.map_nil, decodeScalar, List.getLast?_singleton]
        rw [hd]
  -- assemble
  unfold bindPairs
  rw [hcollect]
  simp only [decodeFields, List.map_map]
  congr 1
  · conv => rhs; rw [← List.map_id st]
    apply List.map_congr_left
    intro f hf
    have := hfield f hf
    simp only [data] at this
    simp [Function.comp_def, this]
  · apply Bool.eq_false_iff.mpr
    intro h
    simp only [List.any_eq_true, List.mem_map, Function.comp_apply] at h
    obtain ⟨r, ⟨f, hf, rfl⟩, hr⟩ := h
    have := hfield f hf
    simp only [data] at this
    simp [this] at hr



/-- … in particular with the names as written (`norm = id`). -/
theorem bind_clientPairs_perm (floatConv : Nat → Bytes → Option Bytes) (fz : Bytes) (st order : Struct)
    (src : Source) (split : Bool)
    (hperm : order.Perm st)
    (hspecs : specsOK (st.map (·.spec)) = true)
    (htyped : ∀ f ∈ st, f.wellTyped = true)
    (hfloat : FloatOK floatConv st)
    (hsplit : split = true → noCommas st = true) :
    bindPairs floatConv fz (st.map (·.spec)) src split (clientPairs order) = { value := st, err := false } := by
  have hspecs' := hspecs
  unfold specsOK at hspecs'
  simp only [Bool.and_eq_true, List.all_eq_true, List.mem_map, forall_exists_index, and_imp,
    forall_apply_eq_imp_iff₂] at hspecs'
  rw [← clientPairsN_id]
  exact bind_clientPairs_gen floatConv fz st order src split (fun k => k) hperm
    (fun f hf => ⟨rfl, aliasOK_noDot _ (hspecs'.1 f hf).1, aliasOK_noBracket _ (hspecs'.1 f hf).1⟩)
    hspecs htyped hfloat hsplit


/-! ### fasthttp's header-name canonicalisation changes ASCII case only -/

theorem lowerByte_upperByte (c : Nat) : lowerByte (upperByte c) = lowerByte c := by
  unfold lowerByte upperByte isUpper isLower
  by_cases h : (97 ≤ c && c ≤ 122) = true
  · simp only [h, if_true]
    simp at h
    have h1 : (65 ≤ c - 32 && c - 32 ≤ 90) = true := by simp; omega
    have h2 : (65 ≤ c && c ≤ 90) = false := by simp; omega
    simp only [h1, h2, if_true, Bool.false_eq_true, if_false]; omega
  · simp [h]

theorem lowerByte_lowerByte (c : Nat) : lowerByte (lowerByte c) = lowerByte c := by
  unfold lowerByte isUpper
  by_cases h : 65 ≤ c ∧ c ≤ 90
  · have h1 : (decide (65 ≤ c) && decide (c ≤ 90)) = true := by simp [h]
    have h2 : (decide (65 ≤ c + 32) && decide (c + 32 ≤ 90)) = false := by simp; omega
    simp only [h1, if_true, h2]
    simp
  · have h1 : (decide (65 ≤ c) && decide (c ≤ 90)) = false := by simp; omega
    simp [h1]

theorem toLower_normGo (s : Bytes) (up : Bool) : toLower (normalizeHeaderKey.go s up) = toLower s := by
  induction s generalizing up with
  | nil => simp [normalizeHeaderKey.go, toLower]
  | cons x xs ih =>
    unfold normalizeHeaderKey.go
    by_cases hu : up = true
    · simp only [hu, if_true, toLower, List.map_cons, lowerByte_upperByte] at ih ⊢
      rw [ih false]
    · by_cases h45 : (x == 45) = true
      · simp only [hu, Bool.false_eq_true, if_false, h45, if_true, toLower, List.map_cons] at ih ⊢
        rw [ih true]
      · simp only [hu, Bool.false_eq_true, if_false, h45, toLower, List.map_cons, lowerByte_lowerByte] at ih ⊢
        rw [ih false]

theorem toLower_normalizeHeaderKey (s : Bytes) : toLower (normalizeHeaderKey s) = toLower s := by
  cases s with
  | nil => rfl
  | cons c cs =>
    have := toLower_normGo cs false
    simp only [normalizeHeaderKey, toLower, List.map_cons, lowerByte_upperByte] at this ⊢
    rw [this]

/-- a byte of an alias stays a letter, digit or '-' under either case map -/
theorem aliasByte_case (c : Nat) (h : (isAlpha c || isDigit c || c == 45) = true) :
    (upperByte c ≠ 46 ∧ upperByte c ≠ 91) ∧ (lowerByte c ≠ 46 ∧ lowerByte c ≠ 91) ∧ (c ≠ 46 ∧ c ≠ 91) := by
  unfold upperByte lowerByte
  simp [isAlpha, isUpper, isLower, isDigit] at h ⊢
  refine ⟨⟨?_, ?_⟩, ⟨?_, ?_⟩, ?_, ?_⟩ <;> (try split) <;> omega

theorem normGo_clean (s : Bytes) (up : Bool) (h : ∀ c ∈ s, (isAlpha c || isDigit c || c == 45) = true) :
    ∀ x ∈ normalizeHeaderKey.go s up, x ≠ 46 ∧ x ≠ 91 := by
  induction s generalizing up with
  | nil => intro x hx; simp [normalizeHeaderKey.go] at hx
  | cons c cs ih =>
    intro x hx
    have hc := aliasByte_case c (h c (by simp))
    have ih' := fun up => ih up (fun d hd => h d (by simp [hd]))
    unfold normalizeHeaderKey.go at hx
    by_cases hu : up = true
    · simp only [hu, if_true, List.mem_cons] at hx
      rcases hx with rfl | hx
      · exact hc.1
      · exact ih' false x hx
    · by_cases h45 : (c == 45) = true
      · simp only [hu, Bool.false_eq_true, if_false, h45, if_true, List.mem_cons] at hx
        rcases hx with rfl | hx
        · exact hc.2.2
        · exact ih' true x hx
      · simp only [hu, Bool.false_eq_true, if_false, h45, List.mem_cons] at hx
        rcases hx with rfl | hx
        · exact hc.2.1
        · exact ih' false x hx

/-- fasthttp's canonical spelling of an alias folds to the alias and has neither '.' nor '[' -/
theorem normalizeHeaderKey_ok (a : Bytes) (h : aliasOK a = true) :
    toLower (normalizeHeaderKey a) = toLower a ∧ (normalizeHeaderKey a).contains 46 = false ∧
    (normalizeHeaderKey a).contains 91 = false := by
  refine ⟨toLower_normalizeHeaderKey a, ?_⟩
  unfold aliasOK at h
  simp only [Bool.and_eq_true, List.all_eq_true] at h
  have hall : ∀ x ∈ normalizeHeaderKey a, x ≠ 46 ∧ x ≠ 91 := by
    cases a with
    | nil => intro x hx; simp [normalizeHeaderKey] at hx
    | cons c cs =>
      intro x hx
      simp only [normalizeHeaderKey, List.mem_cons] at hx
      rcases hx with rfl | hx
      · exact (aliasByte_case c (h.2 c (by simp))).1
      · exact normGo_clean cs false (fun d hd => h.2 d (by simp [hd])) x hx
  constructor
  · apply Bool.eq_false_iff.mpr; intro hc; simp at hc; exact (hall 46 hc).1 rfl
  · apply Bool.eq_false_iff.mpr; intro hc; simp at hc; exact (hall 91 hc).2 rfl

/-! ### the cookie map keeps the last element of a slice -/

/-- when no slice has two or more elements the cookie map holds exactly the client pairs -/
theorem cookiePairs_eq_clientPairs (st : Struct) (h : multiValuedSlice st = false) :
    cookiePairs st = clientPairs st := by
  unfold multiValuedSlice at h
  induction st with
  | nil => rfl
  | cons f rest ih =>
    simp only [List.any_cons, Bool.or_eq_false_iff, decide_eq_false_iff_not] at h
    have ih' := ih h.2
    simp only [cookiePairs, clientPairs, List.filterMap_cons, List.flatMap_cons] at ih' ⊢
    rcases hv : f.vals with _ | ⟨v, _ | ⟨w, ws⟩⟩
    · simpa using ih'
    · simp [ih']
    · rw [hv] at h; simp at h

theorem cookiePairs_lastOnly (st : Struct) : cookiePairs st = clientPairs (lastOnly st) := by
  induction st with
  | nil => rfl
  | cons f rest ih =>
    simp only [cookiePairs, clientPairs, lastOnly, List.filterMap_cons, List.flatMap_cons, List.map_cons] at ih ⊢
    rcases hv : f.vals.getLast? with _ | w
    · have : f.vals = [] := by simpa using hv
      simp [Field.lastOnly, this, ih]
    · simp [Field.lastOnly, hv, ih]

theorem lastOnly_specs (st : Struct) : (lastOnly st).map (·.spec) = st.map (·.spec) := by
  simp [lastOnly, Field.lastOnly, List.map_map, Function.comp_def]

theorem lastOnly_id (st : Struct) (h : multiValuedSlice st = false) : lastOnly st = st := by
  unfold multiValuedSlice at h
  induction st with
  | nil => rfl
  | cons f rest ih =>
    simp only [List.any_cons, Bool.or_eq_false_iff, decide_eq_false_iff_not] at h
    simp only [lastOnly, List.map_cons] at ih ⊢
    rw [ih h.2]
    congr 1
    rcases hv : f.vals with _ | ⟨v, _ | ⟨w, ws⟩⟩
    · cases f; simp_all [Field.lastOnly]
    · cases f; simp_all [Field.lastOnly]
    · rw [hv] at h; simp at h

/-! ### small list facts used by the content-type theorems -/

theorem takeWhile_append_stop (p : Nat → Bool) (a : Bytes) (x : Nat) (r : Bytes)
    (ha : ∀ c ∈ a, p c = true) (hx : p x = false) : (a ++ x :: r).takeWhile p = a := by
  induction a with
  | nil => simp [List.takeWhile, hx]
  | cons c cs ih =>
    have hc := ha c (by simp)
    have := ih (fun d hd => ha d (by simp [hd]))
    simp only [List.cons_append, List.takeWhile, hc, this]

theorem takeWhile_all (p : Nat → Bool) (a : Bytes) (ha : ∀ c ∈ a, p c = true) : a.takeWhile p = a := by
  induction a with
  | nil => rfl
  | cons c cs ih =>
    have hc := ha c (by simp)
    have := ih (fun d hd => ha d (by simp [hd]))
    simp only [List.takeWhile, hc, this]

theorem indexByte_append_ge (a r : Bytes) (c p : Nat) (ha : ∀ x ∈ a, x ≠ c)
    (h : indexByte (a ++ r) c = some p) : a.length ≤ p := by
  induction a generalizing p with
  | nil => simp
  | cons x xs ih =>
    have hx : (x == c) = false := by simpa using ha x (by simp)
    simp only [List.cons_append, indexByte, hx, Bool.false_eq_true, if_false, Option.map_eq_some_iff] at h
    obtain ⟨q, hq, rfl⟩ := h
    have := ih q (fun y hy => ha y (by simp [hy])) hq
    simp; omega

theorem indexByte_none (s : Bytes) (c : Nat) (h : ∀ x ∈ s, x ≠ c) : indexByte s c = none := by
  induction s with
  | nil => rfl
  | cons x xs ih =>
    have : (x == c) = false := by simpa using h x (by simp)
    simp [indexByte, this, ih (fun y hy => h y (by simp [hy]))]

theorem indexByte_append_first (a : Bytes) (c : Nat) (r : Bytes) (h : ∀ x ∈ a, x ≠ c) :
    indexByte (a ++ c :: r) c = some a.length := by
  induction a with
  | nil => simp [indexByte]
  | cons x xs ih =>
    have : (x == c) = false := by simpa using h x (by simp)
    simp [indexByte, this, ih (fun y hy => h y (by simp [hy]))]

theorem indexByte_lt (s : Bytes) (c i : Nat) (h : indexByte s c = some i) : i < s.length := by
  induction s generalizing i with
  | nil => simp [indexByte] at h
  | cons x xs ih =>
    by_cases hx : (x == c) = true
    · simp [indexByte, hx] at h; subst h; simp
    · simp only [indexByte, hx, Bool.false_eq_true, if_false, Option.map_eq_some_iff] at h
      obtain ⟨j, hj, rfl⟩ := h
      have := ih j hj; simp; omega

/-! ### malformed bracket keys -/

theorem squareBracketsAux_none_iff (k : Bytes) (n : Nat) :
    squareBracketsAux k n = none ↔ balancedAux k n = false := by
  induction k generalizing n with
  | nil =>
    simp only [squareBracketsAux, balancedAux]
    by_cases h : n = 0 <;> simp [h]
  | cons c cs ih =>
    simp only [squareBracketsAux, balancedAux]
    by_cases h91 : (c == 91) = true
    · simp only [h91, if_true, Option.map_eq_none_iff]
      exact ih (n + 1)
    · by_cases h93 : (c == 93) = true
      · simp only [h91, Bool.false_eq_true, if_false, h93, if_true]
        by_cases hn : (n == 0) = true
        · simp [hn]
        · simp only [hn, Bool.false_eq_true, if_false]
          exact ih (n - 1)
      · simp only [h91, Bool.false_eq_true, if_false, h93, Option.map_eq_none_iff]
        exact ih n

theorem collect_malformed (sliceKey : Bytes → Bool) (split : Bool) (pairs : List (Bytes × Bytes))
    (d : List (Bytes × List Bytes)) (h : pairs.any (fun kv => malformedKey kv.1) = true) :
    collect sliceKey split true pairs d = none := by
  induction pairs generalizing d with
  | nil => simp at h
  | cons kv rest ih =>
    obtain ⟨k, v⟩ := kv
    simp only [List.any_cons, Bool.or_eq_true] at h
    simp only [collect]
    by_cases hk : malformedKey k = true
    · unfold malformedKey at hk
      simp only [Bool.and_eq_true, Bool.not_eq_true'] at hk
      have : parseParamSquareBrackets k = none := (squareBracketsAux_none_iff k 0).mpr hk.2
      have hc : k.contains 91 = true := hk.1
      simp only [formatBindData, hc, Bool.and_self, if_true, this]
    · have hr : rest.any (fun kv => malformedKey kv.1) = true := by
        rcases h with h | h
        · exact absurd h hk
        · exact h
      cases formatBindData sliceKey split true d k v with
      | none => rfl
      | some d' => exact ih d' hr

end C11
