import FiberModel.C11.Codec
/-
C11 — float text: `strconv.ParseFloat(s, bits)` and `strconv.FormatFloat(v, 'f', -1, 64)` by their
specification, in exact integer arithmetic (core Lean only; linked into the driver).

* `parseDecimal` = the decimal grammar of strconv `readFloat` (sign, digits with at most one '.',
  optional exponent `e±ddd` with Go's clamp) plus `special` (inf / infinity / nan, any case).
  Underscores and hexadecimal mantissas are *not* modelled (`unsupported`).
* `roundBin` = correct rounding (nearest, ties to even) of a positive rational to a binary format
  with precision `p`, smallest ulp `2^qmin` (subnormals) and overflow threshold `2^emax`
  (`ParseFloat` then returns ±Inf with `ErrRange`: the converter fails). Binary exponents are kept
  with an offset (`FFmt.bias`), so that all arithmetic is on natural numbers.
* `fmtShortest` = the 'f' text of the shortest decimal that `ParseFloat(·, 64)` maps back to the value
  (closest to the value when two of that length do) — the contract of `FormatFloat(v,'f',-1,64)`.
* `exactText` = the full decimal expansion of a dyadic rational; for values whose expansion has at
  most 15 significant digits it is what `FormatFloat` prints.
The client formats every float with bit size 64 (a `float32` field is widened first), the server
parses with the field's bit size.
-/
namespace C11
open B

/-! ### values -/

/-- parameters of a binary format. Binary exponents are stored with the offset `bias`: an exponent
    `e` is kept as `e + bias` (≥ 0 for every ulp of float32 / float64 and far below). -/
structure FFmt where
  p : Nat          -- precision in bits (53 / 24)
  bias : Nat       -- offset of the stored exponents
  qminB : Nat      -- exponent of the smallest ulp, biased (−1074 / −149)
  emax : Nat       -- values ≥ 2^emax overflow (1024 / 128)
  deriving Repr, DecidableEq

def fmt64 : FFmt := { p := 53, bias := 1200, qminB := 1200 - 1074, emax := 1024 }
def fmt32 : FFmt := { p := 24, bias := 1200, qminB := 1200 - 149, emax := 128 }
def fmtOf (bits : Nat) : FFmt := if bits = 32 then fmt32 else fmt64

/-- a float value: finite `(-1)^neg · mant · 2^exp` in canonical form (`mant` odd, or `mant = 0` and
    `exp = 0`), ±Inf, or NaN -/
inductive FVal where
  | fin (neg : Bool) (mant : Nat) (exp : Int)
  | inf (neg : Bool)
  | nan
  deriving Repr, DecidableEq

/-- strip the factors of two of a mantissa -/
def stripTwos : Nat → Nat → Nat → Nat × Nat
  | 0, m, e => (m, e)
  | fuel + 1, m, e => if m % 2 = 0 ∧ m ≠ 0 then stripTwos fuel (m / 2) (e + 1) else (m, e)

/-- canonical form of `m · 2^(eB − bias)` -/
def canon (bias m eB : Nat) : Nat × Nat := if m = 0 then (0, bias) else stripTwos m m eB

/-! ### decimal text → exact rational -/

structure Dec where
  neg : Bool
  digits : Nat       -- all mantissa digits read as one number
  scale : Nat        -- how many of them stood after the '.'
  exp10 : Int        -- the exponent part (0 when absent)
  deriving Repr, DecidableEq

inductive DecRes where
  | ok (d : Dec)
  | special (v : FVal)
  | syntaxErr
  | unsupported
  deriving Repr, DecidableEq

def spanDigits : Bytes → Bytes × Bytes
  | [] => ([], [])
  | c :: cs => if isDigit c then let r := spanDigits cs; (c :: r.1, r.2) else ([], c :: cs)

def digitsVal (ds : Bytes) : Nat := (parseDigits ds 0).getD 0

/-- the exponent digit loop: `if e < 10000 { e = e*10 + d }` -/
def expDigits (ds : Bytes) : Nat := ds.foldl (fun e c => if e < 10000 then e * 10 + (c - 48) else e) 0

/-- strconv `special` on the text after lower-casing: inf / infinity with optional sign, nan without -/
def parseSpecial (t : Bytes) : Option FVal :=
  let l := toLower t
  if l = b "inf" ∨ l = b "+inf" ∨ l = b "infinity" ∨ l = b "+infinity" then some (.inf false)
  else if l = b "-inf" ∨ l = b "-infinity" then some (.inf true)
  else if l = b "nan" then some .nan
  else none

/-- optional sign -/
def cutSign : Bytes → Bool × Bytes
  | [] => (false, [])
  | c :: r => if c == 43 then (false, r) else if c == 45 then (true, r) else (false, c :: r)

/-- `0x` / `0X` after the sign: a hexadecimal mantissa -/
def hexPrefix : Bytes → Bool
  | c :: x :: _ => c == 48 && (x == 120 || x == 88)
  | _ => false

/-- the digits after a '.', if one follows -/
def cutFrac : Bytes → Bytes × Bytes
  | [] => ([], [])
  | c :: r => if c == 46 then spanDigits r else ([], c :: r)

/-- the exponent part: `none` = malformed; `some 0` when absent -/
def parseExp10 : Bytes → Option Int
  | [] => some 0
  | c :: r3 =>
    if c == 101 || c == 69 then
      let sr := cutSign r3
      let er := spanDigits sr.2
      if er.1.isEmpty || !er.2.isEmpty then none
      else
        let e : Int := expDigits er.1
        some (if sr.1 then -e else e)
    else none

/-- strconv `readFloat`, base 10, and the "whole string consumed" test of `ParseFloat` -/
def parseDecimal (t : Bytes) : DecRes :=
  match parseSpecial t with
  | some v => .special v
  | none =>
    let sr := cutSign t
    if t.contains 95 then .unsupported                     -- underscores
    else if hexPrefix sr.2 then .unsupported               -- 0x…
    else
      let ir := spanDigits sr.2
      let fr := cutFrac ir.2
      if ir.1.isEmpty && fr.1.isEmpty then .syntaxErr
      else match parseExp10 fr.2 with
        | none => .syntaxErr
        | some e => .ok { neg := sr.1, digits := digitsVal (ir.1 ++ fr.1), scale := fr.1.length, exp10 := e }

/-- the rational `digits · 10^(exp10 − scale)` as numerator / denominator -/
def Dec.ratio (d : Dec) : Nat × Nat :=
  let k : Int := d.exp10 - d.scale
  if k ≥ 0 then (d.digits * 10 ^ k.toNat, 1) else (d.digits, 10 ^ (-k).toNat)

/-! ### correct rounding to a binary format -/

/-- round to nearest integer, ties to even -/
def rne (n d : Nat) : Nat :=
  let f := n / d
  let r := n % d
  if 2 * r < d then f else if 2 * r > d then f + 1 else if f % 2 = 0 then f else f + 1

/-- biased exponent of the ulp of `x = num / den`: `max qmin (⌊log2 x⌋ − p + 1)`; `⌊log2 x⌋` is
    `log2 num − log2 den` or one less, so it is that estimate or the next -/
def ulpExp (f : FFmt) (num den : Nat) : Nat :=
  let q0 := max f.qminB (num.log2 + f.bias - den.log2 - f.p)
  if (num * 2 ^ f.bias) / (den * 2 ^ q0) < 2 ^ f.p then q0 else q0 + 1

/-- `num / den > 0` rounded to the format: canonical `(mant, biased exp)`, `none` = overflow -/
def roundBin (f : FFmt) (num den : Nat) : Option (Nat × Nat) :=
  if num = 0 then some (0, f.bias)
  else
    let q := ulpExp f num den
    let m := rne (num * 2 ^ f.bias) (den * 2 ^ q)
    if m * 2 ^ q ≥ 2 ^ (f.emax + f.bias) then none else some (canon f.bias m q)

/-- `strconv.ParseFloat(t, bits)`: `none` = not modelled, `some none` = error (syntax or range) -/
def parseFloat (bits : Nat) (t : Bytes) : Option (Option FVal) :=
  match parseDecimal t with
  | .unsupported => none
  | .syntaxErr => some none
  | .special v => some (some v)
  | .ok d =>
    let r := d.ratio
    match roundBin (fmtOf bits) r.1 r.2 with
    | none => some none
    | some (m, eB) => some (some (.fin d.neg m ((eB : Int) - (fmtOf bits).bias)))

/-! ### shortest decimal that reads back (`FormatFloat(v, 'f', -1, 64)`) -/

/-- `x < 10^k` for `x = xn / xd` -/
def ltPow10 (xn xd : Nat) (k : Int) : Bool :=
  if k ≥ 0 then decide (xn < 10 ^ k.toNat * xd) else decide (xn * 10 ^ (-k).toNat < xd)

/-- `⌊log10 x⌋` for `x = xn / xd > 0`, from a binary estimate corrected by exact comparisons -/
def floorLog10 (xn xd : Nat) : Int :=
  let l2 : Int := (xn.log2 : Int) - (xd.log2 : Int)
  let e0 : Int := l2 * 30103 / 100000
  let down (e : Int) : Int := if ltPow10 xn xd e then e - 1 else e
  let up (e : Int) : Int := if ltPow10 xn xd (e + 1) then e else e + 1
  up (up (up (down (down (down e0)))))

/-- an `n`-digit decimal `c · 10^k` as numerator / denominator -/
def decRatio (c : Nat) (k : Int) : Nat × Nat :=
  if k ≥ 0 then (c * 10 ^ k.toNat, 1) else (c, 10 ^ (-k).toNat)

/-- the `n`-digit candidate for `x = xn / xd` (`⌊log10 x⌋ = lg`): the neighbours `lo`, `lo + 1` of
    `x / 10^k`, `k = lg − n + 1`; the one `roundBin fmt64` maps to `target`, the closer (ties: even)
    when both do -/
def shortestAt (xn xd : Nat) (lg : Int) (target : Nat × Nat) (n : Nat) : Option (Nat × Int) :=
  let k : Int := lg - n + 1
  let s : Nat × Nat := if k ≥ 0 then (xn, xd * 10 ^ k.toNat) else (xn * 10 ^ (-k).toNat, xd)
  let lo := s.1 / s.2
  let r := s.1 % s.2
  let okc (c : Nat) : Bool :=
    let d := decRatio c k
    roundBin fmt64 d.1 d.2 == some target
  let okLo := lo != 0 && okc lo
  let okHi := r != 0 && okc (lo + 1)
  let pick : Option Nat :=
    if okLo && okHi then
      (if 2 * r < s.2 then some lo else if 2 * r > s.2 then some (lo + 1)
       else if lo % 2 = 0 then some lo else some (lo + 1))
    else if okLo then some lo else if okHi then some (lo + 1) else none
  pick.map fun c => (c, k)

/-- the digits `c` and exponent `k` of the shortest decimal `c · 10^k` that `roundBin fmt64` maps to
    `m · 2^e` (`m > 0` odd), the closer one when two of that length do. "Some `n`-digit decimal reads
    back" is monotone in `n` (a decimal that reads back stays one with a zero appended, and anything
    between it and the value reads back too), so the least `n ≤ 17` is found by bisection. -/
def shortestDigits (m : Nat) (e : Int) : Option (Nat × Int) :=
  let xn := if e ≥ 0 then m * 2 ^ e.toNat else m
  let xd := if e ≥ 0 then 1 else 2 ^ (-e).toNat
  let lg := floorLog10 xn xd
  let target : Nat × Nat := (m, (e + fmt64.bias).toNat)
  let rec go (fuel lo hi : Nat) (best : Option (Nat × Int)) : Option (Nat × Int) :=
    match fuel with
    | 0 => best
    | fuel + 1 =>
      if lo > hi then best
      else
        let mid := (lo + hi) / 2
        match shortestAt xn xd lg target mid with
        | some r => go fuel lo (mid - 1) (some r)
        | none => go fuel (mid + 1) hi best
  go 6 1 17 none

/-- drop trailing decimal zeros of `c`, raising the exponent -/
def stripTens : Nat → Nat → Int → Nat × Int
  | 0, c, k => (c, k)
  | fuel + 1, c, k => if c % 10 = 0 ∧ c ≠ 0 then stripTens fuel (c / 10) (k + 1) else (c, k)

/-- the `w` low decimal digits of `n`, most significant first (leading zeros kept) -/
def padNat : Nat → Nat → Bytes
  | 0, _ => []
  | w + 1, n => padNat w (n / 10) ++ [48 + n % 10]

/-- `%f` of the decimal `c · 10^k` (`c > 0`, no trailing zero unless `k ≥ 0`): all integer digits,
    and the `−k` fraction digits if `k < 0` -/
def fmtF (c : Nat) (k : Int) : Bytes :=
  if k ≥ 0 then formatNat (c * 10 ^ k.toNat)
  else
    let w := (-k).toNat
    formatNat (c / 10 ^ w) ++ [46] ++ padNat w (c % 10 ^ w)

/-- the candidate text: sign, then `%f` of the shortest digits -/
def shortestText : FVal → Option Bytes
  | .nan => some (b "NaN")
  | .inf neg => some (if neg then b "-Inf" else b "+Inf")
  | .fin neg m e =>
    let sign : Bytes := if neg then [45] else []
    if m = 0 then some (sign ++ [48])
    else match shortestDigits m e with
      | none => none
      | some (c, k) =>
        let ck := stripTens c c k
        some (sign ++ fmtF ck.1 ck.2)

/-- `strconv.FormatFloat(v, 'f', -1, 64)`: the shortest text — checked once more, as a whole, to read
    back as `v` (the contract of the shortest format; the check never fails on a run, and makes
    `parseFloat 64 ∘ fmtShortest = id` hold by construction) -/
def fmtShortest (v : FVal) : Option Bytes :=
  match shortestText v with
  | none => none
  | some t => if parseFloat 64 t = some (some v) then some t else none

/-- the server's float converter followed by the canonical text of the result: `none` = not
    modelled, `some none` = the converter fails -/
def floatConvX (bits : Nat) (t : Bytes) : Option (Option Bytes) :=
  match parseFloat bits t with
  | none => none
  | some none => some none
  | some (some v) => (fmtShortest v).map some

/-- `floatConvX` as the `floatConv` parameter of the binder model; it answers `none` on texts outside
    the modelled grammar, where the driver never consults it -/
def floatConvM (bits : Nat) (t : Bytes) : Option Bytes := (floatConvX bits t).join

/-! ### exact expansions of dyadic rationals -/

/-- the full decimal expansion of `m · 2^e` (`m` odd or zero): `m·2^e` itself for `e ≥ 0`, else
    `m·5^k / 10^k` with `k = −e` fraction digits (the last one is a 5) -/
def exactText (neg : Bool) (m : Nat) (e : Int) : Bytes :=
  (if neg then [45] else []) ++
  (if e ≥ 0 then formatNat (m * 2 ^ e.toNat)
   else fmtF (m * 5 ^ (-e).toNat) e)

/-- the float converter with every finite value named by its exact expansion (instead of the shortest
    text): parse, then print all digits -/
def floatConvE (bits : Nat) (t : Bytes) : Option Bytes :=
  match parseFloat bits t with
  | some (some (.fin neg m e)) => some (exactText neg m e)
  | _ => none

/-- number of significant decimal digits of the exact expansion -/
def sigDigits (m : Nat) (e : Int) : Nat :=
  if e ≥ 0 then
    let n := m * 2 ^ e.toNat
    (formatNat (stripTens n n 0).1).length
  else (formatNat (m * 5 ^ (-e).toNat)).length

/-- the exact expansion of `m · 2^e` has at most 15 significant digits (cheap exclusions first: with
    more than 60 fraction digits, or above 10^38, it cannot) -/
def isShortExact (m : Nat) (e : Int) : Bool :=
  if e < -60 then false
  else if e ≥ 0 ∧ m.log2 + e.toNat > 127 then false
  else sigDigits m e ≤ 15

end C11
