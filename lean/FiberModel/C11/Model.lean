import FiberModel.C11.Codec
/-
C11 — model of the bundled client's struct encoding and of the server-side binders.

Client  (client/request.go `SetValWithStruct`, client/hooks.go `parserRequestURL/Header/Body`):
  a struct is a list of fields, each a list of values ("field ↦ list of text values"; reflection is
  outside the model, floats are opaque text). `clientPairs` is what `SetValWithStruct` leaves in an
  `Args`-backed store (`Del` then one `Add` per element), `cookiePairs` what it leaves in the
  `Cookie` map (`Add` = assignment: the last element wins).
Server  (bind.go, binder/{query,form,header,cookie,mapping}.go, gofiber/schema at field level):
  `parseArgs` / `parseCookies` → `formatBindData` (`parseParamSquareBrackets`, `assignBindData`,
  `equalFieldType`) → `decodeFields` (gofiber/schema `Decoder.decode` for flat structs with
  `ZeroEmpty` and `IgnoreUnknownKeys`, text → value through the converters of Codec.lean).
  `dispatch` is the content-type switch of `Bind().Body`.
JSON/XML/CBOR/multipart codecs are parameters (`BodyCodec`), see Props.lean.
-/
namespace C11
open B

/-! ### struct values at field level -/

inductive Kind where
  | str
  | int (bits : Nat)
  | uint (bits : Nat)
  | bool
  | float (bits : Nat)
  deriving Repr, DecidableEq

inductive Val where
  | str (s : Bytes)
  | int (i : Int)
  | uint (n : Nat)
  | bool (v : Bool)
  | float (text : Bytes)      -- opaque: the text `strconv.FormatFloat(v,'f',-1,64)` of the value
  deriving Repr, DecidableEq

/-- Static description of one struct field (what reflection sees). -/
structure FieldSpec where
  calias : Bytes      -- alias under the client-side tag (`param`/`form`/`cookie`/`header`)
  salias : Bytes      -- alias under the server-side tag of the source
  qalias : Bytes      -- alias under the `query` tag (what `equalFieldType` consults, whatever the source)
  goName : Bytes
  kind : Kind
  isSlice : Bool
  deriving Repr, DecidableEq

structure Field where
  spec : FieldSpec
  vals : List Val
  deriving Repr, DecidableEq

abbrev Struct := List Field

/-- `SetValWithStruct.setVal`: the text of one element. -/
def textOf : Val → Bytes
  | .str s => s
  | .int i => formatInt i
  | .uint n => formatNat n
  | .bool v => formatBool v
  | .float t => t

/-- a value fits the field's kind (what the Go type system guarantees) -/
def Val.fits : Val → Kind → Bool
  | .str _, .str => true
  | .int i, .int bits => decide (-(2 ^ (bits - 1) : Int) ≤ i ∧ i < (2 ^ (bits - 1) : Int))
  | .uint n, .uint bits => decide (n < 2 ^ bits)
  | .bool _, .bool => true
  | .float _, .float _ => true
  | _, _ => false

/-- a struct value is well-typed: scalars have exactly one value, every value fits -/
def Field.wellTyped (f : Field) : Bool :=
  (f.spec.isSlice || f.vals.length == 1) && f.vals.all (·.fits f.spec.kind)

/-! ### client side -/

/-- `SetValWithStruct` into an `Args`-backed store (query params, form data) or through the
    header adapter: one `(alias, text)` per element, fields in declaration order. -/
def clientPairs (st : Struct) : List (Bytes × Bytes) :=
  st.flatMap fun f => f.vals.map fun v => (f.spec.calias, textOf v)

/-- The same pairs with every name passed through `norm` — what a transport that re-spells names
    does to them (fasthttp canonicalises header names on both sides). -/
def clientPairsN (norm : Bytes → Bytes) (st : Struct) : List (Bytes × Bytes) :=
  st.flatMap fun f => f.vals.map fun v => (norm f.spec.calias, textOf v)

/-- fasthttp `normalizeHeaderKey` (header.go): first byte and every byte after a '-' upper-cased, the
    others lower-cased. -/
def normalizeHeaderKey : Bytes → Bytes
  | [] => []
  | c :: cs =>
    let rec go : Bytes → Bool → Bytes
      | [], _ => []
      | x :: xs, up => if up then upperByte x :: go xs false
                       else if x == 45 then x :: go xs true else lowerByte x :: go xs false
    upperByte c :: go cs false

/-! ### header lines on the wire (fasthttp header.go: `appendHeaderLine` / `headerScanner.next` /
    `RequestHeader.parseHeaders`) -/

/-- `appendHeaderLine`: `key ": " value CRLF` -/
def writeHeaderLine (kv : Bytes × Bytes) : Bytes := kv.1 ++ [58, 32] ++ kv.2 ++ [13, 10]

/-- the ordinary header lines of `RequestHeader.AppendBytes` (the `h.h` loop), in order -/
def writeHeaderLines (ps : List (Bytes × Bytes)) : Bytes := (ps.map writeHeaderLine).flatten

def isBlank (c : Nat) : Bool := c == 32 || c == 9

/-- split at the first occurrence of `c` (`bytes.IndexByte`): the part before and the part after -/
def cutAt (c : Nat) : Bytes → Option (Bytes × Bytes)
  | [] => none
  | x :: xs => if x == c then some ([], xs) else (cutAt c xs).map fun r => (x :: r.1, r.2)

def dropRightWhile (p : Nat → Bool) (s : Bytes) : Bytes := (s.reverse.dropWhile p).reverse

def containsCRLF : Bytes → Bool
  | [] => false
  | [_] => false
  | x :: y :: r => (x == 13 && y == 10) || containsCRLF (y :: r)

def startsBlank (s : Bytes) : Bool :=
  match s.head? with
  | some d => isBlank d
  | none => false

inductive HdrStep where
  | done (rest : Bytes)                    -- the blank line that ends the header block
  | line (key value rest : Bytes)
  | bad                                    -- `errNeedMore` / `errInvalidName`
  | folded                                 -- the next line starts with SP / HTAB (obs-fold): not modelled
  deriving Repr, DecidableEq

/-- one `headerScanner.next`: the line up to the first LF; the key is what stands before its first ':'
    (a LF before the ':' or no ':' is an error); the value is the rest with leading SP / HTAB skipped,
    one trailing CR and then trailing SP / HTAB removed; when a CRLF follows in the buffer
    `normalizeHeaderValue` runs, which on a LF-free value deletes every CR. -/
def headerNext (bs : Bytes) : HdrStep :=
  match bs with
  | [] => .bad
  | c :: cs =>
    if c == 10 then .done cs
    else if c == 13 && cs.head? == some 10 then .done (cs.drop 1)
    else match cutAt 10 bs with
      | none => .bad
      | some (line, rest) =>
        match cutAt 58 line with
        | none => .bad
        | some (key, v0) =>
          if startsBlank rest then .folded
          else
            let v1 := v0.dropWhile isBlank
            let v2 := if v1.getLast? == some 13 then v1.dropLast else v1
            let v3 := dropRightWhile isBlank v2
            .line key (if containsCRLF rest then v3.filter (· != 13) else v3) rest

/-- `validHeaderFieldByteTable` (RFC 9110 tchar) -/
def tokenByte (c : Nat) : Bool :=
  isAlpha c || isDigit c || c == 33 || (35 ≤ c && c ≤ 39) || c == 42 || c == 43 || c == 45 || c == 46 ||
  c == 94 || c == 95 || c == 96 || c == 124 || c == 126

/-- `validHeaderValueByteTable`: HTAB, SP, VCHAR, obs-text -/
def headerValueByte (c : Nat) : Bool := c == 9 || (32 ≤ c && c ≤ 126) || (128 ≤ c && c ≤ 255)

inductive HdrParse where
  | ok (pairs : List (Bytes × Bytes)) (rest : Bytes)
  | bad                                    -- the server answers 400 before any handler runs
  | unsupported
  deriving Repr, DecidableEq

/-- the loop of `RequestHeader.parseHeaders` over ordinary header lines: an empty key, a key byte
    that is neither a token byte nor ' ', or a value byte outside `validHeaderValueByte` rejects the
    request; a key with a ' ' is not canonicalised. (`fuel`: one per line.) -/
def parseHeaderLines : Nat → Bytes → HdrParse
  | 0, _ => .bad
  | fuel + 1, bs =>
    match headerNext bs with
    | .done rest => .ok [] rest
    | .bad => .bad
    | .folded => .unsupported
    | .line k v rest =>
      if k.isEmpty || k.any (fun c => !tokenByte c && c != 32) || !v.all headerValueByte then .bad
      else match parseHeaderLines fuel rest with
        | .ok ps r => .ok ((if k.contains 32 then k else normalizeHeaderKey k, v) :: ps) r
        | e => e

/-- what the server's header table holds for the lines the client wrote, followed by the blank line -/
def headerTransport (ps : List (Bytes × Bytes)) : HdrParse :=
  let w := writeHeaderLines ps ++ [13, 10]
  parseHeaderLines (w.length + 1) w

/-! ### multipart bodies (client/hooks.go `parserRequestBodyFile` over mime/multipart `Writer`;
    mime/multipart `Reader` as far as it reads what that writer wrote) -/

/-- split at the first occurrence of the byte string `pat`: the part before and the part after -/
def cutAtPat (pat : Bytes) : Bytes → Option (Bytes × Bytes)
  | [] => if pat.isEmpty then some ([], []) else none
  | c :: cs =>
    if pat.isPrefixOf (c :: cs) then some ([], (c :: cs).drop pat.length)
    else (cutAtPat pat cs).map fun r => (c :: r.1, r.2)

/-- the delimiter line between parts, without the leading CRLF: `--` + boundary -/
def dashBoundary (bd : Bytes) : Bytes := [45, 45] ++ bd

def cdPrefix : Bytes := b "Content-Disposition: form-data; name=\""

/-- `Writer.CreateFormField`: the header lines of a value part (`escapeQuotes` is the identity on
    names without `"` and `\`, which is all the model allows) -/
def fieldHeader (name : Bytes) : List Bytes := [cdPrefix ++ name ++ [34]]

/-- `Writer.CreateFormFile` (header keys are written sorted: Content-Disposition, Content-Type) -/
def fileHeader (field filename : Bytes) : List Bytes :=
  [cdPrefix ++ field ++ b "\"; filename=\"" ++ filename ++ [34], b "Content-Type: application/octet-stream"]

/-- one part as it stands in the body: delimiter line, header lines, blank line, content, CRLF -/
def writePart (bd : Bytes) (header : List Bytes) (content : Bytes) : Bytes :=
  dashBoundary bd ++ [13, 10] ++ (header.map (· ++ [13, 10])).flatten ++ [13, 10] ++ content ++ [13, 10]

/-- `parserRequestBodyFile`: one `WriteField` per form argument in the order they were added, then
    the files, then `Close` (`--boundary--`). -/
def writeMultipart (bd : Bytes) (fields : List (Bytes × Bytes)) (files : List (Bytes × Bytes × Bytes)) : Bytes :=
  (fields.map fun kv => writePart bd (fieldHeader kv.1) kv.2).flatten ++
  (files.map fun f => writePart bd (fileHeader f.1 f.2.1) f.2.2).flatten ++
  dashBoundary bd ++ [45, 45, 13, 10]

/-- the header lines of a part, up to the blank line (`textproto.Reader.ReadMIMEHeader`, lines
    without folding) -/
def readHeaderLines : Nat → Bytes → Option (List Bytes × Bytes)
  | 0, _ => none
  | fuel + 1, s =>
    match cutAtPat [13, 10] s with
    | none => none
    | some (line, rest) =>
      if line.isEmpty then some ([], rest)
      else (readHeaderLines fuel rest).map fun r => (line :: r.1, r.2)

/-- name and file flag from the Content-Disposition line as the writer spells it:
    `form-data; name="…"` optionally followed by `; filename="…"` -/
def partName (lines : List Bytes) : Option (Bytes × Bool) :=
  match lines with
  | [] => none
  | l :: _ =>
    if cdPrefix.isPrefixOf l then
      (cutAt 34 (l.drop cdPrefix.length)).map fun r => (r.1, (b "; filename=\"").isPrefixOf r.2)
    else none

/-- mime/multipart `Reader.NextPart` / `ReadForm` on the bytes that follow a `--boundary`: `--` ends
    the body, CRLF starts a part: header lines up to the blank line, content up to the next
    `CRLF--boundary`. `none` = malformed for this reader model (anything else after a delimiter).
    Yields `(name, content, isFile)` per part, in order. -/
def readParts (bd : Bytes) : Nat → Bytes → Option (List (Bytes × Bytes × Bool))
  | 0, _ => none
  | fuel + 1, s =>
    if ([45, 45] : Bytes).isPrefixOf s then some []
    else if ([13, 10] : Bytes).isPrefixOf s then
      match readHeaderLines (s.length + 1) (s.drop 2) with
      | none => none
      | some (lines, rest) =>
        match cutAtPat ([13, 10] ++ dashBoundary bd) rest with
        | none => none
        | some (content, after) =>
          match partName lines, readParts bd fuel after with
          | some nf, some ps => some ((nf.1, content, nf.2) :: ps)
          | _, _ => none
    else none

/-- the `Value` pairs `Request.MultipartForm()` finds in a body (file parts are not values) -/
def readMultipart (bd body : Bytes) : Option (List (Bytes × Bytes)) :=
  if (dashBoundary bd).isPrefixOf body then
    (readParts bd (body.length + 1) (body.drop (dashBoundary bd).length)).map fun ps =>
      (ps.filter fun p => !p.2.2).map fun p => (p.1, p.2.1)
  else none

/-- `SetValWithStruct` into the `Cookie` map: `Add` assigns, so the last element of a slice wins
    and an empty slice leaves nothing. -/
def cookiePairs (st : Struct) : List (Bytes × Bytes) :=
  st.filterMap fun f => f.vals.getLast?.map fun v => (f.spec.calias, textOf v)

/-- `RequestHeader.SetCookie` for each map entry + `appendRequestCookieBytes`, entries in the
    order given (the Go map order is arbitrary; observations sort the entries). -/
def renderCookies (ps : List (Bytes × Bytes)) : Bytes :=
  join (ps.map fun kv => kv.1 ++ [61] ++ kv.2) [59, 32]

/-! ### server side: cookie header scanner (fasthttp cookie.go `cookieScanner.next`) -/

def trimSpaces (s : Bytes) : Bytes := trim s 32

/-- `decodeCookieArg(…, skipQuotes)` -/
def decodeCookieArg (s : Bytes) (skipQuotes : Bool) : Bytes :=
  let t := trimSpaces s
  if skipQuotes && decide (t.length > 1) && t.head? == some 34 && t.getLast? == some 34 then
    (t.drop 1).dropLast
  else t

/-- `true` iff the segment has an '=' -/
def hasEq (s : Bytes) : Bool := s.contains 61

/-- one `cookieScanner.next` result from a ';'-free segment: without '=' the key is empty and the
    whole segment is the value. -/
def parseCookieSeg (seg : Bytes) : Bytes × Bytes :=
  if hasEq seg then
    let r := cutEq seg
    (decodeCookieArg r.1 false, decodeCookieArg r.2 true)
  else ([], decodeCookieArg seg true)

/-- `parseRequestCookies` -/
def parseCookies (s : Bytes) : List (Bytes × Bytes) :=
  ((splitOn s 59).map parseCookieSeg).filter fun kv => !(kv.1.isEmpty && kv.2.isEmpty)

/-! ### server side: key normalisation and splitting (binder/mapping.go) -/

/-- `parseParamSquareBrackets`: `[` becomes `.` unless directly followed by `]` or at the end,
    `]` is dropped; `none` = "unmatched brackets". The counter is the open-bracket count. -/
def squareBracketsAux : Bytes → Nat → Option Bytes
  | [], n => if n > 0 then none else some []
  | c :: cs, n =>
    if c == 91 then
      let dot := match cs with
        | [] => false
        | d :: _ => d != 93
      (squareBracketsAux cs (n + 1)).map fun r => if dot then 46 :: r else r
    else if c == 93 then
      if n == 0 then none else squareBracketsAux cs (n - 1)
    else (squareBracketsAux cs n).map (c :: ·)

def parseParamSquareBrackets (k : Bytes) : Option Bytes := squareBracketsAux k 0

/-- `equalFieldType(out, reflect.Slice, key)` for a flat struct target: some slice field whose
    `query`-tag alias (else Go name) equals the key, ASCII case-insensitively. -/
def equalFieldType (specs : List FieldSpec) (key : Bytes) : Bool :=
  specs.any fun f => f.isSlice && toLower f.qalias == toLower key

/-- assoc-list insert at the end of the key's value list (`data[key] = append(data[key], v…)`) -/
def dataAppend : List (Bytes × List Bytes) → Bytes → List Bytes → List (Bytes × List Bytes)
  | [], k, vs => [(k, vs)]
  | (k', vs') :: rest, k, vs =>
    if k' = k then (k', vs' ++ vs) :: rest else (k', vs') :: dataAppend rest k vs

/-- `assignBindData`. `sliceKey` is `equalFieldType` (constantly `true` for map targets). -/
def assignBindData (sliceKey : Bytes → Bool) (split : Bool) (data : List (Bytes × List Bytes))
    (key value : Bytes) : List (Bytes × List Bytes) :=
  if split && value.contains 44 && sliceKey key then dataAppend data key (splitOn value 44)
  else dataAppend data key [value]

/-- `formatBindData` for one string value; `none` = the bracket error. -/
def formatBindData (sliceKey : Bytes → Bool) (split brackets : Bool)
    (data : List (Bytes × List Bytes)) (key value : Bytes) : Option (List (Bytes × List Bytes)) :=
  if brackets && key.contains 91 then
    match parseParamSquareBrackets key with
    | none => none
    | some k => some (assignBindData sliceKey split data k value)
  else some (assignBindData sliceKey split data key value)

/-- the `VisitAll` loop of a binder: the first error stops the accumulation -/
def collect (sliceKey : Bytes → Bool) (split brackets : Bool) :
    List (Bytes × Bytes) → List (Bytes × List Bytes) → Option (List (Bytes × List Bytes))
  | [], data => some data
  | (k, v) :: rest, data =>
    match formatBindData sliceKey split brackets data k v with
    | none => none
    | some d => collect sliceKey split brackets rest d

/-! ### server side: text → value (gofiber/schema at field level) -/

/-- the builtin converter of a kind; `floatConv` is the opaque float parser (canonical text of the
    parsed value, `none` = `strconv.ParseFloat` fails). -/
def convert (floatConv : Nat → Bytes → Option Bytes) : Kind → Bytes → Option Val
  | .str, s => some (.str s)
  | .int bits, s => (parseInt bits s).map .int
  | .uint bits, s => (parseUint bits s).map .uint
  | .bool, s => (parseBool s).map .bool
  | .float bits, s => (floatConv bits s).map .float

def zeroOf (floatZero : Bytes) : Kind → Val
  | .str => .str []
  | .int _ => .int 0
  | .uint _ => .uint 0
  | .bool => .bool false
  | .float _ => .float floatZero

/-- elements of a slice field from its texts (`Decoder.decode`, slice branch): "" ↦ zero
    (`ZeroEmpty`), a text the converter rejects is split at commas and each piece converted. -/
def decodeSlice (conv : Bytes → Option Val) (zero : Val) : List Bytes → Option (List Val)
  | [] => some []
  | t :: ts =>
    let items : Option (List Val) :=
      if t.isEmpty then some [zero]
      else match conv t with
        | some v => some [v]
        | none =>
          if t.contains 44 then
            (splitOn t 44).mapM fun p => if p.isEmpty then some zero else conv p
          else none
    match items, decodeSlice conv zero ts with
    | some a, some r => some (a ++ r)
    | _, _ => none

/-- a scalar field (`Decoder.decode`, last branch): the last text; "" ↦ zero. -/
def decodeScalar (conv : Bytes → Option Val) (zero : Val) (ts : List Bytes) : Option Val :=
  match ts.getLast? with
  | none => some zero
  | some t => if t.isEmpty then some zero else conv t

/-- the texts `Decoder.Decode` hands to a field: the data entry whose key is the field's alias
    (`strings.EqualFold`; keys containing '.' are paths into nested structs and never match a flat
    field). When several keys match, Go's map order decides — the driver rejects such inputs. -/
def lookupField (data : List (Bytes × List Bytes)) (al : Bytes) : Option (List Bytes) :=
  (data.filter fun kv => !kv.1.contains 46 && toLower kv.1 == toLower al).getLast?.map (·.2)

/-- decode one field: `(values, failed)`; a failed field keeps its zero value (`v.Set` not reached). -/
def decodeField (floatConv : Nat → Bytes → Option Bytes) (floatZero : Bytes)
    (data : List (Bytes × List Bytes)) (f : FieldSpec) : List Val × Bool :=
  let conv := convert floatConv f.kind
  let zero := zeroOf floatZero f.kind
  match lookupField data f.salias with
  | none => (if f.isSlice then [] else [zero], false)
  | some ts =>
    if f.isSlice then
      match decodeSlice conv zero ts with
      | some vs => (vs, false)
      | none => ([], true)
    else
      match decodeScalar conv zero ts with
      | some v => ([v], false)
      | none => ([zero], true)

/-- `parseToStruct`: every field is decoded independently; the error is the union. -/
def decodeFields (floatConv : Nat → Bytes → Option Bytes) (floatZero : Bytes)
    (specs : List FieldSpec) (data : List (Bytes × List Bytes)) : Struct × Bool :=
  let rs := specs.map fun f => (f, decodeField floatConv floatZero data f)
  (rs.map fun r => { spec := r.1, vals := r.2.1 }, rs.any fun r => r.2.2)

/-! ### the binders -/

inductive Source where
  | query | form | header | cookie
  deriving Repr, DecidableEq

/-- only the query and form binders pass `supportBracketNotation = true` -/
def Source.brackets : Source → Bool
  | .query | .form => true
  | _ => false

/-- wire text → key/value pairs as the binder's `VisitAll` yields them. Header pairs are given
    directly (fasthttp's header parser is not modelled). -/
def wirePairs : Source → Bytes → List (Bytes × Bytes)
  | .query, w => parseArgs w
  | .form, w => parseArgs w
  | .cookie, w => parseCookies w
  | .header, _ => []

structure BindResult where
  value : Struct
  err : Bool
  deriving Repr, DecidableEq

def zeroStruct (floatZero : Bytes) (specs : List FieldSpec) : Struct :=
  specs.map fun f => { spec := f, vals := if f.isSlice then [] else [zeroOf floatZero f.kind] }

/-- `QueryBinding/FormBinding/HeaderBinding/CookieBinding.Bind` into a flat struct. -/
def bindPairs (floatConv : Nat → Bytes → Option Bytes) (floatZero : Bytes) (specs : List FieldSpec)
    (src : Source) (split : Bool) (pairs : List (Bytes × Bytes)) : BindResult :=
  match collect (equalFieldType specs) split src.brackets pairs [] with
  | none => { value := zeroStruct floatZero specs, err := true }
  | some data =>
    let r := decodeFields floatConv floatZero specs data
    { value := r.1, err := r.2 }

/-- the same binders into a `map[string][]string` (`parseToMap`): the data map itself. -/
def bindPairsMap (src : Source) (split : Bool) (pairs : List (Bytes × Bytes)) :
    Option (List (Bytes × List Bytes)) :=
  collect (fun _ => true) split src.brackets pairs []

/-! ### `Bind().Body`: content-type dispatch (bind.go) -/

/-- binder/mapping.go `FilterFlags`: cut at the first ' ' or ';'. -/
def filterFlags (s : Bytes) : Bytes := s.takeWhile fun c => c != 32 && c != 59

/-- utils `ParseVendorSpecificContentType`. -/
def parseVendor (c : Bytes) : Bytes :=
  match indexByte c 43 with
  | none => c
  | some plus =>
    let parsable : Option Bytes :=
      match indexByte c 59 with
      | none => some (c.drop (plus + 1))
      | some semi => if plus < semi then some ((c.take semi).drop (plus + 1)) else none
    match parsable, indexByte c 59 with
    | none, some semi => c.take semi
    | none, none => c
    | some p, _ =>
      match indexByte c 47 with
      | none => c
      | some slash => c.take (slash + 1) ++ p

inductive Codec where
  | json | xml | cbor | form | none
  deriving Repr, DecidableEq

/-- the `switch ctype` of `Bind().Body` on the raw Content-Type header. -/
def dispatch (rawCtype : Bytes) : Codec :=
  let ct := filterFlags (parseVendor (toLower rawCtype))
  if ct = b "application/json" then .json
  else if ct = b "text/xml" ∨ ct = b "application/xml" then .xml
  else if ct = b "application/cbor" then .cbor
  else if ct = b "application/x-www-form-urlencoded" ∨ ct = b "multipart/form-data" then .form
  else .none

/-- `FormBinding.Bind` takes the multipart branch iff the *raw* content type (not lower-cased)
    filters to `multipart/form-data`. -/
def formIsMultipart (rawCtype : Bytes) : Bool := filterFlags rawCtype == b "multipart/form-data"

/-- fasthttp `Request.parsePostArgs`: the body is parsed only under this raw prefix. -/
def postArgs (rawCtype body : Bytes) : List (Bytes × Bytes) :=
  if hasPrefix rawCtype (b "application/x-www-form-urlencoded") then parseArgs body else []

/-- the Content-Type the client sets for each body kind (`parserRequestHeader`). -/
def clientCtype : Codec → Bytes
  | .json => b "application/json"
  | .xml => b "application/xml"
  | .cbor => b "application/cbor"
  | .form => b "application/x-www-form-urlencoded"
  | .none => []

/-- status the client sees for a handler that returns the bind error (bind.go `returnErr`, default
    error handler): 400 with automatic handling, the bare error (500) without, 422 when no codec
    was selected. -/
def statusOf (auto err : Bool) (noCodec : Bool) : Nat :=
  if noCodec then 422 else if !err then 200 else if auto then 400 else 500

/-! ### opaque body codecs and checked index arithmetic (used to state theorems) -/

/-- The opaque body codecs (encoding/json, encoding/xml, fxamacker/cbor, and the form branch seen as
    a codec): an encoder/decoder pair per kind, with the round-trip law as a field — a hypothesis of
    `bind_roundtrip_body`, never an axiom. -/
structure BodyCodecs (V : Type) where
  enc : Codec → V → Bytes
  dec : Codec → Bytes → Option V
  law : ∀ c v, dec c (enc c v) = some v

/-- `Bind().Body`: select by content type, then decode with the selected codec. -/
def bindBody {V : Type} (cs : BodyCodecs V) (rawCtype body : Bytes) : Option V :=
  match dispatch rawCtype with
  | .none => none
  | c => cs.dec c body

/-- `parseParamSquareBrackets` with Go's index expression `kbytes[i+1]` as a *checked* access:
    `none` at top level = the index would be out of range (a panic). -/
def squareBracketsIdx (k : Array Nat) (i : Nat) (n : Nat) (fuel : Nat) : Option (Option Bytes) :=
  match fuel with
  | 0 => if i < k.size then none else some (if n > 0 then none else some [])
  | fuel + 1 =>
    if h : i < k.size then
      let c := k[i]
      if c == 91 then
        -- `if i+1 < len(kbytes) && kbytes[i+1] != ']'`
        let dot : Option Bool := if i + 1 < k.size then (k[i + 1]?).map (· != 93) else some false
        match dot, squareBracketsIdx k (i + 1) (n + 1) fuel with
        | some d, some r => some (r.map fun r => if d then 46 :: r else r)
        | _, _ => none
      else if c == 93 then
        if n == 0 then some none else squareBracketsIdx k (i + 1) (n - 1) fuel
      else (squareBracketsIdx k (i + 1) n fuel).map fun r => r.map (c :: ·)
    else some (if n > 0 then none else some [])

/-- Go slice expression `s[lo:hi]`, checked: `none` = "slice bounds out of range". -/
def sliceChecked (s : Bytes) (lo hi : Nat) : Option Bytes :=
  if lo ≤ hi ∧ hi ≤ s.length then some ((s.take hi).drop lo) else none

/-- utils `ParseVendorSpecificContentType` with every slice expression checked. -/
def parseVendorChecked (c : Bytes) : Option Bytes :=
  match indexByte c 43 with
  | none => some c
  | some plus =>
    match indexByte c 59 with
    | none =>
      match sliceChecked c (plus + 1) c.length, indexByte c 47 with
      | none, _ => none
      | some _, none => some c
      | some p, some slash => (sliceChecked c 0 (slash + 1)).map (· ++ p)
    | some semi =>
      if plus < semi then
        match sliceChecked c (plus + 1) semi, indexByte c 47 with
        | none, _ => none
        | some _, none => some c
        | some p, some slash => (sliceChecked c 0 (slash + 1)).map (· ++ p)
      else sliceChecked c 0 semi

/-- `*fiber.Error` code of the error the handler gets back from `Bind()` (bind.go `returnErr`):
    `NewError(400, …)` with automatic handling, the binder's own (non-fiber) error without. -/
def codeOf (auto err : Bool) : Nat := if err && auto then 400 else 0

end C11
