import FiberModel.C11.Model
import FiberModel.C11.Float
/-
C11 — the property as an executable predicate over what the harness observed on the real code.

  "For every value of a struct built from the supported field types …, sending it with the bundled
   HTTP client as query, form, multipart, header, cookie, JSON, XML or CBOR and binding it on the
   server from the same source yields an equal value, including under comma splitting when the
   values contain no commas. Binding arbitrary untrusted input never panics and reports failure as
   an error (a 400 when automatic handling is on)."

The round-trip clause is demanded inside an explicit, decidable well-formedness predicate of each
transport (`wfValue`): what an HTTP header / cookie / UTF-8 text format can carry at all.
-/
namespace C11
open B

inductive Transport where
  | query | form | multipart | header | cookie | json | xml | cbor
  deriving Repr, DecidableEq

/-! ### transport well-formedness of string values -/

/-- fasthttp `validHeaderValueByte`: HTAB, SP, VCHAR, obs-text. -/
def headerByteOK (c : Nat) : Bool := c == 9 || (32 ≤ c && c ≤ 126) || (128 ≤ c && c ≤ 255)

def noOuterBlank (s : Bytes) : Bool :=
  (match s.head? with | some c => c != 32 && c != 9 | none => true) &&
  (match s.getLast? with | some c => c != 32 && c != 9 | none => true)

/-- a header field value that survives fasthttp's writer and parser unchanged -/
def headerValueOK (s : Bytes) : Bool := s.all headerByteOK && noOuterBlank s

def quoted (s : Bytes) : Bool := decide (s.length > 1) && s.head? == some 34 && s.getLast? == some 34

/-- a cookie value that survives `SetCookie` + the request cookie scanner unchanged -/
def cookieValueOK (s : Bytes) : Bool :=
  s.all headerByteOK && noOuterBlank s && !s.contains 59 && !quoted s

/-- UTF-8 decoder (RFC 3629; as Go's `utf8.Valid`: no overlongs, no surrogates, ≤ U+10FFFF). -/
def utf8Decode : Bytes → Option (List Nat)
  | [] => some []
  | c :: rest =>
    let cont (x : Nat) : Bool := 128 ≤ x && x < 192
    if c < 128 then (utf8Decode rest).map (c :: ·)
    else if 194 ≤ c ∧ c < 224 then
      match rest with
      | c1 :: r1 => if cont c1 then (utf8Decode r1).map (((c - 192) * 64 + (c1 - 128)) :: ·) else none
      | _ => none
    else if 224 ≤ c ∧ c < 240 then
      match rest with
      | c1 :: c2 :: r2 =>
        let cp := (c - 224) * 4096 + (c1 - 128) * 64 + (c2 - 128)
        if cont c1 && cont c2 && decide (2048 ≤ cp) && !(decide (55296 ≤ cp) && decide (cp ≤ 57343)) then
          (utf8Decode r2).map (cp :: ·) else none
      | _ => none
    else if 240 ≤ c ∧ c < 245 then
      match rest with
      | c1 :: c2 :: c3 :: r3 =>
        let cp := (c - 240) * 262144 + (c1 - 128) * 4096 + (c2 - 128) * 64 + (c3 - 128)
        if cont c1 && cont c2 && cont c3 && decide (65536 ≤ cp) && decide (cp ≤ 1114111) then
          (utf8Decode r3).map (cp :: ·) else none
      | _ => none
    else none
termination_by s => s.length

def validUTF8 (s : Bytes) : Bool := (utf8Decode s).isSome

/-- encoding/xml `isInCharacterRange` (others are replaced by U+FFFD on output). -/
def xmlCharOK (r : Nat) : Bool :=
  r == 9 || r == 10 || r == 13 || (32 ≤ r && r ≤ 55295) || (57344 ≤ r && r ≤ 65533) || (65536 ≤ r && r ≤ 1114111)

def xmlTextOK (s : Bytes) : Bool :=
  match utf8Decode s with
  | some cps => cps.all xmlCharOK
  | none => false

def finiteFloatText (t : Bytes) : Bool := !(t = b "NaN" || t = b "+Inf" || t = b "-Inf")

/-- what one value must satisfy for the transport to be able to carry it -/
def wfVal : Transport → Val → Bool
  | .header, .str s => headerValueOK s
  | .cookie, .str s => cookieValueOK s
  | .json, .str s => validUTF8 s
  | .cbor, .str s => validUTF8 s
  | .xml, .str s => xmlTextOK s
  | .json, .float t => finiteFloatText t
  | .xml, .float t => finiteFloatText t
  | .cbor, .float t => finiteFloatText t
  | _, _ => true

/-- every byte of every string is a byte -/
def bytesOK : Val → Bool
  | .str s => s.all (· < 256)
  | _ => true

def wfStruct (t : Transport) (st : Struct) : Bool :=
  st.all fun f => f.vals.all fun v => wfVal t v && bytesOK v

def hasComma : Val → Bool
  | .str s => s.contains 44
  | _ => false

def noCommas (st : Struct) : Bool := st.all fun f => f.vals.all fun v => !hasComma v

/-- K1 region (known finding): the cookie source with a slice of two or more elements — the
    client's `Cookie` store is a `map[string]string`, it cannot hold two values of one name. -/
def multiValuedSlice (st : Struct) : Bool := st.any fun f => decide (f.vals.length ≥ 2)

/-- what the K1 defect leaves of a field: the cookie map keeps only the last element of a slice -/
def Field.lastOnly (f : Field) : Field :=
  { spec := f.spec, vals := match f.vals.getLast? with | some v => [v] | none => [] }

/-- the struct the server receives from the cookie source (equal to the struct sent iff no slice has
    two or more elements, `lastOnly_id`) -/
def lastOnly (st : Struct) : Struct := st.map Field.lastOnly

/-- `EnableSplittingOnParsers` is consulted by the query, form (urlencoded and multipart), header and
    cookie binders only; the JSON / XML / CBOR decoders never split. -/
def splitApplies : Transport → Bool
  | .json | .xml | .cbor => false
  | _ => true

/-! ### what the struct's tags must look like (checked by the driver on every case) -/

/-- an alias every transport can carry as a key: non-empty, ASCII letters / digits / '-' -/
def aliasOK (a : Bytes) : Bool := !a.isEmpty && a.all fun c => isAlpha c || isDigit c || c == 45

def nodupB : List Bytes → Bool
  | [] => true
  | x :: xs => !xs.contains x && nodupB xs

/-- client and server read the same alias for a field; aliases differ pairwise even ignoring case -/
def specsOK (specs : List FieldSpec) : Bool :=
  specs.all (fun f => aliasOK f.calias && f.salias == f.calias) &&
  nodupB (specs.map fun f => toLower f.salias)

/-! ### observation and spec -/

structure Obs where
  panicked : Bool
  ran : Bool                 -- the request reached the handler
  sendErr : Bool             -- the client refused to send (encoder error)
  dec : List (List Val)      -- decoded struct, field by field
  err : Bool                 -- the binder returned an error
  code : Nat                 -- `*fiber.Error` code of that error (0 = other error type)
  status : Nat               -- HTTP status the client saw

def structVals (st : Struct) : List (List Val) := st.map (·.vals)

/-- error reporting clause: an error is visible to the client as ≥ 400, and is a 400 under
    automatic handling. `allow422`: the request's content type selects no decoder — then (and only
    then) `Body` documents `ErrUnprocessableEntity` (422) as the outcome. -/
def reportOK (auto allow422 : Bool) (o : Obs) : Option String :=
  if !o.err then none
  else if allow422 ∧ o.code = 422 ∧ o.status = 422 then none
  else if auto ∧ ¬ (o.code = 400 ∧ o.status = 400) then some "failure-is-400-under-auto-handling"
  else if o.status < 400 then some "failure-reported-as-error"
  else none

/-- the round-trip clause on one observed round trip -/
def specRoundTrip (t : Transport) (split auto : Bool) (st : Struct) (o : Obs) : Option String :=
  if o.panicked then some "never-panics"
  else if wfStruct t st && (!(split && splitApplies t) || noCommas st) then
    if o.sendErr then some "roundtrip-client-sends"
    else if !o.ran then some "roundtrip-arrives"
    else if o.err then some "roundtrip-no-error"
    else if o.status ≠ 200 then some "roundtrip-status"
    -- last: the one clause known finding K1 trips, so that it hides no other clause
    else if o.dec ≠ structVals st then some "roundtrip-equal-value"
    else none
  else reportOK auto false o

/-! ### inputs that cannot be bound: they must come back as an error, never as a silent success -/

/-- square brackets balance (never more `]` than `[` so far, none left open) -/
def balancedAux : Bytes → Nat → Bool
  | [], n => n == 0
  | c :: cs, n =>
    if c == 91 then balancedAux cs (n + 1)
    else if c == 93 then (if n == 0 then false else balancedAux cs (n - 1))
    else balancedAux cs n

/-- a key written in bracket notation (`a[b][]`) whose brackets do not balance is malformed -/
def malformedKey (k : Bytes) : Bool := k.contains 91 && !balancedAux k 0

/-- literals of the integer / bool / float kinds, as Go's strconv reads them. A float text is no
    literal when it is malformed or its value lies beyond the largest finite number of the field's
    width (`ParseFloat` reports `ErrRange`); texts outside the modelled grammar (underscores,
    hexadecimal mantissas) are not judged. -/
def literalOK : Kind → Bytes → Bool
  | .int bits, t => (parseInt bits t).isSome
  | .uint bits, t => (parseUint bits t).isSome
  | .bool, t => (parseBool t).isSome
  | .float bits, t => parseFloat bits t != some none
  | _, _ => true

/-- A scalar integer / bool / float field receives, under its alias (one spelling, no bracket or dotted key
    anywhere in the input that could also address it), a last value that is non-empty and no literal
    of its type: the input cannot be bound into the struct. -/
def unparsableScalar (specs : List FieldSpec) (pairs : List (Bytes × Bytes)) : Bool :=
  !pairs.any (fun kv => kv.1.contains 91 || kv.1.contains 93 || kv.1.contains 46) &&
  specs.any fun f =>
    !f.isSlice &&
    let hits := pairs.filter fun kv => toLower kv.1 == toLower f.salias
    hits.all (fun kv => kv.1 == (hits.head?.map (·.1)).getD []) &&
    match hits.getLast? with
    | some kv => !kv.2.isEmpty && !literalOK f.kind kv.2
    | none => false

/-- which clause, if any, says this raw input must be refused.
    `brackets`: the source reads bracket notation (query, form); `toStruct`: the target is the struct. -/
def mustFail (specs : List FieldSpec) (brackets toStruct : Bool) (pairs : List (Bytes × Bytes)) : Option String :=
  if brackets && pairs.any (fun kv => malformedKey kv.1) then some "unbalanced-brackets-is-error"
  else if toStruct && unparsableScalar specs pairs then some "unparsable-value-is-error"
  else none

/-- the totality clause on one raw binding; `refuse` = `mustFail` of the input -/
def specTotal (auto allow422 : Bool) (o : Obs) (refuse : Option String := none) : Option String :=
  if o.panicked then some "never-panics"
  else match refuse with
    | some clause => if !o.err then some clause else reportOK auto allow422 o
    | none => reportOK auto allow422 o

end C11
