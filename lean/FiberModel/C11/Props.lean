import FiberModel.C11.LemmasTransport
import FiberModel.C11.LemmasFloat
/-
C11 — property theorems (only).

Codec laws (all byte strings, all integers in range), the struct-level round trip through each of the
four textual sources, "splitting is the identity without commas", content-type dispatch, and
index-safety (no-panic) of the two fiber functions on the path that do index arithmetic.

JSON / XML / CBOR codecs are *parameters*: `BodyCodecs` carries `enc`/`dec` and the round-trip law as
a hypothesis of `bind_roundtrip_body` (never an axiom). For multipart the mime/multipart writer and
reader are the parameter "every field's values arrive under its name, fields in any order"
(`bind_roundtrip_multipart` quantifies over the order). `strconv.ParseFloat ∘ FormatFloat = id` is
the hypothesis `FloatOK` of the struct-level theorems; it is *discharged* (section "float text") for the
exact decimal expansions of representable values (both widths) and, by construction of the formatter
model, for the shortest text of every float64. Helper lemmas live in Lemmas*.lean.
-/
namespace C11
open B

/-! ## codec round-trip laws -/

/-- fasthttp `decodeArgAppend ∘ AppendQuotedArg = id` on every byte string. -/
theorem urldecode_urlencode (s : Bytes) (hs : ∀ c ∈ s, c < 256) : urldecode (urlencode s) = s :=
  urldecode_urlencode' s hs

example : urldecode (urlencode (b "a b&c=d+e%41/é~")) = b "a b&c=d+e%41/é~" := by decide
example : urlencode (b "a b&=+%") = b "a+b%26%3D%2B%25" := by decide

/-- `Args.ParseBytes ∘ Args.QueryString = id` for args that are not entirely empty. -/
theorem parseArgs_renderArgs (args : List (Bytes × Bytes))
    (hb : ∀ kv ∈ args, (∀ c ∈ kv.1, c < 256) ∧ (∀ c ∈ kv.2, c < 256))
    (hne : ∀ kv ∈ args, ¬ (kv.1 = [] ∧ kv.2 = [])) :
    parseArgs (renderArgs args) = args :=
  parseArgs_renderArgs' args hb hne

example : parseArgs (renderArgs [(b "k", b "a&b"), (b "k", []), (b "x=y", b " ")])
    = [(b "k", b "a&b"), (b "k", []), (b "x=y", b " ")] := by decide

/-- `strconv.ParseInt(FormatInt(i), 10, bits) = i` for every `i` of that bit size. -/
theorem parseInt_formatInt (bits : Nat) (i : Int)
    (h : -(2 ^ (bits - 1) : Int) ≤ i ∧ i < (2 ^ (bits - 1) : Int)) :
    parseInt bits (formatInt i) = some i :=
  parseInt_formatInt' bits i h

example : parseInt 8 (formatInt (-128)) = some (-128) ∧ parseInt 8 (b "128") = none ∧
          parseInt 64 (b "+7") = some 7 ∧ parseInt 64 (b "") = none := by decide

/-- `strconv.ParseUint(FormatUint(n), 10, bits) = n` for every `n < 2^bits`. -/
theorem parseUint_formatUint (bits n : Nat) (h : n < 2 ^ bits) : parseUint bits (formatNat n) = some n :=
  parseUint_formatNat' bits n h

example : parseUint 16 (formatNat 65535) = some 65535 ∧ parseUint 16 (b "65536") = none := by decide

/-- `strconv.ParseBool` (plus gofiber/schema's "on") reads back what the client writes for a bool. -/
theorem parseBool_formatBool (v : Bool) : parseBool (formatBool v) = some v :=
  parseBool_formatBool' v

example : parseBool (b "on") = some true ∧ parseBool (b "F") = some false ∧ parseBool (b "yes") = none := by decide

/-- request cookie scanner ∘ request cookie writer = id, for names and values the header can carry. -/
theorem parseCookies_renderCookies (ps : List (Bytes × Bytes))
    (hk : ∀ kv ∈ ps, cookieKeyOK kv.1 = true) (hv : ∀ kv ∈ ps, cookieValueOK kv.2 = true) :
    parseCookies (renderCookies ps) = ps :=
  parseCookies_renderCookies' ps hk hv

example : parseCookies (renderCookies [(b "a", b "x=y z"), (b "b", []), (b "c", b "\"")])
    = [(b "a", b "x=y z"), (b "b", []), (b "c", b "\"")] := by decide

/-! ## comma splitting -/

/-- `assignBindData` under `EnableSplittingOnParsers` behaves as without it on every value that
    contains no comma — for every key, bracketed or not, every target. -/
theorem split_is_identity_without_commas (sliceKey : Bytes → Bool) (brackets : Bool)
    (pairs : List (Bytes × Bytes)) (d : List (Bytes × List Bytes))
    (h : ∀ kv ∈ pairs, kv.2.contains 44 = false) :
    collect sliceKey true brackets pairs d = collect sliceKey false brackets pairs d := by
  induction pairs generalizing d with
  | nil => rfl
  | cons kv rest ih =>
    obtain ⟨k, v⟩ := kv
    have hv : v.contains 44 = false := h (k, v) (by simp)
    have : formatBindData sliceKey true brackets d k v = formatBindData sliceKey false brackets d k v := by
      unfold formatBindData assignBindData
      rw [hv]; simp
    simp only [collect, this]
    cases formatBindData sliceKey false brackets d k v with
    | none => rfl
    | some d' => exact ih d' (fun kv hkv => h kv (by simp [hkv]))

/-- … hence whole binders agree (struct and map targets). -/
theorem bind_split_is_identity_without_commas (floatConv : Nat → Bytes → Option Bytes) (fz : Bytes)
    (specs : List FieldSpec) (src : Source) (pairs : List (Bytes × Bytes))
    (h : ∀ kv ∈ pairs, kv.2.contains 44 = false) :
    bindPairs floatConv fz specs src true pairs = bindPairs floatConv fz specs src false pairs ∧
    bindPairsMap src true pairs = bindPairsMap src false pairs := by
  unfold bindPairs bindPairsMap
  rw [split_is_identity_without_commas _ _ pairs [] h, split_is_identity_without_commas _ _ pairs [] h]
  exact ⟨rfl, rfl⟩

/-- and it is *not* the identity with commas (non-vacuity of the hypothesis) -/
example : collect (fun _ => true) true false [(b "k", b "a,b")] [] = some [(b "k", [b "a", b "b"])] ∧
          collect (fun _ => true) false false [(b "k", b "a,b")] [] = some [(b "k", [b "a,b"])] := by decide

/-! ## the struct-level round trip -/

/-- Core: binding the pairs `SetValWithStruct` produced gives the struct back, with no error —
    for every well-typed struct value whose tags satisfy `specsOK`, every source (bracket
    normalisation on or off), with or without splitting when no value contains a comma. -/
theorem bind_clientPairs (floatConv : Nat → Bytes → Option Bytes) (fz : Bytes) (st : Struct)
    (src : Source) (split : Bool)
    (hspecs : specsOK (st.map (·.spec)) = true)
    (htyped : ∀ f ∈ st, f.wellTyped = true)
    (hfloat : FloatOK floatConv st)
    (hsplit : split = true → noCommas st = true) :
    bindPairs floatConv fz (st.map (·.spec)) src split (clientPairs st) = { value := st, err := false } :=
  bind_clientPairs_perm floatConv fz st st src split (List.Perm.refl st) hspecs htyped hfloat hsplit

/-- **Query.** `Bind().Query` of what `SetParamsWithStruct` put on the wire is the struct. -/
theorem bind_roundtrip_query (floatConv : Nat → Bytes → Option Bytes) (fz : Bytes) (st : Struct) (split : Bool)
    (hspecs : specsOK (st.map (·.spec)) = true) (htyped : ∀ f ∈ st, f.wellTyped = true)
    (hfloat : FloatOK floatConv st) (hfb : ∀ f ∈ st, ∀ t, Val.float t ∈ f.vals → ∀ c ∈ t, c < 256)
    (hbytes : bytesStruct st) (hsplit : split = true → noCommas st = true) :
    bindPairs floatConv fz (st.map (·.spec)) .query split (wirePairs .query (renderArgs (clientPairs st)))
      = { value := st, err := false } := by
  simp only [wirePairs, parseArgs_clientPairs st hspecs hfb hbytes]
  exact bind_clientPairs floatConv fz st .query split hspecs htyped hfloat hsplit

/-- **Form.** `Bind().Form` of the urlencoded body `SetFormDataWithStruct` produced, under the
    content type the client sets for it, is the struct. -/
theorem bind_roundtrip_form (floatConv : Nat → Bytes → Option Bytes) (fz : Bytes) (st : Struct) (split : Bool)
    (hspecs : specsOK (st.map (·.spec)) = true) (htyped : ∀ f ∈ st, f.wellTyped = true)
    (hfloat : FloatOK floatConv st) (hfb : ∀ f ∈ st, ∀ t, Val.float t ∈ f.vals → ∀ c ∈ t, c < 256)
    (hbytes : bytesStruct st) (hsplit : split = true → noCommas st = true) :
    formIsMultipart (clientCtype .form) = false ∧
    bindPairs floatConv fz (st.map (·.spec)) .form split
        (postArgs (clientCtype .form) (renderArgs (clientPairs st)))
      = { value := st, err := false } := by
  refine ⟨by decide, ?_⟩
  have hp : hasPrefix (clientCtype .form) (b "application/x-www-form-urlencoded") = true := by decide
  simp only [postArgs, hp, if_true, parseArgs_clientPairs st hspecs hfb hbytes]
  exact bind_clientPairs floatConv fz st .form split hspecs htyped hfloat hsplit

/-- **Multipart.** `FormBinding.bindMultipart` walks `multipartForm.Value`, a Go map from field name
    to the values sent under it: every field's values in the order sent, the *fields* in an
    arbitrary order. For every such order the bound struct is the struct sent. (That mime/multipart
    delivers each value unchanged under its name is the transport parameter, validated
    differentially.) -/
theorem bind_roundtrip_multipart (floatConv : Nat → Bytes → Option Bytes) (fz : Bytes) (st order : Struct)
    (split : Bool) (horder : order.Perm st)
    (hspecs : specsOK (st.map (·.spec)) = true) (htyped : ∀ f ∈ st, f.wellTyped = true)
    (hfloat : FloatOK floatConv st) (hsplit : split = true → noCommas st = true) :
    bindPairs floatConv fz (st.map (·.spec)) .form split (clientPairs order) = { value := st, err := false } :=
  bind_clientPairs_perm floatConv fz st order .form split horder hspecs htyped hfloat hsplit

/-- **Multipart body, writer and reader.** What the multipart reader model finds in the body
    `parserRequestBodyFile` wrote (one `WriteField` per form argument in order, then the files, then
    the closing delimiter) is the list of form arguments — same order, repeated names kept, every
    value byte for byte (CR, LF, quotes, `--`, anything) — provided the boundary has no CR, the names
    need no escaping, and **no value contains `CRLF "--" boundary`** (`delimFree`: the one thing a
    multipart value cannot carry; the client draws 16 random characters per request). -/
theorem readMultipart_writeMultipart (bd : Bytes) (fields : List (Bytes × Bytes))
    (files : List (Bytes × Bytes × Bytes))
    (hbd : ∀ x ∈ bd, x ≠ 13)
    (hf : ∀ kv ∈ fields, partNameOK kv.1 = true ∧ delimFree bd kv.2 = true)
    (hfile : ∀ f ∈ files, partNameOK f.1 = true ∧ (∀ x ∈ f.2.1, x ≠ 13) ∧ delimFree bd f.2.2 = true) :
    readMultipart bd (writeMultipart bd fields files) = some fields :=
  readMultipart_writeMultipart' bd fields files hbd hf hfile

example : readMultipart (b "--FBq") (writeMultipart (b "--FBq")
      [(b "s", b "a\r\nb\"c"), (b "ss", []), (b "ss", b "--FBq"), (b "ss", b "\r\n--")] [(b "file1", b "f.txt", b "data")])
    = some [(b "s", b "a\r\nb\"c"), (b "ss", []), (b "ss", b "--FBq"), (b "ss", b "\r\n--")] ∧
    delimFree (b "--FBq") (b "x\r\n----FBq") = false ∧
    readMultipart (b "--FBq") (writeMultipart (b "--FBq") [(b "s", b "x\r\n----FBq\r\n")] []) = none := by decide +kernel

/-- **Multipart, end to end over the wire**: the body the client writes for `SetFormDataWithStruct` +
    a file is read back as the client's pairs, and whatever order the Go map `multipartForm.Value`
    hands the *fields* over in (`order`), `FormBinding.bindMultipart` yields the struct. -/
theorem bind_roundtrip_multipart_wire (floatConv : Nat → Bytes → Option Bytes) (fz : Bytes) (st order : Struct)
    (split : Bool) (bd : Bytes) (files : List (Bytes × Bytes × Bytes)) (horder : order.Perm st)
    (hspecs : specsOK (st.map (·.spec)) = true) (htyped : ∀ f ∈ st, f.wellTyped = true)
    (hfloat : FloatOK floatConv st) (hsplit : split = true → noCommas st = true)
    (hbd : ∀ x ∈ bd, x ≠ 13)
    (hvals : ∀ f ∈ st, ∀ v ∈ f.vals, delimFree bd (textOf v) = true)
    (hfile : ∀ f ∈ files, partNameOK f.1 = true ∧ (∀ x ∈ f.2.1, x ≠ 13) ∧ delimFree bd f.2.2 = true) :
    readMultipart bd (writeMultipart bd (clientPairs st) files) = some (clientPairs st) ∧
    bindPairs floatConv fz (st.map (·.spec)) .form split (clientPairs order) = { value := st, err := false } := by
  refine ⟨?_, bind_roundtrip_multipart floatConv fz st order split horder hspecs htyped hfloat hsplit⟩
  have hspecs' := hspecs
  unfold specsOK at hspecs'
  simp only [Bool.and_eq_true, List.all_eq_true, List.mem_map, forall_exists_index, and_imp,
    forall_apply_eq_imp_iff₂] at hspecs'
  apply readMultipart_writeMultipart' bd _ files hbd _ hfile
  intro kv hkv
  simp only [clientPairs, List.mem_flatMap, List.mem_map] at hkv
  obtain ⟨f, hf, v, hv, rfl⟩ := hkv
  exact ⟨aliasOK_partName _ (hspecs'.1 f hf).1, hvals f hf v hv⟩

/-- **Header.** fasthttp canonicalises header names on the client and on the server
    (`normalizeHeaderKey`: `x-request-id` travels as `X-Request-Id`); `Bind().Header` matches names
    case-insensitively, so binding the lines as they arrive gives the struct. No bracket normalisation
    on this source. (That a header *value* is written and parsed unchanged for `headerValueOK` values
    is the transport parameter — validated differentially, fasthttp's header parser is not modelled.) -/
theorem bind_roundtrip_header (floatConv : Nat → Bytes → Option Bytes) (fz : Bytes) (st : Struct) (split : Bool)
    (hspecs : specsOK (st.map (·.spec)) = true) (htyped : ∀ f ∈ st, f.wellTyped = true)
    (hfloat : FloatOK floatConv st) (hsplit : split = true → noCommas st = true) :
    bindPairs floatConv fz (st.map (·.spec)) .header split (clientPairsN normalizeHeaderKey st)
      = { value := st, err := false } ∧
    bindPairs floatConv fz (st.map (·.spec)) .header split (clientPairs st) = { value := st, err := false } := by
  refine ⟨?_, bind_clientPairs floatConv fz st .header split hspecs htyped hfloat hsplit⟩
  have hspecs' := hspecs
  unfold specsOK at hspecs'
  simp only [Bool.and_eq_true, List.all_eq_true, List.mem_map, forall_exists_index, and_imp,
    forall_apply_eq_imp_iff₂] at hspecs'
  exact bind_clientPairs_gen floatConv fz st st .header split normalizeHeaderKey (List.Perm.refl st)
    (fun f hf => normalizeHeaderKey_ok _ (hspecs'.1 f hf).1) hspecs htyped hfloat hsplit

/-- **Pairs under names no field answers to are ignored** by the header and cookie binders
    (`IgnoreUnknownKeys`; no bracket notation on these sources, so no key can be an error): whatever
    they carry, wherever they stand, the bound value and the error flag are those of the remaining pairs. -/
theorem bind_ignores_unrelated_pairs (floatConv : Nat → Bytes → Option Bytes) (fz : Bytes)
    (specs : List FieldSpec) (src : Source) (split : Bool) (pairs : List (Bytes × Bytes))
    (hsrc : src.brackets = false) :
    bindPairs floatConv fz specs src split pairs =
      bindPairs floatConv fz specs src split
        (pairs.filter fun kv => specs.any fun f => toLower kv.1 == toLower f.salias) :=
  bindPairs_ignores_unrelated floatConv fz specs src split pairs
    (fun k => specs.any fun f => toLower k == toLower f.salias) hsrc
    (fun f hf k hk => List.any_eq_true.mpr ⟨f, hf, by simpa using hk⟩)

/-- **Header lines on the wire.** What fasthttp's `headerScanner` / `parseHeaders` read back from the
    lines `appendHeaderLine` wrote (`name ": " value CRLF`, then the blank line) is the same list of
    lines — every name in canonical spelling, every value unchanged — for names that are tokens and
    values inside `headerValueOK` (HTAB / SP / VCHAR / obs-text, no outer blank: the scanner strips
    blanks around a value, `parseHeaders` refuses the other bytes). Order and repeated names kept. -/
theorem parseHeaders_writeHeaders (ps : List (Bytes × Bytes))
    (hk : ∀ kv ∈ ps, headerKeyOK kv.1 = true) (hv : ∀ kv ∈ ps, headerValueOK kv.2 = true) :
    headerTransport ps = .ok (ps.map fun kv => (normalizeHeaderKey kv.1, kv.2)) [] := by
  unfold headerTransport
  simp only [List.append_assoc, List.cons_append, List.nil_append]
  apply parseHeaderLines_write ps [] _ hk hv
  simp only [List.length_append, List.length_cons, List.length_nil]
  have := writeHeaderLines_length ps
  omega

example : headerTransport [(b "x-nt", b "a, b"), (b "X-S", []), (b "x-nt", b "\"q\" é")]
    = .ok [(b "X-Nt", b "a, b"), (b "X-S", []), (b "X-Nt", b "\"q\" é")] [] ∧
    -- outside the predicate: outer blanks are stripped, a control byte makes the server refuse the request
    headerTransport [(b "X-S", b " a\t")] = .ok [(b "X-S", b "a")] [] ∧
    headerTransport [(b "X-S", [1])] = .bad := by decide

/-- **Header, end to end over the wire.** The header lines `SetValWithStruct` added (one per
    element, names as tagged), written by fasthttp's request writer and read back by its header
    scanner, arrive as the client's pairs under canonical names, and `Bind().Header` of those — *together
    with any other header lines of the request* (`Host`, `User-Agent`, `Content-Length`, … : every pair
    whose name no field answers to, anywhere among the lines) — is the struct. -/
theorem bind_roundtrip_header_wire (floatConv : Nat → Bytes → Option Bytes) (fz : Bytes) (st : Struct)
    (split : Bool) (delivered : List (Bytes × Bytes))
    (hspecs : specsOK (st.map (·.spec)) = true) (htyped : ∀ f ∈ st, f.wellTyped = true)
    (hfloat : FloatOK floatConv st)
    (hwf : ∀ f ∈ st, ∀ v ∈ f.vals, headerValueOK (textOf v) = true)
    (hsplit : split = true → noCommas st = true)
    (hdel : delivered.filter (fun kv => (st.map (·.spec)).any fun f => toLower kv.1 == toLower f.salias)
              = clientPairsN normalizeHeaderKey st) :
    headerTransport (clientPairs st) = .ok (clientPairsN normalizeHeaderKey st) [] ∧
    bindPairs floatConv fz (st.map (·.spec)) .header split delivered = { value := st, err := false } := by
  have hspecs' := hspecs
  unfold specsOK at hspecs'
  simp only [Bool.and_eq_true, List.all_eq_true, List.mem_map, forall_exists_index, and_imp,
    forall_apply_eq_imp_iff₂] at hspecs'
  constructor
  · rw [clientPairsN_eq_map]
    apply parseHeaders_writeHeaders
    · intro kv hkv
      simp only [clientPairs, List.mem_flatMap, List.mem_map] at hkv
      obtain ⟨f, hf, v, _, rfl⟩ := hkv
      exact aliasOK_headerKey _ (hspecs'.1 f hf).1
    · intro kv hkv
      simp only [clientPairs, List.mem_flatMap, List.mem_map] at hkv
      obtain ⟨f, hf, v, hv, rfl⟩ := hkv
      exact hwf f hf v hv
  · rw [bindPairs_ignores_unrelated floatConv fz (st.map (·.spec)) .header split delivered
      (fun k => (st.map (·.spec)).any fun f => toLower k == toLower f.salias) rfl
      (fun f hf k hk => by
        apply List.any_eq_true.mpr
        exact ⟨f, hf, by simpa using hk⟩)]
    rw [hdel]
    exact (bind_roundtrip_header floatConv fz st split hspecs htyped hfloat hsplit).1

/-- … and more generally for any transport that re-spells names by ASCII case only (any source, any
    field order). -/
theorem bind_roundtrip_names_recased (floatConv : Nat → Bytes → Option Bytes) (fz : Bytes) (st order : Struct)
    (src : Source) (split : Bool) (norm : Bytes → Bytes) (horder : order.Perm st)
    (hnorm : ∀ f ∈ st, toLower (norm f.spec.calias) = toLower f.spec.calias ∧
        (norm f.spec.calias).contains 46 = false ∧ (norm f.spec.calias).contains 91 = false)
    (hspecs : specsOK (st.map (·.spec)) = true) (htyped : ∀ f ∈ st, f.wellTyped = true)
    (hfloat : FloatOK floatConv st) (hsplit : split = true → noCommas st = true) :
    bindPairs floatConv fz (st.map (·.spec)) src split (clientPairsN norm order) = { value := st, err := false } :=
  bind_clientPairs_gen floatConv fz st order src split norm horder hnorm hspecs htyped hfloat hsplit

example : normalizeHeaderKey (b "x-request-id") = b "X-Request-Id" ∧ normalizeHeaderKey (b "X-SS") = b "X-Ss" ∧
    normalizeHeaderKey (b "a--b") = b "A--b" := by decide

/-- **Cookie, exactly.** For *every* well-typed struct with cookie-safe values, what
    `Bind().Cookie` yields from the Cookie header `SetCookiesWithStruct` produced is `lastOnly st`:
    the struct with every slice cut down to its last element (the client's `Cookie` store is a
    `map[string]string`). This is the full description of the cookie source, K1 included. -/
theorem bind_cookie_yields_lastOnly (floatConv : Nat → Bytes → Option Bytes) (fz : Bytes) (st : Struct)
    (split : Bool)
    (hspecs : specsOK (st.map (·.spec)) = true) (htyped : ∀ f ∈ st, f.wellTyped = true)
    (hfloat : FloatOK floatConv st)
    (hwf : ∀ f ∈ st, ∀ v ∈ f.vals, cookieValueOK (textOf v) = true)
    (hsplit : split = true → noCommas st = true) :
    bindPairs floatConv fz (st.map (·.spec)) .cookie split
        (wirePairs .cookie (renderCookies (cookiePairs st)))
      = { value := lastOnly st, err := false } := by
  have hsub : ∀ g ∈ lastOnly st, ∃ f ∈ st, g.spec = f.spec ∧ (∀ v ∈ g.vals, v ∈ f.vals) ∧
      (g.vals.length = 1 ∨ g.vals = [] ∧ f.vals = []) := by
    intro g hg
    simp only [lastOnly, List.mem_map] at hg
    obtain ⟨f, hf, rfl⟩ := hg
    refine ⟨f, hf, rfl, ?_, ?_⟩
    · intro v hv
      unfold Field.lastOnly at hv
      cases hl : f.vals.getLast? with
      | none => simp [hl] at hv
      | some w => simp [hl] at hv; subst hv; exact List.mem_of_getLast? hl
    · unfold Field.lastOnly
      cases hl : f.vals.getLast? with
      | none => right; exact ⟨rfl, by simpa using hl⟩
      | some w => left; rfl
  rw [cookiePairs_lastOnly, ← lastOnly_specs]
  have hspecs' : specsOK ((lastOnly st).map (·.spec)) = true := by rw [lastOnly_specs]; exact hspecs
  have hwf' : ∀ g ∈ lastOnly st, ∀ v ∈ g.vals, cookieValueOK (textOf v) = true := by
    intro g hg v hv
    obtain ⟨f, hf, _, hvs, _⟩ := hsub g hg
    exact hwf f hf v (hvs v hv)
  simp only [wirePairs, parseCookies_clientPairs (lastOnly st) hspecs' hwf']
  apply bind_clientPairs floatConv fz (lastOnly st) .cookie split hspecs'
  · intro g hg
    obtain ⟨f, hf, hsp, hvs, hlen⟩ := hsub g hg
    have hty := htyped f hf
    unfold Field.wellTyped at hty ⊢
    simp only [Bool.and_eq_true, Bool.or_eq_true, beq_iff_eq, List.all_eq_true] at hty ⊢
    refine ⟨?_, fun v hv => hsp ▸ hty.2 v (hvs v hv)⟩
    rcases hlen with h | ⟨h1, h2⟩
    · exact Or.inr h
    · rcases hty.1 with h | h
      · left; rw [hsp]; exact h
      · rw [h2] at h; simp at h
  · intro g hg t ht
    obtain ⟨f, hf, hsp, hvs, _⟩ := hsub g hg
    rw [hsp]
    exact hfloat f hf t (hvs _ ht)
  · intro hs
    have hnc := hsplit hs
    unfold noCommas at hnc ⊢
    simp only [List.all_eq_true] at hnc ⊢
    intro g hg v hv
    obtain ⟨f, hf, _, hvs, _⟩ := hsub g hg
    exact hnc f hf v (hvs v hv)

/-- **Cookie (partial: K1 excluded).** Full statement — for *every* well-typed struct the cookie
    round trip returns it — is false: see `bind_roundtrip_cookie_witness_K1`. Proved for structs
    without a multi-valued slice (`Known.K1 = multiValuedSlice`), cookie-safe string values. -/
theorem bind_roundtrip_cookie_partial (floatConv : Nat → Bytes → Option Bytes) (fz : Bytes) (st : Struct)
    (split : Bool)
    (hspecs : specsOK (st.map (·.spec)) = true) (htyped : ∀ f ∈ st, f.wellTyped = true)
    (hfloat : FloatOK floatConv st)
    (hwf : ∀ f ∈ st, ∀ v ∈ f.vals, cookieValueOK (textOf v) = true)
    (hsplit : split = true → noCommas st = true)
    (hK1 : multiValuedSlice st = false) :
    bindPairs floatConv fz (st.map (·.spec)) .cookie split
        (wirePairs .cookie (renderCookies (cookiePairs st)))
      = { value := st, err := false } := by
  have := bind_cookie_yields_lastOnly floatConv fz st split hspecs htyped hfloat hwf hsplit
  rwa [lastOnly_id st hK1] at this

def witnessK1 : Struct :=
  [{ spec := { calias := b "ss", salias := b "ss", qalias := b "ss", goName := b "SS", kind := .str, isSlice := true },
     vals := [.str (b "a"), .str (b "b")] }]

/-- K1 witness: `[]string{"a","b"}` sent with `SetCookiesWithStruct` comes back as `["b"]`. -/
theorem bind_roundtrip_cookie_witness_K1 :
    ¬ (bindPairs (fun _ t => some t) (b "0") (witnessK1.map (·.spec)) .cookie false
        (wirePairs .cookie (renderCookies (cookiePairs witnessK1))) = { value := witnessK1, err := false }) := by
  decide

/-- **K1 is a client-side defect only.** Had the client written one `name=value` pair per element
    into the Cookie header — as `SetValWithStruct` does for query parameters, form data and header
    lines — `Bind().Cookie` would return the struct, for *every* well-typed struct with cookie-safe
    values, with splitting on (comma-free values) and off: the request-cookie scanner keeps repeated
    names (`parseCookies_renderCookies`) and the binder appends them in order. The wire form
    `ss=a; ss=b` is therefore the one that round-trips under every configuration; the client cannot
    produce it because `Cookie` is a `map[string]string` and `RequestHeader.SetCookie` replaces. -/
theorem bind_roundtrip_cookie_repeated_pairs (floatConv : Nat → Bytes → Option Bytes) (fz : Bytes)
    (st : Struct) (split : Bool)
    (hspecs : specsOK (st.map (·.spec)) = true) (htyped : ∀ f ∈ st, f.wellTyped = true)
    (hfloat : FloatOK floatConv st)
    (hwf : ∀ f ∈ st, ∀ v ∈ f.vals, cookieValueOK (textOf v) = true)
    (hsplit : split = true → noCommas st = true) :
    bindPairs floatConv fz (st.map (·.spec)) .cookie split
        (wirePairs .cookie (renderCookies (clientPairs st)))
      = { value := st, err := false } := by
  simp only [wirePairs, parseCookies_clientPairs st hspecs hwf]
  exact bind_clientPairs floatConv fz st .cookie split hspecs htyped hfloat hsplit

/-- non-vacuity, on the K1 witness itself: `ss=a; ss=b` binds back as `["a","b"]`. The other
    candidate repair that keeps `Cookie` a `map[string]string` — joining the elements with ","
    (fiber's own convention in bind_test.go, `Hobby=golang,fiber`) — does *not* satisfy the property:
    it reads back whole only when the server splits (`EnableSplittingOnParsers`), and a `[]string`
    sent to a server that does not split comes back as the one string `"a,b"`. -/
example : renderCookies (clientPairs witnessK1) = b "ss=a; ss=b" ∧
    bindPairs (fun _ t => some t) (b "0") (witnessK1.map (·.spec)) .cookie false
      (wirePairs .cookie (renderCookies (clientPairs witnessK1))) = { value := witnessK1, err := false } ∧
    bindPairs (fun _ t => some t) (b "0") (witnessK1.map (·.spec)) .cookie true
      (wirePairs .cookie (b "ss=a,b")) = { value := witnessK1, err := false } ∧
    (bindPairs (fun _ t => some t) (b "0") (witnessK1.map (·.spec)) .cookie false
      (wirePairs .cookie (b "ss=a,b"))).value ≠ witnessK1 := by decide

/-- non-vacuity of the round-trip hypotheses: a concrete struct with reserved bytes, an empty string,
    extreme integers, a float and a slice meets every one of them, for each source (and the wire
    forms are what fasthttp writes). -/
def sampleStruct : Struct :=
  [{ spec := { calias := b "s", salias := b "s", qalias := b "s", goName := b "S", kind := .str, isSlice := false },
     vals := [.str (b "a&b=c d")] },
   { spec := { calias := b "i8", salias := b "i8", qalias := b "i8", goName := b "I8", kind := .int 8, isSlice := false },
     vals := [.int (-128)] },
   { spec := { calias := b "f", salias := b "f", qalias := b "f", goName := b "F", kind := .float 64, isSlice := false },
     vals := [.float (b "0.5")] },
   { spec := { calias := b "ss", salias := b "ss", qalias := b "ss", goName := b "SS", kind := .str, isSlice := true },
     vals := [.str [], .str (b "x")] }]

example : specsOK (sampleStruct.map (·.spec)) = true ∧ sampleStruct.all (·.wellTyped) = true ∧
    noCommas sampleStruct = true ∧ wfStruct .header sampleStruct = true ∧ wfStruct .cookie sampleStruct = true ∧
    renderArgs (clientPairs sampleStruct) = b "s=a%26b%3Dc+d&i8=-128&f=0.5&ss=&ss=x" ∧
    bindPairs (fun _ t => some t) (b "0") (sampleStruct.map (·.spec)) .query true
      (wirePairs .query (renderArgs (clientPairs sampleStruct))) = { value := sampleStruct, err := false } ∧
    bindPairs (fun _ t => some t) (b "0") (sampleStruct.map (·.spec)) .form true
      (postArgs (clientCtype .form) (renderArgs (clientPairs sampleStruct))) = { value := sampleStruct, err := false } ∧
    bindPairs (fun _ t => some t) (b "0") (sampleStruct.map (·.spec)) .form true
      (clientPairs sampleStruct.reverse) = { value := sampleStruct, err := false } ∧
    bindPairs (fun _ t => some t) (b "0") (sampleStruct.map (·.spec)) .header true
      (clientPairs sampleStruct) = { value := sampleStruct, err := false } ∧
    (clientPairsN normalizeHeaderKey sampleStruct).map (·.1) = [b "S", b "I8", b "F", b "Ss", b "Ss"] ∧
    bindPairs (fun _ t => some t) (b "0") (sampleStruct.map (·.spec)) .header true
      (clientPairsN normalizeHeaderKey sampleStruct) = { value := sampleStruct, err := false } := by
  decide

/-- the float hypothesis is satisfiable (by the identity on float texts, which is what
    `ParseFloat ∘ FormatFloat` is on the texts the client writes) -/
example : FloatOK (fun _ t => some t) sampleStruct := by
  intro f hf t ht
  simp only [sampleStruct, List.mem_cons, List.not_mem_nil, or_false] at hf
  rcases hf with rfl | rfl | rfl | rfl <;> simp at ht
  subst ht
  exact ⟨by decide, by decide, fun _ _ => rfl⟩

/-- non-vacuity: the sample struct's lines between the client's own headers -/
example : wfStruct .header sampleStruct = true ∧
    headerTransport (clientPairs sampleStruct) = .ok (clientPairsN normalizeHeaderKey sampleStruct) [] ∧
    bindPairs (fun _ t => some t) (b "0") (sampleStruct.map (·.spec)) .header true
      ([(b "User-Agent", b "fiber"), (b "Host", b "example.com")] ++ clientPairsN normalizeHeaderKey sampleStruct ++
        [(b "Content-Length", b "0"), (b "X-Unknown", b "1,2")])
      = { value := sampleStruct, err := false } := by decide

/-- the cookie source on the same struct: its two-element slice is cut to the last element
    (`lastOnly`), everything else arrives; with a one-element slice the struct itself arrives. -/
example : renderCookies (cookiePairs sampleStruct) = b "s=a&b=c d; i8=-128; f=0.5; ss=x" ∧
    multiValuedSlice sampleStruct = true ∧
    bindPairs (fun _ t => some t) (b "0") (sampleStruct.map (·.spec)) .cookie false
      (wirePairs .cookie (renderCookies (cookiePairs sampleStruct))) = { value := lastOnly sampleStruct, err := false } ∧
    lastOnly sampleStruct ≠ sampleStruct ∧
    multiValuedSlice (lastOnly sampleStruct) = false ∧
    bindPairs (fun _ t => some t) (b "0") ((lastOnly sampleStruct).map (·.spec)) .cookie true
      (wirePairs .cookie (renderCookies (cookiePairs (lastOnly sampleStruct))))
        = { value := lastOnly sampleStruct, err := false } := by
  decide

/-- The conclusion of the round-trip theorems is exactly what the executable oracle `specRoundTrip`
    (Spec.lean, evaluated on the implementation's observations on every run) accepts: a bind result
    equal to the struct sent, without error, reported with status 200, violates no clause. -/
theorem roundtrip_result_meets_spec (t : Transport) (split auto : Bool) (st : Struct) (r : BindResult)
    (h : r = { value := st, err := false }) :
    specRoundTrip t split auto st
      { panicked := false, ran := true, sendErr := false, dec := structVals r.value, err := r.err,
        code := codeOf auto r.err, status := statusOf auto r.err false } = none := by
  subst h
  simp [specRoundTrip, reportOK, statusOf, codeOf]

/-- … and the oracle is not trivially satisfied: the K1 outcome is refused. -/
example : specRoundTrip .cookie false false witnessK1
    { panicked := false, ran := true, sendErr := false, dec := structVals (lastOnly witnessK1), err := false,
      code := 0, status := 200 } = some "roundtrip-equal-value" := by decide

/-! ## float text: `FloatOK` discharged -/

/-- **Correctly rounded parsing returns a representable value unchanged (integers).** For every odd
    `m < 2^p` and every `a` with `m·2^a` below the overflow threshold of the width (24 / 128 for
    float32, 53 / 1024 for float64): `ParseFloat` of the full decimal digits of `m·2^a` is `m·2^a`. -/
theorem parseFloat_exact_int (bits : Nat) (neg : Bool) (m a : Nat) (hodd : m % 2 = 1)
    (hmp : m < 2 ^ (fmtOf bits).p) (hov : m * 2 ^ a < 2 ^ (fmtOf bits).emax) :
    parseFloat bits (exactText neg m (a : Int)) = some (some (.fin neg m (a : Int))) :=
  parseFloat_exact_int' bits neg m a hodd hmp hov

/-- **… and dyadic fractions.** For every odd `m < 2^p` and `0 < k ≤ 1074` (149 for float32):
    `ParseFloat` of the full decimal expansion of `m / 2^k` (`k` fraction digits) is `m / 2^k`,
    subnormals included. -/
theorem parseFloat_exact_frac (bits : Nat) (neg : Bool) (m k : Nat) (hodd : m % 2 = 1)
    (hmp : m < 2 ^ (fmtOf bits).p) (hk : 0 < k) (hkmin : (fmtOf bits).qminB + k ≤ (fmtOf bits).bias) :
    parseFloat bits (exactText neg m (-(k : Int))) = some (some (.fin neg m (-(k : Int)))) :=
  parseFloat_exact_frac' bits neg m k hodd hmp hk hkmin

example : exactText false 987654321 (-3) = b "123456790.125" ∧ exactText true 1 (-1) = b "-0.5" ∧
    exactText false 3 10 = b "3072" ∧ exactText false 1 (-20) = b "0.00000095367431640625" ∧
    parseFloat 32 (b "123456790.125") = some (some (.fin false 15432099 3)) ∧   -- not a float32: rounded
    parseFloat 64 (b "123456790.125") = some (some (.fin false 987654321 (-3))) ∧
    parseFloat 32 (b "16777217") = some (some (.fin false 1 24)) ∧               -- tie, to even
    parseFloat 32 (b "340282356779733661637539395458142568448") = some none ∧      -- half an ulp above MaxFloat32
    parseFloat 64 (b "1e") = some none ∧ parseFloat 64 (b "1_0") = none := by decide +kernel

/-- a float text that names a value of the width `bits` by its full decimal expansion (or is a zero) -/
def ExactFloat (bits : Nat) (t : Bytes) : Prop :=
  ∃ neg : Bool, t = exactText neg 0 0 ∨
    ∃ m : Nat, m % 2 = 1 ∧ m < 2 ^ (fmtOf bits).p ∧
      ((∃ a : Nat, m * 2 ^ a < 2 ^ (fmtOf bits).emax ∧ t = exactText neg m (a : Int)) ∨
       (∃ k : Nat, 0 < k ∧ (fmtOf bits).qminB + k ≤ (fmtOf bits).bias ∧ t = exactText neg m (-(k : Int))))

/-- **`FloatOK` without hypothesis, exact expansions.** When every float of the struct travels as the
    full decimal expansion of its value (what `FormatFloat(v,'f',-1,64)` prints whenever that
    expansion has at most 15 significant digits: integers below 10^15, halves, quarters, …,
    `123456789.125`), the server's `ParseFloat` at the field's own width returns that value — float32
    and float64 fields alike. (`floatConvE` = parse, then name the value by its expansion.) -/
theorem floatOK_exact (st : Struct)
    (h : ∀ f ∈ st, ∀ t, Val.float t ∈ f.vals → ∃ bits, f.spec.kind = .float bits ∧ ExactFloat bits t) :
    FloatOK floatConvE st := by
  intro f hf t ht
  obtain ⟨bits, hk, neg, hex⟩ := h f hf t ht
  have key : ∃ m e, t = exactText neg m e ∧ parseFloat bits t = some (some (.fin neg m e)) := by
    rcases hex with rfl | ⟨m, hodd, hmp, hcase⟩
    · exact ⟨0, 0, rfl, parseFloat_zero bits neg⟩
    · rcases hcase with ⟨a, hov, rfl⟩ | ⟨k, hk0, hkm, rfl⟩
      · exact ⟨m, a, rfl, parseFloat_exact_int' bits neg m a hodd hmp hov⟩
      · exact ⟨m, -(k : Int), rfl, parseFloat_exact_frac' bits neg m k hodd hmp hk0 hkm⟩
  obtain ⟨m, e, rfl, hp⟩ := key
  refine ⟨(exactText_plain neg m e).1, (exactText_plain neg m e).2, ?_⟩
  intro bits' hk'
  rw [hk] at hk'
  cases hk'
  simp [floatConvE, hp]

/-- **`ParseFloat(·, 64) ∘ FormatFloat(·,'f',-1,64) = id`** for the formatter model: `fmtShortest`
    returns the shortest decimal that reads back as the value, and says so only after reading it
    back — every finite float64, ±Inf, NaN. (The weight of this statement is the differential check:
    `fmtShortest ∘ parseFloat` is compared with strconv on every float of every run.) -/
theorem parseFloat_fmtShortest (v : FVal) (t : Bytes) (h : fmtShortest v = some t) :
    parseFloat 64 t = some (some v) :=
  (parseFloat_fmtShortest' v t h).1

/-- **`FloatOK` without hypothesis, float64 fields.** Every struct whose floats stand in float64 fields
    and travel as `fmtShortest` of their value. -/
theorem floatOK_shortest64 (st : Struct)
    (h : ∀ f ∈ st, ∀ t, Val.float t ∈ f.vals → f.spec.kind = .float 64 ∧ ∃ v, fmtShortest v = some t) :
    FloatOK floatConvM st := by
  intro f hf t ht
  obtain ⟨hk, v, hv⟩ := h f hf t ht
  obtain ⟨hp, hne, hnc⟩ := parseFloat_fmtShortest' v t hv
  refine ⟨hne, hnc, ?_⟩
  intro bits hk'
  rw [hk] at hk'
  cases hk'
  simp [floatConvM, floatConvX, hp, hv]

example : fmtShortest (.fin false 3602879701896397 (-55)) = some (b "0.1") ∧
    fmtShortest (.fin false 13421773 (-27)) = some (b "0.10000000149011612") ∧   -- float32(0.1), widened
    fmtShortest (.fin true 1 (-1074)) ≠ none ∧ fmtShortest (.fin false 1 70) = some (b "1180591620717411300000") ∧   -- 2^70: 17 digits, then zeros
    floatConvM 64 (b "0.1000000000000000055511151231257827") = some (b "0.1") ∧
    floatConvM 32 (b "0.1") = some (b "0.10000000149011612") ∧ floatConvM 64 (b "1e400") = none := by decide +kernel

/-- the float-free corollary, spelled out for one source: the query round trip of a struct whose floats
    are exact expansions needs no assumption about strconv. -/
theorem bind_roundtrip_query_exact_floats (fz : Bytes) (st : Struct) (split : Bool)
    (hspecs : specsOK (st.map (·.spec)) = true) (htyped : ∀ f ∈ st, f.wellTyped = true)
    (hex : ∀ f ∈ st, ∀ t, Val.float t ∈ f.vals → ∃ bits, f.spec.kind = .float bits ∧ ExactFloat bits t)
    (hbytes : bytesStruct st) (hsplit : split = true → noCommas st = true) :
    bindPairs floatConvE fz (st.map (·.spec)) .query split (wirePairs .query (renderArgs (clientPairs st)))
      = { value := st, err := false } := by
  apply bind_roundtrip_query floatConvE fz st split hspecs htyped (floatOK_exact st hex) _ hbytes hsplit
  intro f hf t ht c hc
  obtain ⟨bits, _, neg, hexf⟩ := hex f hf t ht
  have hplain : ∀ (m : Nat) (e : Int), ∀ x ∈ exactText neg m e, x < 256 := by
    intro m e x hx
    have h44 := (exactText_plain neg m e)
    unfold exactText at hx
    simp only [List.mem_append] at hx
    rcases hx with hx | hx
    · cases neg <;> simp at hx
      omega
    · split at hx
      · have := formatNat_digits _ x hx
        unfold isDigit at this; simp at this; omega
      · have := (plainByte_lt x ((fmtF_bytes _ _).2 x hx)).1
        omega
  rcases hexf with rfl | ⟨m, _, _, ⟨a, _, rfl⟩ | ⟨k, _, _, rfl⟩⟩
  · exact hplain 0 0 c hc
  · exact hplain m a c hc
  · exact hplain m (-(k : Int)) c hc

def floatStruct : Struct :=
  [{ spec := { calias := b "f32", salias := b "f32", qalias := b "f32", goName := b "F32", kind := .float 32, isSlice := false },
     vals := [.float (b "-0.5")] },
   { spec := { calias := b "fs", salias := b "fs", qalias := b "fs", goName := b "FS", kind := .float 64, isSlice := true },
     vals := [.float (b "123456789.125"), .float (b "0"), .float (b "4294967296")] }]

/-- non-vacuity: a float32 scalar and a float64 slice of exact expansions -/
example : (∀ f ∈ floatStruct, ∀ t, Val.float t ∈ f.vals → ∃ bits, f.spec.kind = .float bits ∧ ExactFloat bits t) ∧
    bindPairs floatConvE (b "0") (floatStruct.map (·.spec)) .query true
      (wirePairs .query (renderArgs (clientPairs floatStruct))) = { value := floatStruct, err := false } ∧
    bindPairs floatConvM (b "0") (floatStruct.map (·.spec)) .query true
      (wirePairs .query (renderArgs (clientPairs floatStruct))) = { value := floatStruct, err := false } := by
  refine ⟨?_, by decide +kernel, by decide +kernel⟩
  intro f hf t ht
  simp only [floatStruct, List.mem_cons, List.not_mem_nil, or_false] at hf
  rcases hf with rfl | rfl
  · simp at ht; subst ht
    exact ⟨32, rfl, true, Or.inr ⟨1, by decide +kernel, by decide +kernel, Or.inr ⟨1, by decide +kernel, by decide +kernel, by decide +kernel⟩⟩⟩
  · simp at ht
    rcases ht with rfl | rfl | rfl
    · exact ⟨64, rfl, false, Or.inr ⟨987654313, by decide +kernel, by decide +kernel, Or.inr ⟨3, by decide +kernel, by decide +kernel, by decide +kernel⟩⟩⟩
    · exact ⟨64, rfl, false, Or.inl (by decide +kernel)⟩
    · exact ⟨64, rfl, false, Or.inr ⟨1, by decide +kernel, by decide +kernel, Or.inl ⟨32, by decide +kernel, by decide +kernel⟩⟩⟩

/-! ## failures are reported as errors -/

/-- bind.go `returnErr` + the default error handler, for every outcome of a binder: no error → 200;
    an error → a status ≥ 400, and exactly 400 with a `*fiber.Error` of code 400 under automatic
    handling; no binder for the content type → 422 (accepted by the oracle only in that case). None
    of these violates the reporting clause of the spec (`specTotal`). -/
theorem bind_reports_failure (auto err noCodec : Bool) (dec : List (List Val)) :
    specTotal auto noCodec
        ({ panicked := false, ran := true, sendErr := false, dec := dec, err := err || noCodec,
           code := if noCodec then 422 else codeOf auto err, status := statusOf auto err noCodec } : Obs)
      = none ∧
    (err = true → noCodec = false → 400 ≤ statusOf auto err noCodec ∧
        (auto = true → statusOf auto err noCodec = 400 ∧ codeOf auto err = 400)) := by
  cases auto <;> cases err <;> cases noCodec <;> simp [specTotal, reportOK, statusOf, codeOf]

/-- … while a silent failure (error, status 200) or a 500 under automatic handling is refused. -/
example : specTotal true false { panicked := false, ran := true, sendErr := false, dec := [], err := true, code := 0, status := 500 }
      = some "failure-is-400-under-auto-handling" ∧
    specTotal true false { panicked := false, ran := true, sendErr := false, dec := [], err := true, code := 422, status := 422 }
      = some "failure-is-400-under-auto-handling" ∧
    specTotal false false { panicked := false, ran := true, sendErr := false, dec := [], err := true, code := 0, status := 200 }
      = some "failure-reported-as-error" := by decide

/-- A binder reports an error exactly when a key has unmatched brackets or some field's texts do not
    convert: nothing else produces one, and neither is ever swallowed. -/
theorem bind_error_iff (floatConv : Nat → Bytes → Option Bytes) (fz : Bytes) (specs : List FieldSpec)
    (src : Source) (split : Bool) (pairs : List (Bytes × Bytes)) :
    (bindPairs floatConv fz specs src split pairs).err = true ↔
      collect (equalFieldType specs) split src.brackets pairs [] = none ∨
      ∃ data, collect (equalFieldType specs) split src.brackets pairs [] = some data ∧
        ∃ f ∈ specs, (decodeField floatConv fz data f).2 = true := by
  unfold bindPairs
  cases h : collect (equalFieldType specs) split src.brackets pairs [] with
  | none => simp
  | some data => simp [decodeFields, List.any_eq_true]

/-- A key in bracket notation whose brackets do not balance (`a[`, `a[b]]`, `][`) makes the query and
    form binders return an error, and nothing is bound — wherever the key stands among the pairs.
    (`malformedKey` is the oracle's own definition, Spec.lean; the header and cookie binders do not
    read bracket notation.) -/
theorem unbalanced_brackets_is_error (floatConv : Nat → Bytes → Option Bytes) (fz : Bytes)
    (specs : List FieldSpec) (src : Source) (split : Bool) (pairs : List (Bytes × Bytes))
    (hsrc : src.brackets = true) (h : pairs.any (fun kv => malformedKey kv.1) = true) :
    bindPairs floatConv fz specs src split pairs = { value := zeroStruct fz specs, err := true } ∧
    bindPairsMap src split pairs = none := by
  unfold bindPairs bindPairsMap
  rw [hsrc, collect_malformed _ split pairs [] h, collect_malformed _ split pairs [] h]
  exact ⟨rfl, rfl⟩

example : malformedKey (b "a[") = true ∧ malformedKey (b "a[b]]") = true ∧ malformedKey (b "a[b][]") = false ∧
    malformedKey (b "a]") = false ∧
    mustFail (sampleStruct.map (·.spec)) true true [(b "s", b "x"), (b "ss[", b "y")] = some "unbalanced-brackets-is-error" ∧
    mustFail (sampleStruct.map (·.spec)) true true [(b "i8", b "1"), (b "i8", b "128")] = some "unparsable-value-is-error" ∧
    mustFail (sampleStruct.map (·.spec)) true true [(b "i8", b "128"), (b "i8", b "1")] = none := by decide

/-- A non-empty text the field's converter rejects is an error for a scalar field (the field keeps
    its zero value) — e.g. `i8=128`, `b=yes`, `u=-1`. -/
theorem unparsable_scalar_is_error (floatConv : Nat → Bytes → Option Bytes) (fz : Bytes)
    (data : List (Bytes × List Bytes)) (f : FieldSpec) (ts : List Bytes) (t : Bytes)
    (hs : f.isSlice = false) (hl : lookupField data f.salias = some ts) (hlast : ts.getLast? = some t)
    (hne : t ≠ []) (hconv : convert floatConv f.kind t = none) :
    decodeField floatConv fz data f = ([zeroOf fz f.kind], true) := by
  unfold decodeField
  simp [hl, hs, decodeScalar, hlast, hne, hconv]

/-- … and for a slice field when the text has no comma to fall back on. -/
theorem unparsable_element_is_error (floatConv : Nat → Bytes → Option Bytes) (fz : Bytes)
    (data : List (Bytes × List Bytes)) (f : FieldSpec) (pre post : List Bytes) (t : Bytes)
    (hs : f.isSlice = true) (hl : lookupField data f.salias = some (pre ++ t :: post))
    (hne : t ≠ []) (hcomma : t.contains 44 = false) (hconv : convert floatConv f.kind t = none) :
    decodeField floatConv fz data f = ([], true) := by
  have hc : (t.contains 44) = false := hcomma
  have hds : ∀ pre' : List Bytes,
      decodeSlice (convert floatConv f.kind) (zeroOf fz f.kind) (pre' ++ t :: post) = none := by
    intro pre'
    induction pre' with
    | nil =>
      have he : t.isEmpty = false := by simpa using hne
      simp only [List.nil_append, decodeSlice, he, hconv, hc]
      simp
    | cons p ps ih =>
      simp only [List.cons_append, decodeSlice, ih]
      split <;> simp_all
  unfold decodeField
  simp [hl, hs, hds pre]

example :
    (bindPairs (fun _ _ => none) (b "0") (sampleStruct.map (·.spec)) .query false (parseArgs (b "i8=128"))).err = true ∧
    (bindPairs (fun _ _ => none) (b "0") (sampleStruct.map (·.spec)) .query false (parseArgs (b "i8=127"))).err = false ∧
    (bindPairs (fun _ _ => none) (b "0") (sampleStruct.map (·.spec)) .query false (parseArgs (b "s[=1"))).err = true ∧
    (bindPairs (fun _ _ => none) (b "0") (sampleStruct.map (·.spec)) .cookie false (parseCookies (b "s[=1"))).err = false := by
  decide

/-! ## `Bind().Body`: content-type dispatch and the opaque codecs -/

/-- The content type the client sets for each body kind selects that kind's decoder. -/
theorem body_dispatch_selects_codec :
    dispatch (clientCtype .json) = .json ∧ dispatch (clientCtype .xml) = .xml ∧
    dispatch (clientCtype .cbor) = .cbor ∧ dispatch (clientCtype .form) = .form ∧
    dispatch (b "multipart/form-data") = .form ∧ dispatch (b "text/xml") = .xml := by decide

/-- Parameters after `;` never change the selection (`multipart/form-data; boundary=…`,
    `application/json; charset=utf-8`, …): for a lower-case media type without `+`, ` `, `;`, and
    any parameter text whatsoever. -/
theorem dispatch_ignores_params (ct params : Bytes)
    (hct : ∀ c ∈ ct, c ≠ 43 ∧ c ≠ 32 ∧ c ≠ 59 ∧ lowerByte c = c) :
    dispatch (ct ++ 59 :: params) = dispatch ct := by
  have hlow : toLower ct = ct := by
    unfold toLower
    conv => rhs; rw [← List.map_id ct]
    exact List.map_congr_left (fun c hc => (hct c hc).2.2.2)
  have hct' : ∀ c ∈ ct, (c != 32 && c != 59) = true := by
    intro c hc; have := hct c hc; simp; omega
  have hff : filterFlags ct = ct := by
    unfold filterFlags
    exact takeWhile_all _ ct hct'
  have hnoplus : indexByte ct 43 = none := indexByte_none ct 43 (fun x hx => (hct x hx).1)
  have key : filterFlags (parseVendor (toLower (ct ++ 59 :: params))) = ct := by
    rw [toLower_append, hlow]
    have hsemi : indexByte (ct ++ toLower (59 :: params)) 59 = some ct.length := by
      have : toLower (59 :: params) = 59 :: toLower params := by simp [toLower, lowerByte, isUpper]
      rw [this]; exact indexByte_append_first ct 59 _ (fun x hx => (hct x hx).2.2.1)
    have hl59 : toLower (59 :: params) = 59 :: toLower params := by simp [toLower, lowerByte, isUpper]
    unfold parseVendor
    cases hplus : indexByte (ct ++ toLower (59 :: params)) 43 with
    | none =>
      simp only
      rw [hl59]; unfold filterFlags
      exact takeWhile_append_stop _ ct 59 _ hct' (by decide)
    | some plus =>
      have hge : ¬ plus < ct.length := by
        have := indexByte_append_ge ct _ 43 plus (fun x hx => (hct x hx).1) hplus
        omega
      simp only [hsemi, hge, if_false]
      simp [hff]
  unfold dispatch
  rw [key]
  have : filterFlags (parseVendor (toLower ct)) = ct := by
    rw [hlow]; unfold parseVendor; rw [hnoplus]; exact hff
  rw [this]

example : dispatch (b "multipart/form-data; boundary=--FiberFormBoundaryAbC+1") = .form := by decide
example : dispatch (b "application/vnd.api+json") = .json ∧ dispatch (b "Application/JSON; charset=utf-8") = .json ∧
          dispatch (b "text/plain") = .none := by decide

/-- **Body.** What the client encoded as JSON / XML / CBOR / form, sent with the content type it
    sets for that kind, is decoded by the matching decoder and yields the value. -/
theorem bind_roundtrip_body {V : Type} (cs : BodyCodecs V) (c : Codec) (hc : c ≠ .none) (v : V) :
    bindBody cs (clientCtype c) (cs.enc c v) = some v := by
  cases c <;> simp_all [bindBody, body_dispatch_selects_codec, cs.law]

/-- the codec hypothesis is satisfiable (identity codecs), and dispatch really discriminates: a body
    sent under a content type that selects no decoder is refused whatever the codecs are. -/
def idCodecs : BodyCodecs Bytes := { enc := fun _ v => v, dec := fun _ w => some w, law := fun _ _ => rfl }

example : bindBody idCodecs (clientCtype .xml) (idCodecs.enc .xml (b "<T/>")) = some (b "<T/>") ∧
    bindBody idCodecs (b "text/plain") (b "<T/>") = none := by decide

/-! ## index safety of the fiber functions that slice by computed positions -/

/-- **No index panic** in `parseParamSquareBrackets`, for every key: the checked version always
    returns, and returns what the list model returns. -/
theorem squareBrackets_total (k : Bytes) :
    squareBracketsIdx k.toArray 0 0 k.length = some (parseParamSquareBrackets k) := by
  have gen : ∀ (suffix : Bytes) (pre : Bytes) (n : Nat), pre ++ suffix = k →
      squareBracketsIdx k.toArray pre.length n suffix.length = some (squareBracketsAux suffix n) := by
    intro suffix
    induction suffix with
    | nil =>
      intro pre n hk
      simp only [List.append_nil] at hk
      subst hk
      simp [squareBracketsIdx, squareBracketsAux]
    | cons c cs ih =>
      intro pre n hk
      have hlt : pre.length < k.length := by rw [← hk]; simp
      have hget : k[pre.length]'hlt = c := by subst hk; simp
      have ih' := fun n => ih (pre ++ [c]) n (by simp [hk])
      simp only [List.length_append, List.length_singleton] at ih'
      simp only [List.length_cons, squareBracketsIdx, List.size_toArray, hlt, dite_true, List.getElem_toArray, hget]
      by_cases h91 : c = 91
      · subst h91
        simp only [beq_self_eq_true, if_true, squareBracketsAux, ih']
        cases cs with
        | nil =>
          have : ¬ pre.length + 1 < k.length := by rw [← hk]; simp
          simp [this]
        | cons d ds =>
          have hlt2 : pre.length + 1 < k.length := by rw [← hk]; simp
          have hget2 : k[pre.length + 1]'hlt2 = d := by
            subst hk; simp [List.getElem_append_right]
          simp [hlt2, hget2]
      · by_cases h93 : c = 93
        · subst h93
          simp only [show ((93 : Nat) == 91) = false by decide, Bool.false_eq_true, if_false,
            beq_self_eq_true, if_true, squareBracketsAux, ih']
          by_cases hn : n = 0 <;> simp [hn]
        · have e1 : (c == 91) = false := by simpa using h91
          have e2 : (c == 93) = false := by simpa using h93
          simp [e1, e2, squareBracketsAux, ih']
  simpa [parseParamSquareBrackets] using gen k [] 0 (by simp)

example : parseParamSquareBrackets (b "a[b][c]") = some (b "a.b.c") ∧
          parseParamSquareBrackets (b "a[]") = some (b "a") ∧
          parseParamSquareBrackets (b "a[") = none ∧ parseParamSquareBrackets (b "a]") = none := by decide

/-- **No slice-bounds panic** in `ParseVendorSpecificContentType`, for every content type. -/
theorem parseVendor_total (c : Bytes) : parseVendorChecked c = some (parseVendor c) := by
  unfold parseVendorChecked parseVendor sliceChecked
  cases hp : indexByte c 43 with
  | none => rfl
  | some plus =>
    have hpl := indexByte_lt c 43 plus hp
    cases hs : indexByte c 59 with
    | none =>
      have : plus + 1 ≤ c.length ∧ c.length ≤ c.length := ⟨by omega, Nat.le_refl _⟩
      simp only [this, and_self, if_true]
      cases hsl : indexByte c 47 with
      | none => rfl
      | some slash =>
        have := indexByte_lt c 47 slash hsl
        simp [show slash + 1 ≤ c.length by omega]
    | some semi =>
      have hsm := indexByte_lt c 59 semi hs
      by_cases hlt : plus < semi
      · have : plus + 1 ≤ semi ∧ semi ≤ c.length := ⟨by omega, by omega⟩
        simp only [hlt, if_true, this, and_self]
        cases hsl : indexByte c 47 with
        | none => rfl
        | some slash =>
          have := indexByte_lt c 47 slash hsl
          simp [show slash + 1 ≤ c.length by omega]
      · simp [hlt, show semi ≤ c.length by omega]

example : parseVendorChecked (b "application/vnd.api+json; charset=utf-8") = some (b "application/json") ∧
    parseVendorChecked (b "application/json; a+b") = some (b "application/json") ∧
    parseVendorChecked (b "+") = some (b "+") ∧ parseVendorChecked (b "a+b/c") = some (b "a+b/b/c") := by decide

end C11
