import FiberModel.C11.LemmasBind
/-
C11 — property theorems (only).

Codec laws (all byte strings, all integers in range), the struct-level round trip through each of the
four textual sources, "splitting is the identity without commas", content-type dispatch, and
index-safety (no-panic) of the two fiber functions on the path that do index arithmetic.

JSON / XML / CBOR / multipart codecs are *parameters*: `BodyCodecs` carries `enc`/`dec` and the
round-trip law as a hypothesis of `bind_roundtrip_body` (never an axiom). `strconv.ParseFloat ∘
FormatFloat = id` is the hypothesis `FloatOK`.
-/
namespace C11
open B

/-! ## codec round-trip laws -/

/-- fasthttp `decodeArgAppend ∘ AppendQuotedArg = id` on every byte string. -/
theorem urldecode_urlencode (s : Bytes) (hs : ∀ c ∈ s, c < 256) : urldecode (urlencode s) = s :=
  urldecode_urlencode' s hs

example : urldecode (urlencode (b "a b&c=d+e%41/é~")) = b "a b&c=d+e%41/é~" := by decide
example : urlencode (b "a b&=+%") = b "a+b%26%3D%2B%25" := by decide

/-- `Args.ParseBytes ∘ Args.QueryString = id` for args that are not entirely empty. -/
theorem parseArgs_renderArgs (args : List (Bytes × Bytes))
    (hb : ∀ kv ∈ args, (∀ c ∈ kv.1, c < 256) ∧ (∀ c ∈ kv.2, c < 256))
    (hne : ∀ kv ∈ args, ¬ (kv.1 = [] ∧ kv.2 = [])) :
    parseArgs (renderArgs args) = args :=
  parseArgs_renderArgs' args hb hne

example : parseArgs (renderArgs [(b "k", b "a&b"), (b "k", []), (b "x=y", b " ")])
    = [(b "k", b "a&b"), (b "k", []), (b "x=y", b " ")] := by decide

/-- `strconv.ParseInt(FormatInt(i), 10, bits) = i` for every `i` of that bit size. -/
theorem parseInt_formatInt (bits : Nat) (i : Int)
    (h : -(2 ^ (bits - 1) : Int) ≤ i ∧ i < (2 ^ (bits - 1) : Int)) :
    parseInt bits (formatInt i) = some i :=
  parseInt_formatInt' bits i h

example : parseInt 8 (formatInt (-128)) = some (-128) ∧ parseInt 8 (b "128") = none ∧
          parseInt 64 (b "+7") = some 7 ∧ parseInt 64 (b "") = none := by decide

/-- `strconv.ParseUint(FormatUint(n), 10, bits) = n` for every `n < 2^bits`. -/
theorem parseUint_formatUint (bits n : Nat) (h : n < 2 ^ bits) : parseUint bits (formatNat n) = some n :=
  parseUint_formatNat' bits n h

example : parseUint 16 (formatNat 65535) = some 65535 ∧ parseUint 16 (b "65536") = none := by decide

theorem parseBool_formatBool (v : Bool) : parseBool (formatBool v) = some v :=
  parseBool_formatBool' v

/-- request cookie scanner ∘ request cookie writer = id, for names and values the header can carry. -/
theorem parseCookies_renderCookies (ps : List (Bytes × Bytes))
    (hk : ∀ kv ∈ ps, cookieKeyOK kv.1 = true) (hv : ∀ kv ∈ ps, cookieValueOK kv.2 = true) :
    parseCookies (renderCookies ps) = ps :=
  parseCookies_renderCookies' ps hk hv

example : parseCookies (renderCookies [(b "a", b "x=y z"), (b "b", []), (b "c", b "\"")])
    = [(b "a", b "x=y z"), (b "b", []), (b "c", b "\"")] := by decide

/-! ## comma splitting -/

/-- `assignBindData` under `EnableSplittingOnParsers` behaves as without it on every value that
    contains no comma — for every key, bracketed or not, every target. -/
theorem split_is_identity_without_commas (sliceKey : Bytes → Bool) (brackets : Bool)
    (pairs : List (Bytes × Bytes)) (d : List (Bytes × List Bytes))
    (h : ∀ kv ∈ pairs, kv.2.contains 44 = false) :
    collect sliceKey true brackets pairs d = collect sliceKey false brackets pairs d := by
  induction pairs generalizing d with
  | nil => rfl
  | cons kv rest ih =>
    obtain ⟨k, v⟩ := kv
    have hv : v.contains 44 = false := h (k, v) (by simp)
    have : formatBindData sliceKey true brackets d k v = formatBindData sliceKey false brackets d k v := by
      unfold formatBindData assignBindData
      rw [hv]; simp
    simp only [collect, this]
    cases formatBindData sliceKey false brackets d k v with
    | none => rfl
    | some d' => exact ih d' (fun kv hkv => h kv (by simp [hkv]))

/-- … hence whole binders agree (struct and map targets). -/
theorem bind_split_is_identity_without_commas (floatConv : Nat → Bytes → Option Bytes) (fz : Bytes)
    (specs : List FieldSpec) (src : Source) (pairs : List (Bytes × Bytes))
    (h : ∀ kv ∈ pairs, kv.2.contains 44 = false) :
    bindPairs floatConv fz specs src true pairs = bindPairs floatConv fz specs src false pairs ∧
    bindPairsMap src true pairs = bindPairsMap src false pairs := by
  unfold bindPairs bindPairsMap
  rw [split_is_identity_without_commas _ _ pairs [] h, split_is_identity_without_commas _ _ pairs [] h]
  exact ⟨rfl, rfl⟩

/-- and it is *not* the identity with commas (non-vacuity of the hypothesis) -/
example : collect (fun _ => true) true false [(b "k", b "a,b")] [] = some [(b "k", [b "a", b "b"])] ∧
          collect (fun _ => true) false false [(b "k", b "a,b")] [] = some [(b "k", [b "a,b"])] := by decide

/-! ## the struct-level round trip -/

/-- Core: binding the pairs `SetValWithStruct` produced gives the struct back, with no error —
    for every well-typed struct value whose tags satisfy `specsOK`, every source (bracket
    normalisation on or off), with or without splitting when no value contains a comma. -/
theorem bind_clientPairs (floatConv : Nat → Bytes → Option Bytes) (fz : Bytes) (st : Struct)
    (src : Source) (split : Bool)
    (hspecs : specsOK (st.map (·.spec)) = true)
    (htyped : ∀ f ∈ st, f.wellTyped = true)
    (hfloat : FloatOK floatConv st)
    (hsplit : split = true → noCommas st = true) :
    bindPairs floatConv fz (st.map (·.spec)) src split (clientPairs st) = { value := st, err := false } := by
  -- facts about the tags
  unfold specsOK at hspecs
  simp only [Bool.and_eq_true, List.all_eq_true, List.mem_map, forall_exists_index, and_imp,
    forall_apply_eq_imp_iff₂, beq_iff_eq] at hspecs
  obtain ⟨hal, hnd⟩ := hspecs
  rw [List.map_map, nodupB_iff] at hnd
  have hcs : ∀ f ∈ st, f.spec.salias = f.spec.calias := fun f hf => (hal f hf).2
  have haok : ∀ f ∈ st, aliasOK f.spec.calias = true := fun f hf => (hal f hf).1
  let A := st.map (·.spec.calias)
  have hAeq : st.map ((fun f : FieldSpec => toLower f.salias) ∘ fun f => f.spec) = A.map toLower := by
    simp only [A, List.map_map]
    apply List.map_congr_left
    intro f hf; simp [hcs f hf]
  rw [hAeq] at hnd
  have hAnd : A.Nodup := nodup_of_nodup_map toLower A hnd
  have hinj : ∀ x ∈ A, ∀ y ∈ A, toLower x = toLower y → x = y := inj_of_nodup_map toLower A hnd
  have hdot : ∀ x ∈ A, x.contains 46 = false := by
    intro x hx; simp only [A, List.mem_map] at hx; obtain ⟨f, hf, rfl⟩ := hx
    exact aliasOK_noDot _ (haok f hf)
  -- the binder's loop is `groupPairs`
  have hkeys : ∀ kv ∈ clientPairs st, kv.1 ∈ A := by
    intro kv hkv
    simp only [clientPairs, List.mem_flatMap, List.mem_map] at hkv
    obtain ⟨f, hf, v, _, rfl⟩ := hkv
    exact List.mem_map_of_mem (f := fun f : Field => f.spec.calias) hf
  have hcollect : collect (equalFieldType (st.map (·.spec))) split src.brackets (clientPairs st) []
      = some (groupPairs (clientPairs st) []) := by
    apply collect_plain
    · intro kv hkv
      have := hkeys kv hkv
      simp only [A, List.mem_map] at this; obtain ⟨f, hf, hfe⟩ := this
      rw [← hfe]; exact aliasOK_noBracket _ (haok f hf)
    · cases split with
      | false => exact Or.inl rfl
      | true =>
        right
        have hnc := hsplit rfl
        unfold noCommas at hnc
        simp only [List.all_eq_true, Bool.not_eq_true'] at hnc
        intro kv hkv
        simp only [clientPairs, List.mem_flatMap, List.mem_map] at hkv
        obtain ⟨f, hf, v, hv, rfl⟩ := hkv
        exact textOf_noComma v (hnc f hf v hv) (fun t e => ((hfloat f hf t (e ▸ hv)).2.1))
  let data := groupPairs (clientPairs st) []
  have hdn : (keysOf data).Nodup := nodup_groupPairs _ [] (by simp [keysOf])
  have hdsub : ∀ k ∈ keysOf data, k ∈ A := by
    intro k hk
    rcases keys_groupPairs (clientPairs st) [] k hk with h | h
    · simp [keysOf] at h
    · simp only [List.mem_map] at h; obtain ⟨kv, hkv, rfl⟩ := h; exact hkeys kv hkv
  -- every field decodes to its own values
  have hfield : ∀ f ∈ st, decodeField floatConv fz data f.spec = (f.vals, false) := by
    intro f hf
    have hlook : lookupField data f.spec.salias
        = match f.vals.map textOf with
          | [] => none
          | vs => some vs := by
      rw [hcs f hf, lookupField_eq_find data A _ hdn hdsub
            (List.mem_map_of_mem (f := fun f : Field => f.spec.calias) hf) hinj hdot,
          dataFind_groupPairs, filter_clientPairs st hAnd f hf]
      cases f.vals.map textOf <;> simp [dataFind]
    have hty := htyped f hf
    unfold Field.wellTyped at hty
    simp only [Bool.and_eq_true, Bool.or_eq_true, beq_iff_eq, List.all_eq_true] at hty
    obtain ⟨hshape, hfits⟩ := hty
    have hfl : ∀ t, Val.float t ∈ f.vals → t ≠ [] ∧ ∀ bits, floatConv bits t = some t :=
      fun t ht => ⟨(hfloat f hf t ht).1, (hfloat f hf t ht).2.2⟩
    unfold decodeField
    rw [hlook]
    cases hvals : f.vals with
    | nil =>
      rcases hshape with hs | hs
      · simp [hs]
      · rw [hvals] at hs; simp at hs
    | cons v rest =>
      simp only [List.map_cons]
      by_cases hs : f.spec.isSlice = true
      · have := decodeSlice_texts floatConv fz f.spec.kind (v :: rest)
          (fun w hw => hfits w (hvals ▸ hw)) (fun t ht => hfl t (hvals ▸ ht))
        simp only [List.map_cons] at this
        simp [hs, this]
      · have hlen : f.vals.length = 1 := by rcases hshape with h | h; exact absurd h hs; exact h
        rw [hvals] at hlen
        have hrest : rest = [] := by cases rest <;> simp_all
        subst hrest
        have hd := decode_text floatConv fz f.spec.kind v (hfits v (by simp [hvals]))
          (fun t e => hfl t (by simp [hvals, e]))
        simp only [hs, Bool.false_eq_true, if_false, List.map_nil, decodeScalar, List.getLast?_singleton]
        rw [hd]
  -- assemble
  unfold bindPairs
  rw [hcollect]
  simp only [decodeFields, List.map_map]
  congr 1
  · conv => rhs; rw [← List.map_id st]
    apply List.map_congr_left
    intro f hf
    have := hfield f hf
    simp only [data] at this
    simp [Function.comp_def, this]
  · apply Bool.eq_false_iff.mpr
    intro h
    simp only [List.any_eq_true, List.mem_map, Function.comp_apply] at h
    obtain ⟨r, ⟨f, hf, rfl⟩, hr⟩ := h
    have := hfield f hf
    simp only [data] at this
    simp [this] at hr

/-- every string of the struct is made of bytes -/
def bytesStruct (st : Struct) : Prop := ∀ f ∈ st, ∀ v ∈ f.vals, bytesOK v = true

theorem textOf_bytes (v : Val) (hb : bytesOK v = true) (hf : ∀ t, v = .float t → ∀ c ∈ t, c < 256) :
    ∀ c ∈ textOf v, c < 256 := by
  have hdig : ∀ n, ∀ c ∈ formatNat n, c < 256 := by
    intro n c hc
    have := (formatNat_spec n).2.1 c hc
    simp [isDigit] at this; omega
  cases v with
  | str s => simpa [bytesOK, textOf] using hb
  | int i =>
    intro c hc
    simp only [textOf, formatInt] at hc
    split at hc
    · simp only [List.mem_cons] at hc; rcases hc with rfl | hc; omega; exact hdig _ c hc
    · exact hdig _ c hc
  | uint n => exact hdig n
  | bool bv => cases bv <;> (intro c hc; simp [textOf, formatBool, b] at hc; omega)
  | float t => exact hf t rfl

/-- **Query.** `Bind().Query` of what `SetParamsWithStruct` put on the wire is the struct. -/
theorem bind_roundtrip_query (floatConv : Nat → Bytes → Option Bytes) (fz : Bytes) (st : Struct) (split : Bool)
    (hspecs : specsOK (st.map (·.spec)) = true) (htyped : ∀ f ∈ st, f.wellTyped = true)
    (hfloat : FloatOK floatConv st) (hfb : ∀ f ∈ st, ∀ t, Val.float t ∈ f.vals → ∀ c ∈ t, c < 256)
    (hbytes : bytesStruct st) (hsplit : split = true → noCommas st = true) :
    bindPairs floatConv fz (st.map (·.spec)) .query split (wirePairs .query (renderArgs (clientPairs st)))
      = { value := st, err := false } := by
  have hpairs : parseArgs (renderArgs (clientPairs st)) = clientPairs st := by
    unfold specsOK at hspecs
    simp only [Bool.and_eq_true, List.all_eq_true, List.mem_map, forall_exists_index, and_imp,
      forall_apply_eq_imp_iff₂] at hspecs
    apply parseArgs_renderArgs
    · intro kv hkv
      simp only [clientPairs, List.mem_flatMap, List.mem_map] at hkv
      obtain ⟨f, hf, v, hv, rfl⟩ := hkv
      exact ⟨aliasOK_bytes _ (hspecs.1 f hf).1, textOf_bytes v (hbytes f hf v hv) (fun t e => hfb f hf t (e ▸ hv))⟩
    · intro kv hkv
      simp only [clientPairs, List.mem_flatMap, List.mem_map] at hkv
      obtain ⟨f, hf, v, hv, rfl⟩ := hkv
      exact fun h => aliasOK_ne_nil _ (hspecs.1 f hf).1 h.1
  simp only [wirePairs, hpairs]
  exact bind_clientPairs floatConv fz st .query split hspecs htyped hfloat hsplit

/-- **Form.** `Bind().Form` of the urlencoded body `SetFormDataWithStruct` produced is the struct. -/
theorem bind_roundtrip_form (floatConv : Nat → Bytes → Option Bytes) (fz : Bytes) (st : Struct) (split : Bool)
    (hspecs : specsOK (st.map (·.spec)) = true) (htyped : ∀ f ∈ st, f.wellTyped = true)
    (hfloat : FloatOK floatConv st) (hfb : ∀ f ∈ st, ∀ t, Val.float t ∈ f.vals → ∀ c ∈ t, c < 256)
    (hbytes : bytesStruct st) (hsplit : split = true → noCommas st = true) :
    bindPairs floatConv fz (st.map (·.spec)) .form split
        (postArgs (clientCtype .form) (renderArgs (clientPairs st)))
      = { value := st, err := false } := by
  have h := bind_roundtrip_query floatConv fz st split hspecs htyped hfloat hfb hbytes hsplit
  have hp : hasPrefix (clientCtype .form) (b "application/x-www-form-urlencoded") = true := by decide
  simp only [wirePairs] at h
  simp only [postArgs, hp, if_true]
  have hq := bind_clientPairs floatConv fz st .form split hspecs htyped hfloat hsplit
  have hpairs : parseArgs (renderArgs (clientPairs st)) = clientPairs st := by
    unfold specsOK at hspecs
    simp only [Bool.and_eq_true, List.all_eq_true, List.mem_map, forall_exists_index, and_imp,
      forall_apply_eq_imp_iff₂] at hspecs
    apply parseArgs_renderArgs
    · intro kv hkv
      simp only [clientPairs, List.mem_flatMap, List.mem_map] at hkv
      obtain ⟨f, hf, v, hv, rfl⟩ := hkv
      exact ⟨aliasOK_bytes _ (hspecs.1 f hf).1, textOf_bytes v (hbytes f hf v hv) (fun t e => hfb f hf t (e ▸ hv))⟩
    · intro kv hkv
      simp only [clientPairs, List.mem_flatMap, List.mem_map] at hkv
      obtain ⟨f, hf, v, hv, rfl⟩ := hkv
      exact fun h => aliasOK_ne_nil _ (hspecs.1 f hf).1 h.1
  rw [hpairs]; exact hq

/-- **Header.** Header lines reach `Bind().Header` as the pairs the client added (the transport is
    the identity on `headerValueOK` values — validated differentially, fasthttp's header parser is
    not modelled), and binding them gives the struct. No bracket normalisation on this source. -/
theorem bind_roundtrip_header (floatConv : Nat → Bytes → Option Bytes) (fz : Bytes) (st : Struct) (split : Bool)
    (hspecs : specsOK (st.map (·.spec)) = true) (htyped : ∀ f ∈ st, f.wellTyped = true)
    (hfloat : FloatOK floatConv st) (hsplit : split = true → noCommas st = true) :
    bindPairs floatConv fz (st.map (·.spec)) .header split (clientPairs st) = { value := st, err := false } :=
  bind_clientPairs floatConv fz st .header split hspecs htyped hfloat hsplit

/-- when no slice has two or more elements the cookie map holds exactly the client pairs -/
theorem cookiePairs_eq_clientPairs (st : Struct) (h : multiValuedSlice st = false) :
    cookiePairs st = clientPairs st := by
  unfold multiValuedSlice at h
  induction st with
  | nil => rfl
  | cons f rest ih =>
    simp only [List.any_cons, Bool.or_eq_false_iff, decide_eq_false_iff_not] at h
    have ih' := ih h.2
    simp only [cookiePairs, clientPairs, List.filterMap_cons, List.flatMap_cons] at ih' ⊢
    rcases hv : f.vals with _ | ⟨v, _ | ⟨w, ws⟩⟩
    · simpa using ih'
    · simp [ih']
    · rw [hv] at h; simp at h

/-- **Cookie (partial: K1 excluded).** Full statement — for *every* well-typed struct the cookie
    round trip returns it — is false: see `bind_roundtrip_cookie_witness_K1`. Proved for structs
    without a multi-valued slice (`Known.K1 = multiValuedSlice`), cookie-safe string values. -/
theorem bind_roundtrip_cookie_partial (floatConv : Nat → Bytes → Option Bytes) (fz : Bytes) (st : Struct)
    (split : Bool)
    (hspecs : specsOK (st.map (·.spec)) = true) (htyped : ∀ f ∈ st, f.wellTyped = true)
    (hfloat : FloatOK floatConv st)
    (hwf : ∀ f ∈ st, ∀ v ∈ f.vals, cookieValueOK (textOf v) = true)
    (hsplit : split = true → noCommas st = true)
    (hK1 : multiValuedSlice st = false) :
    bindPairs floatConv fz (st.map (·.spec)) .cookie split
        (wirePairs .cookie (renderCookies (cookiePairs st)))
      = { value := st, err := false } := by
  rw [cookiePairs_eq_clientPairs st hK1]
  have hpairs : parseCookies (renderCookies (clientPairs st)) = clientPairs st := by
    unfold specsOK at hspecs
    simp only [Bool.and_eq_true, List.all_eq_true, List.mem_map, forall_exists_index, and_imp,
      forall_apply_eq_imp_iff₂] at hspecs
    apply parseCookies_renderCookies
    · intro kv hkv
      simp only [clientPairs, List.mem_flatMap, List.mem_map] at hkv
      obtain ⟨f, hf, v, hv, rfl⟩ := hkv
      exact aliasOK_cookieKey _ (hspecs.1 f hf).1
    · intro kv hkv
      simp only [clientPairs, List.mem_flatMap, List.mem_map] at hkv
      obtain ⟨f, hf, v, hv, rfl⟩ := hkv
      exact hwf f hf v hv
  simp only [wirePairs, hpairs]
  exact bind_clientPairs floatConv fz st .cookie split hspecs htyped hfloat hsplit

def witnessK1 : Struct :=
  [{ spec := { calias := b "ss", salias := b "ss", qalias := b "ss", goName := b "SS", kind := .str, isSlice := true },
     vals := [.str (b "a"), .str (b "b")] }]

/-- K1 witness: `[]string{"a","b"}` sent with `SetCookiesWithStruct` comes back as `["b"]`. -/
theorem bind_roundtrip_cookie_witness_K1 :
    ¬ (bindPairs (fun _ t => some t) (b "0") (witnessK1.map (·.spec)) .cookie false
        (wirePairs .cookie (renderCookies (cookiePairs witnessK1))) = { value := witnessK1, err := false }) := by
  decide

/-- non-vacuity of the round-trip hypotheses: a concrete struct with reserved bytes, an empty string,
    extreme integers and a slice meets them (and the query wire form is what fasthttp writes). -/
def sampleStruct : Struct :=
  [{ spec := { calias := b "s", salias := b "s", qalias := b "s", goName := b "S", kind := .str, isSlice := false },
     vals := [.str (b "a&b=c d")] },
   { spec := { calias := b "i8", salias := b "i8", qalias := b "i8", goName := b "I8", kind := .int 8, isSlice := false },
     vals := [.int (-128)] },
   { spec := { calias := b "ss", salias := b "ss", qalias := b "ss", goName := b "SS", kind := .str, isSlice := true },
     vals := [.str [], .str (b "x")] }]

example : specsOK (sampleStruct.map (·.spec)) = true ∧ sampleStruct.all (·.wellTyped) = true ∧
    noCommas sampleStruct = true ∧
    renderArgs (clientPairs sampleStruct) = b "s=a%26b%3Dc+d&i8=-128&ss=&ss=x" ∧
    bindPairs (fun _ t => some t) (b "0") (sampleStruct.map (·.spec)) .query true
      (wirePairs .query (renderArgs (clientPairs sampleStruct))) = { value := sampleStruct, err := false } := by
  decide

/-! ## `Bind().Body`: content-type dispatch and the opaque codecs -/

/-- The content type the client sets for each body kind selects that kind's decoder. -/
theorem body_dispatch_selects_codec :
    dispatch (clientCtype .json) = .json ∧ dispatch (clientCtype .xml) = .xml ∧
    dispatch (clientCtype .cbor) = .cbor ∧ dispatch (clientCtype .form) = .form ∧
    dispatch (b "multipart/form-data") = .form ∧ dispatch (b "text/xml") = .xml := by decide

theorem takeWhile_append_stop (p : Nat → Bool) (a : Bytes) (x : Nat) (r : Bytes)
    (ha : ∀ c ∈ a, p c = true) (hx : p x = false) : (a ++ x :: r).takeWhile p = a := by
  induction a with
  | nil => simp [List.takeWhile, hx]
  | cons c cs ih =>
    have hc := ha c (by simp)
    have := ih (fun d hd => ha d (by simp [hd]))
    simp only [List.cons_append, List.takeWhile, hc, this]

theorem takeWhile_all (p : Nat → Bool) (a : Bytes) (ha : ∀ c ∈ a, p c = true) : a.takeWhile p = a := by
  induction a with
  | nil => rfl
  | cons c cs ih =>
    have hc := ha c (by simp)
    have := ih (fun d hd => ha d (by simp [hd]))
    simp only [List.takeWhile, hc, this]

theorem indexByte_append_ge (a r : Bytes) (c p : Nat) (ha : ∀ x ∈ a, x ≠ c)
    (h : indexByte (a ++ r) c = some p) : a.length ≤ p := by
  induction a generalizing p with
  | nil => simp
  | cons x xs ih =>
    have hx : (x == c) = false := by simpa using ha x (by simp)
    simp only [List.cons_append, indexByte, hx, Bool.false_eq_true, if_false, Option.map_eq_some_iff] at h
    obtain ⟨q, hq, rfl⟩ := h
    have := ih q (fun y hy => ha y (by simp [hy])) hq
    simp; omega

theorem indexByte_none (s : Bytes) (c : Nat) (h : ∀ x ∈ s, x ≠ c) : indexByte s c = none := by
  induction s with
  | nil => rfl
  | cons x xs ih =>
    have : (x == c) = false := by simpa using h x (by simp)
    simp [indexByte, this, ih (fun y hy => h y (by simp [hy]))]

theorem indexByte_append_first (a : Bytes) (c : Nat) (r : Bytes) (h : ∀ x ∈ a, x ≠ c) :
    indexByte (a ++ c :: r) c = some a.length := by
  induction a with
  | nil => simp [indexByte]
  | cons x xs ih =>
    have : (x == c) = false := by simpa using h x (by simp)
    simp [indexByte, this, ih (fun y hy => h y (by simp [hy]))]

/-- Parameters after `;` never change the selection (`multipart/form-data; boundary=…`,
    `application/json; charset=utf-8`, …): for a lower-case media type without `+`, ` `, `;`, and
    any parameter text whatsoever. -/
theorem dispatch_ignores_params (ct params : Bytes)
    (hct : ∀ c ∈ ct, c ≠ 43 ∧ c ≠ 32 ∧ c ≠ 59 ∧ lowerByte c = c) :
    dispatch (ct ++ 59 :: params) = dispatch ct := by
  have hlow : toLower ct = ct := by
    unfold toLower
    conv => rhs; rw [← List.map_id ct]
    exact List.map_congr_left (fun c hc => (hct c hc).2.2.2)
  have hct' : ∀ c ∈ ct, (c != 32 && c != 59) = true := by
    intro c hc; have := hct c hc; simp; omega
  have hff : filterFlags ct = ct := by
    unfold filterFlags
    exact takeWhile_all _ ct hct'
  have hnoplus : indexByte ct 43 = none := indexByte_none ct 43 (fun x hx => (hct x hx).1)
  have key : filterFlags (parseVendor (toLower (ct ++ 59 :: params))) = ct := by
    rw [toLower_append, hlow]
    have hsemi : indexByte (ct ++ toLower (59 :: params)) 59 = some ct.length := by
      have : toLower (59 :: params) = 59 :: toLower params := by simp [toLower, lowerByte, isUpper]
      rw [this]; exact indexByte_append_first ct 59 _ (fun x hx => (hct x hx).2.2.1)
    have hl59 : toLower (59 :: params) = 59 :: toLower params := by simp [toLower, lowerByte, isUpper]
    unfold parseVendor
    cases hplus : indexByte (ct ++ toLower (59 :: params)) 43 with
    | none =>
      simp only
      rw [hl59]; unfold filterFlags
      exact takeWhile_append_stop _ ct 59 _ hct' (by decide)
    | some plus =>
      have hge : ¬ plus < ct.length := by
        have := indexByte_append_ge ct _ 43 plus (fun x hx => (hct x hx).1) hplus
        omega
      simp only [hsemi, hge, if_false]
      simp [hff]
  unfold dispatch
  rw [key]
  have : filterFlags (parseVendor (toLower ct)) = ct := by
    rw [hlow]; unfold parseVendor; rw [hnoplus]; exact hff
  rw [this]

example : dispatch (b "multipart/form-data; boundary=--FiberFormBoundaryAbC+1") = .form := by decide
example : dispatch (b "application/vnd.api+json") = .json ∧ dispatch (b "Application/JSON; charset=utf-8") = .json ∧
          dispatch (b "text/plain") = .none := by decide

/-- The opaque body codecs: an encoder/decoder pair per kind, with the round-trip law as a field
    (a hypothesis of the theorem below, not an axiom). -/
structure BodyCodecs (V : Type) where
  enc : Codec → V → Bytes
  dec : Codec → Bytes → Option V
  law : ∀ c v, dec c (enc c v) = some v

/-- `Bind().Body`: select by content type, then decode with the selected codec. -/
def bindBody {V : Type} (cs : BodyCodecs V) (rawCtype body : Bytes) : Option V :=
  match dispatch rawCtype with
  | .none => none
  | c => cs.dec c body

/-- **Body.** What the client encoded as JSON / XML / CBOR / form, sent with the content type it
    sets for that kind, is decoded by the matching decoder and yields the value. -/
theorem bind_roundtrip_body {V : Type} (cs : BodyCodecs V) (c : Codec) (hc : c ≠ .none) (v : V) :
    bindBody cs (clientCtype c) (cs.enc c v) = some v := by
  cases c <;> simp_all [bindBody, body_dispatch_selects_codec, cs.law]

/-! ## index safety of the fiber functions that slice by computed positions -/

/-- `parseParamSquareBrackets` with Go's index expression `kbytes[i+1]` as a *checked* access:
    `none` at top level = the index would be out of range (a panic). -/
def squareBracketsIdx (k : Array Nat) (i : Nat) (n : Nat) (fuel : Nat) : Option (Option Bytes) :=
  match fuel with
  | 0 => if i < k.size then none else some (if n > 0 then none else some [])
  | fuel + 1 =>
    if h : i < k.size then
      let c := k[i]
      if c == 91 then
        -- `if i+1 < len(kbytes) && kbytes[i+1] != ']'`
        let dot : Option Bool := if i + 1 < k.size then (k[i + 1]?).map (· != 93) else some false
        match dot, squareBracketsIdx k (i + 1) (n + 1) fuel with
        | some d, some r => some (r.map fun r => if d then 46 :: r else r)
        | _, _ => none
      else if c == 93 then
        if n == 0 then some none else squareBracketsIdx k (i + 1) (n - 1) fuel
      else (squareBracketsIdx k (i + 1) n fuel).map fun r => r.map (c :: ·)
    else some (if n > 0 then none else some [])

/-- **No index panic** in `parseParamSquareBrackets`, for every key: the checked version always
    returns, and returns what the list model returns. -/
theorem squareBrackets_total (k : Bytes) :
    squareBracketsIdx k.toArray 0 0 k.length = some (parseParamSquareBrackets k) := by
  have gen : ∀ (suffix : Bytes) (pre : Bytes) (n : Nat), pre ++ suffix = k →
      squareBracketsIdx k.toArray pre.length n suffix.length = some (squareBracketsAux suffix n) := by
    intro suffix
    induction suffix with
    | nil =>
      intro pre n hk
      simp only [List.append_nil] at hk
      subst hk
      simp [squareBracketsIdx, squareBracketsAux]
    | cons c cs ih =>
      intro pre n hk
      have hlt : pre.length < k.length := by rw [← hk]; simp
      have hget : k[pre.length]'hlt = c := by subst hk; simp
      have ih' := fun n => ih (pre ++ [c]) n (by simp [hk])
      simp only [List.length_append, List.length_singleton] at ih'
      simp only [List.length_cons, squareBracketsIdx, List.size_toArray, hlt, dite_true, List.getElem_toArray, hget]
      by_cases h91 : c = 91
      · subst h91
        simp only [beq_self_eq_true, if_true, squareBracketsAux, ih']
        cases cs with
        | nil =>
          have : ¬ pre.length + 1 < k.length := by rw [← hk]; simp
          simp [this]
        | cons d ds =>
          have hlt2 : pre.length + 1 < k.length := by rw [← hk]; simp
          have hget2 : k[pre.length + 1]'hlt2 = d := by
            subst hk; simp [List.getElem_append_right]
          simp [hlt2, hget2]
      · by_cases h93 : c = 93
        · subst h93
          simp only [show ((93 : Nat) == 91) = false by decide, Bool.false_eq_true, if_false,
            beq_self_eq_true, if_true, squareBracketsAux, ih']
          by_cases hn : n = 0 <;> simp [hn]
        · have e1 : (c == 91) = false := by simpa using h91
          have e2 : (c == 93) = false := by simpa using h93
          simp [e1, e2, squareBracketsAux, ih']
  simpa [parseParamSquareBrackets] using gen k [] 0 (by simp)

example : parseParamSquareBrackets (b "a[b][c]") = some (b "a.b.c") ∧
          parseParamSquareBrackets (b "a[]") = some (b "a") ∧
          parseParamSquareBrackets (b "a[") = none ∧ parseParamSquareBrackets (b "a]") = none := by decide

/-- Go slice expression `s[lo:hi]`, checked: `none` = "slice bounds out of range". -/
def sliceChecked (s : Bytes) (lo hi : Nat) : Option Bytes :=
  if lo ≤ hi ∧ hi ≤ s.length then some ((s.take hi).drop lo) else none

/-- utils `ParseVendorSpecificContentType` with every slice expression checked. -/
def parseVendorChecked (c : Bytes) : Option Bytes :=
  match indexByte c 43 with
  | none => some c
  | some plus =>
    match indexByte c 59 with
    | none =>
      match sliceChecked c (plus + 1) c.length, indexByte c 47 with
      | none, _ => none
      | some _, none => some c
      | some p, some slash => (sliceChecked c 0 (slash + 1)).map (· ++ p)
    | some semi =>
      if plus < semi then
        match sliceChecked c (plus + 1) semi, indexByte c 47 with
        | none, _ => none
        | some _, none => some c
        | some p, some slash => (sliceChecked c 0 (slash + 1)).map (· ++ p)
      else sliceChecked c 0 semi

theorem indexByte_lt (s : Bytes) (c i : Nat) (h : indexByte s c = some i) : i < s.length := by
  induction s generalizing i with
  | nil => simp [indexByte] at h
  | cons x xs ih =>
    by_cases hx : (x == c) = true
    · simp [indexByte, hx] at h; subst h; simp
    · simp only [indexByte, hx, Bool.false_eq_true, if_false, Option.map_eq_some_iff] at h
      obtain ⟨j, hj, rfl⟩ := h
      have := ih j hj; simp; omega

/-- **No slice-bounds panic** in `ParseVendorSpecificContentType`, for every content type. -/
theorem parseVendor_total (c : Bytes) : parseVendorChecked c = some (parseVendor c) := by
  unfold parseVendorChecked parseVendor sliceChecked
  cases hp : indexByte c 43 with
  | none => rfl
  | some plus =>
    have hpl := indexByte_lt c 43 plus hp
    cases hs : indexByte c 59 with
    | none =>
      have : plus + 1 ≤ c.length ∧ c.length ≤ c.length := ⟨by omega, Nat.le_refl _⟩
      simp only [this, and_self, if_true]
      cases hsl : indexByte c 47 with
      | none => rfl
      | some slash =>
        have := indexByte_lt c 47 slash hsl
        simp [show slash + 1 ≤ c.length by omega]
    | some semi =>
      have hsm := indexByte_lt c 59 semi hs
      by_cases hlt : plus < semi
      · have : plus + 1 ≤ semi ∧ semi ≤ c.length := ⟨by omega, by omega⟩
        simp only [hlt, if_true, this, and_self]
        cases hsl : indexByte c 47 with
        | none => rfl
        | some slash =>
          have := indexByte_lt c 47 slash hsl
          simp [show slash + 1 ≤ c.length by omega]
      · simp [hlt, show semi ≤ c.length by omega]

end C11
