import FiberModel.C11.LemmasBind
/-
C11 — helper lemmas for the transports that carry values as lines / parts:
the header lines fasthttp writes (`appendHeaderLine`) read back by `headerScanner.next` +
`RequestHeader.parseHeaders`.
-/
namespace C11
open B

/-! ### header lines -/

/-- a header name the scanner accepts and leaves alone: a non-empty token -/
def headerKeyOK (k : Bytes) : Bool := !k.isEmpty && k.all tokenByte

theorem headerValueByte_eq (c : Nat) : headerValueByte c = headerByteOK c := rfl

theorem cutAt_append (c : Nat) (a r : Bytes) (ha : ∀ x ∈ a, x ≠ c) :
    cutAt c (a ++ c :: r) = some (a, r) := by
  induction a with
  | nil => simp [cutAt]
  | cons x xs ih =>
    have hx : (x == c) = false := by simpa using ha x (by simp)
    have := ih (fun y hy => ha y (by simp [hy]))
    simp [cutAt, hx, this]

theorem tokenByte_ne (c : Nat) (h : tokenByte c = true) :
    c ≠ 10 ∧ c ≠ 13 ∧ c ≠ 58 ∧ c ≠ 32 ∧ c ≠ 9 := by
  unfold tokenByte isAlpha isUpper isLower isDigit at h
  simp only [Bool.or_eq_true, Bool.and_eq_true, decide_eq_true_eq, beq_iff_eq] at h
  omega

theorem headerByteOK_ne (c : Nat) (h : headerByteOK c = true) : c ≠ 10 ∧ c ≠ 13 := by
  unfold headerByteOK at h
  simp only [Bool.or_eq_true, Bool.and_eq_true, decide_eq_true_eq, beq_iff_eq] at h
  omega

theorem aliasOK_headerKey (a : Bytes) (h : aliasOK a = true) : headerKeyOK a = true := by
  unfold aliasOK at h
  unfold headerKeyOK
  simp only [Bool.and_eq_true, Bool.not_eq_true', List.all_eq_true] at h ⊢
  refine ⟨h.1, fun c hc => ?_⟩
  have := h.2 c hc
  unfold tokenByte
  simp only [Bool.or_eq_true, beq_iff_eq] at this ⊢
  rcases this with (h1 | h1) | h1
  · simp [h1]
  · simp [h1]
  · simp [h1]

theorem dropWhile_nonblank (s : Bytes) (h : ∀ c, s.head? = some c → isBlank c = false) :
    s.dropWhile isBlank = s := by
  cases s with
  | nil => rfl
  | cons x xs => simp [List.dropWhile, h x rfl]

theorem dropRightWhile_nonblank (s : Bytes) (h : ∀ c, s.getLast? = some c → isBlank c = false) :
    dropRightWhile isBlank s = s := by
  unfold dropRightWhile
  rw [dropWhile_nonblank]
  · simp
  · intro c hc
    apply h c
    simpa [List.head?_reverse] using hc

theorem noOuterBlank_head (v : Bytes) (h : noOuterBlank v = true) :
    ∀ c, v.head? = some c → isBlank c = false := by
  intro c hc
  unfold noOuterBlank at h
  simp only [hc, Bool.and_eq_true, bne_iff_ne, ne_eq] at h
  unfold isBlank
  simp [h.1.1, h.1.2]

theorem noOuterBlank_last (v : Bytes) (h : noOuterBlank v = true) :
    ∀ c, v.getLast? = some c → isBlank c = false := by
  intro c hc
  unfold noOuterBlank at h
  simp only [hc, Bool.and_eq_true, bne_iff_ne, ne_eq] at h
  unfold isBlank
  simp [h.2.1, h.2.2]

/-- one line written by `appendHeaderLine` is read back by `headerScanner.next` as written -/
theorem headerNext_line (k v rest : Bytes) (hk : headerKeyOK k = true) (hv : headerValueOK v = true)
    (hrest : ∀ c, rest.head? = some c → isBlank c = false) :
    headerNext (writeHeaderLine (k, v) ++ rest) = .line k v rest := by
  unfold headerKeyOK at hk
  unfold headerValueOK at hv
  simp only [Bool.and_eq_true, Bool.not_eq_true', List.all_eq_true] at hk hv
  obtain ⟨hkne, hktok⟩ := hk
  obtain ⟨hvb, hvo⟩ := hv
  cases k with
  | nil => simp at hkne
  | cons c cs =>
    have hc := tokenByte_ne c (hktok c (by simp))
    have hline : (c :: cs ++ [58, 32] ++ v ++ [13, 10] ++ rest) = (c :: cs ++ [58, 32] ++ v ++ [13]) ++ 10 :: rest := by
      simp
    have hno10 : ∀ x ∈ (c :: cs ++ [58, 32] ++ v ++ [13]), x ≠ 10 := by
      intro x hx
      rcases List.mem_append.mp hx with hx | hx
      · rcases List.mem_append.mp hx with hx | hx
        · rcases List.mem_append.mp hx with hx | hx
          · exact (tokenByte_ne x (hktok x hx)).1
          · simp at hx; rcases hx with rfl | rfl <;> decide
        · exact (headerByteOK_ne x (hvb x hx)).1
      · simp at hx; subst hx; decide
    have hno58 : ∀ x ∈ (c :: cs), x ≠ 58 := fun x hx => (tokenByte_ne x (hktok x hx)).2.2.1
    have hcut2 : cutAt 58 (c :: cs ++ [58, 32] ++ v ++ [13]) = some (c :: cs, 32 :: (v ++ [13])) := by
      have : (c :: cs ++ [58, 32] ++ v ++ [13]) = (c :: cs) ++ 58 :: (32 :: (v ++ [13])) := by simp
      rw [this]; exact cutAt_append 58 _ _ hno58
    have hcut1 := cutAt_append 10 _ rest hno10
    have hv1 : (32 :: (v ++ [13])).dropWhile isBlank = v ++ [13] := by
      have : isBlank 32 = true := by decide
      simp only [List.dropWhile, this]
      apply dropWhile_nonblank
      intro d hd
      cases v with
      | nil => simp at hd; subst hd; decide
      | cons y ys => simp at hd; subst hd; exact noOuterBlank_head _ hvo _ rfl
    have hv2 : (v ++ [13]).getLast? = some 13 := by simp
    have hv3 : dropRightWhile isBlank v = v := dropRightWhile_nonblank v (noOuterBlank_last v hvo)
    have hv4 : v.filter (· != 13) = v := by
      apply List.filter_eq_self.mpr
      intro x hx
      simpa using (headerByteOK_ne x (hvb x hx)).2
    have hfold : startsBlank rest = false := by
      unfold startsBlank
      cases hh : rest.head? with
      | none => rfl
      | some d => exact hrest d hh
    unfold writeHeaderLine
    simp only
    rw [hline]
    have h10 : (c == 10) = false := by simpa using hc.1
    have h13 : (c == 13) = false := by simpa using hc.2.1
    show headerNext (c :: (cs ++ [58, 32] ++ v ++ [13]) ++ 10 :: rest) = _
    unfold headerNext
    simp only [List.cons_append, h10, h13, Bool.false_and, Bool.false_eq_true, if_false]
    have hcut1' : cutAt 10 (c :: (cs ++ [58, 32] ++ v ++ [13] ++ 10 :: rest)) = some (c :: cs ++ [58, 32] ++ v ++ [13], rest) := by
      simpa using hcut1
    rw [hcut1']
    simp only [hcut2, hfold, Bool.false_eq_true, if_false, hv1, hv2, beq_self_eq_true, if_true,
      List.dropLast_concat, hv3, hv4, ite_self]

theorem writeHeaderLines_length (ps : List (Bytes × Bytes)) : ps.length ≤ (writeHeaderLines ps).length := by
  induction ps with
  | nil => simp [writeHeaderLines]
  | cons kv rest ih =>
    simp only [writeHeaderLines, List.map_cons, List.flatten_cons, List.length_append, List.length_cons] at ih ⊢
    have : 1 ≤ (writeHeaderLine kv).length := by simp [writeHeaderLine]; omega
    omega

/-- the block of lines the client wrote, followed by the blank line, is read back line by line;
    every name comes out in fasthttp's canonical spelling -/
theorem parseHeaderLines_write (ps : List (Bytes × Bytes)) (body : Bytes) (fuel : Nat)
    (hk : ∀ kv ∈ ps, headerKeyOK kv.1 = true) (hv : ∀ kv ∈ ps, headerValueOK kv.2 = true)
    (hfuel : ps.length < fuel) :
    parseHeaderLines fuel (writeHeaderLines ps ++ 13 :: 10 :: body)
      = .ok (ps.map fun kv => (normalizeHeaderKey kv.1, kv.2)) body := by
  induction ps generalizing fuel with
  | nil =>
    cases fuel with
    | zero => simp at hfuel
    | succ f => simp [writeHeaderLines, parseHeaderLines, headerNext]
  | cons kv rest ih =>
    cases fuel with
    | zero => simp at hfuel
    | succ f =>
      obtain ⟨k, v⟩ := kv
      have hk1 := hk (k, v) (by simp)
      have hv1 := hv (k, v) (by simp)
      have hrest : ∀ c, (writeHeaderLines rest ++ 13 :: 10 :: body).head? = some c → isBlank c = false := by
        intro c hc
        cases rest with
        | nil => simp [writeHeaderLines] at hc; subst hc; decide
        | cons kv2 r2 =>
          have hk2 := hk kv2 (by simp)
          unfold headerKeyOK at hk2
          simp only [Bool.and_eq_true, Bool.not_eq_true', List.all_eq_true] at hk2
          cases hkk : kv2.1 with
          | nil => simp [hkk] at hk2
          | cons y ys =>
            simp [writeHeaderLines, writeHeaderLine, hkk] at hc
            subst hc
            have := tokenByte_ne y (hk2.2 y (by simp [hkk]))
            unfold isBlank; simp [this.2.2.2.1, this.2.2.2.2]
      have hstep : writeHeaderLines ((k, v) :: rest) ++ 13 :: 10 :: body
          = writeHeaderLine (k, v) ++ (writeHeaderLines rest ++ 13 :: 10 :: body) := by
        simp [writeHeaderLines]
      rw [hstep]
      unfold parseHeaderLines
      rw [headerNext_line k v _ hk1 hv1 hrest]
      have ih' := ih f (fun kv h => hk kv (by simp [h])) (fun kv h => hv kv (by simp [h]))
        (by simp at hfuel; omega)
      unfold headerKeyOK at hk1
      unfold headerValueOK at hv1
      simp only [Bool.and_eq_true, Bool.not_eq_true', List.all_eq_true] at hk1 hv1
      have e1 : k.isEmpty = false := hk1.1
      have e2 : k.any (fun c => !tokenByte c && c != 32) = false := by
        apply List.any_eq_false.mpr
        intro c hc
        simp [hk1.2 c hc]
      have e3 : v.all headerValueByte = true := by
        apply List.all_eq_true.mpr
        intro c hc; exact hv1.1 c hc
      have e4 : k.contains 32 = false := by
        apply Bool.eq_false_iff.mpr
        intro h
        have hm : 32 ∈ k := by simpa using h
        exact (tokenByte_ne 32 (hk1.2 32 hm)).2.2.2.1 rfl
      simp only [e1, e2, e3, Bool.or_self, Bool.not_true, Bool.false_eq_true, if_false, ih', e4, List.map_cons]

/-! ### pairs under names no field answers to are ignored (`IgnoreUnknownKeys`) -/

theorem dataAppend_filter (p : Bytes → Bool) (d : List (Bytes × List Bytes)) (k : Bytes) (vs : List Bytes) :
    (dataAppend d k vs).filter (fun kv => p kv.1) =
      if p k then dataAppend (d.filter fun kv => p kv.1) k vs else d.filter fun kv => p kv.1 := by
  induction d with
  | nil => by_cases hp : p k <;> simp [dataAppend, hp]
  | cons e rest ih =>
    obtain ⟨k', vs'⟩ := e
    by_cases hk : k' = k
    · subst hk
      by_cases hp : p k' <;> simp [dataAppend, hp]
    · by_cases hp : p k
      · simp only [hp, if_true] at ih ⊢
        by_cases hp' : p k' <;> simp [dataAppend, hk, hp', ih]
      · simp only [hp, Bool.false_eq_true, if_false] at ih ⊢
        by_cases hp' : p k' <;> simp [dataAppend, hk, hp', ih]

theorem collect_filter (p : Bytes → Bool) (sliceKey : Bytes → Bool) (split : Bool)
    (pairs : List (Bytes × Bytes)) (d : List (Bytes × List Bytes)) :
    (collect sliceKey split false pairs d).map (fun d => d.filter fun kv => p kv.1) =
      collect sliceKey split false (pairs.filter fun kv => p kv.1) (d.filter fun kv => p kv.1) := by
  induction pairs generalizing d with
  | nil => simp [collect]
  | cons kv rest ih =>
    obtain ⟨k, v⟩ := kv
    have hf : ∀ d', formatBindData sliceKey split false d' k v = some (assignBindData sliceKey split d' k v) := by
      intro d'; simp [formatBindData]
    have ha : (assignBindData sliceKey split d k v).filter (fun kv => p kv.1) =
        if p k then assignBindData sliceKey split (d.filter fun kv => p kv.1) k v else d.filter fun kv => p kv.1 := by
      unfold assignBindData
      split <;> exact dataAppend_filter p d k _
    simp only [collect, hf]
    rw [ih]
    by_cases hp : p k
    · simp [List.filter_cons, hp, collect, hf, ha]
    · simp [List.filter_cons, hp, ha]

theorem lookupField_filter (p : Bytes → Bool) (d : List (Bytes × List Bytes)) (al : Bytes)
    (hp : ∀ k, toLower k = toLower al → p k = true) :
    lookupField (d.filter fun kv => p kv.1) al = lookupField d al := by
  unfold lookupField
  rw [List.filter_filter]
  congr 2
  apply List.filter_congr
  intro kv _
  by_cases h : toLower kv.1 = toLower al
  · simp [h, hp kv.1 h]
  · simp [h]

/-- `Bind()` from a source without bracket notation (header, cookie) does not depend on pairs whose
    name no field answers to — whatever they are, wherever they stand, how many there are. -/
theorem bindPairs_ignores_unrelated (floatConv : Nat → Bytes → Option Bytes) (fz : Bytes)
    (specs : List FieldSpec) (src : Source) (split : Bool) (pairs : List (Bytes × Bytes))
    (p : Bytes → Bool) (hsrc : src.brackets = false)
    (hp : ∀ f ∈ specs, ∀ k, toLower k = toLower f.salias → p k = true) :
    bindPairs floatConv fz specs src split pairs =
      bindPairs floatConv fz specs src split (pairs.filter fun kv => p kv.1) := by
  unfold bindPairs
  rw [hsrc]
  have hc := collect_filter p (equalFieldType specs) split pairs []
  simp only [List.filter_nil] at hc
  rw [← hc]
  cases hcol : collect (equalFieldType specs) split false pairs [] with
  | none => simp
  | some data =>
    simp only [Option.map_some]
    have hdf : ∀ f ∈ specs, decodeField floatConv fz (data.filter fun kv => p kv.1) f = decodeField floatConv fz data f := by
      intro f hf
      unfold decodeField
      rw [lookupField_filter p data f.salias (hp f hf)]
    have : decodeFields floatConv fz specs (data.filter fun kv => p kv.1) = decodeFields floatConv fz specs data := by
      unfold decodeFields
      have hm : (specs.map fun f => (f, decodeField floatConv fz (data.filter fun kv => p kv.1) f)) =
          (specs.map fun f => (f, decodeField floatConv fz data f)) :=
        List.map_congr_left (fun f hf => by rw [hdf f hf])
      simp only [hm]
    simp [this]

/-! ### multipart bodies: the reader model on what the writer model wrote -/

/-- `pat` occurs somewhere in `s` -/
def occursIn (pat : Bytes) : Bytes → Bool
  | [] => pat.isEmpty
  | c :: cs => pat.isPrefixOf (c :: cs) || occursIn pat cs

theorem isPrefixOf_self_append (p r : Bytes) : p.isPrefixOf (p ++ r) = true := by
  induction p with
  | nil => simp [List.isPrefixOf]
  | cons x xs ih => simp [List.isPrefixOf, ih]

/-- a pattern whose only 13 is its first byte cannot start inside `cs` and run on into a following 13 -/
theorem isPrefixOf_no_straddle (d cs t : Bytes) (hd : ∀ x ∈ d, x ≠ 13)
    (h : d.isPrefixOf (cs ++ 13 :: t) = true) : d.isPrefixOf cs = true := by
  induction cs generalizing d with
  | nil =>
    cases d with
    | nil => rfl
    | cons x xs =>
      simp only [List.nil_append, List.isPrefixOf, Bool.and_eq_true, beq_iff_eq] at h
      exact absurd h.1 (hd x (by simp))
  | cons c cs ih =>
    cases d with
    | nil => rfl
    | cons x xs =>
      simp only [List.cons_append, List.isPrefixOf, Bool.and_eq_true, beq_iff_eq] at h ⊢
      exact ⟨h.1, ih xs (fun y hy => hd y (by simp [hy])) h.2⟩

/-- the first occurrence of `13 :: d` in `v ++ 13 :: d ++ r` is the one written after `v`, when the
    pattern does not occur in `v` and has no other 13 -/
theorem cutAtPat_after (d v r : Bytes) (hd : ∀ x ∈ d, x ≠ 13) (hv : occursIn (13 :: d) v = false) :
    cutAtPat (13 :: d) (v ++ (13 :: d) ++ r) = some (v, r) := by
  induction v with
  | nil =>
    have hp : (13 :: d).isPrefixOf ((13 :: d) ++ r) = true := isPrefixOf_self_append _ _
    simp only [List.nil_append]
    show cutAtPat (13 :: d) (13 :: (d ++ r)) = some ([], r)
    unfold cutAtPat
    have hp' : (13 :: d).isPrefixOf (13 :: (d ++ r)) = true := by simpa using hp
    simp [hp']
  | cons c cs ih =>
    simp only [occursIn, Bool.or_eq_false_iff] at hv
    have hno : (13 :: d).isPrefixOf (c :: (cs ++ (13 :: d) ++ r)) = false := by
      apply Bool.eq_false_iff.mpr
      intro hp
      simp only [List.isPrefixOf, Bool.and_eq_true, beq_iff_eq] at hp
      have h2 : d.isPrefixOf (cs ++ 13 :: (d ++ r)) = true := by simpa using hp.2
      have := isPrefixOf_no_straddle d cs (d ++ r) hd h2
      have hpre : (13 :: d).isPrefixOf (c :: cs) = true := by simp [List.isPrefixOf, hp.1, this]
      rw [hpre] at hv
      exact absurd hv.1 (by decide)
    show cutAtPat (13 :: d) (c :: (cs ++ (13 :: d) ++ r)) = some (c :: cs, r)
    unfold cutAtPat
    simp only [hno, Bool.false_eq_true, if_false]
    rw [ih hv.2]
    rfl

theorem occursIn_of_no13 (d v : Bytes) (hv : ∀ x ∈ v, x ≠ 13) : occursIn (13 :: d) v = false := by
  induction v with
  | nil => rfl
  | cons c cs ih =>
    have hc : (13 == c) = false := by
      have := hv c (by simp)
      simp; omega
    simp [occursIn, List.isPrefixOf, hc, ih (fun x hx => hv x (by simp [hx]))]

/-- header lines without CR are read back line by line up to the blank line -/
theorem readHeaderLines_write (lines : List Bytes) (rest : Bytes) (fuel : Nat)
    (hl : ∀ l ∈ lines, l ≠ [] ∧ ∀ x ∈ l, x ≠ 13) (hfuel : lines.length < fuel) :
    readHeaderLines fuel ((lines.map (· ++ [13, 10])).flatten ++ [13, 10] ++ rest) = some (lines, rest) := by
  induction lines generalizing fuel with
  | nil =>
    cases fuel with
    | zero => simp at hfuel
    | succ f =>
      have := cutAtPat_after [10] [] rest (by simp) rfl
      simp only [List.nil_append, List.cons_append] at this
      simp [readHeaderLines, this]
  | cons l ls ih =>
    cases fuel with
    | zero => simp at hfuel
    | succ f =>
      obtain ⟨hne, h13⟩ := hl l (by simp)
      have hcut := cutAtPat_after [10] l ((ls.map (· ++ [13, 10])).flatten ++ [13, 10] ++ rest) (by simp)
        (occursIn_of_no13 [10] l h13)
      have hshape : ((l :: ls).map (· ++ [13, 10])).flatten ++ [13, 10] ++ rest
          = l ++ [13, 10] ++ ((ls.map (· ++ [13, 10])).flatten ++ [13, 10] ++ rest) := by simp
      rw [hshape]
      unfold readHeaderLines
      rw [hcut]
      have he : l.isEmpty = false := by cases l <;> simp_all
      simp only [he, Bool.false_eq_true, if_false]
      rw [ih f (fun x hx => hl x (by simp [hx])) (by simp at hfuel; omega)]
      rfl

/-- names the multipart writer does not escape and the reader reads back as written -/
def partNameOK (k : Bytes) : Bool := k.all fun c => c != 13 && c != 34 && c != 92

theorem cdPrefix_no13 : ∀ x ∈ cdPrefix, x ≠ 13 := by decide

theorem partName_field (k : Bytes) (hk : partNameOK k = true) : partName (fieldHeader k) = some (k, false) := by
  unfold partNameOK at hk
  simp only [List.all_eq_true, Bool.and_eq_true, bne_iff_ne, ne_eq] at hk
  unfold partName fieldHeader
  have hp : cdPrefix.isPrefixOf (cdPrefix ++ k ++ [34]) = true := by
    rw [List.append_assoc]; exact isPrefixOf_self_append _ _
  have hd : (cdPrefix ++ k ++ [34]).drop cdPrefix.length = k ++ [34] := by
    rw [List.append_assoc, List.drop_left]
  have hc := cutAt_append 34 k [] (fun x hx => (hk x hx).1.2)
  simp only [hp, if_true, hd, hc, Option.map_some]
  have : (b "; filename=\"").isPrefixOf ([] : Bytes) = false := by decide
  rw [this]

theorem partName_file (k fn : Bytes) (hk : partNameOK k = true) :
    partName (fileHeader k fn) = some (k, true) := by
  unfold partNameOK at hk
  simp only [List.all_eq_true, Bool.and_eq_true, bne_iff_ne, ne_eq] at hk
  unfold partName fileHeader
  have hp : cdPrefix.isPrefixOf (cdPrefix ++ k ++ b "\"; filename=\"" ++ fn ++ [34]) = true := by
    rw [List.append_assoc, List.append_assoc, List.append_assoc]; exact isPrefixOf_self_append _ _
  have hd : (cdPrefix ++ k ++ b "\"; filename=\"" ++ fn ++ [34]).drop cdPrefix.length
      = k ++ 34 :: (b "; filename=\"" ++ fn ++ [34]) := by
    rw [List.append_assoc, List.append_assoc, List.append_assoc, List.drop_left]
    simp [b]
  have hc := cutAt_append 34 k (b "; filename=\"" ++ fn ++ [34]) (fun x hx => (hk x hx).1.2)
  have hpre : (b "; filename=\"").isPrefixOf (b "; filename=\"" ++ fn ++ [34]) = true := by
    rw [List.append_assoc]; exact isPrefixOf_self_append _ _
  simp only [hp, if_true, hd, hc, Option.map_some, hpre]

/-- what follows a `--boundary` in a body: the parts, each closed by `CRLF--boundary`, then `--CRLF` -/
def afterDelim (bd : Bytes) : List (List Bytes × Bytes) → Bytes
  | [] => [45, 45, 13, 10]
  | (lines, content) :: rest =>
    [13, 10] ++ (lines.map (· ++ [13, 10])).flatten ++ [13, 10] ++ content ++ ([13, 10] ++ dashBoundary bd) ++
      afterDelim bd rest

theorem writeParts_eq (bd : Bytes) (parts : List (List Bytes × Bytes)) :
    (parts.map fun p => writePart bd p.1 p.2).flatten ++ dashBoundary bd ++ [45, 45, 13, 10]
      = dashBoundary bd ++ afterDelim bd parts := by
  induction parts with
  | nil => simp [afterDelim]
  | cons p rest ih =>
    obtain ⟨lines, content⟩ := p
    simp only [List.map_cons, List.flatten_cons, List.append_assoc] at ih ⊢
    rw [ih]
    simp [writePart, afterDelim, List.append_assoc]

theorem flatten_lines_length (lines : List Bytes) :
    lines.length ≤ ((lines.map (· ++ [13, 10])).flatten).length := by
  induction lines with
  | nil => simp
  | cons l ls ih => simp only [List.map_cons, List.flatten_cons, List.length_append, List.length_cons]; omega

/-- a part the reader model reads back: non-empty header lines without CR whose first line names the
    part, and a content in which `CRLF--boundary` does not occur -/
def PartOK (bd : Bytes) (p : List Bytes × Bytes) (name : Bytes) (isFile : Bool) : Prop :=
  (∀ l ∈ p.1, l ≠ [] ∧ ∀ x ∈ l, x ≠ 13) ∧ partName p.1 = some (name, isFile) ∧
  occursIn ([13, 10] ++ dashBoundary bd) p.2 = false

theorem readParts_afterDelim (bd : Bytes) (hbd : ∀ x ∈ bd, x ≠ 13)
    (parts : List ((List Bytes × Bytes) × Bytes × Bool)) (fuel : Nat)
    (hlen : parts.length < fuel)
    (hok : ∀ q ∈ parts, PartOK bd q.1 q.2.1 q.2.2) :
    readParts bd fuel (afterDelim bd (parts.map (·.1)))
      = some (parts.map fun q => (q.2.1, q.1.2, q.2.2)) := by
  induction parts generalizing fuel with
  | nil =>
    cases fuel with
    | zero => simp at hlen
    | succ f => simp [readParts, afterDelim, List.isPrefixOf]
  | cons q ps ih =>
    cases fuel with
    | zero => simp at hlen
    | succ f =>
      obtain ⟨⟨lines, content⟩, name, isFile⟩ := q
      obtain ⟨hlines, hname, hocc⟩ := hok _ (List.mem_cons_self)
      simp only at hlines hname hocc
      have hd : ∀ x ∈ ([10] ++ dashBoundary bd), x ≠ 13 := by
        intro x hx
        simp only [dashBoundary, List.mem_append, List.mem_cons, List.not_mem_nil, or_false] at hx
        rcases hx with rfl | (rfl | rfl) | hx
        · decide
        · decide
        · decide
        · exact hbd x hx
      have hshape : afterDelim bd ((((lines, content), name, isFile) :: ps).map (·.1))
          = 13 :: 10 :: ((lines.map (· ++ [13, 10])).flatten ++ [13, 10] ++
              (content ++ (13 :: ([10] ++ dashBoundary bd)) ++ afterDelim bd (ps.map (·.1)))) := by
        simp [afterDelim, List.append_assoc]
      rw [hshape]
      unfold readParts
      have h1 : ([45, 45] : Bytes).isPrefixOf (13 :: 10 :: ((lines.map (· ++ [13, 10])).flatten ++ [13, 10] ++
              (content ++ (13 :: ([10] ++ dashBoundary bd)) ++ afterDelim bd (ps.map (·.1))))) = false := by
        simp [List.isPrefixOf]
      have h2 : ([13, 10] : Bytes).isPrefixOf (13 :: 10 :: ((lines.map (· ++ [13, 10])).flatten ++ [13, 10] ++
              (content ++ (13 :: ([10] ++ dashBoundary bd)) ++ afterDelim bd (ps.map (·.1))))) = true := by
        simp [List.isPrefixOf]
      simp only [h1, h2, Bool.false_eq_true, if_false, if_true, List.drop_succ_cons, List.drop_zero]
      rw [readHeaderLines_write lines _ _ hlines (by
        have := flatten_lines_length lines
        simp only [List.length_cons, List.length_append]
        omega)]
      simp only
      have hcut := cutAtPat_after ([10] ++ dashBoundary bd) content (afterDelim bd (ps.map (·.1))) hd
        (by simpa using hocc)
      rw [show ([13, 10] ++ dashBoundary bd) = 13 :: ([10] ++ dashBoundary bd) from rfl, hcut]
      simp only [hname]
      rw [ih f (by simp at hlen; omega) (fun q hq => hok q (List.mem_cons_of_mem _ hq))]
      simp

theorem afterDelim_length (bd : Bytes) (parts : List (List Bytes × Bytes)) :
    parts.length ≤ (afterDelim bd parts).length := by
  induction parts with
  | nil => simp
  | cons p rest ih =>
    obtain ⟨lines, content⟩ := p
    simp only [afterDelim, List.length_cons, List.length_append]
    omega

/-- a part content the reader model returns whole: `CRLF--boundary` does not occur in it -/
def delimFree (bd v : Bytes) : Bool := !occursIn ([13, 10] ++ dashBoundary bd) v

theorem readMultipart_writeMultipart' (bd : Bytes) (fields : List (Bytes × Bytes))
    (files : List (Bytes × Bytes × Bytes))
    (hbd : ∀ x ∈ bd, x ≠ 13)
    (hf : ∀ kv ∈ fields, partNameOK kv.1 = true ∧ delimFree bd kv.2 = true)
    (hfile : ∀ f ∈ files, partNameOK f.1 = true ∧ (∀ x ∈ f.2.1, x ≠ 13) ∧ delimFree bd f.2.2 = true) :
    readMultipart bd (writeMultipart bd fields files) = some fields := by
  let quads : List ((List Bytes × Bytes) × Bytes × Bool) :=
    fields.map (fun kv => ((fieldHeader kv.1, kv.2), kv.1, false)) ++
    files.map (fun f => ((fileHeader f.1 f.2.1, f.2.2), f.1, true))
  have hbody : writeMultipart bd fields files = dashBoundary bd ++ afterDelim bd (quads.map (·.1)) := by
    rw [← writeParts_eq]
    unfold writeMultipart
    simp [quads, List.map_append, List.flatten_append, Function.comp_def]
  have hno13 : ∀ k : Bytes, partNameOK k = true → ∀ x ∈ k, x ≠ 13 := by
    intro k hk x hx
    unfold partNameOK at hk
    simp only [List.all_eq_true, Bool.and_eq_true, bne_iff_ne, ne_eq] at hk
    exact (hk x hx).1.1
  have hok : ∀ q ∈ quads, PartOK bd q.1 q.2.1 q.2.2 := by
    intro q hq
    simp only [quads, List.mem_append, List.mem_map] at hq
    rcases hq with ⟨kv, hkv, rfl⟩ | ⟨f, hfm, rfl⟩
    · obtain ⟨hk, hv⟩ := hf kv hkv
      refine ⟨?_, partName_field kv.1 hk, by simpa [delimFree] using hv⟩
      intro l hl
      simp only [fieldHeader, List.mem_singleton] at hl
      subst hl
      refine ⟨by simp, fun x hx => ?_⟩
      simp only [List.mem_append, List.mem_singleton] at hx
      rcases hx with (hx | hx) | hx
      · exact cdPrefix_no13 x hx
      · exact hno13 kv.1 hk x hx
      · omega
    · obtain ⟨hk, hfn, hv⟩ := hfile f hfm
      refine ⟨?_, partName_file f.1 f.2.1 hk, by simpa [delimFree] using hv⟩
      intro l hl
      simp only [fileHeader, List.mem_cons, List.not_mem_nil, or_false] at hl
      rcases hl with rfl | rfl
      · refine ⟨by simp, fun x hx => ?_⟩
        simp only [List.mem_append, List.mem_singleton] at hx
        rcases hx with (((hx | hx) | hx) | hx) | hx
        · exact cdPrefix_no13 x hx
        · exact hno13 f.1 hk x hx
        · revert x; decide
        · exact hfn x hx
        · omega
      · exact ⟨by decide, by decide⟩
  unfold readMultipart
  rw [hbody]
  have hp : (dashBoundary bd).isPrefixOf (dashBoundary bd ++ afterDelim bd (quads.map (·.1))) = true :=
    isPrefixOf_self_append _ _
  simp only [hp, if_true, List.drop_left]
  rw [readParts_afterDelim bd hbd quads _ (by
    have := afterDelim_length bd (quads.map (·.1))
    simp only [List.length_map, List.length_append] at this ⊢
    omega) hok]
  simp only [Option.map_some]
  congr 1
  simp only [quads, List.map_append, List.filter_append, List.map_map, List.filter_map, Function.comp_def]
  have h1 : fields.filter (fun _ => true) = fields := List.filter_eq_self.mpr (fun _ _ => rfl)
  have h2 : files.filter (fun _ => false) = [] := List.filter_eq_nil_iff.mpr (fun _ _ => by simp)
  simp [h1, h2]

theorem aliasOK_partName (a : Bytes) (h : aliasOK a = true) : partNameOK a = true := by
  unfold aliasOK at h
  unfold partNameOK
  simp only [Bool.and_eq_true, List.all_eq_true] at h ⊢
  intro c hc
  have := h.2 c hc
  unfold isAlpha isUpper isLower isDigit at this
  simp only [Bool.or_eq_true, Bool.and_eq_true, decide_eq_true_eq, beq_iff_eq] at this
  simp only [bne_iff_ne, ne_eq]
  omega

end C11
