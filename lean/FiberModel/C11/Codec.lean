import FiberModel.Basic
/-
C11 — text codecs shared by the bundled client and the server-side binders.

* `urlencode`  = fasthttp `AppendQuotedArg` (bytesconv.go): ' ' ↦ '+', RFC 3986 unreserved kept,
  everything else `%XX` (upper-case hex).
* `urldecode`  = fasthttp `decodeArgAppend` (args.go): '+' ↦ ' ', `%XX` decoded when both digits are
  hex, a '%' followed by fewer than two bytes copies the rest verbatim, a '%' followed by non-hex
  stays a '%'.
* `renderArgs` = `Args.AppendBytes` / `Args.QueryString` for args that all carry a value
  (`Args.Add`, the only way the client fills them).
* `parseArgs`  = `Args.ParseBytes` (`argsScanner.next` + the "drop when key and value are both empty"
  filter).
* decimal `Int`/`Nat` text = `strconv.Itoa/FormatInt/FormatUint` and `strconv.ParseInt/ParseUint`
  (base 10, bit size), bool text = `strconv.ParseBool` plus gofiber/schema's `"on"`.
Core Lean only (linked into the driver).
-/
namespace C11
open B

/-! ### percent-encoding -/

/-- RFC 3986 §2.3 unreserved: ALPHA / DIGIT / `-` `_` `.` `~` (`quotedArgShouldEscapeTable = 0`). -/
def unreserved (c : Nat) : Bool :=
  isAlpha c || isDigit c || c == 45 || c == 95 || c == 46 || c == 126

/-- `upperhex[n]` -/
def hexUpper (n : Nat) : Nat := if n < 10 then 48 + n else 55 + n

/-- one byte of `AppendQuotedArg` -/
def quoteByte (c : Nat) : Bytes :=
  if c == 32 then [43]
  else if unreserved c then [c]
  else [37, hexUpper (c / 16), hexUpper (c % 16)]

/-- fasthttp `AppendQuotedArg` -/
def urlencode : Bytes → Bytes
  | [] => []
  | c :: cs => quoteByte c ++ urlencode cs

/-- `hex2intTable[c]` (`none` = 16) -/
def hex2int (c : Nat) : Option Nat :=
  if 48 ≤ c ∧ c ≤ 57 then some (c - 48)
  else if 97 ≤ c ∧ c ≤ 102 then some (c - 87)
  else if 65 ≤ c ∧ c ≤ 70 then some (c - 55)
  else none

/-- fasthttp `decodeArgAppend` (the fast path is the same function on inputs without '%' and '+'). -/
def urldecode : Bytes → Bytes
  | [] => []
  | [c] => if c == 43 then [32] else [c]
  | [c, d] =>
    if c == 37 then [37, d]                       -- `i+2 >= len(src)`: rest copied verbatim
    else (if c == 43 then 32 else c) :: urldecode [d]
  | c :: h :: l :: tl =>
    if c == 37 then
      match hex2int h, hex2int l with
      | some a, some b => (a * 16 + b) :: urldecode tl
      | _, _ => 37 :: urldecode (h :: l :: tl)
    else (if c == 43 then 32 else c) :: urldecode (h :: l :: tl)

/-! ### `k=v&…` -/

/-- `Args.AppendBytes` for args added with `Add` (every arg has a value). -/
def renderArg (kv : Bytes × Bytes) : Bytes := urlencode kv.1 ++ [61] ++ urlencode kv.2

def renderArgs (args : List (Bytes × Bytes)) : Bytes := join (args.map renderArg) [38]

/-- split a segment at its first '=' (`argsScanner.next`: `isKey` flips once). -/
def cutEq : Bytes → Bytes × Bytes
  | [] => ([], [])
  | c :: cs => if c == 61 then ([], cs) else let r := cutEq cs; (c :: r.1, r.2)

/-- one `argsScanner.next` result from a '&'-free segment -/
def parseSeg (seg : Bytes) : Bytes × Bytes :=
  let r := cutEq seg
  (urldecode r.1, urldecode r.2)

/-- `Args.ParseBytes`: segments between '&', keep those with a non-empty key or value. -/
def parseArgs (s : Bytes) : List (Bytes × Bytes) :=
  ((splitOn s 38).map parseSeg).filter fun kv => !(kv.1.isEmpty && kv.2.isEmpty)

/-! ### decimal text -/

/-- digits of `n`, most significant first (`strconv.FormatUint(n, 10)`), as an accumulator loop. -/
def natDigitsAux : Nat → Nat → Bytes → Bytes
  | 0, _, acc => acc
  | fuel + 1, n, acc =>
    if n < 10 then (48 + n) :: acc else natDigitsAux fuel (n / 10) ((48 + n % 10) :: acc)

def formatNat (n : Nat) : Bytes := natDigitsAux (n + 1) n []

/-- `strconv.Itoa` / `FormatInt(i, 10)` -/
def formatInt (i : Int) : Bytes :=
  if i < 0 then 45 :: formatNat i.natAbs else formatNat i.natAbs

/-- digits only, non-empty, to a number (the digit loop of `strconv.ParseUint`, base 10, no
    underscores; overflow is checked by the callers against the bit size). -/
def parseDigits : Bytes → Nat → Option Nat
  | [], acc => some acc
  | c :: cs, acc => if isDigit c then parseDigits cs (acc * 10 + (c - 48)) else none

def parseNat (s : Bytes) : Option Nat := if s.isEmpty then none else parseDigits s 0

/-- `strconv.ParseUint(s, 10, bits)` -/
def parseUint (bits : Nat) (s : Bytes) : Option Nat :=
  match parseNat s with
  | some n => if n < 2 ^ bits then some n else none
  | none => none

/-- `strconv.ParseInt(s, 10, bits)`: optional sign, digits, range check. -/
def parseInt (bits : Nat) (s : Bytes) : Option Int :=
  match s with
  | [] => none
  | c :: cs =>
    if c == 45 then
      match parseNat cs with
      | some n => if n ≤ 2 ^ (bits - 1) then some (-(n : Int)) else none
      | none => none
    else
      match parseNat (if c == 43 then cs else c :: cs) with
      | some n => if n < 2 ^ (bits - 1) then some (n : Int) else none
      | none => none

/-! ### bool text -/

def formatBool (v : Bool) : Bytes := if v then b "true" else b "false"

/-- gofiber/schema `convertBool`: `"on"`, else `strconv.ParseBool`. -/
def parseBool (s : Bytes) : Option Bool :=
  if s = b "on" ∨ s = b "1" ∨ s = b "t" ∨ s = b "T" ∨ s = b "TRUE" ∨ s = b "true" ∨ s = b "True" then some true
  else if s = b "0" ∨ s = b "f" ∨ s = b "F" ∨ s = b "FALSE" ∨ s = b "false" ∨ s = b "False" then some false
  else none

end C11
