import FiberModel.C08.Spec
/-
C08 — region of the known finding K1 (known/C08.json).

K1: `App.ErrorHandler` compares the appList key with `ctx.Path()` byte by byte (letter case aside),
so an app mounted under a parameterised prefix (`/:tenant`) is a candidate only for a request whose
path spells the pattern itself (`/:tenant/x`). For a real request (`/acme/x`) the handler of the app
the sentence designates is not called: the next literal candidate's, or the root's, runs instead.

The region is as narrow as the defect allows: the app the sentence designates for this path is one
whose prefix does NOT contain the path literally (so it is designated through a parameter segment).
Everywhere else the theorems in Props hold unconditionally.
-/
namespace C08.Known
open B C04 C08

def K1 (cfg : Cfg) (l : List Mounted) (path : Bytes) : Bool :=
  match innermost cfg path (candidates cfg l path) with
  | some m => !contains cfg m.pre path
  | none => false

end C08.Known
