import FiberModel.C08.Spec
/-
C08 — the region of the former known finding K1 (known/C08.json: fixed by 023a967).

K1 was: `App.ErrorHandler` compared every appList key with `ctx.Path()` byte by byte (letter case
aside), so an app mounted under a parameterised prefix (`/:tenant`) was a candidate only for a
request whose path spells the pattern itself (`/:tenant/x`). For a real request (`/acme/x`) the
handler of the app the sentence designates was not called.

The region is kept as a definition: the driver tags the cases inside it (they are the evidence that
the repaired code is exercised there), and `Props.K1_repaired` evaluates the old and the new loop
on the former witness. Nothing is excused by it any more.
-/
namespace C08.Known
open B C04 C08

/-- the app the sentence designates for this path sits under a prefix that is a route pattern -/
def K1 (cfg : Cfg) (cov : Cover) (l : List Mounted) (path : Bytes) : Bool :=
  match innermost cfg cov path (candidates cfg cov l path) with
  | some m => isPattern m.pre
  | none => false

end C08.Known
