import FiberModel.C08.Known
import FiberModel.C04.PathLemmas
/-
C08 — helper lemmas: prefix arithmetic, case folding, the order the loop of `App.ErrorHandler`
maximises (rank, then prefix), the loop invariant of its fold, uniqueness of the best candidate, the
characterisation of the spec's `innermost`, and the generic theorem `select_eq_spec_of_cover`
(whatever reading of pattern prefixes the spec uses: if it agrees with what the code computes for
the pattern keys of the table, the loop returns the spec's choice).
-/
namespace C08
open B C04

/-! ### literal prefixes -/

theorem stripPrefix_eq_some {pre path rest : Bytes} :
    stripPrefix pre path = some rest ↔ path = pre ++ rest := by
  induction pre generalizing path with
  | nil => simp [stripPrefix, eq_comm]
  | cons a pre ih =>
    cases path with
    | nil => simp [stripPrefix]
    | cons c path =>
      simp only [stripPrefix, List.cons_append, List.cons.injEq]
      by_cases h : a = c
      · subst h; simp [ih]
      · simp [h]; intro h'; exact absurd h'.symm h

theorem stripPrefix_eq_none {pre path : Bytes} :
    stripPrefix pre path = none ↔ pre.isPrefixOf path = false := by
  induction pre generalizing path with
  | nil => simp [stripPrefix]
  | cons a pre ih =>
    cases path with
    | nil => simp [stripPrefix]
    | cons c path =>
      simp only [stripPrefix, List.isPrefixOf]
      by_cases h : a = c
      · subst h; simp [ih]
      · simp [h]

/-- the boundary test on already folded strings (the code before F2) -/
def hmpRaw (path pre : Bytes) : Bool :=
  pre.isPrefixOf path &&
    (path.length == pre.length || pre.getLast? == some 47 || path[pre.length]? == some 47)

theorem hmpRaw_eq_containsRaw (path pre : Bytes) : hmpRaw path pre = containsRaw pre path := by
  unfold hmpRaw containsRaw
  cases hs : stripPrefix pre path with
  | none => simp [stripPrefix_eq_none.mp hs]
  | some rest =>
    have hp := stripPrefix_eq_some.mp hs
    subst hp
    have h1 : pre.isPrefixOf (pre ++ rest) = true := by simp
    simp only [h1, Bool.true_and, List.length_append]
    have h2 : (pre.length + rest.length == pre.length) = rest.isEmpty := by
      cases rest <;> simp
    have h3 : (pre ++ rest)[pre.length]? = rest.head? := by
      cases rest <;> simp
    rw [h2, h3]
    cases rest.isEmpty <;> cases (rest.head? == some 47) <;> cases (pre.getLast? == some 47) <;> rfl

theorem containsRaw_prefix {pre path : Bytes} (h : containsRaw pre path = true) : pre <+: path := by
  unfold containsRaw at h
  cases hs : stripPrefix pre path with
  | none => simp [hs] at h
  | some rest => exact ⟨rest, (stripPrefix_eq_some.mp hs).symm⟩

theorem prefix_eq_of_length_eq {a b p : Bytes} (ha : a <+: p) (hb : b <+: p)
    (hl : a.length = b.length) : a = b := by
  rw [List.prefix_iff_eq_take] at ha hb
  rw [ha, hb, hl]

/-! ### folding -/

theorem fb_eq_slash (cfg : Cfg) (x : Nat) : (fb cfg x == 47) = (x == 47) := by
  unfold fb
  by_cases h : cfg.caseSensitive = true
  · simp [h]
  · simp only [h]; exact lowerByte_eq_slash x

@[simp] theorem fold_length (cfg : Cfg) (s : Bytes) : (fold cfg s).length = s.length := by
  simp [fold]

theorem fold_cs {cfg : Cfg} (h : cfg.caseSensitive = true) (s : Bytes) : fold cfg s = s := by
  unfold fold fb
  simp [h]

theorem fold_ci {cfg : Cfg} (h : cfg.caseSensitive = false) (s : Bytes) : fold cfg s = toLower s := by
  unfold fold fb toLower
  simp [h]

theorem opt_fb_slash (cfg : Cfg) (o : Option Nat) : (o.map (fb cfg) == some 47) = (o == some 47) := by
  cases o with
  | none => rfl
  | some x => simpa using fb_eq_slash cfg x

theorem fold_getLast_slash (cfg : Cfg) (s : Bytes) :
    ((fold cfg s).getLast? == some 47) = (s.getLast? == some 47) := by
  unfold fold
  rw [List.getLast?_map]
  exact opt_fb_slash cfg _

theorem fold_getElem_slash (cfg : Cfg) (s : Bytes) (n : Nat) :
    ((fold cfg s)[n]? == some 47) = (s[n]? == some 47) := by
  unfold fold
  rw [List.getElem?_map]
  exact opt_fb_slash cfg _

theorem isPrefixOf_iff_take (p s : Bytes) :
    p.isPrefixOf s = (decide (p.length ≤ s.length) && (s.take p.length == p)) := by
  rw [Bool.eq_iff_iff]
  simp only [List.isPrefixOf_iff_prefix, Bool.and_eq_true, decide_eq_true_eq, beq_iff_eq]
  constructor
  · intro h
    exact ⟨h.length_le, (List.prefix_iff_eq_take.mp h).symm⟩
  · rintro ⟨_, h⟩
    rw [List.prefix_iff_eq_take]; exact h.symm

/-- F2 in one line: the code's test is the old test on the strings as the router compares them -/
theorem hasMountPrefix_fold (cfg : Cfg) (path pre : Bytes) :
    hasMountPrefix cfg path pre = hmpRaw (fold cfg path) (fold cfg pre) := by
  unfold hasMountPrefix hmpRaw
  rw [isPrefixOf_iff_take, fold_getLast_slash, fold_getElem_slash]
  simp only [fold_length]
  by_cases hlen : path.length < pre.length
  · have : decide (pre.length ≤ path.length) = false := by simp; omega
    simp [hlen, this]
  · have hle : decide (pre.length ≤ path.length) = true := by simp; omega
    simp only [hlen, if_false, hle, Bool.true_and]
    by_cases hcs : cfg.caseSensitive = true
    · rw [fold_cs hcs, fold_cs hcs]
      simp only [hcs, Bool.true_or, Bool.and_true]
      by_cases he : List.take pre.length path = pre
      · simp [he]
      · simp [he]
    · have hcs' : cfg.caseSensitive = false := by simpa using hcs
      rw [fold_ci hcs', fold_ci hcs']
      have ht : List.take pre.length (toLower path) = toLower (List.take pre.length path) := by
        simp [toLower, List.map_take]
      rw [ht]
      simp only [hcs', Bool.false_or, equalFold]
      by_cases he : List.take pre.length path = pre
      · simp [he]
      · by_cases hf : toLower (List.take pre.length path) = toLower pre
        · simp [he, hf]
        · simp [he, hf]

/-- the code's test on a key (leading slash added as the loop does) is the spec's literal `contains` -/
theorem hasMountPrefix_eq_contains' (cfg : Cfg) (path k : Bytes) :
    hasMountPrefix cfg path (ensureSlash k) = contains cfg k path := by
  rw [hasMountPrefix_fold, hmpRaw_eq_containsRaw]; rfl

/-! ### Go's string order -/

theorem bytesLt_irrefl (a : Bytes) : bytesLt a a = false := by
  induction a with
  | nil => rfl
  | cons x t ih => simp [bytesLt, ih]

theorem bytesLt_trans {a c d : Bytes} (h1 : bytesLt a c = true) (h2 : bytesLt c d = true) : bytesLt a d = true := by
  induction a generalizing c d with
  | nil =>
    cases c with
    | nil => simp [bytesLt] at h1
    | cons y t =>
      cases d with
      | nil => simp [bytesLt] at h2
      | cons z u => simp [bytesLt]
  | cons x s ih =>
    cases c with
    | nil => simp [bytesLt] at h1
    | cons y t =>
      cases d with
      | nil => simp [bytesLt] at h2
      | cons z u =>
        simp only [bytesLt, Bool.or_eq_true, decide_eq_true_eq, Bool.and_eq_true, beq_iff_eq] at h1 h2 ⊢
        rcases h1 with h1 | ⟨h1, h1'⟩
        · rcases h2 with h2 | ⟨h2, _⟩
          · left; omega
          · left; omega
        · rcases h2 with h2 | ⟨h2, h2'⟩
          · left; omega
          · right; exact ⟨by omega, ih h1' h2'⟩

theorem bytesLt_total {a c : Bytes} (h : a ≠ c) : bytesLt a c = true ∨ bytesLt c a = true := by
  induction a generalizing c with
  | nil =>
    cases c with
    | nil => exact absurd rfl h
    | cons y t => left; simp [bytesLt]
  | cons x s ih =>
    cases c with
    | nil => right; simp [bytesLt]
    | cons y t =>
      simp only [bytesLt, Bool.or_eq_true, decide_eq_true_eq, Bool.and_eq_true, beq_iff_eq]
      by_cases hxy : x = y
      · subst hxy
        have : s ≠ t := fun hh => h (by rw [hh])
        rcases ih this with h' | h'
        · left; right; exact ⟨rfl, h'⟩
        · right; right; exact ⟨rfl, h'⟩
      · by_cases hlt : x < y
        · left; left; exact hlt
        · right; left; omega

theorem bytesLt_asymm {a c : Bytes} (h : bytesLt a c = true) : bytesLt c a = false := by
  cases hh : bytesLt c a with
  | false => rfl
  | true => have := bytesLt_trans h hh; rw [bytesLt_irrefl] at this; cases this

theorem sortsBefore_eq_bytesLt (a c : Bytes) : sortsBefore a c = bytesLt a c := by
  induction a generalizing c with
  | nil => cases c <;> rfl
  | cons x s ih =>
    cases c with
    | nil => rfl
    | cons y t =>
      simp only [sortsBefore, bytesLt]
      by_cases hxy : x = y
      · subst hxy; simp [ih]
      · simp [hxy]

/-! ### the order the loop maximises: rank first, then the prefix that sorts last -/

/-- `a` is taken rather than `c` -/
def Pref (a c : Nat × Bytes) : Prop := a.1 > c.1 ∨ (a.1 = c.1 ∧ bytesLt c.2 a.2 = true)

instance (a c : Nat × Bytes) : Decidable (Pref a c) := by unfold Pref; exact inferInstance

theorem pref_irrefl (a : Nat × Bytes) : ¬ Pref a a := by
  unfold Pref; simp [bytesLt_irrefl]

theorem pref_trans {a c d : Nat × Bytes} (h1 : Pref a c) (h2 : Pref c d) : Pref a d := by
  unfold Pref at *
  rcases h1 with h1 | ⟨h1, h1'⟩
  · rcases h2 with h2 | ⟨h2, _⟩
    · left; omega
    · left; omega
  · rcases h2 with h2 | ⟨h2, h2'⟩
    · left; omega
    · right; exact ⟨by omega, bytesLt_trans h2' h1'⟩

theorem pref_total {a c : Nat × Bytes} (h : a ≠ c) : Pref a c ∨ Pref c a := by
  unfold Pref
  obtain ⟨a1, a2⟩ := a
  obtain ⟨c1, c2⟩ := c
  simp only
  by_cases h1 : a1 = c1
  · subst h1
    have : a2 ≠ c2 := fun hh => h (by rw [hh])
    rcases bytesLt_total this with h' | h'
    · right; right; exact ⟨rfl, h'⟩
    · left; right; exact ⟨rfl, h'⟩
  · by_cases hlt : a1 > c1
    · left; left; exact hlt
    · right; left; omega

theorem pref_asymm {a c : Nat × Bytes} (h : Pref a c) : ¬ Pref c a :=
  fun h' => pref_irrefl a (pref_trans h h')

/-- negative transitivity: "not taken rather than" is transitive -/
theorem not_pref_trans {a c d : Nat × Bytes} (h1 : ¬ Pref a c) (h2 : ¬ Pref c d) : ¬ Pref a d := by
  intro h
  by_cases hcd : c = d
  · subst hcd; exact h1 h
  · rcases pref_total hcd with h' | h'
    · exact h2 h'
    · exact h1 (pref_trans h h')

theorem eq_of_not_pref {a c : Nat × Bytes} (h1 : ¬ Pref a c) (h2 : ¬ Pref c a) : a = c := by
  by_cases h : a = c
  · exact h
  · rcases pref_total h with h' | h'
    · exact absurd h' h1
    · exact absurd h' h2

/-! ### the loop -/

/-- a candidate as the loop sees it, with its rank -/
def Cand (chk : C02.Constraint → Bytes → Bool) (cfg : Cfg) (path : Bytes) (m : Mounted) (r : Nat) : Prop :=
  m.pre ≠ [] ∧ m.own ≠ none ∧ rankOf chk cfg path m.pre = some r

/-- what the loop compares -/
def sc (m : Mounted) (r : Nat) : Nat × Bytes := (r, ensureSlash m.pre)

theorem mem_range'_one {n k : Nat} (h : k ∈ List.range' 1 n) : 1 ≤ k ∧ k ≤ n := by
  rw [List.mem_range'_1] at h; omega

theorem mountPrefixLen_some {chk segs det path n} (h : mountPrefixLen chk segs det path = some n) :
    1 ≤ n ∧ n ≤ det.length ∧ cutMatches chk segs det path n = true := by
  unfold mountPrefixLen at h
  have hm := List.mem_of_find?_eq_some h
  have hp := List.find?_some h
  have := mem_range'_one hm
  exact ⟨this.1, this.2, hp⟩

theorem rankOf_pos {chk cfg path k r} (h : rankOf chk cfg path k = some r) : 0 < r := by
  unfold rankOf at h
  by_cases hp : isPatternKey k = true
  · simp only [hp, if_true] at h
    cases hk : parseKey cfg k with
    | none => simp [hk] at h
    | some segs =>
      simp only [hk, Option.map_eq_some_iff] at h
      obtain ⟨n, hn, rfl⟩ := h
      have := (mountPrefixLen_some hn).1
      omega
  · simp only [hp] at h
    by_cases hh : hasMountPrefix cfg path (ensureSlash k) = true
    · simp [hh] at h; omega
    · simp [hh] at h

theorem step_of_not_cand {chk cfg path acc m} (h : ∀ r, ¬ Cand chk cfg path m r) :
    step chk cfg path acc m = acc := by
  unfold step
  by_cases h1 : m.pre = [] ∨ m.own = none
  · simp [h1]
  · simp only [h1, if_false]
    cases hr : rankOf chk cfg path m.pre with
    | none => rfl
    | some r =>
      have h1' : m.pre ≠ [] ∧ m.own ≠ none := by
        constructor
        · intro hh; exact h1 (Or.inl hh)
        · intro hh; exact h1 (Or.inr hh)
      exact absurd ⟨h1'.1, h1'.2, hr⟩ (h r)

theorem step_of_cand {chk cfg path acc m r} (h : Cand chk cfg path m r) :
    step chk cfg path acc m =
      if Pref (sc m r) (acc.rank, acc.pre) then ⟨m.own, ensureSlash m.pre, r⟩ else acc := by
  unfold step
  obtain ⟨h1, h2, h3⟩ := h
  have : ¬ (m.pre = [] ∨ m.own = none) := by
    intro hh; rcases hh with hh | hh
    · exact h1 hh
    · exact h2 hh
  simp only [this, if_false, h3]
  rfl

theorem cand_rank_unique {chk cfg path m r t} (h1 : Cand chk cfg path m r) (h2 : Cand chk cfg path m t) : r = t := by
  have := h1.2.2.symm.trans h2.2.2
  simpa using this

/-- loop invariant of the fold in `App.ErrorHandler` -/
theorem fold_inv (chk : C02.Constraint → Bytes → Bool) (cfg : Cfg) (path : Bytes) (l : List Mounted) (acc : Acc) :
    let res := l.foldl (step chk cfg path) acc
    ¬ Pref (acc.rank, acc.pre) (res.rank, res.pre) ∧
    (∀ m ∈ l, ∀ r, Cand chk cfg path m r → ¬ Pref (sc m r) (res.rank, res.pre)) ∧
    (res = acc ∨ ∃ m ∈ l, ∃ r, Cand chk cfg path m r ∧ res = ⟨m.own, ensureSlash m.pre, r⟩) := by
  induction l generalizing acc with
  | nil => exact ⟨pref_irrefl _, by simp, Or.inl rfl⟩
  | cons m t ih =>
    simp only [List.foldl_cons]
    have ih' := ih (step chk cfg path acc m)
    simp only at ih'
    obtain ⟨hA, hB, hC⟩ := ih'
    by_cases hc : ∃ r, Cand chk cfg path m r
    · obtain ⟨r, hc⟩ := hc
      rw [step_of_cand hc] at hA hB hC ⊢
      by_cases hp : Pref (sc m r) (acc.rank, acc.pre)
      · simp only [hp, if_true] at hA hB hC ⊢
        have hA' : ¬ Pref (sc m r) ((List.foldl (step chk cfg path) ⟨m.own, ensureSlash m.pre, r⟩ t).rank,
            (List.foldl (step chk cfg path) ⟨m.own, ensureSlash m.pre, r⟩ t).pre) := hA
        refine ⟨fun hh => hA' (pref_trans hp hh), ?_, ?_⟩
        · intro x hx r' hcx
          rcases List.mem_cons.mp hx with rfl | hx
          · have := cand_rank_unique hc hcx
            subst this
            exact hA'
          · exact hB x hx r' hcx
        · rcases hC with hC | ⟨x, hx, r', hcx, hr⟩
          · exact Or.inr ⟨m, by simp, r, hc, hC⟩
          · exact Or.inr ⟨x, List.mem_cons_of_mem _ hx, r', hcx, hr⟩
      · simp only [hp, if_false] at hA hB hC ⊢
        refine ⟨hA, ?_, ?_⟩
        · intro x hx r' hcx
          rcases List.mem_cons.mp hx with rfl | hx
          · have := cand_rank_unique hc hcx
            subst this
            exact not_pref_trans hp hA
          · exact hB x hx r' hcx
        · rcases hC with hC | ⟨x, hx, r', hcx, hr⟩
          · exact Or.inl hC
          · exact Or.inr ⟨x, List.mem_cons_of_mem _ hx, r', hcx, hr⟩
    · have hc' : ∀ r, ¬ Cand chk cfg path m r := fun r hh => hc ⟨r, hh⟩
      rw [step_of_not_cand hc'] at hA hB hC ⊢
      refine ⟨hA, ?_, ?_⟩
      · intro x hx r' hcx
        rcases List.mem_cons.mp hx with rfl | hx
        · exact absurd hcx (hc' r')
        · exact hB x hx r' hcx
      · rcases hC with hC | ⟨x, hx, r', hcx, hr⟩
        · exact Or.inl hC
        · exact Or.inr ⟨x, List.mem_cons_of_mem _ hx, r', hcx, hr⟩

/-- `x` is a candidate of `l` that no candidate of `l` is taken rather than -/
def Best (chk : C02.Constraint → Bytes → Bool) (cfg : Cfg) (l : List Mounted) (path : Bytes) (x : Mounted) (r : Nat) : Prop :=
  x ∈ l ∧ Cand chk cfg path x r ∧ ∀ y ∈ l, ∀ t, Cand chk cfg path y t → ¬ Pref (sc y t) (sc x r)

theorem nodup_map_inj {α β} (f : α → β) {l : List α} (h : (l.map f).Nodup) {a b : α}
    (ha : a ∈ l) (hb : b ∈ l) (hf : f a = f b) : a = b := by
  induction l with
  | nil => cases ha
  | cons x t ih =>
    simp only [List.map_cons, List.nodup_cons, List.mem_map, not_exists, not_and] at h
    rcases List.mem_cons.mp ha with hax | hat
    · rcases List.mem_cons.mp hb with hbx | hbt
      · rw [hax, hbx]
      · rw [hax] at hf; exact absurd hf.symm (h.1 b hbt)
    · rcases List.mem_cons.mp hb with hbx | hbt
      · rw [hbx] at hf; exact absurd hf (h.1 a hat)
      · exact ih h.2 hat hbt

theorem best_unique {chk cfg} {l : List Mounted} {path : Bytes}
    (hnd : (l.map (fun m => slashKey m.pre)).Nodup) {x y : Mounted} {r t : Nat}
    (hx : Best chk cfg l path x r) (hy : Best chk cfg l path y t) : x = y := by
  have h1 := hx.2.2 y hy.1 t hy.2.1
  have h2 := hy.2.2 x hx.1 r hx.2.1
  have he := eq_of_not_pref h1 h2
  apply nodup_map_inj (fun m => slashKey m.pre) hnd hx.1 hy.1
  simp only [slashKey, hx.2.1.1, hy.2.1.1, if_false, mountedAt]
  have := congrArg Prod.snd he
  simpa [sc] using this.symm

/-- what the fold returns: nothing if there is no candidate, else the best candidate's handler -/
theorem select_char (chk : C02.Constraint → Bytes → Bool) (cfg : Cfg) (l : List Mounted) (path : Bytes) :
    ((∀ m ∈ l, ∀ r, ¬ Cand chk cfg path m r) ∧ select chk cfg l path = none) ∨
    (∃ x r, Best chk cfg l path x r ∧ select chk cfg l path = x.own) := by
  have h := fold_inv chk cfg path l ⟨none, [], 0⟩
  simp only at h
  obtain ⟨_, hB, hC⟩ := h
  unfold select
  rcases hC with hC | ⟨x, hx, r, hcx, hr⟩
  · left
    refine ⟨?_, by rw [hC]⟩
    intro m hm r hc
    have := hB m hm r hc
    rw [hC] at this
    apply this
    left
    exact rankOf_pos hc.2.2
  · right
    refine ⟨x, r, ⟨hx, hcx, ?_⟩, by rw [hr]⟩
    intro y hy t hcy
    have := hB y hy t hcy
    rw [hr] at this
    exact this

/-! ### the spec's `innermost` -/

/-- what the spec compares -/
def ssc (cfg : Cfg) (cov : Cover) (path : Bytes) (m : Mounted) : Nat × Bytes :=
  (reach cfg cov path m, mountedAt m.pre)

theorem preferred_iff {cfg : Cfg} {cov : Cover} {path : Bytes} {x m : Mounted} :
    preferred cfg cov path x m = true ↔ Pref (ssc cfg cov path x) (ssc cfg cov path m) := by
  unfold preferred Pref ssc
  simp [sortsBefore_eq_bytesLt]

theorem innermost_none {cfg : Cfg} {cov : Cover} {path : Bytes} {c : List Mounted} :
    innermost cfg cov path c = none ↔ c = [] := by
  cases c with
  | nil => simp [innermost]
  | cons m t =>
    simp only [innermost]
    cases innermost cfg cov path t with
    | none => simp
    | some x => by_cases h : preferred cfg cov path x m = true <;> simp [h]

theorem innermost_some {cfg : Cfg} {cov : Cover} {path : Bytes} {c : List Mounted} {x : Mounted}
    (h : innermost cfg cov path c = some x) :
    x ∈ c ∧ ∀ y ∈ c, ¬ Pref (ssc cfg cov path y) (ssc cfg cov path x) := by
  induction c generalizing x with
  | nil => simp [innermost] at h
  | cons m t ih =>
    simp only [innermost] at h
    cases ht : innermost cfg cov path t with
    | none =>
      rw [ht] at h
      simp only [Option.some.injEq] at h
      subst h
      have : t = [] := innermost_none.mp ht
      subst this
      refine ⟨by simp, ?_⟩
      intro y hy
      simp only [List.mem_singleton] at hy
      subst hy
      exact pref_irrefl _
    | some z =>
      rw [ht] at h
      have ihz := ih ht
      by_cases hgt : preferred cfg cov path z m = true
      · simp only [hgt, if_true, Option.some.injEq] at h
        subst h
        refine ⟨List.mem_cons_of_mem _ ihz.1, ?_⟩
        intro y hy
        rcases List.mem_cons.mp hy with rfl | hy
        · exact pref_asymm (preferred_iff.mp hgt)
        · exact ihz.2 y hy
      · have hgt' : preferred cfg cov path z m = false := by simpa using hgt
        simp only [hgt', Bool.false_eq_true, if_false, Option.some.injEq] at h
        subst h
        have hzm : ¬ Pref (ssc cfg cov path z) (ssc cfg cov path m) := fun hh => hgt (preferred_iff.mpr hh)
        refine ⟨by simp, ?_⟩
        intro y hy
        rcases List.mem_cons.mp hy with rfl | hy
        · exact pref_irrefl _
        · exact not_pref_trans (ihz.2 y hy) hzm

theorem mem_candidates {cfg : Cfg} {cov : Cover} {l : List Mounted} {path : Bytes} {m : Mounted} :
    m ∈ candidates cfg cov l path ↔ m ∈ l ∧ m.pre ≠ [] ∧ m.own ≠ none ∧
      (covers cfg cov m.pre path).isSome = true := by
  unfold candidates isCandidate
  rw [List.mem_filter]
  constructor
  · rintro ⟨hm, h⟩
    simp only [Bool.and_eq_true, Bool.not_eq_true', List.isEmpty_eq_false_iff] at h
    refine ⟨hm, h.1.1, ?_, h.2⟩
    intro hn; rw [hn] at h; simp at h
  · rintro ⟨hm, h1, h2, h3⟩
    refine ⟨hm, ?_⟩
    simp only [Bool.and_eq_true, Bool.not_eq_true', List.isEmpty_eq_false_iff]
    refine ⟨⟨h1, ?_⟩, h3⟩
    cases ho : m.own with
    | none => exact absurd ho h2
    | some _ => rfl

/-! ### the code's reading of a pattern key, and the generic theorem -/

/-- what the code computes for a key that is a route pattern: the parser made at startup, matched
against the leading parts of the context's paths -/
def modelCover (chk : C02.Constraint → Bytes → Bool) (cfg : Cfg) : Cover := fun k path =>
  (parseKey cfg k).bind fun segs => mountPrefixLen chk segs (detOf cfg path) path

theorem isPatternKey_eq (k : Bytes) : isPatternKey k = isPattern k := rfl

/-- the rank the loop computes is the spec's reach, whenever the spec's reading of the key (if it
is a pattern) is what the code computes -/
theorem rankOf_eq_covers {chk cfg} {cov : Cover} {path k : Bytes}
    (hcov : isPattern k = true → modelCover chk cfg k path = cov k path) :
    rankOf chk cfg path k =
      (covers cfg cov k path).map (fun n => if isPattern k then 2 * n else 2 * n + 1) := by
  unfold rankOf covers
  rw [isPatternKey_eq]
  by_cases hp : isPattern k = true
  · simp only [hp, if_true]
    rw [← hcov hp]
    unfold modelCover
    cases parseKey cfg k with
    | none => rfl
    | some segs => simp
  · simp only [hp]
    rw [hasMountPrefix_eq_contains']
    by_cases hc : contains cfg k path = true
    · simp [hc, mountedAt]
    · simp [hc]

theorem cand_iff_spec {chk cfg} {cov : Cover} {path : Bytes} {m : Mounted} {r : Nat}
    (hcov : isPattern m.pre = true → modelCover chk cfg m.pre path = cov m.pre path) :
    Cand chk cfg path m r ↔ m.pre ≠ [] ∧ m.own ≠ none ∧ (covers cfg cov m.pre path).isSome = true ∧
      reach cfg cov path m = r := by
  unfold Cand reach
  rw [rankOf_eq_covers hcov]
  cases covers cfg cov m.pre path with
  | none => simp
  | some n => simp

/-- Whatever reading `cov` of pattern prefixes the spec uses: if it is what the code computes for
the pattern keys of the table, the loop returns the spec's choice. -/
theorem select_eq_spec_of_cover (chk : C02.Constraint → Bytes → Bool) (cfg : Cfg) (cov : Cover) (l : List Mounted)
    (path : Bytes) (hnd : (l.map (fun m => slashKey m.pre)).Nodup)
    (hcov : ∀ m ∈ l, isPattern m.pre = true → modelCover chk cfg m.pre path = cov m.pre path) :
    select chk cfg l path = selectSpec cfg cov l path := by
  unfold selectSpec
  rcases select_char chk cfg l path with ⟨hno, hs⟩ | ⟨x, r, hbest, hs⟩
  · have : candidates cfg cov l path = [] := by
      apply List.eq_nil_iff_forall_not_mem.mpr
      intro m hm
      have hm' := mem_candidates.mp hm
      exact hno m hm'.1 (reach cfg cov path m)
        ((cand_iff_spec (hcov m hm'.1)).mpr ⟨hm'.2.1, hm'.2.2.1, hm'.2.2.2, rfl⟩)
    rw [hs, this]; rfl
  · have hxs := (cand_iff_spec (hcov x hbest.1)).mp hbest.2.1
    have hxc : x ∈ candidates cfg cov l path := mem_candidates.mpr ⟨hbest.1, hxs.1, hxs.2.1, hxs.2.2.1⟩
    cases hi : innermost cfg cov path (candidates cfg cov l path) with
    | none => rw [innermost_none.mp hi] at hxc; cases hxc
    | some z =>
      obtain ⟨hz, hzmax⟩ := innermost_some hi
      have hzm := mem_candidates.mp hz
      have hzc : Cand chk cfg path z (reach cfg cov path z) :=
        (cand_iff_spec (hcov z hzm.1)).mpr ⟨hzm.2.1, hzm.2.2.1, hzm.2.2.2, rfl⟩
      have hzb : Best chk cfg l path z (reach cfg cov path z) := by
        refine ⟨hzm.1, hzc, ?_⟩
        intro y hy t hcy
        have hys := (cand_iff_spec (hcov y hy)).mp hcy
        have := hzmax y (mem_candidates.mpr ⟨hy, hys.1, hys.2.1, hys.2.2.1⟩)
        unfold ssc at this
        rw [hys.2.2.2] at this
        exact this
      have := best_unique hnd hbest hzb
      subst this
      rw [hs]; rfl

end C08
