import FiberModel.C08.Spec
/-
C08 — helper lemmas: prefix arithmetic, the loop invariant of `App.ErrorHandler`'s fold, the
characterisation of `innermost`, uniqueness of the best candidate.
-/
namespace C08
open B C04

theorem stripPrefix_eq_some {pre path rest : Bytes} :
    stripPrefix pre path = some rest ↔ path = pre ++ rest := by
  induction pre generalizing path with
  | nil => simp [stripPrefix, eq_comm]
  | cons a pre ih =>
    cases path with
    | nil => simp [stripPrefix]
    | cons c path =>
      simp only [stripPrefix, List.cons_append, List.cons.injEq]
      by_cases h : a = c
      · subst h; simp [ih]
      · simp [h]; intro h'; exact absurd h'.symm h

theorem stripPrefix_eq_none {pre path : Bytes} :
    stripPrefix pre path = none ↔ pre.isPrefixOf path = false := by
  induction pre generalizing path with
  | nil => simp [stripPrefix]
  | cons a pre ih =>
    cases path with
    | nil => simp [stripPrefix]
    | cons c path =>
      simp only [stripPrefix, List.isPrefixOf]
      by_cases h : a = c
      · subst h; simp [ih]
      · simp [h]

/-- the code's boundary test is the spec's `contains` -/
theorem hasMountPrefix_eq_contains (path pre : Bytes) : hasMountPrefix path pre = contains pre path := by
  unfold hasMountPrefix contains
  cases hs : stripPrefix pre path with
  | none => simp [stripPrefix_eq_none.mp hs]
  | some rest =>
    have hp := stripPrefix_eq_some.mp hs
    subst hp
    have h1 : pre.isPrefixOf (pre ++ rest) = true := by simp
    simp only [h1, Bool.true_and, List.length_append]
    have h2 : (pre.length + rest.length == pre.length) = rest.isEmpty := by
      cases rest <;> simp
    have h3 : (pre ++ rest)[pre.length]? = rest.head? := by
      cases rest <;> simp
    rw [h2, h3]
    cases rest.isEmpty <;> cases (rest.head? == some 47) <;> cases (pre.getLast? == some 47) <;> rfl

theorem contains_prefix {pre path : Bytes} (h : contains pre path = true) : pre <+: path := by
  unfold contains at h
  cases hs : stripPrefix pre path with
  | none => simp [hs] at h
  | some rest => exact ⟨rest, (stripPrefix_eq_some.mp hs).symm⟩

/-- a candidate as the loop sees it -/
def Cand (path : Bytes) (m : Mounted) : Prop :=
  m.pre ≠ [] ∧ m.own ≠ none ∧ hasMountPrefix path m.pre = true

instance (path : Bytes) (m : Mounted) : Decidable (Cand path m) := by unfold Cand; exact inferInstance

theorem step_of_not_cand {path acc m} (h : ¬ Cand path m) : step path acc m = acc := by
  unfold step Cand at *
  by_cases h1 : m.pre = []
  · simp [h1]
  · by_cases h2 : m.own = none
    · simp [h2]
    · have h3 : hasMountPrefix path m.pre = false := by
        cases hh : hasMountPrefix path m.pre with
        | false => rfl
        | true => exact absurd ⟨h1, h2, hh⟩ h
      simp [h3]

theorem step_of_cand {path acc m} (h : Cand path m) :
    step path acc m = if m.pre.length > acc.2 then (m.own, m.pre.length) else acc := by
  unfold step
  obtain ⟨h1, h2, h3⟩ := h
  simp [h1, h2, h3]

/-- loop invariant of the fold in `App.ErrorHandler` -/
theorem fold_inv (path : Bytes) (l : List Mounted) (acc : Option Own × Nat) :
    let r := l.foldl (step path) acc
    acc.2 ≤ r.2 ∧ (∀ m ∈ l, Cand path m → m.pre.length ≤ r.2) ∧
    (r = acc ∨ ∃ m ∈ l, Cand path m ∧ r = (m.own, m.pre.length) ∧ acc.2 < m.pre.length) := by
  induction l generalizing acc with
  | nil => simp
  | cons m t ih =>
    simp only [List.foldl_cons]
    have ih' := ih (step path acc m)
    simp only at ih'
    obtain ⟨hA, hB, hC⟩ := ih'
    by_cases hc : Cand path m
    · rw [step_of_cand hc] at hA hB hC ⊢
      by_cases hgt : m.pre.length > acc.2
      · simp only [hgt, if_true] at hA hB hC ⊢
        have hA' : m.pre.length ≤ (List.foldl (step path) (m.own, m.pre.length) t).2 := hA
        refine ⟨by omega, ?_, ?_⟩
        · intro x hx hcx
          rcases List.mem_cons.mp hx with rfl | hx
          · exact hA'
          · exact hB x hx hcx
        · rcases hC with hC | ⟨x, hx, hcx, hr, hlt⟩
          · exact Or.inr ⟨m, by simp, hc, hC, hgt⟩
          · have hlt' : m.pre.length < x.pre.length := hlt
            exact Or.inr ⟨x, List.mem_cons_of_mem _ hx, hcx, hr, by omega⟩
      · simp only [hgt, if_false] at hA hB hC ⊢
        refine ⟨hA, ?_, ?_⟩
        · intro x hx hcx
          rcases List.mem_cons.mp hx with rfl | hx
          · omega
          · exact hB x hx hcx
        · rcases hC with hC | ⟨x, hx, hcx, hr, hlt⟩
          · exact Or.inl hC
          · exact Or.inr ⟨x, List.mem_cons_of_mem _ hx, hcx, hr, hlt⟩
    · rw [step_of_not_cand hc] at hA hB hC ⊢
      refine ⟨hA, ?_, ?_⟩
      · intro x hx hcx
        rcases List.mem_cons.mp hx with rfl | hx
        · exact absurd hcx hc
        · exact hB x hx hcx
      · rcases hC with hC | ⟨x, hx, hcx, hr, hlt⟩
        · exact Or.inl hC
        · exact Or.inr ⟨x, List.mem_cons_of_mem _ hx, hcx, hr, hlt⟩

/-- `x` is a candidate of `l` with the longest prefix -/
def Best (l : List Mounted) (path : Bytes) (x : Mounted) : Prop :=
  x ∈ l ∧ Cand path x ∧ ∀ y ∈ l, Cand path y → y.pre.length ≤ x.pre.length

theorem nodup_map_inj {α β} (f : α → β) {l : List α} (h : (l.map f).Nodup) {a b : α}
    (ha : a ∈ l) (hb : b ∈ l) (hf : f a = f b) : a = b := by
  induction l with
  | nil => cases ha
  | cons x t ih =>
    simp only [List.map_cons, List.nodup_cons, List.mem_map, not_exists, not_and] at h
    rcases List.mem_cons.mp ha with hax | hat
    · rcases List.mem_cons.mp hb with hbx | hbt
      · rw [hax, hbx]
      · rw [hax] at hf; exact absurd hf.symm (h.1 b hbt)
    · rcases List.mem_cons.mp hb with hbx | hbt
      · rw [hbx] at hf; exact absurd hf (h.1 a hat)
      · exact ih h.2 hat hbt

theorem prefix_eq_of_length_eq {a b p : Bytes} (ha : a <+: p) (hb : b <+: p)
    (hl : a.length = b.length) : a = b := by
  rw [List.prefix_iff_eq_take] at ha hb
  rw [ha, hb, hl]

theorem cand_prefix {path : Bytes} {m : Mounted} (h : Cand path m) : m.pre <+: path := by
  have := h.2.2
  rw [hasMountPrefix_eq_contains] at this
  exact contains_prefix this

theorem best_unique {l : List Mounted} {path : Bytes} (hnd : (l.map (·.pre)).Nodup) {x y : Mounted}
    (hx : Best l path x) (hy : Best l path y) : x = y := by
  have h1 := hx.2.2 y hy.1 hy.2.1
  have h2 := hy.2.2 x hx.1 hx.2.1
  have hp : x.pre = y.pre := prefix_eq_of_length_eq (cand_prefix hx.2.1) (cand_prefix hy.2.1) (by omega)
  exact nodup_map_inj (·.pre) hnd hx.1 hy.1 hp

/-- what the fold returns: nothing if there is no candidate, else the best candidate's handler -/
theorem select_char (l : List Mounted) (path : Bytes) :
    ((∀ m ∈ l, ¬ Cand path m) ∧ select l path = none) ∨
    (∃ x, Best l path x ∧ select l path = x.own) := by
  have h := fold_inv path l (none, 0)
  simp only at h
  obtain ⟨_, hB, hC⟩ := h
  unfold select
  rcases hC with hC | ⟨x, hx, hcx, hr, _⟩
  · left
    refine ⟨?_, by rw [hC]⟩
    intro m hm hc
    have := hB m hm hc
    rw [hC] at this
    have hne := hc.1
    cases hp : m.pre with
    | nil => exact hne hp
    | cons a t => rw [hp] at this; simp at this
  · right
    refine ⟨x, ⟨hx, hcx, ?_⟩, by rw [hr]⟩
    intro y hy hcy
    have := hB y hy hcy
    rw [hr] at this
    exact this

theorem innermost_none {c : List Mounted} : innermost c = none ↔ c = [] := by
  cases c with
  | nil => simp [innermost]
  | cons m t =>
    simp only [innermost]
    cases innermost t with
    | none => simp
    | some x => by_cases h : x.pre.length > m.pre.length <;> simp [h]

theorem innermost_some {c : List Mounted} {x : Mounted} (h : innermost c = some x) :
    x ∈ c ∧ ∀ y ∈ c, y.pre.length ≤ x.pre.length := by
  induction c generalizing x with
  | nil => simp [innermost] at h
  | cons m t ih =>
    simp only [innermost] at h
    cases ht : innermost t with
    | none =>
      rw [ht] at h
      simp only [Option.some.injEq] at h
      subst h
      have : t = [] := innermost_none.mp ht
      subst this
      simp
    | some z =>
      rw [ht] at h
      have ihz := ih ht
      by_cases hgt : z.pre.length > m.pre.length
      · simp only [hgt, if_true, Option.some.injEq] at h
        subst h
        refine ⟨List.mem_cons_of_mem _ ihz.1, ?_⟩
        intro y hy
        rcases List.mem_cons.mp hy with rfl | hy
        · omega
        · exact ihz.2 y hy
      · simp only [hgt, if_false, Option.some.injEq] at h
        subst h
        refine ⟨by simp, ?_⟩
        intro y hy
        rcases List.mem_cons.mp hy with rfl | hy
        · omega
        · have := ihz.2 y hy; omega

theorem mem_candidates {l : List Mounted} {path : Bytes} {m : Mounted} :
    m ∈ candidates l path ↔ m ∈ l ∧ Cand path m := by
  unfold candidates Cand
  rw [List.mem_filter, hasMountPrefix_eq_contains]
  constructor
  · rintro ⟨hm, h⟩
    simp only [Bool.and_eq_true, Bool.not_eq_true', List.isEmpty_eq_false_iff] at h
    refine ⟨hm, h.1.1, ?_, h.2⟩
    intro hn; rw [hn] at h; simp at h
  · rintro ⟨hm, h1, h2, h3⟩
    refine ⟨hm, ?_⟩
    simp only [Bool.and_eq_true, Bool.not_eq_true', List.isEmpty_eq_false_iff]
    refine ⟨⟨h1, ?_⟩, h3⟩
    cases ho : m.own with
    | none => exact absurd ho h2
    | some _ => rfl

end C08
