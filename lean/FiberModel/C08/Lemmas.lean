import FiberModel.C08.Known
import FiberModel.C04.PathLemmas
/-
C08 — helper lemmas: prefix arithmetic, case folding, the loop invariant of `App.ErrorHandler`'s
fold, the characterisation of `innermost`, uniqueness of the best candidate, parameter-free keys.
-/
namespace C08
open B C04

/-! ### literal prefixes -/

theorem stripPrefix_eq_some {pre path rest : Bytes} :
    stripPrefix pre path = some rest ↔ path = pre ++ rest := by
  induction pre generalizing path with
  | nil => simp [stripPrefix, eq_comm]
  | cons a pre ih =>
    cases path with
    | nil => simp [stripPrefix]
    | cons c path =>
      simp only [stripPrefix, List.cons_append, List.cons.injEq]
      by_cases h : a = c
      · subst h; simp [ih]
      · simp [h]; intro h'; exact absurd h'.symm h

theorem stripPrefix_eq_none {pre path : Bytes} :
    stripPrefix pre path = none ↔ pre.isPrefixOf path = false := by
  induction pre generalizing path with
  | nil => simp [stripPrefix]
  | cons a pre ih =>
    cases path with
    | nil => simp [stripPrefix]
    | cons c path =>
      simp only [stripPrefix, List.isPrefixOf]
      by_cases h : a = c
      · subst h; simp [ih]
      · simp [h]

/-- the boundary test on already folded strings (the code before F2) -/
def hmpRaw (path pre : Bytes) : Bool :=
  pre.isPrefixOf path &&
    (path.length == pre.length || pre.getLast? == some 47 || path[pre.length]? == some 47)

theorem hmpRaw_eq_containsRaw (path pre : Bytes) : hmpRaw path pre = containsRaw pre path := by
  unfold hmpRaw containsRaw
  cases hs : stripPrefix pre path with
  | none => simp [stripPrefix_eq_none.mp hs]
  | some rest =>
    have hp := stripPrefix_eq_some.mp hs
    subst hp
    have h1 : pre.isPrefixOf (pre ++ rest) = true := by simp
    simp only [h1, Bool.true_and, List.length_append]
    have h2 : (pre.length + rest.length == pre.length) = rest.isEmpty := by
      cases rest <;> simp
    have h3 : (pre ++ rest)[pre.length]? = rest.head? := by
      cases rest <;> simp
    rw [h2, h3]
    cases rest.isEmpty <;> cases (rest.head? == some 47) <;> cases (pre.getLast? == some 47) <;> rfl

theorem containsRaw_prefix {pre path : Bytes} (h : containsRaw pre path = true) : pre <+: path := by
  unfold containsRaw at h
  cases hs : stripPrefix pre path with
  | none => simp [hs] at h
  | some rest => exact ⟨rest, (stripPrefix_eq_some.mp hs).symm⟩

theorem prefix_eq_of_length_eq {a b p : Bytes} (ha : a <+: p) (hb : b <+: p)
    (hl : a.length = b.length) : a = b := by
  rw [List.prefix_iff_eq_take] at ha hb
  rw [ha, hb, hl]

/-! ### folding -/

theorem fb_eq_slash (cfg : Cfg) (x : Nat) : (fb cfg x == 47) = (x == 47) := by
  unfold fb
  by_cases h : cfg.caseSensitive = true
  · simp [h]
  · simp only [h]; exact lowerByte_eq_slash x

@[simp] theorem fold_length (cfg : Cfg) (s : Bytes) : (fold cfg s).length = s.length := by
  simp [fold]

theorem fold_cs {cfg : Cfg} (h : cfg.caseSensitive = true) (s : Bytes) : fold cfg s = s := by
  unfold fold fb
  simp [h]

theorem fold_ci {cfg : Cfg} (h : cfg.caseSensitive = false) (s : Bytes) : fold cfg s = toLower s := by
  unfold fold fb toLower
  simp [h]

theorem opt_fb_slash (cfg : Cfg) (o : Option Nat) : (o.map (fb cfg) == some 47) = (o == some 47) := by
  cases o with
  | none => rfl
  | some x => simpa using fb_eq_slash cfg x

theorem fold_getLast_slash (cfg : Cfg) (s : Bytes) :
    ((fold cfg s).getLast? == some 47) = (s.getLast? == some 47) := by
  unfold fold
  rw [List.getLast?_map]
  exact opt_fb_slash cfg _

theorem fold_getElem_slash (cfg : Cfg) (s : Bytes) (n : Nat) :
    ((fold cfg s)[n]? == some 47) = (s[n]? == some 47) := by
  unfold fold
  rw [List.getElem?_map]
  exact opt_fb_slash cfg _

theorem isPrefixOf_iff_take (p s : Bytes) :
    p.isPrefixOf s = (decide (p.length ≤ s.length) && (s.take p.length == p)) := by
  rw [Bool.eq_iff_iff]
  simp only [List.isPrefixOf_iff_prefix, Bool.and_eq_true, decide_eq_true_eq, beq_iff_eq]
  constructor
  · intro h
    exact ⟨h.length_le, (List.prefix_iff_eq_take.mp h).symm⟩
  · rintro ⟨_, h⟩
    rw [List.prefix_iff_eq_take]; exact h.symm

/-- F2 in one line: the code's test is the old test on the strings as the router compares them -/
theorem hasMountPrefix_fold (cfg : Cfg) (path pre : Bytes) :
    hasMountPrefix cfg path pre = hmpRaw (fold cfg path) (fold cfg pre) := by
  unfold hasMountPrefix hmpRaw
  rw [isPrefixOf_iff_take, fold_getLast_slash, fold_getElem_slash]
  simp only [fold_length]
  by_cases hlen : path.length < pre.length
  · have : decide (pre.length ≤ path.length) = false := by simp; omega
    simp [hlen, this]
  · have hle : decide (pre.length ≤ path.length) = true := by simp; omega
    simp only [hlen, if_false, hle, Bool.true_and]
    by_cases hcs : cfg.caseSensitive = true
    · rw [fold_cs hcs, fold_cs hcs]
      simp only [hcs, Bool.true_or, Bool.and_true]
      by_cases he : List.take pre.length path = pre
      · simp [he]
      · simp [he]
    · have hcs' : cfg.caseSensitive = false := by simpa using hcs
      rw [fold_ci hcs', fold_ci hcs']
      have ht : List.take pre.length (toLower path) = toLower (List.take pre.length path) := by
        simp [toLower, List.map_take]
      rw [ht]
      simp only [hcs', Bool.false_or, equalFold]
      by_cases he : List.take pre.length path = pre
      · simp [he]
      · by_cases hf : toLower (List.take pre.length path) = toLower pre
        · simp [he, hf]
        · simp [he, hf]

/-- the code's test on a key (leading slash added as the loop does) is the spec's literal `contains` -/
theorem hasMountPrefix_eq_contains' (cfg : Cfg) (path k : Bytes) :
    hasMountPrefix cfg path (ensureSlash k) = contains cfg k path := by
  rw [hasMountPrefix_fold, hmpRaw_eq_containsRaw]; rfl

/-! ### the loop -/

/-- length of the key as the loop compares it -/
def klen (m : Mounted) : Nat := (ensureSlash m.pre).length

/-- a candidate as the loop sees it -/
def Cand (cfg : Cfg) (path : Bytes) (m : Mounted) : Prop :=
  m.pre ≠ [] ∧ m.own ≠ none ∧ hasMountPrefix cfg path (ensureSlash m.pre) = true

instance (cfg : Cfg) (path : Bytes) (m : Mounted) : Decidable (Cand cfg path m) := by
  unfold Cand; exact inferInstance

theorem step_of_not_cand {cfg path acc m} (h : ¬ Cand cfg path m) : step cfg path acc m = acc := by
  unfold step Cand at *
  by_cases h1 : m.pre = []
  · simp [h1]
  · by_cases h2 : m.own = none
    · simp [h2]
    · have h3 : hasMountPrefix cfg path (ensureSlash m.pre) = false := by
        cases hh : hasMountPrefix cfg path (ensureSlash m.pre) with
        | false => rfl
        | true => exact absurd ⟨h1, h2, hh⟩ h
      simp [h3]

theorem step_of_cand {cfg path acc m} (h : Cand cfg path m) :
    step cfg path acc m = if klen m > acc.2 then (m.own, klen m) else acc := by
  unfold step klen
  obtain ⟨h1, h2, h3⟩ := h
  simp [h1, h2, h3]

/-- loop invariant of the fold in `App.ErrorHandler` -/
theorem fold_inv (cfg : Cfg) (path : Bytes) (l : List Mounted) (acc : Option Own × Nat) :
    let r := l.foldl (step cfg path) acc
    acc.2 ≤ r.2 ∧ (∀ m ∈ l, Cand cfg path m → klen m ≤ r.2) ∧
    (r = acc ∨ ∃ m ∈ l, Cand cfg path m ∧ r = (m.own, klen m) ∧ acc.2 < klen m) := by
  induction l generalizing acc with
  | nil => simp
  | cons m t ih =>
    simp only [List.foldl_cons]
    have ih' := ih (step cfg path acc m)
    simp only at ih'
    obtain ⟨hA, hB, hC⟩ := ih'
    by_cases hc : Cand cfg path m
    · rw [step_of_cand hc] at hA hB hC ⊢
      by_cases hgt : klen m > acc.2
      · simp only [hgt, if_true] at hA hB hC ⊢
        have hA' : klen m ≤ (List.foldl (step cfg path) (m.own, klen m) t).2 := hA
        refine ⟨by omega, ?_, ?_⟩
        · intro x hx hcx
          rcases List.mem_cons.mp hx with rfl | hx
          · exact hA'
          · exact hB x hx hcx
        · rcases hC with hC | ⟨x, hx, hcx, hr, hlt⟩
          · exact Or.inr ⟨m, by simp, hc, hC, hgt⟩
          · have hlt' : klen m < klen x := hlt
            exact Or.inr ⟨x, List.mem_cons_of_mem _ hx, hcx, hr, by omega⟩
      · simp only [hgt, if_false] at hA hB hC ⊢
        refine ⟨hA, ?_, ?_⟩
        · intro x hx hcx
          rcases List.mem_cons.mp hx with rfl | hx
          · omega
          · exact hB x hx hcx
        · rcases hC with hC | ⟨x, hx, hcx, hr, hlt⟩
          · exact Or.inl hC
          · exact Or.inr ⟨x, List.mem_cons_of_mem _ hx, hcx, hr, hlt⟩
    · rw [step_of_not_cand hc] at hA hB hC ⊢
      refine ⟨hA, ?_, ?_⟩
      · intro x hx hcx
        rcases List.mem_cons.mp hx with rfl | hx
        · exact absurd hcx hc
        · exact hB x hx hcx
      · rcases hC with hC | ⟨x, hx, hcx, hr, hlt⟩
        · exact Or.inl hC
        · exact Or.inr ⟨x, List.mem_cons_of_mem _ hx, hcx, hr, hlt⟩

/-- `x` is a candidate of `l` with the longest prefix -/
def Best (cfg : Cfg) (l : List Mounted) (path : Bytes) (x : Mounted) : Prop :=
  x ∈ l ∧ Cand cfg path x ∧ ∀ y ∈ l, Cand cfg path y → klen y ≤ klen x

theorem nodup_map_inj {α β} (f : α → β) {l : List α} (h : (l.map f).Nodup) {a b : α}
    (ha : a ∈ l) (hb : b ∈ l) (hf : f a = f b) : a = b := by
  induction l with
  | nil => cases ha
  | cons x t ih =>
    simp only [List.map_cons, List.nodup_cons, List.mem_map, not_exists, not_and] at h
    rcases List.mem_cons.mp ha with hax | hat
    · rcases List.mem_cons.mp hb with hbx | hbt
      · rw [hax, hbx]
      · rw [hax] at hf; exact absurd hf.symm (h.1 b hbt)
    · rcases List.mem_cons.mp hb with hbx | hbt
      · rw [hbx] at hf; exact absurd hf (h.1 a hat)
      · exact ih h.2 hat hbt

theorem cand_prefix {cfg : Cfg} {path : Bytes} {m : Mounted} (h : Cand cfg path m) :
    fold cfg (ensureSlash m.pre) <+: fold cfg path := by
  have := h.2.2
  rw [hasMountPrefix_fold, hmpRaw_eq_containsRaw] at this
  exact containsRaw_prefix this

theorem best_unique {cfg : Cfg} {l : List Mounted} {path : Bytes}
    (hnd : (l.map (fun m => normKey cfg m.pre)).Nodup) {x y : Mounted}
    (hx : Best cfg l path x) (hy : Best cfg l path y) : x = y := by
  have h1 := hx.2.2 y hy.1 hy.2.1
  have h2 := hy.2.2 x hx.1 hx.2.1
  have hl : (fold cfg (ensureSlash x.pre)).length = (fold cfg (ensureSlash y.pre)).length := by
    simp only [fold_length]; unfold klen at h1 h2; omega
  have hp := prefix_eq_of_length_eq (cand_prefix hx.2.1) (cand_prefix hy.2.1) hl
  apply nodup_map_inj (fun m => normKey cfg m.pre) hnd hx.1 hy.1
  simp only [normKey, hx.2.1.1, hy.2.1.1, if_false]
  exact hp

/-- what the fold returns: nothing if there is no candidate, else the best candidate's handler -/
theorem select_char (cfg : Cfg) (l : List Mounted) (path : Bytes) :
    ((∀ m ∈ l, ¬ Cand cfg path m) ∧ select cfg l path = none) ∨
    (∃ x, Best cfg l path x ∧ select cfg l path = x.own) := by
  have h := fold_inv cfg path l (none, 0)
  simp only at h
  obtain ⟨_, hB, hC⟩ := h
  unfold select
  rcases hC with hC | ⟨x, hx, hcx, hr, _⟩
  · left
    refine ⟨?_, by rw [hC]⟩
    intro m hm hc
    have := hB m hm hc
    rw [hC] at this
    have hne : (ensureSlash m.pre) ≠ [] := ensureSlash_ne_nil _
    unfold klen at this
    cases hp : ensureSlash m.pre with
    | nil => exact hne hp
    | cons a t => rw [hp] at this; simp at this
  · right
    refine ⟨x, ⟨hx, hcx, ?_⟩, by rw [hr]⟩
    intro y hy hcy
    have := hB y hy hcy
    rw [hr] at this
    exact this

/-! ### the spec's `innermost` -/

theorem innermost_none {cfg : Cfg} {path : Bytes} {c : List Mounted} :
    innermost cfg path c = none ↔ c = [] := by
  cases c with
  | nil => simp [innermost]
  | cons m t =>
    simp only [innermost]
    cases innermost cfg path t with
    | none => simp
    | some x => by_cases h : reach cfg path x > reach cfg path m <;> simp [h]

theorem innermost_some {cfg : Cfg} {path : Bytes} {c : List Mounted} {x : Mounted}
    (h : innermost cfg path c = some x) :
    x ∈ c ∧ ∀ y ∈ c, reach cfg path y ≤ reach cfg path x := by
  induction c generalizing x with
  | nil => simp [innermost] at h
  | cons m t ih =>
    simp only [innermost] at h
    cases ht : innermost cfg path t with
    | none =>
      rw [ht] at h
      simp only [Option.some.injEq] at h
      subst h
      have : t = [] := innermost_none.mp ht
      subst this
      simp
    | some z =>
      rw [ht] at h
      have ihz := ih ht
      by_cases hgt : reach cfg path z > reach cfg path m
      · simp only [hgt, if_true, Option.some.injEq] at h
        subst h
        refine ⟨List.mem_cons_of_mem _ ihz.1, ?_⟩
        intro y hy
        rcases List.mem_cons.mp hy with rfl | hy
        · omega
        · exact ihz.2 y hy
      · simp only [hgt, if_false, Option.some.injEq] at h
        subst h
        refine ⟨by simp, ?_⟩
        intro y hy
        rcases List.mem_cons.mp hy with rfl | hy
        · omega
        · have := ihz.2 y hy; omega

theorem mem_candidates {cfg : Cfg} {l : List Mounted} {path : Bytes} {m : Mounted} :
    m ∈ candidates cfg l path ↔ m ∈ l ∧ m.pre ≠ [] ∧ m.own ≠ none ∧
      (contains cfg m.pre path = true ∨ (coversPat cfg m.pre path).isSome = true) := by
  unfold candidates isCandidate
  rw [List.mem_filter]
  constructor
  · rintro ⟨hm, h⟩
    simp only [Bool.and_eq_true, Bool.not_eq_true', List.isEmpty_eq_false_iff, Bool.or_eq_true] at h
    refine ⟨hm, h.1.1, ?_, h.2⟩
    intro hn; rw [hn] at h; simp at h
  · rintro ⟨hm, h1, h2, h3⟩
    refine ⟨hm, ?_⟩
    simp only [Bool.and_eq_true, Bool.not_eq_true', List.isEmpty_eq_false_iff, Bool.or_eq_true]
    refine ⟨⟨h1, ?_⟩, h3⟩
    cases ho : m.own with
    | none => exact absurd ho h2
    | some _ => rfl

/-- a literal candidate of the loop is a candidate of the spec, and the other way round -/
theorem cand_iff_literal {cfg : Cfg} {path : Bytes} {m : Mounted} :
    Cand cfg path m ↔ m.pre ≠ [] ∧ m.own ≠ none ∧ contains cfg m.pre path = true := by
  unfold Cand
  rw [hasMountPrefix_eq_contains']

theorem reach_literal {cfg : Cfg} {path : Bytes} {m : Mounted} (h : contains cfg m.pre path = true) :
    reach cfg path m = 2 * klen m + 1 := by
  unfold reach klen mountedAt
  simp [h]

/-! ### parameter-free keys: the pattern reading is the literal reading -/

/-- no segment of the (slashed) key starts with ':' -/
def paramFree (k : Bytes) : Bool := (tokenize false false (mountedAt k)).all (· != .param)

theorem tokenize_paramFree (ps : Bool) (k : Bytes)
    (h : (tokenize false ps k).all (· != .param) = true) : tokenize false ps k = k.map .lit := by
  induction k generalizing ps with
  | nil => rfl
  | cons c t ih =>
    unfold tokenize at h ⊢
    simp only [Bool.false_eq_true, if_false] at h ⊢
    by_cases hp : c = 58 ∧ ps = true
    · simp [hp] at h
    · simp only [hp, if_false, List.all_cons, Bool.and_eq_true] at h ⊢
      rw [ih _ h.2]; rfl

theorem matchToks_lits (cfg : Cfg) (k path : Bytes) (n : Nat)
    (h : matchToks cfg (k.map .lit) path = some n) :
    n = k.length ∧ stripPrefix (fold cfg k) (fold cfg path) = some (fold cfg (path.drop k.length)) := by
  induction k generalizing path n with
  | nil =>
    simp only [List.map_nil, matchToks, Option.some.injEq] at h
    subst h
    simp [fold, stripPrefix]
  | cons c t ih =>
    cases path with
    | nil => simp [matchToks] at h
    | cons d p =>
      simp only [List.map_cons, matchToks] at h
      by_cases hcd : fb cfg c = fb cfg d
      · simp only [hcd, if_true, Option.map_eq_some_iff] at h
        obtain ⟨n', hn', rfl⟩ := h
        obtain ⟨h1, h2⟩ := ih p n' hn'
        refine ⟨by simp [h1], ?_⟩
        simp only [fold, List.map_cons, stripPrefix, hcd, if_true, List.length_cons, List.drop_succ_cons]
        exact h2
      · simp [hcd] at h

/-- for a parameter-free key the pattern reading adds nothing to the literal one -/
theorem coversPat_paramFree {cfg : Cfg} {k path : Bytes} (hpf : paramFree k = true)
    (h : (coversPat cfg k path).isSome = true) : contains cfg k path = true := by
  unfold coversPat at h
  unfold paramFree at hpf
  rw [tokenize_paramFree _ _ hpf] at h
  cases hm : matchToks cfg ((mountedAt k).map .lit) path with
  | none => simp [hm] at h
  | some n =>
    obtain ⟨hn, hs⟩ := matchToks_lits cfg _ _ _ hm
    simp only [hm] at h
    subst hn
    unfold contains containsRaw
    rw [hs]
    simp only []
    rw [fold_getLast_slash]
    have hE : (fold cfg (List.drop (mountedAt k).length path)).isEmpty
        = (List.drop (mountedAt k).length path).isEmpty := by
      cases List.drop (mountedAt k).length path <;> rfl
    have hH : ((fold cfg (List.drop (mountedAt k).length path)).head? == some 47)
        = ((List.drop (mountedAt k).length path).head? == some 47) := by
      have := fold_getElem_slash cfg (List.drop (mountedAt k).length path) 0
      simpa [List.head?_eq_getElem?] using this
    rw [hE, hH]
    generalize ((List.drop (mountedAt k).length path).isEmpty ||
        (List.drop (mountedAt k).length path).head? == some 47 ||
        (mountedAt k).getLast? == some 47) = bb at h ⊢
    cases bb with
    | true => rfl
    | false => simp at h

/-! ### what the loop computes, for every table: the innermost LITERAL candidate -/

def literalCandidates (cfg : Cfg) (l : List Mounted) (path : Bytes) : List Mounted :=
  l.filter fun m => !m.pre.isEmpty && m.own.isSome && contains cfg m.pre path

/-- the handler of the mounted app with the longest prefix among those that configured one and
contain the path LITERALLY (as the router compares: leading slash, letter case) -/
def selectLiteral (cfg : Cfg) (l : List Mounted) (path : Bytes) : Option Own :=
  (innermost cfg path (literalCandidates cfg l path)).bind (·.own)

theorem mem_literalCandidates {cfg : Cfg} {l : List Mounted} {path : Bytes} {m : Mounted} :
    m ∈ literalCandidates cfg l path ↔ m ∈ l ∧ Cand cfg path m := by
  unfold literalCandidates
  rw [List.mem_filter, cand_iff_literal]
  constructor
  · rintro ⟨hm, h⟩
    simp only [Bool.and_eq_true, Bool.not_eq_true', List.isEmpty_eq_false_iff] at h
    refine ⟨hm, h.1.1, ?_, h.2⟩
    intro hn; rw [hn] at h; simp at h
  · rintro ⟨hm, h1, h2, h3⟩
    refine ⟨hm, ?_⟩
    simp only [Bool.and_eq_true, Bool.not_eq_true', List.isEmpty_eq_false_iff]
    refine ⟨⟨h1, ?_⟩, h3⟩
    cases ho : m.own with
    | none => exact absurd ho h2
    | some _ => rfl

end C08
