import FiberModel.C04.Model
/-
C08 — model of the error funnel, transcribed from /repo *after* the `fix:` commits recorded in
known/C08.json (F1, F2, F3):

  app.go    App.Group, group.go Group.Group (Prefix of nested groups)    ↔ groupPrefix
  mount.go  App.mount / Group.mount (appList keys), appendSubAppLists   ↔ nodeKeys / appList
  app.go    App.ErrorHandler (range over the map `appList`)              ↔ step / select / errorHandler
  app.go    hasMountPrefix(path, prefix, caseSensitive)                  ↔ hasMountPrefix
  app.go    DefaultErrorHandler (errors.As(*Error) → Code, else 500)     ↔ defaultHandler
  router.go defaultRequestHandler / customRequestHandler (error funnel)  ↔ funnel
  app.go    serverErrorHandler (fasthttp-level errors: no chain ran)     ↔ SrvErr / mapServerErr / serverFunnel
  app.go    (before the fixes) App.ErrorHandler                          ↔ stepOld / selectOld  (kept as
            the record of why the first repair was needed; see Props `old_order_dependent`)

`appList` is a Go map: the model represents it as a list of entries with pairwise different keys
and `select` folds over the list in the order given — the theorems quantify over every permutation.
`getGroupPath`, `mountPath`, `regPath`, `ensureSlash`, `Cfg` are the definitions of the C04 model
(same Go functions / configuration). Of `Cfg` only `caseSensitive` matters here: `App.ErrorHandler`
tests `ctx.Path()` (letter case and trailing slashes as sent), never the detection path.

What a handler does is part of the case: an app's own handler either answers (status 418, body
"eh<id>:" ++ message) or fails (returns an error) — `Own.fails`.
-/
namespace C08
open B C04

structure Own where
  id : Nat
  fails : Bool
  deriving Repr, DecidableEq

/-- an entry of `mountFields.appList`: key, and the app's `configured.ErrorHandler` (if any) -/
structure Mounted where
  pre : Bytes
  own : Option Own
  deriving Repr, DecidableEq

/-- app.go `App.Group(g)` (`Prefix: g`) followed by group.go `Group.Group(g')`
(`Prefix: getGroupPath(grp.Prefix, g')`) any number of times; `[]` = the app itself -/
def groupPrefix : List Bytes → Option Bytes
  | [] => none
  | g :: gs => some (gs.foldl getGroupPath g)

/-- a mounted sub-application: `parent[.Group(g₁).Group(g₂)…].Use(pre, New(Config{ErrorHandler: own}))`
with its own mounted children -/
inductive Node where
  | mk (gps : List Bytes) (pre : Bytes) (own : Option Own) (children : List Node)

mutual
/-- keys a sub-app (and, through it, its descendants) gets in the appList of the app it is mounted
on: mount.go `mount` (`path := getGroupPath(prefix, mountedPrefixes)`), or — when the descendants are
mounted later — `appendSubAppLists` (`prefix = getGroupPath(parentPrefix, prefix)`) -/
def nodeKeys : Node → List Mounted
  | .mk gps pre own ch =>
    let p := mountPath (regPath (groupPrefix gps) pre)
    ⟨p, own⟩ :: (nodesKeys ch).map fun m => { m with pre := getGroupPath p m.pre }
def nodesKeys : List Node → List Mounted
  | [] => []
  | n :: ns => nodeKeys n ++ nodesKeys ns
end

/-- the root application's `appList` after startup (`""` ↦ the app itself) -/
def appList (rootOwn : Option Own) (ns : List Node) : List Mounted :=
  ⟨[], rootOwn⟩ :: nodesKeys ns

/-- app.go `hasMountPrefix(path, prefix, caseSensitive)`: `len(path) < len(prefix)` → false;
`head := path[:len(prefix)]; head != prefix && (caseSensitive || !utils.EqualFold(head, prefix))`
→ false; else the boundary test -/
def hasMountPrefix (cfg : Cfg) (path pre : Bytes) : Bool :=
  if path.length < pre.length then false
  else
    let head := path.take pre.length
    if head != pre && (cfg.caseSensitive || !equalFold head pre) then false
    else path.length == pre.length || pre.getLast? == some 47 || path[pre.length]? == some 47

/-- one iteration of the loop in `App.ErrorHandler`; the accumulator is
(mountedErrHandler, mountedPrefixLen). `if prefix[0] != '/' { prefix = "/" + prefix }` is
`ensureSlash` (the key is not empty at that point). -/
def step (cfg : Cfg) (path : Bytes) (acc : Option Own × Nat) (m : Mounted) : Option Own × Nat :=
  if m.pre = [] ∨ m.own = none then acc
  else if hasMountPrefix cfg path (ensureSlash m.pre) = false then acc
  else if (ensureSlash m.pre).length > acc.2 then (m.own, (ensureSlash m.pre).length) else acc

/-- `mountedErrHandler` after ranging over the map in the order `l` -/
def select (cfg : Cfg) (l : List Mounted) (path : Bytes) : Option Own :=
  (l.foldl (step cfg path) (none, 0)).1

/-- the error value as the funnel sees it: what `errors.As(err, &*Error)` finds and `err.Error()` -/
inductive Err where
  | fiber (code : Nat) (msg : Bytes)
  | plain (msg : Bytes)
  deriving Repr, DecidableEq

def Err.msg : Err → Bytes
  | .fiber _ m => m
  | .plain m => m

/-- which handler function ran -/
inductive Ran where
  | default
  | custom (id : Nat)
  deriving Repr, DecidableEq

structure Outcome where
  ran : List Ran        -- error-handler invocations, in order
  status : Nat
  body : Bytes
  deriving Repr, DecidableEq

/-- app.go `DefaultErrorHandler`: `code := 500; if errors.As(err, &e) { code = e.Code }`;
`c.Status(code).SendString(err.Error())`; returns nil -/
def defaultHandler (e : Err) : Nat × Bytes :=
  match e with
  | .fiber code m => (code, m)
  | .plain m => (500, m)

/-- a handler invocation: (who ran, the response it wrote if it answered, did it return an error) -/
def invoke (h : Option Own) (e : Err) : Ran × Option (Nat × Bytes) :=
  match h with
  | none => (.default, some (defaultHandler e))
  | some o => if o.fails then (.custom o.id, none)
              else (.custom o.id, some (418, b "eh" ++ natToDec o.id ++ b ":" ++ e.msg))

/-- app.go `App.ErrorHandler`: the mounted handler if one was selected, else `app.config.ErrorHandler`
(the root's configured handler or DefaultErrorHandler) — called once -/
def errorHandler (cfg : Cfg) (l : List Mounted) (rootOwn : Option Own) (path : Bytes) (e : Err) :
    Ran × Option (Nat × Bytes) :=
  match select cfg l path with
  | some o => invoke (some o) e
  | none => invoke rootOwn e

/-- router.go `defaultRequestHandler`: `_, err := app.next(ctx); if err != nil { if catch :=
ctx.App().ErrorHandler(ctx, err); catch != nil { ctx.SendStatus(500) } }`.
`chain = none`: the chain returned nil — nothing is called (`none`). -/
def funnel (cfg : Cfg) (l : List Mounted) (rootOwn : Option Own) (path : Bytes) (chain : Option Err) :
    Option Outcome :=
  match chain with
  | none => none
  | some e =>
    match errorHandler cfg l rootOwn path e with
    | (r, some (st, body)) => some ⟨[r], st, body⟩
    | (r, none) => some ⟨[r], 500, b "Internal Server Error"⟩

/-! ### errors before routing: `serverErrorHandler` (the fasthttp server's ErrorHandler) -/

/-- what `serverErrorHandler`'s switch asks of the error fasthttp hands over -/
structure SrvErr where
  smallBuffer : Bool    -- errors.As(err, new(*fasthttp.ErrSmallBuffer))
  opTimeout : Bool      -- errors.As(err, &errNetOP) && errNetOP.Timeout()
  netError : Bool       -- errors.As(err, &netErr)   (net.Error)
  bodyTooLarge : Bool   -- errors.Is(err, fasthttp.ErrBodyTooLarge)
  getOnly : Bool        -- errors.Is(err, fasthttp.ErrGetOnly)
  msg : Bytes           -- err.Error()
  deriving Repr, DecidableEq

/-- the `switch` of `serverErrorHandler`, first matching case wins: ErrRequestHeaderFieldsTooLarge,
ErrRequestTimeout, ErrBadGateway, ErrRequestEntityTooLarge, ErrMethodNotAllowed,
`strings.Contains(err.Error(), "timeout")` → ErrRequestTimeout, default
`NewError(StatusBadRequest, err.Error())` -/
def mapServerErr (e : SrvErr) : Err :=
  if e.smallBuffer then .fiber 431 (b "Request Header Fields Too Large")
  else if e.opTimeout then .fiber 408 (b "Request Timeout")
  else if e.netError then .fiber 502 (b "Bad Gateway")
  else if e.bodyTooLarge then .fiber 413 (b "Request Entity Too Large")
  else if e.getOnly then .fiber 405 (b "Method Not Allowed")
  else if (indexOf e.msg (b "timeout")).isSome then .fiber 408 (b "Request Timeout")
  else .fiber 400 e.msg

/-- `serverErrorHandler`: `if catch := app.ErrorHandler(c, err); catch != nil { …SendStatus(500) }`
with the mapped error; `path` is the path of the context acquired for the broken request (what
fasthttp had parsed when it gave up: "/" after a header error, the request's path after
ErrBodyTooLarge / ErrGetOnly — an input here, observed by the harness) -/
def serverFunnel (cfg : Cfg) (l : List Mounted) (rootOwn : Option Own) (path : Bytes) (e : SrvErr) :
    Option Outcome :=
  funnel cfg l rootOwn path (some (mapServerErr e))

/-! ### the function as it was before the fixes (record) -/

/-- `len(strings.Split(prefix, "/"))` -/
def parts (p : Bytes) : Nat := (splitOn p 47).length

/-- the loop body before the fix: `strings.HasPrefix`, `mountedPrefixParts <= parts`, the bound is
raised even when the app has no handler of its own -/
def stepOld (path : Bytes) (acc : Option Own × Nat) (m : Mounted) : Option Own × Nat :=
  if m.pre ≠ [] ∧ m.pre.isPrefixOf path then
    if acc.2 ≤ parts m.pre then ((if m.own.isSome then m.own else acc.1), parts m.pre) else acc
  else acc

def selectOld (l : List Mounted) (path : Bytes) : Option Own :=
  (l.foldl (stepOld path) (none, 0)).1

end C08
