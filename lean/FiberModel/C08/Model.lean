import FiberModel.C04.Model
/-
C08 — model of the error funnel, transcribed from /repo *after* the `fix:` commit recorded in
known/C08.json (F1):

  mount.go  App.mount / Group.mount (appList keys), appendSubAppLists   ↔ nodeKeys / appList
  app.go    App.ErrorHandler (range over the map `appList`)              ↔ step / select / errorHandler
  app.go    hasMountPrefix                                               ↔ hasMountPrefix
  app.go    DefaultErrorHandler (errors.As(*Error) → Code, else 500)     ↔ defaultHandler
  router.go defaultRequestHandler / customRequestHandler (error funnel)  ↔ funnel
  app.go    (before the fix) App.ErrorHandler                            ↔ stepOld / selectOld  (kept as
            the record of why the repair was needed; see Props `old_order_dependent`)

`appList` is a Go map: the model represents it as a list of entries with pairwise different keys
and `select` folds over the list in the order given — the theorems quantify over every permutation.
`getGroupPath`, `mountPath`, `regPath` are the definitions of the C04 model (same Go functions).

What a handler does is part of the case: an app's own handler either answers (status 418, body
"eh<id>:" ++ message) or fails (returns an error) — `Own.fails`.
-/
namespace C08
open B C04

structure Own where
  id : Nat
  fails : Bool
  deriving Repr, DecidableEq

/-- an entry of `mountFields.appList`: key, and the app's `configured.ErrorHandler` (if any) -/
structure Mounted where
  pre : Bytes
  own : Option Own
  deriving Repr, DecidableEq

/-- a mounted sub-application: `parent[.Group(gp)].Use(pre, New(Config{ErrorHandler: own}))` with
its own mounted children -/
inductive Node where
  | mk (gp : Option Bytes) (pre : Bytes) (own : Option Own) (children : List Node)

mutual
/-- keys a sub-app (and, through it, its descendants) gets in the appList of the app it is mounted
on: mount.go `mount` (`path := getGroupPath(prefix, mountedPrefixes)`), or — when the descendants are
mounted later — `appendSubAppLists` (`prefix = getGroupPath(parentPrefix, prefix)`) -/
def nodeKeys : Node → List Mounted
  | .mk gp pre own ch =>
    let p := mountPath (regPath gp pre)
    ⟨p, own⟩ :: (nodesKeys ch).map fun m => { m with pre := getGroupPath p m.pre }
def nodesKeys : List Node → List Mounted
  | [] => []
  | n :: ns => nodeKeys n ++ nodesKeys ns
end

/-- the root application's `appList` after startup (`""` ↦ the app itself) -/
def appList (rootOwn : Option Own) (ns : List Node) : List Mounted :=
  ⟨[], rootOwn⟩ :: nodesKeys ns

/-- app.go `hasMountPrefix` -/
def hasMountPrefix (path pre : Bytes) : Bool :=
  pre.isPrefixOf path &&
    (path.length == pre.length || pre.getLast? == some 47 || path[pre.length]? == some 47)

/-- one iteration of the loop in `App.ErrorHandler`; the accumulator is
(mountedErrHandler, mountedPrefixLen) -/
def step (path : Bytes) (acc : Option Own × Nat) (m : Mounted) : Option Own × Nat :=
  if m.pre = [] ∨ m.own = none ∨ hasMountPrefix path m.pre = false then acc
  else if m.pre.length > acc.2 then (m.own, m.pre.length) else acc

/-- `mountedErrHandler` after ranging over the map in the order `l` -/
def select (l : List Mounted) (path : Bytes) : Option Own :=
  (l.foldl (step path) (none, 0)).1

/-- the error value as the funnel sees it: what `errors.As(err, &*Error)` finds and `err.Error()` -/
inductive Err where
  | fiber (code : Nat) (msg : Bytes)
  | plain (msg : Bytes)
  deriving Repr, DecidableEq

def Err.msg : Err → Bytes
  | .fiber _ m => m
  | .plain m => m

/-- which handler function ran -/
inductive Ran where
  | default
  | custom (id : Nat)
  deriving Repr, DecidableEq

structure Outcome where
  ran : List Ran        -- error-handler invocations, in order
  status : Nat
  body : Bytes
  deriving Repr, DecidableEq

/-- app.go `DefaultErrorHandler`: `code := 500; if errors.As(err, &e) { code = e.Code }`;
`c.Status(code).SendString(err.Error())`; returns nil -/
def defaultHandler (e : Err) : Nat × Bytes :=
  match e with
  | .fiber code m => (code, m)
  | .plain m => (500, m)

/-- a handler invocation: (who ran, the response it wrote if it answered, did it return an error) -/
def invoke (h : Option Own) (e : Err) : Ran × Option (Nat × Bytes) :=
  match h with
  | none => (.default, some (defaultHandler e))
  | some o => if o.fails then (.custom o.id, none)
              else (.custom o.id, some (418, b "eh" ++ natToDec o.id ++ b ":" ++ e.msg))

/-- app.go `App.ErrorHandler`: the mounted handler if one was selected, else `app.config.ErrorHandler`
(the root's configured handler or DefaultErrorHandler) — called once -/
def errorHandler (l : List Mounted) (rootOwn : Option Own) (path : Bytes) (e : Err) :
    Ran × Option (Nat × Bytes) :=
  match select l path with
  | some o => invoke (some o) e
  | none => invoke rootOwn e

/-- router.go `defaultRequestHandler`: `_, err := app.next(ctx); if err != nil { if catch :=
ctx.App().ErrorHandler(ctx, err); catch != nil { ctx.SendStatus(500) } }`.
`chain = none`: the chain returned nil — nothing is called (`none`). -/
def funnel (l : List Mounted) (rootOwn : Option Own) (path : Bytes) (chain : Option Err) : Option Outcome :=
  match chain with
  | none => none
  | some e =>
    match errorHandler l rootOwn path e with
    | (r, some (st, body)) => some ⟨[r], st, body⟩
    | (r, none) => some ⟨[r], 500, b "Internal Server Error"⟩

/-! ### the function as it was before the fix (record) -/

/-- `len(strings.Split(prefix, "/"))` -/
def parts (p : Bytes) : Nat := (splitOn p 47).length

/-- the loop body before the fix: `strings.HasPrefix`, `mountedPrefixParts <= parts`, the bound is
raised even when the app has no handler of its own -/
def stepOld (path : Bytes) (acc : Option Own × Nat) (m : Mounted) : Option Own × Nat :=
  if m.pre ≠ [] ∧ m.pre.isPrefixOf path then
    if acc.2 ≤ parts m.pre then ((if m.own.isSome then m.own else acc.1), parts m.pre) else acc
  else acc

def selectOld (l : List Mounted) (path : Bytes) : Option Own :=
  (l.foldl (stepOld path) (none, 0)).1

end C08
