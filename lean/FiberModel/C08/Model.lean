import FiberModel.C04.Model
import FiberModel.C02.Model
/-
C08 — model of the error funnel, transcribed from /repo *after* the `fix:` commits recorded in
known/C08.json (F1, F2, F3, K1→F4):

  app.go    App.Group, group.go Group.Group (Prefix of nested groups)    ↔ groupPrefix
  mount.go  App.mount / Group.mount (appList keys), appendSubAppLists   ↔ nodeKeys / appList
  mount.go  generateAppListKeys (keys that are route patterns are parsed  ↔ isPatternKey / parseKey
            once at startup: `appListParsers`)
  mount.go  routeParser.mountPrefixLen (shortest leading part of the     ↔ mountPrefixLen
            path, ending on a segment boundary, the parsed prefix matches)
  path.go   parseRouteWritten / getMatch / CheckConstraint               ↔ C02.parseRouteW / C02.getMatch / `chk`
            (the definitions of the C02 model — same Go functions)
  ctx.go    configDependentPaths (the detection path of the context)     ↔ detOf
  app.go    App.ErrorHandler (range over the map `appList`)              ↔ rankOf / step / select / errorHandler
  app.go    hasMountPrefix(path, prefix, caseSensitive)                  ↔ hasMountPrefix
  app.go    DefaultErrorHandler (errors.As(*Error) → Code, else 500)     ↔ defaultHandler
  router.go defaultRequestHandler / customRequestHandler (error funnel)  ↔ funnel
  middleware/logger New (calls c.App().ErrorHandler itself for the error    ↔ deliver / throughLoggers / request
            coming back from c.Next(), then returns LoggerFunc's nil)
  app.go    serverErrorHandler (fasthttp-level errors: no chain ran)     ↔ SrvErr / mapServerErr / serverFunnel
  app.go    (before the fixes) App.ErrorHandler                          ↔ stepOld / selectOld  (kept as
            the record of why the first repair was needed; see Props `old_order_dependent`)
  app.go    App.ErrorHandler between F3 and F4 (literal keys only)        ↔ stepLit / selectLit  (record of
            the former known finding K1; see Props `K1_repaired`)

`appList` is a Go map: the model represents it as a list of entries with pairwise different keys
and `select` folds over the list in the order given — the theorems quantify over every permutation.
`getGroupPath`, `mountPath`, `regPath`, `ensureSlash`, `Cfg` are the definitions of the C04 model
(same Go functions / configuration). A literal key is tested on `ctx.Path()` (letter case and
trailing slashes as sent, `caseSensitive` decides how letters compare); a key that is a route
pattern is matched, like a route, on the context's detection path (lower-cased unless
CaseSensitive, trailing slashes cut unless StrictRouting) with the values taken from `ctx.Path()`.
`path` everywhere below is `ctx.Path()` at the time the error reaches the funnel (after
UnescapePath, after a handler's `c.Path(override)`).

What a handler does is part of the case: an app's own handler either answers (status 418, body
"eh<id>:" ++ message) or fails (returns an error) — `Own.fails`.
-/
namespace C08
open B C04

structure Own where
  id : Nat
  fails : Bool
  deriving Repr, DecidableEq

/-- an entry of `mountFields.appList`: key, and the app's `configured.ErrorHandler` (if any) -/
structure Mounted where
  pre : Bytes
  own : Option Own
  deriving Repr, DecidableEq

/-- app.go `App.Group(g)` (`Prefix: g`) followed by group.go `Group.Group(g')`
(`Prefix: getGroupPath(grp.Prefix, g')`) any number of times; `[]` = the app itself -/
def groupPrefix : List Bytes → Option Bytes
  | [] => none
  | g :: gs => some (gs.foldl getGroupPath g)

/-- a mounted sub-application: `parent[.Group(g₁).Group(g₂)…].Use(pre, New(Config{ErrorHandler: own}))`
with its own mounted children -/
inductive Node where
  | mk (gps : List Bytes) (pre : Bytes) (own : Option Own) (children : List Node)

mutual
/-- keys a sub-app (and, through it, its descendants) gets in the appList of the app it is mounted
on: mount.go `mount` (`path := getGroupPath(prefix, mountedPrefixes)`), or — when the descendants are
mounted later — `appendSubAppLists` (`prefix = getGroupPath(parentPrefix, prefix)`) -/
def nodeKeys : Node → List Mounted
  | .mk gps pre own ch =>
    let p := mountPath (regPath (groupPrefix gps) pre)
    ⟨p, own⟩ :: (nodesKeys ch).map fun m => { m with pre := getGroupPath p m.pre }
def nodesKeys : List Node → List Mounted
  | [] => []
  | n :: ns => nodeKeys n ++ nodesKeys ns
end

/-- the root application's `appList` after startup (`""` ↦ the app itself) -/
def appList (rootOwn : Option Own) (ns : List Node) : List Mounted :=
  ⟨[], rootOwn⟩ :: nodesKeys ns

/-- app.go `hasMountPrefix(path, prefix, caseSensitive)`: `len(path) < len(prefix)` → false;
`head := path[:len(prefix)]; head != prefix && (caseSensitive || !utils.EqualFold(head, prefix))`
→ false; else the boundary test -/
def hasMountPrefix (cfg : Cfg) (path pre : Bytes) : Bool :=
  if path.length < pre.length then false
  else
    let head := path.take pre.length
    if head != pre && (cfg.caseSensitive || !equalFold head pre) then false
    else path.length == pre.length || pre.getLast? == some 47 || path[pre.length]? == some 47

/-- mount.go `generateAppListKeys`: `strings.ContainsAny(key, ":*+\\")` — the key is a route pattern
(parameter, wildcard, or an escaped character) and gets an entry in `appListParsers` -/
def isPatternKey (k : Bytes) : Bool := k.any fun c => c == 58 || c == 42 || c == 43 || c == 92

/-- mount.go `generateAppListKeys`: `pattern := key` with the leading slash; `pretty := pattern`,
lower-cased unless CaseSensitive; `parseRouteWritten(pretty, pattern, …)`. `none` = the parser
panics (register panicked on the same text when the app was mounted). -/
def parseKey (cfg : Cfg) (k : Bytes) : Option (List C02.Seg) :=
  let pattern := ensureSlash k
  let pretty := if cfg.caseSensitive then pattern else toLower pattern
  (C02.parseRouteW pretty pattern).map (·.segs)

/-- ctx.go `configDependentPaths`: the detection path that belongs to `ctx.Path()` -/
def detOf (cfg : Cfg) (path : Bytes) : Bytes :=
  let det := if cfg.caseSensitive then path else toLower path
  if !cfg.strict && det.length > 1 && det.getLast? == some 47 then trimRight det 47 else det

/-- the test of one `cut` in `mountPrefixLen` -/
def cutMatches (chk : C02.Constraint → Bytes → Bool) (segs : List C02.Seg) (det path : Bytes) (cut : Nat) : Bool :=
  (cut == det.length || det[cut]? == some 47) &&
    (C02.getMatch chk segs (det.take cut) (path.take cut) false).isSome

/-- mount.go `routeParser.mountPrefixLen`: `for cut := 1; cut <= len(detectionPath); cut++ { if (cut ==
len(detectionPath) || detectionPath[cut] == '/') && parser.getMatch(detectionPath[:cut], path[:cut],
&params, false) { return cut } }; return -1` (`none` = -1) -/
def mountPrefixLen (chk : C02.Constraint → Bytes → Bool) (segs : List C02.Seg) (det path : Bytes) : Option Nat :=
  (List.range' 1 det.length).find? (cutMatches chk segs det path)

/-- Go's `<` on strings: byte-wise lexicographic -/
def bytesLt : Bytes → Bytes → Bool
  | _, [] => false
  | [], _ :: _ => true
  | a :: s, c :: t => a < c || (a == c && bytesLt s t)

/-- `rank` in the loop of `App.ErrorHandler` for an entry that is not skipped; `none` = the prefix
does not contain the path (`continue`, or the negative rank 2·(-1) that never wins). A key with a
parser: twice what `mountPrefixLen` returns; a literal key: `2*len(prefix)+1` if `hasMountPrefix`.
`parseKey = none` cannot be reached (startup would have panicked); it is read as "no match". -/
def rankOf (chk : C02.Constraint → Bytes → Bool) (cfg : Cfg) (path : Bytes) (k : Bytes) : Option Nat :=
  if isPatternKey k then
    match parseKey cfg k with
    | none => none
    | some segs => (mountPrefixLen chk segs (detOf cfg path) path).map (2 * ·)
  else if hasMountPrefix cfg path (ensureSlash k) then some (2 * (ensureSlash k).length + 1) else none

/-- the accumulator of the loop: (mountedErrHandler, mountedPrefix, mountedRank) -/
structure Acc where
  own : Option Own
  pre : Bytes
  rank : Nat
  deriving Repr, DecidableEq

/-- one iteration of the loop in `App.ErrorHandler`. `if prefix[0] != '/' { prefix = "/" + prefix }`
is `ensureSlash` (the key is not empty at that point); the parser is looked up under the key as
stored. `if rank > mountedRank || (rank == mountedRank && prefix > mountedPrefix)`. -/
def step (chk : C02.Constraint → Bytes → Bool) (cfg : Cfg) (path : Bytes) (acc : Acc) (m : Mounted) : Acc :=
  if m.pre = [] ∨ m.own = none then acc
  else match rankOf chk cfg path m.pre with
    | none => acc
    | some r =>
      if r > acc.rank ∨ (r = acc.rank ∧ bytesLt acc.pre (ensureSlash m.pre) = true) then
        ⟨m.own, ensureSlash m.pre, r⟩
      else acc

/-- `mountedErrHandler` after ranging over the map in the order `l` -/
def select (chk : C02.Constraint → Bytes → Bool) (cfg : Cfg) (l : List Mounted) (path : Bytes) : Option Own :=
  (l.foldl (step chk cfg path) ⟨none, [], 0⟩).own

/-- the error value as the funnel sees it: what `errors.As(err, &*Error)` finds and `err.Error()` -/
inductive Err where
  | fiber (code : Nat) (msg : Bytes)
  | plain (msg : Bytes)
  deriving Repr, DecidableEq

def Err.msg : Err → Bytes
  | .fiber _ m => m
  | .plain m => m

/-- which handler function ran -/
inductive Ran where
  | default
  | custom (id : Nat)
  deriving Repr, DecidableEq

structure Outcome where
  ran : List Ran        -- error-handler invocations, in order
  status : Nat
  body : Bytes
  deriving Repr, DecidableEq

/-- app.go `DefaultErrorHandler`: `code := 500; if errors.As(err, &e) { code = e.Code }`;
`c.Status(code).SendString(err.Error())`; returns nil -/
def defaultHandler (e : Err) : Nat × Bytes :=
  match e with
  | .fiber code m => (code, m)
  | .plain m => (500, m)

/-- a handler invocation: (who ran, the response it wrote if it answered, did it return an error) -/
def invoke (h : Option Own) (e : Err) : Ran × Option (Nat × Bytes) :=
  match h with
  | none => (.default, some (defaultHandler e))
  | some o => if o.fails then (.custom o.id, none)
              else (.custom o.id, some (418, b "eh" ++ natToDec o.id ++ b ":" ++ e.msg))

/-- app.go `App.ErrorHandler`: the mounted handler if one was selected, else `app.config.ErrorHandler`
(the root's configured handler or DefaultErrorHandler) — called once -/
def errorHandler (chk : C02.Constraint → Bytes → Bool) (cfg : Cfg) (l : List Mounted) (rootOwn : Option Own)
    (path : Bytes) (e : Err) : Ran × Option (Nat × Bytes) :=
  match select chk cfg l path with
  | some o => invoke (some o) e
  | none => invoke rootOwn e

/-- router.go `defaultRequestHandler`: `_, err := app.next(ctx); if err != nil { if catch :=
ctx.App().ErrorHandler(ctx, err); catch != nil { ctx.SendStatus(500) } }`.
`chain = none`: the chain returned nil — nothing is called (`none`).
`left` = the body that is on the response when a FAILING error handler gives up (written by the
handler that raised the error, or by the error handler itself before it failed): ctx.go
`SendStatus(500)` sets the status — whatever status was set before — and writes the status text only
`if len(c.fasthttp.Response.Body()) == 0`; headers set before stay. A handler that answers
overwrites status and body (`c.Status(…).SendString(…)`). -/
def funnel (chk : C02.Constraint → Bytes → Bool) (cfg : Cfg) (l : List Mounted) (rootOwn : Option Own)
    (path : Bytes) (chain : Option Err) (left : Bytes := []) : Option Outcome :=
  match chain with
  | none => none
  | some e =>
    match errorHandler chk cfg l rootOwn path e with
    | (r, some (st, body)) => some ⟨[r], st, body⟩
    | (r, none) => some ⟨[r], 500, if left.isEmpty then b "Internal Server Error" else left⟩

/-! ### fiber's own middleware that delivers errors itself: middleware/logger -/

/-- the response being built and the handler invocations so far -/
structure Progress where
  ran : List Ran
  resp : Option (Nat × Bytes)
  deriving Repr, DecidableEq

/-- one delivery: `if err := app.ErrorHandler(c, e); err != nil { c.SendStatus(500) }` — the three
lines are the same in router.go `defaultRequestHandler` / `customRequestHandler`, app.go
`serverErrorHandler` and middleware/logger `New` -/
def deliver (chk : C02.Constraint → Bytes → Bool) (cfg : Cfg) (l : List Mounted) (rootOwn : Option Own)
    (path : Bytes) (e : Err) (p : Progress) : Progress :=
  match errorHandler chk cfg l rootOwn path e with
  | (r, some (st, body)) => ⟨p.ran ++ [r], some (st, body)⟩
  | (r, none) => ⟨p.ran ++ [r], some (500, b "Internal Server Error")⟩

/-- middleware/logger `New`: `chainErr := c.Next(); if chainErr != nil { if err := errHandler(c,
chainErr); err != nil { _ = c.SendStatus(500) } }; … return cfg.LoggerFunc(c, data, cfg)` with
`errHandler = c.App().ErrorHandler` and the default LoggerFunc, which returns nil whether or not
`Skip` says the line is to be written. The way back through the loggers of the chain, innermost
first; `paths` = `c.Path()` as each of them sees it; `cur` = the error that comes back to the first.
Returns the progress and what comes back to the framework. -/
def throughLoggers (chk : C02.Constraint → Bytes → Bool) (cfg : Cfg) (l : List Mounted) (rootOwn : Option Own) :
    List Bytes → Option Err → Progress → Progress × Option Err
  | [], cur, p => (p, cur)
  | _ :: rest, none, p => throughLoggers chk cfg l rootOwn rest none p
  | path :: rest, some e, p => throughLoggers chk cfg l rootOwn rest none (deliver chk cfg l rootOwn path e p)

/-- a request whose chain holds loggers: the error `origin` comes back to the innermost of
`loggers`, travels outwards, and what is left reaches router.go's request handler, which sees the
path `fpath`. `funnel` is the case without loggers (`request_nil`). -/
def request (chk : C02.Constraint → Bytes → Bool) (cfg : Cfg) (l : List Mounted) (rootOwn : Option Own)
    (loggers : List Bytes) (fpath : Bytes) (origin : Option Err) : Option Outcome :=
  let (p, out) := throughLoggers chk cfg l rootOwn loggers origin ⟨[], none⟩
  let p := match out with
    | none => p
    | some e => deliver chk cfg l rootOwn fpath e p
  match p.resp with
  | none => none
  | some (st, body) => some ⟨p.ran, st, body⟩

/-! ### errors before routing: `serverErrorHandler` (the fasthttp server's ErrorHandler) -/

/-- what `serverErrorHandler`'s switch asks of the error fasthttp hands over -/
structure SrvErr where
  smallBuffer : Bool    -- errors.As(err, new(*fasthttp.ErrSmallBuffer))
  opTimeout : Bool      -- errors.As(err, &errNetOP) && errNetOP.Timeout()
  netError : Bool       -- errors.As(err, &netErr)   (net.Error)
  bodyTooLarge : Bool   -- errors.Is(err, fasthttp.ErrBodyTooLarge)
  getOnly : Bool        -- errors.Is(err, fasthttp.ErrGetOnly)
  msg : Bytes           -- err.Error()
  deriving Repr, DecidableEq

/-- the `switch` of `serverErrorHandler`, first matching case wins: ErrRequestHeaderFieldsTooLarge,
ErrRequestTimeout, ErrBadGateway, ErrRequestEntityTooLarge, ErrMethodNotAllowed,
`strings.Contains(err.Error(), "timeout")` → ErrRequestTimeout, default
`NewError(StatusBadRequest, err.Error())` -/
def mapServerErr (e : SrvErr) : Err :=
  if e.smallBuffer then .fiber 431 (b "Request Header Fields Too Large")
  else if e.opTimeout then .fiber 408 (b "Request Timeout")
  else if e.netError then .fiber 502 (b "Bad Gateway")
  else if e.bodyTooLarge then .fiber 413 (b "Request Entity Too Large")
  else if e.getOnly then .fiber 405 (b "Method Not Allowed")
  else if (indexOf e.msg (b "timeout")).isSome then .fiber 408 (b "Request Timeout")
  else .fiber 400 e.msg

/-- `serverErrorHandler`: `if catch := app.ErrorHandler(c, err); catch != nil { …SendStatus(500) }`
with the mapped error; `path` is the path of the context acquired for the broken request (what
fasthttp had parsed when it gave up: "/" after a header error, the request's path after
ErrBodyTooLarge / ErrGetOnly — an input here, observed by the harness) -/
def serverFunnel (chk : C02.Constraint → Bytes → Bool) (cfg : Cfg) (l : List Mounted) (rootOwn : Option Own)
    (path : Bytes) (e : SrvErr) : Option Outcome :=
  funnel chk cfg l rootOwn path (some (mapServerErr e))

/-! ### the function as it was before the fixes (record) -/

/-- `len(strings.Split(prefix, "/"))` -/
def parts (p : Bytes) : Nat := (splitOn p 47).length

/-- the loop body before the fix: `strings.HasPrefix`, `mountedPrefixParts <= parts`, the bound is
raised even when the app has no handler of its own -/
def stepOld (path : Bytes) (acc : Option Own × Nat) (m : Mounted) : Option Own × Nat :=
  if m.pre ≠ [] ∧ m.pre.isPrefixOf path then
    if acc.2 ≤ parts m.pre then ((if m.own.isSome then m.own else acc.1), parts m.pre) else acc
  else acc

def selectOld (l : List Mounted) (path : Bytes) : Option Own :=
  (l.foldl (stepOld path) (none, 0)).1

/-! ### the loop between the fixes F3 and F4 (record of the former known finding K1) -/

/-- every key is compared literally; the accumulator is (mountedErrHandler, mountedPrefixLen) -/
def stepLit (cfg : Cfg) (path : Bytes) (acc : Option Own × Nat) (m : Mounted) : Option Own × Nat :=
  if m.pre = [] ∨ m.own = none then acc
  else if hasMountPrefix cfg path (ensureSlash m.pre) = false then acc
  else if (ensureSlash m.pre).length > acc.2 then (m.own, (ensureSlash m.pre).length) else acc

def selectLit (cfg : Cfg) (l : List Mounted) (path : Bytes) : Option Own :=
  (l.foldl (stepLit cfg path) (none, 0)).1

end C08
