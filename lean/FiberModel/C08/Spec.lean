import FiberModel.C08.Model
/-
C08 — the property as executable definitions.

"Every error that the handler chain returns to the framework (including its own 404/405) is
delivered exactly once to exactly one error handler: that of the innermost mounted sub-application
that configured one and whose mount prefix contains the request path on a segment boundary,
otherwise the root application's. The choice is a function of the request path and mount structure
alone; the status of a framework error value becomes the response status under the default
handler, and a failing error handler yields a 500."

"Mount prefix" and "contains" are read the way the ROUTER reads them, because that decides which
requests the mounted app serves:
* `mountedAt k`         : a prefix registered without its leading slash ("api") is mounted at "/api"
                          (router.go register: `pathRaw = "/" + pathRaw`).
* `fold cfg`            : letter case is ignored unless `CaseSensitive` (the router lower-cases both
                          the registered path and the detection path).
* `contains cfg k path` : the (folded) prefix is a string prefix of the (folded) path and ends where a
                          path segment ends — the literal reading.
* `coversPat cfg k path`: the prefix read as a route pattern: a segment `:name` stands for any
                          non-empty path segment; everything else is literal; the covered part ends
                          where a path segment ends. (Pattern language of the spec: whole-segment
                          named parameters. Wildcards, optional / constrained / mid-segment parameters
                          and escapes are outside — the driver rejects such prefixes.)
* `candidates`          : mounted apps (not the root) that configured a handler and whose prefix contains
                          the path literally or as a pattern.
* `reach`               : how far into the path the prefix reaches — its own length when it contains
                          the path literally, else what the pattern consumed. Nested mounts reach
                          strictly further, so innermost = furthest reach; where a literal and a
                          parameterised sibling reach equally far the literal (more specific) one is
                          taken. No order of evaluation anywhere.
* `expected`            : the one outcome the sentence allows for a chain result.
* `specViolation`       : oracle on the SET of outcomes the implementation produced for one case.
* `specServerErr`       : errors before routing (no chain ran): which framework error the funnel is
                          fed; everything after that is the same sentence.
-/
namespace C08
open B C04

/-- `path = pre ++ rest` -/
def stripPrefix : Bytes → Bytes → Option Bytes
  | [], path => some path
  | _ :: _, [] => none
  | a :: pre, c :: path => if a = c then stripPrefix pre path else none

/-- the prefix ends where a path segment ends: nothing follows, or a '/' follows, or the prefix
itself ends in '/' -/
def containsRaw (pre path : Bytes) : Bool :=
  match stripPrefix pre path with
  | none => false
  | some rest => rest.isEmpty || rest.head? == some 47 || pre.getLast? == some 47

/-- the byte the router compares: lower-cased unless CaseSensitive -/
def fb (cfg : Cfg) (c : Nat) : Nat := if cfg.caseSensitive then c else lowerByte c

def fold (cfg : Cfg) (s : Bytes) : Bytes := s.map (fb cfg)

/-- where the router mounts an app registered under the appList key `k` -/
def mountedAt (k : Bytes) : Bytes := ensureSlash k

/-- the appList key as the router tells mount points apart: leading slash added, letter case folded
unless CaseSensitive; `""` (the app itself) stays `""`. Two apps whose keys agree in this form are
one mount point to the router (the one registered first serves every request): such tables are
outside the property's "mount structure" (hypothesis `Nodup` in Props, rejected by the driver). -/
def normKey (cfg : Cfg) (k : Bytes) : Bytes := if k = [] then [] else fold cfg (mountedAt k)

/-- literal containment, compared as the router compares -/
def contains (cfg : Cfg) (k path : Bytes) : Bool :=
  containsRaw (fold cfg (mountedAt k)) (fold cfg path)

/-! #### the prefix as a route pattern -/

inductive Tok where
  | lit (c : Nat)
  | param
  deriving Repr, DecidableEq

/-- literal bytes and whole-segment parameters: `:` directly after a `/` starts a parameter whose
name runs to the next `/` (or the end) -/
def tokenize (inName prevSlash : Bool) : Bytes → List Tok
  | [] => []
  | c :: t =>
    if inName then
      if c = 47 then .lit 47 :: tokenize false true t else tokenize true false t
    else if c = 58 ∧ prevSlash = true then .param :: tokenize true false t
    else .lit c :: tokenize false (c == 47) t

/-- number of path bytes the tokens consume, if they match a leading part of the path -/
def matchToks (cfg : Cfg) : List Tok → Bytes → Option Nat
  | [], _ => some 0
  | .lit _ :: _, [] => none
  | .lit c :: ts, d :: p => if fb cfg c = fb cfg d then (matchToks cfg ts p).map (· + 1) else none
  | .param :: ts, p =>
    let v := p.takeWhile (· != 47)
    if v.isEmpty then none else (matchToks cfg ts (p.drop v.length)).map (· + v.length)

/-- the prefix, read as a pattern, covers a leading part of the path that ends on a segment boundary:
`some n` = it covers the first `n` bytes -/
def coversPat (cfg : Cfg) (k path : Bytes) : Option Nat :=
  match matchToks cfg (tokenize false false (mountedAt k)) path with
  | none => none
  | some n =>
    let rest := path.drop n
    if rest.isEmpty || rest.head? == some 47 || (mountedAt k).getLast? == some 47 then some n else none

def isCandidate (cfg : Cfg) (path : Bytes) (m : Mounted) : Bool :=
  !m.pre.isEmpty && m.own.isSome && (contains cfg m.pre path || (coversPat cfg m.pre path).isSome)

def candidates (cfg : Cfg) (l : List Mounted) (path : Bytes) : List Mounted :=
  l.filter (isCandidate cfg path)

/-- twice the number of path bytes the prefix accounts for, plus one for a literal match -/
def reach (cfg : Cfg) (path : Bytes) (m : Mounted) : Nat :=
  if contains cfg m.pre path then 2 * (mountedAt m.pre).length + 1
  else match coversPat cfg m.pre path with
    | some n => 2 * n
    | none => 0

/-- the entry with the furthest reach -/
def innermost (cfg : Cfg) (path : Bytes) : List Mounted → Option Mounted
  | [] => none
  | m :: t =>
    match innermost cfg path t with
    | none => some m
    | some x => if reach cfg path x > reach cfg path m then some x else some m

def selectSpec (cfg : Cfg) (l : List Mounted) (path : Bytes) : Option Own :=
  (innermost cfg path (candidates cfg l path)).bind (·.own)

/-- the handler the sentence designates: the innermost configured mounted app's, else the root's
(`none` = the root did not configure one: DefaultErrorHandler) -/
def designated (cfg : Cfg) (l : List Mounted) (rootOwn : Option Own) (path : Bytes) : Option Own :=
  match selectSpec cfg l path with
  | some o => some o
  | none => rootOwn

def expected (cfg : Cfg) (l : List Mounted) (rootOwn : Option Own) (path : Bytes) (chain : Option Err) :
    Option Outcome :=
  match chain with
  | none => none
  | some e =>
    match designated cfg l rootOwn path with
    | none => some ⟨[.default], (match e with | .fiber c _ => c | .plain _ => 500), e.msg⟩
    | some o =>
      if o.fails then some ⟨[.custom o.id], 500, b "Internal Server Error"⟩
      else some ⟨[.custom o.id], 418, b "eh" ++ natToDec o.id ++ b ":" ++ e.msg⟩

/-- errors the server meets before any handler chain runs reach the same funnel as a framework
error: request header larger than the read buffer → 431; read/write deadline of the connection
exceeded → 408; any other network error → 502; body larger than BodyLimit → 413; a non-GET request
on a GET-only server → 405; otherwise an error whose text mentions a timeout → 408; anything else →
400 with the error's own text. -/
def specServerErr (e : SrvErr) : Err :=
  match e.smallBuffer, e.opTimeout, e.netError, e.bodyTooLarge, e.getOnly with
  | true, _, _, _, _ => .fiber 431 (b "Request Header Fields Too Large")
  | false, true, _, _, _ => .fiber 408 (b "Request Timeout")
  | false, false, true, _, _ => .fiber 502 (b "Bad Gateway")
  | false, false, false, true, _ => .fiber 413 (b "Request Entity Too Large")
  | false, false, false, false, true => .fiber 405 (b "Method Not Allowed")
  | false, false, false, false, false =>
    if (indexOf e.msg (b "timeout")).isSome then .fiber 408 (b "Request Timeout") else .fiber 400 e.msg

def expectedServer (cfg : Cfg) (l : List Mounted) (rootOwn : Option Own) (path : Bytes) (e : SrvErr) :
    Option Outcome :=
  expected cfg l rootOwn path (some (specServerErr e))

/-- one observed evaluation: the error that entered the funnel (as the outermost middleware saw it
come back from the chain, or — server errors — as the spec maps what fasthttp handed over), how
often each custom handler ran, status and body -/
structure Seen where
  chain : Option Err
  calls : List (Nat × Nat)
  status : Nat
  body : Bytes
  deriving Repr, DecidableEq

/-- custom-handler invocations of an outcome, as (id, count) -/
def customCalls (o : Outcome) : List (Nat × Nat) :=
  o.ran.filterMap fun r => match r with | .custom i => some (i, 1) | .default => none

def specViolation (cfg : Cfg) (l : List Mounted) (rootOwn : Option Own) (path : Bytes) (seen : List Seen) :
    Option String :=
  match seen with
  | [] => some "no-observation"
  | [s] =>
    match expected cfg l rootOwn path s.chain with
    | none => if s.calls.isEmpty then none else some "exactly-once: an error handler ran although the chain returned no error"
    | some o =>
      if s.calls != customCalls o then
        some "scope/exactly-once: not exactly one call of the designated handler (innermost configured mount containing the path, else root)"
      else if s.status != o.status then
        some (if o.ran == [.default] then "status: default handler must answer with the error's status (500 for a non-framework error)"
              else "status: designated handler's answer (a failing handler yields 500)")
      else if s.body != o.body then some "body: answer of the designated handler"
      else none
  | _ => some s!"deterministic: {seen.length} distinct outcomes for the same path and mount structure"

end C08
