import FiberModel.C08.Model
/-
C08 — the property as executable definitions.

"Every error that the handler chain returns to the framework (including its own 404/405) is
delivered exactly once to exactly one error handler: that of the innermost mounted sub-application
that configured one and whose mount prefix contains the request path on a segment boundary,
otherwise the root application's. The choice is a function of the request path and mount structure
alone; the status of a framework error value becomes the response status under the default
handler, and a failing error handler yields a 500."

"Mount prefix" and "contains" are read the way the ROUTER reads them, because that decides which
requests the mounted app serves:
* `mountedAt k`         : a prefix registered without its leading slash ("api") is mounted at "/api"
                          (router.go register: `pathRaw = "/" + pathRaw`).
* `fold cfg`            : letter case is ignored unless `CaseSensitive` (the router lower-cases both
                          the registered path and the detection path).
* `contains cfg k path` : the (folded) prefix is a string prefix of the (folded) path and ends where a
                          path segment ends — the reading of a prefix that is plain text.
* `isPattern k`         : the prefix holds one of the characters of fiber's route syntax (`:` `*` `+`
                          `\`): it is a route pattern, not plain text.
* `Cover`               : a reading of pattern prefixes — how many leading bytes of the path the prefix
                          covers, ending where a path segment ends (`none` = the path is not inside).
                          Two readings are defined here:
    `coversPat cfg`       : the tokens reading, written from scratch: a segment `:name` stands for any
                            non-empty path segment, everything else is literal. Pattern language:
                            whole-segment named parameters.
    `coversRouter chk cfg`: the router's own reading, for every pattern fiber accepts (wildcards,
                            optional / constrained / mid-segment parameters, escaped characters):
                            the shortest leading part of the path, ending on a segment boundary, that
                            fiber's exported matcher `RoutePatternMatch` (the C02 model of it) accepts
                            for the prefix. The path is read as the router reads a request path:
                            trailing slashes do not count unless StrictRouting.
* `candidates`          : mounted apps (not the root) that configured a handler and whose prefix contains
                          the path.
* `reach`               : twice the number of path bytes the prefix accounts for, plus one for a plain
                          prefix. A nested mount reaches at least as far as the mounts around it, and
                          its prefix extends theirs (mount.go: key = key of the app around it ++ its
                          own prefix), so it sorts after them: innermost = furthest reach and, where
                          that ties (an app mounted at "/" inside an app under a pattern prefix: the
                          trailing slash is optional to the router), the prefix that sorts last.
                          Where a plain and a pattern sibling reach equally far the plain (more
                          specific) one is taken. Between overlapping siblings that still tie the
                          sentence leaves the choice open ("a function of the request path and mount
                          structure alone"); the same rule names one such function (`sortsBefore`).
                          No order of evaluation anywhere.
* `expected`            : the one outcome the sentence allows for a chain result.
* `specViolation`       : oracle on the SET of outcomes the implementation produced for one case.
* `specServerErr`       : errors before routing (no chain ran): which framework error the funnel is
                          fed; everything after that is the same sentence.
-/
namespace C08
open B C04

/-- `path = pre ++ rest` -/
def stripPrefix : Bytes → Bytes → Option Bytes
  | [], path => some path
  | _ :: _, [] => none
  | a :: pre, c :: path => if a = c then stripPrefix pre path else none

/-- the prefix ends where a path segment ends: nothing follows, or a '/' follows, or the prefix
itself ends in '/' -/
def containsRaw (pre path : Bytes) : Bool :=
  match stripPrefix pre path with
  | none => false
  | some rest => rest.isEmpty || rest.head? == some 47 || pre.getLast? == some 47

/-- the byte the router compares: lower-cased unless CaseSensitive -/
def fb (cfg : Cfg) (c : Nat) : Nat := if cfg.caseSensitive then c else lowerByte c

def fold (cfg : Cfg) (s : Bytes) : Bytes := s.map (fb cfg)

/-- where the router mounts an app registered under the appList key `k` -/
def mountedAt (k : Bytes) : Bytes := ensureSlash k

/-- the appList key as the router tells mount points apart: leading slash added, letter case folded
unless CaseSensitive; `""` (the app itself) stays `""`. Two apps whose keys agree in this form are
one mount point to the router (the one registered first serves every request): such tables are
outside the property's "mount structure" (hypothesis `Nodup` in Props, rejected by the driver). -/
def normKey (cfg : Cfg) (k : Bytes) : Bytes := if k = [] then [] else fold cfg (mountedAt k)

/-- the mount point as registered: leading slash added; `""` (the app itself) stays `""`. Two apps
whose keys agree in this form ("api" and "/api") are registered under one and the same route: such
tables are outside the property's "mount structure" (hypothesis `Nodup` in Props, rejected by the
driver). Keys that differ in letter case only, or in parameter names only, are one mount point to
the router as well (the one registered first serves every request) but are told apart here: the
prefix that sorts first is the designated one. -/
def slashKey (k : Bytes) : Bytes := if k = [] then [] else mountedAt k

/-- literal containment, compared as the router compares -/
def contains (cfg : Cfg) (k path : Bytes) : Bool :=
  containsRaw (fold cfg (mountedAt k)) (fold cfg path)

/-! #### the prefix as a route pattern -/

inductive Tok where
  | lit (c : Nat)
  | param
  deriving Repr, DecidableEq

/-- literal bytes and whole-segment parameters: `:` directly after a `/` starts a parameter whose
name runs to the next `/` (or the end) -/
def tokenize (inName prevSlash : Bool) : Bytes → List Tok
  | [] => []
  | c :: t =>
    if inName then
      if c = 47 then .lit 47 :: tokenize false true t else tokenize true false t
    else if c = 58 ∧ prevSlash = true then .param :: tokenize true false t
    else .lit c :: tokenize false (c == 47) t

/-- number of path bytes the tokens consume, if they match a leading part of the path -/
def matchToks (cfg : Cfg) : List Tok → Bytes → Option Nat
  | [], _ => some 0
  | .lit _ :: _, [] => none
  | .lit c :: ts, d :: p => if fb cfg c = fb cfg d then (matchToks cfg ts p).map (· + 1) else none
  | .param :: ts, p =>
    let v := p.takeWhile (· != 47)
    if v.isEmpty then none else (matchToks cfg ts (p.drop v.length)).map (· + v.length)

/-- the request path as the router reads it: trailing slashes do not count unless StrictRouting -/
def routerPath (cfg : Cfg) (path : Bytes) : Bytes :=
  if !cfg.strict && path.length > 1 && path.getLast? == some 47 then trimRight path 47 else path

/-- the tokens reading: the prefix covers a leading part of the path (as the router reads it) that
ends on a segment boundary: `some n` = it covers the first `n` bytes -/
def coversPat (cfg : Cfg) (k path : Bytes) : Option Nat :=
  let rp := routerPath cfg path
  match matchToks cfg (tokenize false false (mountedAt k)) rp with
  | none => none
  | some n =>
    let rest := rp.drop n
    if rest.isEmpty || rest.head? == some 47 || (mountedAt k).getLast? == some 47 then some n else none

/-- the prefix is a route pattern: it holds `:`, `*`, `+` or the escape character `\` -/
def isPattern (k : Bytes) : Bool := k.any fun c => c == 58 || c == 42 || c == 43 || c == 92

/-- a reading of pattern prefixes: key → path → number of leading path bytes covered -/
abbrev Cover := Bytes → Bytes → Option Nat

/-- `n` leading bytes of `p` end where a path segment ends -/
def onBoundary (p : Bytes) (n : Nat) : Bool := n == p.length || p[n]? == some 47

/-- the router's reading of a pattern prefix: the shortest leading part of the path (as the router
reads it), ending where a segment ends, that `RoutePatternMatch(part, prefix, Config{CaseSensitive})`
accepts. (StrictRouting is set in that call so that the part is taken as it is.) -/
def coversRouter (chk : C02.Constraint → Bytes → Bool) (cfg : Cfg) : Cover := fun k path =>
  let rp := routerPath cfg path
  (List.range' 1 rp.length).find? fun n =>
    onBoundary rp n && C02.routePatternMatch chk ⟨cfg.caseSensitive, true, false⟩ (rp.take n) (mountedAt k) == some true

/-- how many leading bytes of the path the prefix covers: a pattern as `cov` reads it, plain text
literally -/
def covers (cfg : Cfg) (cov : Cover) (k path : Bytes) : Option Nat :=
  if isPattern k then cov k path
  else if contains cfg k path then some (mountedAt k).length else none

def isCandidate (cfg : Cfg) (cov : Cover) (path : Bytes) (m : Mounted) : Bool :=
  !m.pre.isEmpty && m.own.isSome && (covers cfg cov m.pre path).isSome

def candidates (cfg : Cfg) (cov : Cover) (l : List Mounted) (path : Bytes) : List Mounted :=
  l.filter (isCandidate cfg cov path)

/-- twice the number of path bytes the prefix accounts for, plus one for a plain prefix -/
def reach (cfg : Cfg) (cov : Cover) (path : Bytes) (m : Mounted) : Nat :=
  match covers cfg cov m.pre path with
  | some n => if isPattern m.pre then 2 * n else 2 * n + 1
  | none => 0

/-- `a` sorts before `c` (byte-wise dictionary order) -/
def sortsBefore : Bytes → Bytes → Bool
  | [], [] => false
  | [], _ :: _ => true
  | _ :: _, [] => false
  | a :: s, c :: t => if a = c then sortsBefore s t else a < c

/-- `x` is taken rather than `m`: it reaches further, or equally far and its prefix sorts last -/
def preferred (cfg : Cfg) (cov : Cover) (path : Bytes) (x m : Mounted) : Bool :=
  reach cfg cov path x > reach cfg cov path m ||
    (reach cfg cov path x == reach cfg cov path m && sortsBefore (mountedAt m.pre) (mountedAt x.pre))

/-- the entry with the furthest reach (among equals: the prefix that sorts last) -/
def innermost (cfg : Cfg) (cov : Cover) (path : Bytes) : List Mounted → Option Mounted
  | [] => none
  | m :: t =>
    match innermost cfg cov path t with
    | none => some m
    | some x => if preferred cfg cov path x m then some x else some m

def selectSpec (cfg : Cfg) (cov : Cover) (l : List Mounted) (path : Bytes) : Option Own :=
  (innermost cfg cov path (candidates cfg cov l path)).bind (·.own)

/-- the handler the sentence designates: the innermost configured mounted app's, else the root's
(`none` = the root did not configure one: DefaultErrorHandler) -/
def designated (cfg : Cfg) (cov : Cover) (l : List Mounted) (rootOwn : Option Own) (path : Bytes) : Option Own :=
  match selectSpec cfg cov l path with
  | some o => some o
  | none => rootOwn

def expected (cfg : Cfg) (cov : Cover) (l : List Mounted) (rootOwn : Option Own) (path : Bytes) (chain : Option Err)
    (left : Bytes := []) : Option Outcome :=
  match chain with
  | none => none
  | some e =>
    match designated cfg cov l rootOwn path with
    | none => some ⟨[.default], (match e with | .fiber c _ => c | .plain _ => 500), e.msg⟩
    | some o =>
      -- "a failing error handler yields a 500": whatever status the route handler or the error handler
      -- itself had set; a body written before the failure stays (`left`), else the status text
      if o.fails then some ⟨[.custom o.id], 500, if left.isEmpty then b "Internal Server Error" else left⟩
      else some ⟨[.custom o.id], 418, b "eh" ++ natToDec o.id ++ b ":" ++ e.msg⟩

/-- errors the server meets before any handler chain runs reach the same funnel as a framework
error: request header larger than the read buffer → 431; read/write deadline of the connection
exceeded → 408; any other network error → 502; body larger than BodyLimit → 413; a non-GET request
on a GET-only server → 405; otherwise an error whose text mentions a timeout → 408; anything else →
400 with the error's own text. -/
def specServerErr (e : SrvErr) : Err :=
  match e.smallBuffer, e.opTimeout, e.netError, e.bodyTooLarge, e.getOnly with
  | true, _, _, _, _ => .fiber 431 (b "Request Header Fields Too Large")
  | false, true, _, _, _ => .fiber 408 (b "Request Timeout")
  | false, false, true, _, _ => .fiber 502 (b "Bad Gateway")
  | false, false, false, true, _ => .fiber 413 (b "Request Entity Too Large")
  | false, false, false, false, true => .fiber 405 (b "Method Not Allowed")
  | false, false, false, false, false =>
    if (indexOf e.msg (b "timeout")).isSome then .fiber 408 (b "Request Timeout") else .fiber 400 e.msg

def expectedServer (cfg : Cfg) (cov : Cover) (l : List Mounted) (rootOwn : Option Own) (path : Bytes) (e : SrvErr) :
    Option Outcome :=
  expected cfg cov l rootOwn path (some (specServerErr e))

/-- one observed evaluation: the error that entered the funnel (as the outermost middleware saw it
come back from the chain, or — server errors — as the spec maps what fasthttp handed over), how
often each custom handler ran, status and body -/
structure Seen where
  chain : Option Err
  calls : List (Nat × Nat)
  status : Nat
  body : Bytes
  deriving Repr, DecidableEq

/-- custom-handler invocations of an outcome, as (id, count) -/
def customCalls (o : Outcome) : List (Nat × Nat) :=
  o.ran.filterMap fun r => match r with | .custom i => some (i, 1) | .default => none

def specViolation (cfg : Cfg) (cov : Cover) (l : List Mounted) (rootOwn : Option Own) (path : Bytes) (seen : List Seen)
    (left : Bytes := []) : Option String :=
  match seen with
  | [] => some "no-observation"
  | [s] =>
    match expected cfg cov l rootOwn path s.chain left with
    | none => if s.calls.isEmpty then none else some "exactly-once: an error handler ran although the chain returned no error"
    | some o =>
      if s.calls != customCalls o then
        some "scope/exactly-once: not exactly one call of the designated handler (innermost configured mount containing the path, else root)"
      else if s.status != o.status then
        some (if o.ran == [.default] then "status: default handler must answer with the error's status (500 for a non-framework error)"
              else "status: designated handler's answer (a failing handler yields 500)")
      else if s.body != o.body then some "body: answer of the designated handler"
      else none
  | _ => some s!"deterministic: {seen.length} distinct outcomes for the same path and mount structure"

end C08
