import FiberModel.C08.Model
/-
C08 — the property as executable definitions.

"Every error that the handler chain returns to the framework (including its own 404/405) is
delivered exactly once to exactly one error handler: that of the innermost mounted sub-application
that configured one and whose mount prefix contains the request path on a segment boundary,
otherwise the root application's. The choice is a function of the request path and mount structure
alone; the status of a framework error value becomes the response status under the default
handler, and a failing error handler yields a 500."

* `contains pre path`   : the mount prefix contains the path on a segment boundary.
* `selectSpec`          : among the mounted apps that configured a handler and contain the path, the
                          innermost = the one with the longest prefix (all of them are prefixes of
                          the same path, `boundary_match_unique`); no order of evaluation anywhere.
* `expected`            : the one outcome the sentence allows for a chain result.
* `specViolation`       : oracle on the SET of outcomes the implementation produced for one case.
-/
namespace C08
open B C04

/-- `path = pre ++ rest` -/
def stripPrefix : Bytes → Bytes → Option Bytes
  | [], path => some path
  | _ :: _, [] => none
  | a :: pre, c :: path => if a = c then stripPrefix pre path else none

/-- the prefix ends where a path segment ends: nothing follows, or a '/' follows, or the prefix
itself ends in '/' -/
def contains (pre path : Bytes) : Bool :=
  match stripPrefix pre path with
  | none => false
  | some rest => rest.isEmpty || rest.head? == some 47 || pre.getLast? == some 47

def candidates (l : List Mounted) (path : Bytes) : List Mounted :=
  l.filter fun m => !m.pre.isEmpty && m.own.isSome && contains m.pre path

/-- the entry with the longest prefix -/
def innermost : List Mounted → Option Mounted
  | [] => none
  | m :: t =>
    match innermost t with
    | none => some m
    | some x => if x.pre.length > m.pre.length then some x else some m

def selectSpec (l : List Mounted) (path : Bytes) : Option Own :=
  (innermost (candidates l path)).bind (·.own)

/-- the handler the sentence designates: the innermost configured mounted app's, else the root's
(`none` = the root did not configure one: DefaultErrorHandler) -/
def designated (l : List Mounted) (rootOwn : Option Own) (path : Bytes) : Option Own :=
  match selectSpec l path with
  | some o => some o
  | none => rootOwn

def expected (l : List Mounted) (rootOwn : Option Own) (path : Bytes) (chain : Option Err) : Option Outcome :=
  match chain with
  | none => none
  | some e =>
    match designated l rootOwn path with
    | none => some ⟨[.default], (match e with | .fiber c _ => c | .plain _ => 500), e.msg⟩
    | some o =>
      if o.fails then some ⟨[.custom o.id], 500, b "Internal Server Error"⟩
      else some ⟨[.custom o.id], 418, b "eh" ++ natToDec o.id ++ b ":" ++ e.msg⟩

/-- one observed evaluation: the chain's error as the outermost middleware saw it, how often each
custom handler ran, status and body -/
structure Seen where
  chain : Option Err
  calls : List (Nat × Nat)
  status : Nat
  body : Bytes
  deriving Repr, DecidableEq

/-- custom-handler invocations of an outcome, as (id, count) -/
def customCalls (o : Outcome) : List (Nat × Nat) :=
  o.ran.filterMap fun r => match r with | .custom i => some (i, 1) | .default => none

def specViolation (l : List Mounted) (rootOwn : Option Own) (path : Bytes) (seen : List Seen) : Option String :=
  match seen with
  | [] => some "no-observation"
  | [s] =>
    match expected l rootOwn path s.chain with
    | none => if s.calls.isEmpty then none else some "exactly-once: an error handler ran although the chain returned no error"
    | some o =>
      if s.calls != customCalls o then
        some "scope/exactly-once: not exactly one call of the designated handler (innermost configured mount containing the path, else root)"
      else if s.status != o.status then
        some (if o.ran == [.default] then "status: default handler must answer with the error's status (500 for a non-framework error)"
              else "status: designated handler's answer (a failing handler yields 500)")
      else if s.body != o.body then some "body: answer of the designated handler"
      else none
  | _ => some s!"deterministic: {seen.length} distinct outcomes for the same path and mount structure"

end C08
