import FiberModel.C08.Tokens
import FiberModel.C02.Shape
/-
C08 — every key of the tokens SHAPE is a key of the tokens fragment: for every well-formed list of
pieces (`wf`: plain text and whole-segment named parameters, no trailing slash) the spec's tokenizer
yields `toksOf` and fiber's parser (the C02 transcription of path.go `parseRoute`) yields `segsOf`.
With `cover_of_segs` this removes the executable test `TokenKey` from the hypotheses:
`modelCover_eq_coversPat_of_wf`.
-/
namespace C08
open B C04

/-! ### the spec's tokenizer on a well-formed fragment -/

theorem plainB_ne_colon {c : Nat} (h : plainB c = true) : c ≠ 58 := by
  intro hc; subst hc; simp [plainB, isLower, isUpper, isDigit] at h

theorem nameB_ne_slash {c : Nat} (h : nameB c = true) : c ≠ 47 := by
  intro hc; subst hc; simp [nameB, isLower, isUpper, isDigit] at h

/-- the state `prevSlash` after a literal run -/
def lastSlash (ps : Bool) (s : Bytes) : Bool :=
  match s.getLast? with
  | none => ps
  | some c => c == 47

theorem lastSlash_cons (ps : Bool) (c : Nat) (t : Bytes) : lastSlash ps (c :: t) = lastSlash (c == 47) t := by
  cases t with
  | nil => simp [lastSlash]
  | cons d u =>
    simp only [lastSlash, List.getLast?_cons_cons]
    cases hg : (d :: u).getLast? with
    | none => simp at hg
    | some _ => rfl

theorem tokenize_lits (s rest : Bytes) (ps : Bool) (hs : s.all plainB = true) :
    tokenize false ps (s ++ rest) = s.map .lit ++ tokenize false (lastSlash ps s) rest := by
  induction s generalizing ps with
  | nil => simp [lastSlash]
  | cons c t ih =>
    simp only [List.all_cons, Bool.and_eq_true] at hs
    have hc : c ≠ 58 := plainB_ne_colon hs.1
    simp only [List.cons_append, tokenize, Bool.false_eq_true, if_false, hc, false_and, List.map_cons]
    rw [ih _ hs.2, lastSlash_cons]

theorem tokenize_name (n : Bytes) (b0 : Bool) (hn : n.all nameB = true) :
    (tokenize true b0 n = []) ∧
    (∀ r : Bytes, tokenize true b0 (n ++ 47 :: r) = .lit 47 :: tokenize false true r) := by
  induction n generalizing b0 with
  | nil => simp [tokenize]
  | cons c t ih =>
    simp only [List.all_cons, Bool.and_eq_true] at hn
    have hc : c ≠ 47 := nameB_ne_slash hn.1
    constructor
    · simp only [tokenize, if_true, hc, if_false]
      exact (ih false hn.2).1
    · intro r
      simp only [List.cons_append, tokenize, if_true, hc, if_false]
      exact (ih false hn.2).2 r

/-- the first piece is a parameter -/
def startsPar : List Piece → Bool
  | .par _ :: _ => true
  | _ => false

/-- **the tokenizer on a well-formed fragment** (from any piece on; `ps` = the byte before was a
slash — guaranteed by the piece before where it matters) -/
theorem tokenize_frag : ∀ (f : List Piece) (ap ps : Bool), wfFrom ap f = true →
    (startsPar f = true → ps = true) → tokenize false ps (render f) = toksOf f
  | [], _, _, _, _ => rfl
  | .lit s :: t, ap, ps, hwf, _ => by
    have hw := hwf
    simp only [wfFrom, Bool.and_eq_true] at hw
    obtain ⟨⟨⟨⟨_, hall⟩, _⟩, hnext⟩, hwt⟩ := hw
    simp only [render, toksOf]
    rw [tokenize_lits s _ ps hall]
    congr 1
    apply tokenize_frag t false _ hwt
    intro hsp
    cases t with
    | nil => simp [startsPar] at hsp
    | cons y t' =>
      cases y with
      | lit _ => simp [startsPar] at hsp
      | par _ =>
        have : s.getLast? = some 47 := by simpa using hnext
        simp [lastSlash, this]
  | [.par n], ap, ps, hwf, hps => by
    have hw := hwf
    simp only [wfFrom, Bool.and_eq_true] at hw
    obtain ⟨⟨⟨_, hall⟩, _⟩, _⟩ := hw
    have hps' : ps = true := hps rfl
    subst hps'
    simp only [render, List.append_nil, toksOf]
    have hstep : tokenize false true (58 :: n) = .param :: tokenize true false n := by simp [tokenize]
    rw [hstep, (tokenize_name n false hall).1]
  | .par n :: .par m :: t', ap, _, hwf, _ => by
    simp [wfFrom] at hwf
  | .par n :: .lit s' :: t', ap, ps, hwf, hps => by
    have hwt : wfFrom true (.lit s' :: t') = true := (wfFrom_par hwf).1
    have hall : n.all nameB = true := by
      have h := hwf
      unfold wfFrom at h
      simp only [Bool.and_eq_true] at h
      exact h.1.1.2
    have hps' : ps = true := hps rfl
    subst hps'
    obtain ⟨hs'ne, hs'head, hwt'⟩ := wfFrom_lit hwt
    have hh := hs'head rfl
    cases s' with
    | nil => exact absurd rfl hs'ne
    | cons c s'' =>
      simp only [List.head?_cons, Option.some.injEq] at hh
      subst hh
      have hw2 := hwt
      simp only [wfFrom, Bool.and_eq_true, List.all_cons] at hw2
      obtain ⟨⟨⟨⟨_, _, hall''⟩, _⟩, hnext⟩, _⟩ := hw2
      simp only [render, toksOf, List.map_cons, List.cons_append]
      have hstep : tokenize false true (58 :: (n ++ 47 :: (s'' ++ render t'))) =
          .param :: tokenize true false (n ++ 47 :: (s'' ++ render t')) := by simp [tokenize]
      rw [hstep, (tokenize_name n false hall).2, tokenize_lits s'' _ true hall'']
      congr 3
      apply tokenize_frag t' false _ hwt'
      intro hsp
      cases t' with
      | nil => simp [startsPar] at hsp
      | cons y t'' =>
        cases y with
        | lit _ => simp [startsPar] at hsp
        | par _ =>
          have hl : (47 :: s'').getLast? = some 47 := by simpa using hnext
          cases s'' with
          | nil => simp [lastSlash]
          | cons d u =>
            rw [List.getLast?_cons_cons] at hl
            simp [lastSlash, hl]

/-! ### fiber's parser on a well-formed fragment -/

theorem fnneGo_none (cs : List Nat) : ∀ (prev : Option Nat) (s : Bytes),
    (∀ x ∈ s, cs.contains x = false) → C02.fnneGo cs prev s = none
  | _, [], _ => rfl
  | prev, c :: rest, h => by
    have hc : cs.contains c = false := h c (by simp)
    simp only [C02.fnneGo, hc, Bool.false_eq_true, if_false]
    rw [fnneGo_none cs (some c) rest (fun x hx => h x (List.mem_cons_of_mem _ hx))]
    rfl

theorem fnneGo_first (cs : List Nat) (c : Nat) (r : Bytes) (hc : cs.contains c = true) :
    ∀ (prev : Option Nat) (a : Bytes), (∀ x ∈ a, cs.contains x = false) → (∀ x ∈ a, x ≠ C02.BSL) →
      prev ≠ some C02.BSL → C02.fnneGo cs prev (a ++ c :: r) = some a.length
  | prev, [], _, _, hp => by
    have : (prev == some C02.BSL) = false := by
      cases prev with
      | none => rfl
      | some v => simp only [beq_eq_false_iff_ne, ne_eq]; exact hp
    simp only [List.nil_append, C02.fnneGo, hc, if_true, this, Bool.false_eq_true, if_false, List.length_nil]
  | prev, x :: a', ha, hb, _ => by
    have hx : cs.contains x = false := ha x (by simp)
    simp only [List.cons_append, C02.fnneGo, hx, Bool.false_eq_true, if_false, List.length_cons]
    rw [fnneGo_first cs c r hc (some x) a' (fun y hy => ha y (List.mem_cons_of_mem _ hy))
      (fun y hy => hb y (List.mem_cons_of_mem _ hy))
      (by simp only [ne_eq, Option.some.injEq]; exact hb x (by simp))]
    rfl

theorem fnneGo_ne_zero (cs : List Nat) (prev : Option Nat) (c : Nat) (r : Bytes) (hc : cs.contains c = false) :
    (C02.fnneGo cs prev (c :: r) == some 0) = false := by
  simp only [C02.fnneGo, hc, Bool.false_eq_true, if_false]
  cases C02.fnneGo cs (some c) r <;> simp

theorem plainB_not_start {c : Nat} (h : plainB c = true) : C02.paramStartChars.contains c = false := by
  simp only [plainB, isLower, isUpper, isDigit, Bool.or_eq_true, Bool.and_eq_true, decide_eq_true_eq, beq_iff_eq] at h
  simp only [C02.paramStartChars, C02.STAR, C02.PLUS, C02.COLON, List.contains_cons, List.contains_nil, Bool.or_false,
    Bool.or_eq_false_iff, beq_eq_false_iff_ne, ne_eq]
  omega

theorem plainB_ne_bsl {c : Nat} (h : plainB c = true) : c ≠ C02.BSL := by
  simp only [plainB, isLower, isUpper, isDigit, Bool.or_eq_true, Bool.and_eq_true, decide_eq_true_eq, beq_iff_eq] at h
  simp only [C02.BSL]; omega

theorem nameB_not_start {c : Nat} (h : nameB c = true) : C02.paramStartChars.contains c = false := by
  simp only [nameB, isLower, isUpper, isDigit, Bool.or_eq_true, Bool.and_eq_true, decide_eq_true_eq, beq_iff_eq] at h
  simp only [C02.paramStartChars, C02.STAR, C02.PLUS, C02.COLON, List.contains_cons, List.contains_nil, Bool.or_false,
    Bool.or_eq_false_iff, beq_eq_false_iff_ne, ne_eq]
  omega

theorem nameB_not_end {c : Nat} (h : nameB c = true) : C02.paramEndChars.contains c = false := by
  simp only [nameB, isLower, isUpper, isDigit, Bool.or_eq_true, Bool.and_eq_true, decide_eq_true_eq, beq_iff_eq] at h
  simp only [C02.paramEndChars, C02.QMARK, C02.COLON, C02.BSL, C02.SLASH, C02.DASH, C02.DOT, List.contains_cons,
    List.contains_nil, Bool.or_false, Bool.or_eq_false_iff, beq_eq_false_iff_ne, ne_eq]
  omega

theorem nameB_ne_bsl {c : Nat} (h : nameB c = true) : c ≠ C02.BSL := by
  simp only [nameB, isLower, isUpper, isDigit, Bool.or_eq_true, Bool.and_eq_true, decide_eq_true_eq, beq_iff_eq] at h
  simp only [C02.BSL]; omega

theorem nameB_ne_q {c : Nat} (h : nameB c = true) : c ≠ C02.QMARK := by
  simp only [nameB, isLower, isUpper, isDigit, Bool.or_eq_true, Bool.and_eq_true, decide_eq_true_eq, beq_iff_eq] at h
  simp only [C02.QMARK]; omega

theorem plainB_ne_lt {c : Nat} (h : plainB c = true) : c ≠ C02.LT := by
  simp only [plainB, isLower, isUpper, isDigit, Bool.or_eq_true, Bool.and_eq_true, decide_eq_true_eq, beq_iff_eq] at h
  simp only [C02.LT]; omega

theorem nameB_plainB {c : Nat} (h : nameB c = true) : plainB c = true := by
  simp only [nameB, Bool.or_eq_true] at h
  simp only [plainB, Bool.or_eq_true]
  rcases h with ((h | h) | h) | h
  · left; left; left; left; left; left; exact h
  · left; left; left; left; left; right; exact h
  · left; left; left; left; right; exact h
  · left; right; exact h

/-- a rendered well-formed fragment holds no `<` (and so `parseRouteWritten` is `parseRoute`) -/
theorem render_noLT : ∀ (f : List Piece) (ap : Bool), wfFrom ap f = true → (render f).contains C02.LT = false
  | [], _, _ => rfl
  | .lit s :: t, ap, hwf => by
    have hw := hwf
    simp only [wfFrom, Bool.and_eq_true] at hw
    obtain ⟨⟨⟨⟨_, hall⟩, _⟩, _⟩, hwt⟩ := hw
    have ih := render_noLT t false hwt
    simp only [render, List.contains_eq_any_beq, List.any_append, Bool.or_eq_false_iff, List.any_eq_false, beq_iff_eq] at ih ⊢
    refine ⟨?_, ih⟩
    intro x hx h
    exact plainB_ne_lt (List.all_eq_true.mp hall x hx) h.symm
  | .par n :: t, ap, hwf => by
    have hwt := (wfFrom_par hwf).1
    have hall : n.all nameB = true := by
      have h := hwf
      unfold wfFrom at h
      simp only [Bool.and_eq_true] at h
      exact h.1.1.2
    have ih := render_noLT t true hwt
    simp only [render, List.contains_eq_any_beq, List.any_cons, List.any_append, Bool.or_eq_false_iff, List.any_eq_false,
      beq_iff_eq] at ih ⊢
    refine ⟨⟨by simp [C02.LT], ?_⟩, ih⟩
    intro x hx h
    exact plainB_ne_lt (nameB_plainB (List.all_eq_true.mp hall x hx)) h.symm

def rawLit (s : Bytes) : C02.Seg := { const := s, length := s.length }
def rawPar (n : Bytes) : C02.Seg := { paramName := n, isParam := true }

def rawOf : List Piece → List C02.Seg
  | [] => []
  | .lit s :: t => rawLit s :: rawOf t
  | .par n :: t => rawPar n :: rawOf t

theorem removeEscape_noBSL (s : Bytes) (h : ∀ x ∈ s, x ≠ C02.BSL) : C02.removeEscapeChar s = s := by
  unfold C02.removeEscapeChar
  rw [List.filter_eq_self]
  intro x hx
  simp only [bne_iff_ne, ne_eq]
  exact h x hx

theorem getLast?_ne_of_all {n : Bytes} {q : Nat} (h : ∀ x ∈ n, x ≠ q) : n.getLast? ≠ some q := by
  intro hl
  have := List.mem_of_getLast? hl
  exact h q this rfl

theorem getElem?_last_append (n rest : Bytes) (hne : n ≠ []) : (n ++ rest)[n.length - 1]? = n.getLast? := by
  have hl : n.length - 1 < n.length := by
    cases n with
    | nil => exact absurd rfl hne
    | cons _ _ => simp
  rw [List.getElem?_append_left hl, List.getLast?_eq_getElem?]

/-- the offsets and flags `analyseParameterPart` computes on `:name` followed by the end of the
key or a slash -/
theorem paramShape_name (n rest : Bytes) (hne : n ≠ []) (hn : n.all nameB = true)
    (hrest : rest = [] ∨ rest.head? = some 47)
    (hlt : (58 :: (n ++ rest)).contains C02.LT = false) :
    (C02.paramShape (58 :: (n ++ rest))).pe = n.length ∧ (C02.paramShape (58 :: (n ++ rest))).cS = none ∧
    (C02.paramShape (58 :: (n ++ rest))).isWild = false ∧ (C02.paramShape (58 :: (n ++ rest))).isPlus = false ∧
    (C02.paramShape (58 :: (n ++ rest))).isOpt = false := by
  have hnm : ∀ x ∈ n, nameB x = true := fun x hx => List.all_eq_true.mp hn x hx
  have hnEnd : ∀ x ∈ n, C02.paramEndChars.contains x = false := fun x hx => nameB_not_end (hnm x hx)
  have hnB : ∀ x ∈ n, x ≠ C02.BSL := fun x hx => nameB_ne_bsl (hnm x hx)
  have hnQ : ∀ x ∈ n, x ≠ C02.QMARK := fun x hx => nameB_ne_q (hnm x hx)
  have hw : ((58 : Nat) == C02.STAR) = false := by decide
  have hpl : ((58 : Nat) == C02.PLUS) = false := by decide
  have hpe : (C02.paramShape (58 :: (n ++ rest))).pe = n.length := by
    unfold C02.paramShape
    simp only [List.headD_cons, hw, hpl, Bool.false_or, Bool.false_eq_true, if_false, hlt, Bool.false_and,
      List.drop_succ_cons, List.drop_zero]
    rcases hrest with hr | hr
    · subst hr
      simp only [List.append_nil, C02.fnne]
      rw [fnneGo_none _ none n hnEnd]
      simp
    · cases rest with
      | nil => simp at hr
      | cons r0 rs =>
        simp only [List.head?_cons, Option.some.injEq] at hr
        subst hr
        simp only [C02.fnne]
        rw [fnneGo_first C02.paramEndChars 47 rs (by decide) none n hnEnd hnB (by simp)]
        have hg : (58 :: (n ++ 47 :: rs)).getD (n.length + 1) 0 = 47 := by
          simp [List.getD_cons_succ, List.getD_eq_getElem?_getD]
        have hd : C02.paramDelimChars.contains 47 = true := by decide
        simp only [hg, hd, if_true]
  have hcS : (C02.paramShape (58 :: (n ++ rest))).cS = none := by
    have : (C02.paramShape (58 :: (n ++ rest))).cS =
        if (C02.paramShape (58 :: (n ++ rest))).pe > 0 then
          C02.fnnecp ((58 :: (n ++ rest)).take (C02.paramShape (58 :: (n ++ rest))).pe) C02.LT else none := rfl
    rw [this]
    split
    · exact C02.fnnecpGo_none_of_not_mem _ _ _ (C02.contains_take_false hlt _)
    · rfl
  have hiw : (C02.paramShape (58 :: (n ++ rest))).isWild = false := by
    show ((58 :: (n ++ rest)).headD 0 == C02.STAR) = false
    exact hw
  have hip : (C02.paramShape (58 :: (n ++ rest))).isPlus = false := by
    show ((58 :: (n ++ rest)).headD 0 == C02.PLUS) = false
    exact hpl
  have hopt : (C02.paramShape (58 :: (n ++ rest))).isOpt = false := by
    have : (C02.paramShape (58 :: (n ++ rest))).isOpt =
        ((C02.paramShape (58 :: (n ++ rest))).isWild ||
          (58 :: (n ++ rest)).getD (C02.paramShape (58 :: (n ++ rest))).pe 0 == C02.QMARK) := rfl
    rw [this, hiw, hpe, Bool.false_or]
    have hg : (58 :: (n ++ rest)).getD n.length 0 = (n.getLast?).getD 0 := by
      have hpos : n.length = (n.length - 1) + 1 := by
        cases n with
        | nil => exact absurd rfl hne
        | cons _ _ => simp
      rw [hpos, List.getD_cons_succ, List.getD_eq_getElem?_getD, getElem?_last_append n rest hne]
    rw [hg]
    cases hl : n.getLast? with
    | none =>
      cases n with
      | nil => exact absurd rfl hne
      | cons _ _ => simp at hl
    | some q =>
      simp only [Option.getD_some, beq_eq_false_iff_ne, ne_eq]
      intro hq
      subst hq
      exact getLast?_ne_of_all hnQ hl
  exact ⟨hpe, hcS, hiw, hip, hopt⟩

/-- `analyseParameterPart` on `:name` followed by the end of the key or a slash -/
theorem analyseParameterPart_name (n rest : Bytes) (wc pc : Nat) (hne : n ≠ []) (hn : n.all nameB = true)
    (hrest : rest = [] ∨ rest.head? = some 47)
    (hlt : (58 :: (n ++ rest)).contains C02.LT = false) :
    C02.analyseParameterPart (58 :: (n ++ rest)) wc pc = some (n.length + 1, rawPar n, wc, pc) := by
  obtain ⟨hpe, hcS, hiw, hip, hopt⟩ := paramShape_name n rest hne hn hrest hlt
  have hnm : ∀ x ∈ n, nameB x = true := fun x hx => List.all_eq_true.mp hn x hx
  have hnB : ∀ x ∈ n, x ≠ C02.BSL := fun x hx => nameB_ne_bsl (hnm x hx)
  have hnQ : ∀ x ∈ n, x ≠ C02.QMARK := fun x hx => nameB_ne_q (hnm x hx)
  rw [C02.analyseParameterPart_eq]
  unfold C02.mkParam C02.consOf C02.nameOf
  rw [hcS, hiw, hip, hopt, hpe]
  have htake : (58 :: (n ++ rest)).take (n.length + 1) = 58 :: n := by
    simp [List.take_succ_cons, List.take_left']
  have hlastq : (58 :: n).getLast? ≠ some C02.QMARK := by
    cases n with
    | nil => exact absurd rfl hne
    | cons a t =>
      rw [List.getLast?_cons_cons]
      exact getLast?_ne_of_all hnQ
  have hname : C02.removeEscapeChar (C02.getTrimmedParam ((58 :: (n ++ rest)).take (n.length + 1))) = n := by
    rw [htake]
    unfold C02.getTrimmedParam
    have hc : ((58 : Nat) != C02.COLON) = false := by decide
    simp only [hc, Bool.false_eq_true, if_false]
    have : ((58 :: n).getLast? == some C02.QMARK) = false := by
      cases hh : ((58 :: n).getLast? == some C02.QMARK) with
      | false => rfl
      | true => exact absurd (beq_iff_eq.mp hh) hlastq
    simp only [this, Bool.false_eq_true, if_false]
    exact removeEscape_noBSL n hnB
  simp only [hname, rawPar, Bool.false_eq_true, if_false, Bool.or_self, Bool.not_false, Bool.true_and]

/-! ### `findNextParamPosition` and the loop of `parseRoute` -/

theorem fnp_plain (s : Bytes) (hs : s.all plainB = true) : C02.findNextParamPosition s = none := by
  unfold C02.findNextParamPosition C02.fnne
  rw [fnneGo_none _ none s (fun x hx => plainB_not_start (List.all_eq_true.mp hs x hx))]

theorem fnp_lit_par (s n rest : Bytes) (hs : s.all plainB = true) (hne : n ≠ []) (hn : n.all nameB = true) :
    C02.findNextParamPosition (s ++ 58 :: (n ++ rest)) = some s.length := by
  unfold C02.findNextParamPosition C02.fnne
  rw [fnneGo_first C02.paramStartChars 58 (n ++ rest) (by decide) none s
    (fun x hx => plainB_not_start (List.all_eq_true.mp hs x hx))
    (fun x hx => plainB_ne_bsl (List.all_eq_true.mp hs x hx)) (by simp)]
  have hg : (s ++ 58 :: (n ++ rest)).getD s.length 0 = 58 := by
    simp [List.getD_eq_getElem?_getD]
  have hd : (s ++ 58 :: (n ++ rest)).drop (s.length + 1) = n ++ rest := by
    rw [← List.drop_drop]
    simp
  simp only [hg, hd]
  have h58 : ((58 : Nat) != C02.STAR) = true := by decide
  simp only [h58, if_true]
  cases n with
  | nil => exact absurd rfl hne
  | cons c t =>
    have hc : C02.paramStartChars.contains c = false := by
      simp only [List.all_cons, Bool.and_eq_true] at hn
      exact nameB_not_start hn.1
    have := fnneGo_ne_zero C02.paramStartChars none c (t ++ rest) hc
    simp only [List.cons_append, this, Bool.false_eq_true, if_false]

theorem fnp_par (n rest : Bytes) (hne : n ≠ []) (hn : n.all nameB = true) :
    C02.findNextParamPosition (58 :: (n ++ rest)) = some 0 := by
  have := fnp_lit_par [] n rest (by simp) hne hn
  simpa using this

theorem render_par (n : Bytes) (t : List Piece) : render (.par n :: t) = 58 :: (n ++ render t) := rfl
theorem render_lit (s : Bytes) (t : List Piece) : render (.lit s :: t) = s ++ render t := rfl

theorem render_after_par : ∀ (t : List Piece), wfFrom true t = true → (t = [] ∨ ∃ s' t', t = .lit s' :: t') →
    render t = [] ∨ (render t).head? = some 47
  | [], _, _ => Or.inl rfl
  | .lit s' :: t', hwt, _ => by
    obtain ⟨hne, hh, _⟩ := wfFrom_lit hwt
    right
    cases s' with
    | nil => exact absurd rfl hne
    | cons c r =>
      have := hh rfl
      simpa [render] using this
  | .par _ :: _, _, h => by
    rcases h with h | ⟨_, _, h⟩ <;> cases h

theorem parseLoop_nil (fuel wc pc : Nat) : C02.parseLoop fuel [] wc pc = some [] := by
  cases fuel <;> simp [C02.parseLoop]

/-- one round of the loop: a literal run that ends the key -/
theorem parseLoop_lit_last (s : Bytes) (fuel wc pc : Nat) (hne : s ≠ []) (hs : s.all plainB = true) :
    C02.parseLoop (fuel + 1) s wc pc = some [rawLit s] := by
  have hpne : s.isEmpty = false := by cases s with
    | nil => exact absurd rfl hne
    | cons _ _ => rfl
  have hsB : ∀ x ∈ s, x ≠ C02.BSL := fun x hx => plainB_ne_bsl (List.all_eq_true.mp hs x hx)
  unfold C02.parseLoop
  simp only [hpne, Bool.false_eq_true, if_false, fnp_plain s hs, C02.analyseConstantPart, List.drop_length,
    parseLoop_nil, Option.map_some, removeEscape_noBSL s hsB]
  rfl

/-- one round of the loop: a literal run followed by a parameter -/
theorem parseLoop_lit_par (s n rest : Bytes) (fuel wc pc : Nat) (hne : s ≠ []) (hs : s.all plainB = true)
    (hnne : n ≠ []) (hn : n.all nameB = true) :
    C02.parseLoop (fuel + 1) (s ++ 58 :: (n ++ rest)) wc pc =
      (C02.parseLoop fuel (58 :: (n ++ rest)) wc pc).map (rawLit s :: ·) := by
  have hpne : (s ++ 58 :: (n ++ rest)).isEmpty = false := by cases s with
    | nil => exact absurd rfl hne
    | cons _ _ => rfl
  have hsB : ∀ x ∈ s, x ≠ C02.BSL := fun x hx => plainB_ne_bsl (List.all_eq_true.mp hs x hx)
  have hk : ∃ k, s.length = k + 1 := by
    cases s with
    | nil => exact absurd rfl hne
    | cons _ t => exact ⟨t.length, rfl⟩
  obtain ⟨k, hk⟩ := hk
  conv => lhs; unfold C02.parseLoop
  simp only [hpne, Bool.false_eq_true, if_false, fnp_lit_par s n rest hs hnne hn]
  rw [hk]
  simp only [C02.analyseConstantPart]
  rw [← hk, List.take_left' rfl, List.drop_left' rfl, removeEscape_noBSL s hsB]
  rfl

/-- one round of the loop: a parameter -/
theorem parseLoop_par (n rest : Bytes) (fuel wc pc : Nat) (hnne : n ≠ []) (hn : n.all nameB = true)
    (hrest : rest = [] ∨ rest.head? = some 47) (hlt : (58 :: (n ++ rest)).contains C02.LT = false) :
    C02.parseLoop (fuel + 1) (58 :: (n ++ rest)) wc pc =
      (C02.parseLoop fuel rest wc pc).map (rawPar n :: ·) := by
  conv => lhs; unfold C02.parseLoop
  have hpne : (58 :: (n ++ rest)).isEmpty = false := rfl
  have hd : (58 :: (n ++ rest)).drop (n.length + 1) = rest := by
    simp [List.drop_succ_cons, List.drop_left']
  simp only [hpne, Bool.false_eq_true, if_false, fnp_par n rest hnne hn,
    analyseParameterPart_name n rest wc pc hnne hn hrest hlt, hd]

/-- **the loop of `parseRoute` on a well-formed fragment** (from any piece on) -/
theorem parseLoop_frag : ∀ (f : List Piece) (ap : Bool), wfFrom ap f = true → ∀ (fuel wc pc : Nat),
    (render f).length ≤ fuel → C02.parseLoop fuel (render f) wc pc = some (rawOf f)
  | [], _, _, fuel, wc, pc, _ => parseLoop_nil fuel wc pc
  | [.lit s], ap, hwf, fuel, wc, pc, hf => by
    have hw := hwf
    simp only [wfFrom, Bool.and_eq_true] at hw
    obtain ⟨⟨⟨⟨hne, hall⟩, _⟩, _⟩, _⟩ := hw
    have hsne : s ≠ [] := by simpa using hne
    have hslen : 0 < s.length := by
      cases s with
      | nil => exact absurd rfl hsne
      | cons _ _ => simp
    simp only [render_lit, render, List.append_nil] at hf ⊢
    cases fuel with
    | zero => omega
    | succ fuel' => exact parseLoop_lit_last s fuel' wc pc hsne hall
  | .lit s :: .lit _ :: _, ap, hwf, _, _, _, _ => by
    simp [wfFrom] at hwf
  | .lit s :: .par n :: t', ap, hwf, fuel, wc, pc, hf => by
    have hw := hwf
    rw [wfFrom] at hw
    simp only [Bool.and_eq_true] at hw
    obtain ⟨⟨⟨⟨hne, hall⟩, _⟩, _⟩, hwt⟩ := hw
    have hsne : s ≠ [] := by simpa using hne
    have hslen : 0 < s.length := by
      cases s with
      | nil => exact absurd rfl hsne
      | cons _ _ => simp
    have hwp := hwt
    unfold wfFrom at hwp
    simp only [Bool.and_eq_true] at hwp
    have hall_n : n.all nameB = true := hwp.1.1.2
    have hnne : n ≠ [] := by simpa using hwp.1.1.1
    rw [render_lit, render_par] at hf ⊢
    simp only [List.length_append, List.length_cons] at hf
    cases fuel with
    | zero => omega
    | succ fuel' =>
      rw [parseLoop_lit_par s n (render t') fuel' wc pc hsne hall hnne hall_n, ← render_par,
        parseLoop_frag (.par n :: t') false hwt fuel' wc pc (by rw [render_par]; simp; omega)]
      rfl
  | .par n :: t, ap, hwf, fuel, wc, pc, hf => by
    obtain ⟨hwt, hshape⟩ := wfFrom_par hwf
    have hw := hwf
    unfold wfFrom at hw
    simp only [Bool.and_eq_true] at hw
    have hall_n : n.all nameB = true := hw.1.1.2
    have hnne : n ≠ [] := by simpa using hw.1.1.1
    have hrest := render_after_par t hwt hshape
    have hlt := render_noLT (.par n :: t) ap hwf
    rw [render_par] at hf hlt ⊢
    simp only [List.length_cons, List.length_append] at hf
    cases fuel with
    | zero => omega
    | succ fuel' =>
      rw [parseLoop_par n (render t) fuel' wc pc hnne hall_n hrest hlt,
        parseLoop_frag t true hwt fuel' wc pc (by omega)]
      rfl

/-! ### the meta information `parseRoute` adds -/

def mlPar (n : Bytes) (lastFlag : Bool) : C02.Seg := { paramName := n, isParam := true, isLast := lastFlag }

/-- the raw segments with the last one marked -/
def mlOf : List Piece → List C02.Seg
  | [] => []
  | .lit s :: t => litSeg s t.isEmpty :: mlOf t
  | .par n :: t => mlPar n t.isEmpty :: mlOf t

theorem markLast_rawOf : ∀ f : List Piece, C02.markLast (rawOf f) = mlOf f
  | [] => rfl
  | [.lit s] => rfl
  | [.par n] => rfl
  | .lit s :: y :: t => by
    have ih := markLast_rawOf (y :: t)
    cases y with
    | lit s' => simp only [rawOf, C02.markLast, mlOf] at ih ⊢; rw [ih]; rfl
    | par n' => simp only [rawOf, C02.markLast, mlOf] at ih ⊢; rw [ih]; rfl
  | .par n :: y :: t => by
    have ih := markLast_rawOf (y :: t)
    cases y with
    | lit s' => simp only [rawOf, C02.markLast, mlOf] at ih ⊢; rw [ih]; rfl
    | par n' => simp only [rawOf, C02.markLast, mlOf] at ih ⊢; rw [ih]; rfl

def scPar (n : Bytes) (t : List Piece) : C02.Seg :=
  { paramName := n, isParam := true, isLast := t.isEmpty, comparePart := nextCmp t }

/-- … after the backward loop of `addParameterMetaInfo` (compare parts) -/
def scOf : List Piece → List C02.Seg
  | [] => []
  | .lit s :: t => litSeg s t.isEmpty :: scOf t
  | .par n :: t => scPar n t :: scOf t

theorem trimRight_mem (s : Bytes) (c x : Nat) (h : x ∈ trimRight s c) : x ∈ s :=
  (trimRight_prefix s c).subset h

theorem cmpOfConst_plain (s : Bytes) (hs : s.all plainB = true) : ∀ x ∈ C02.cmpOfConst s, x ≠ C02.BSL := by
  intro x hx
  unfold C02.cmpOfConst at hx
  split at hx
  · split at hx
    · simp only [List.mem_singleton] at hx
      subst hx; simp [C02.SLASH, C02.BSL]
    · exact plainB_ne_bsl (List.all_eq_true.mp hs x (trimRight_mem _ _ _ hx))
  · exact plainB_ne_bsl (List.all_eq_true.mp hs x hx)

theorem setCompareParts_frag : ∀ (f : List Piece) (ap : Bool), wfFrom ap f = true →
    C02.setCompareParts (mlOf f) = (scOf f, nextCmp f) ∨
    (∃ n t, f = .par n :: t ∧ C02.setCompareParts (mlOf f) = (scOf f, nextCmp t))
  | [], _, _ => Or.inl rfl
  | .lit s :: t, ap, hwf => by
    left
    obtain ⟨_, _, hwt⟩ := wfFrom_lit hwf
    have ih := setCompareParts_frag t false hwt
    simp only [mlOf, C02.setCompareParts, scOf, nextCmp]
    rcases ih with ih | ⟨n, t', rfl, ih⟩
    · rw [ih]; simp [litSeg]
    · rw [ih]; simp [litSeg]
  | .par n :: t, ap, hwf => by
    right
    refine ⟨n, t, rfl, ?_⟩
    obtain ⟨hwt, hshape⟩ := wfFrom_par hwf
    have ih := setCompareParts_frag t true hwt
    simp only [mlOf, C02.setCompareParts, scOf]
    rcases hshape with ht | ⟨s', t', ht⟩
    · subst ht
      simp [mlOf, C02.setCompareParts, scOf, mlPar, scPar, nextCmp, C02.removeEscapeChar]
    · subst ht
      rcases ih with ih | ⟨_, _, h, _⟩
      · rw [ih]
        have hw := hwt
        simp only [wfFrom, Bool.and_eq_true] at hw
        have hall : s'.all plainB = true := hw.1.1.1.2
        simp only [mlPar, scPar, nextCmp, removeEscape_noBSL _ (cmpOfConst_plain s' hall)]
        simp
      · cases h

theorem partCountOf_congr (cp : Bytes) : ∀ (a b : List C02.Seg),
    a.map (fun x => (x.isParam, x.const)) = b.map (fun x => (x.isParam, x.const)) →
    C02.partCountOf cp a = C02.partCountOf cp b
  | [], [], _ => rfl
  | [], _ :: _, h => by simp at h
  | _ :: _, [], h => by simp at h
  | x :: a', y :: b', h => by
    simp only [List.map_cons, List.cons.injEq, Prod.mk.injEq] at h
    simp only [C02.partCountOf, h.1.1, h.1.2, partCountOf_congr cp a' b' h.2]

theorem scOf_segsOf_shape : ∀ f : List Piece,
    (scOf f).map (fun x => (x.isParam, x.const)) = (segsOf f).map (fun x => (x.isParam, x.const))
  | [] => rfl
  | .lit s :: t => by simp [scOf, segsOf, scOf_segsOf_shape t]
  | .par n :: t => by simp [scOf, segsOf, scPar, parSeg, scOf_segsOf_shape t]

theorem scOf_head_notParam : ∀ (t : List Piece), (t = [] ∨ ∃ s' t', t = .lit s' :: t') →
    C02.nextNonGreedyParam (scOf t) = false
  | [], _ => rfl
  | .lit _ :: _, _ => rfl
  | .par _ :: _, h => by rcases h with h | ⟨_, _, h⟩ <;> cases h

theorem scOf_nextOptional : ∀ (t : List Piece), C02.nextOptional (scOf t) = false
  | [] => rfl
  | .lit _ :: _ => rfl
  | .par _ :: _ => rfl

/-- … and after the forward loop: the segments `segsOf` describes -/
theorem metaForward_frag : ∀ (f : List Piece) (ap : Bool), wfFrom ap f = true →
    C02.metaForward (scOf f) = some (segsOf f)
  | [], _, _ => rfl
  | .lit s :: t, ap, hwf => by
    have hw := hwf
    simp only [wfFrom, Bool.and_eq_true] at hw
    obtain ⟨⟨⟨⟨hne, _⟩, _⟩, hnext⟩, hwt⟩ := hw
    have hsne : s ≠ [] := by simpa using hne
    have ih := metaForward_frag t false hwt
    simp only [scOf, C02.metaForward, ih, segsOf]
    have hconst : (litSeg s t.isEmpty).const = s := rfl
    have hparam : (litSeg s t.isEmpty).isParam = false := rfl
    simp only [hparam, Bool.false_eq_true, if_false, hconst]
    cases hl : s.getLast? with
    | none =>
      cases s with
      | nil => exact absurd rfl hsne
      | cons _ _ => simp at hl
    | some l =>
      simp only
      have hcond : (l == C02.SLASH && ((litSeg s t.isEmpty).isLast || C02.nextOptional (scOf t))) = false := by
        rw [scOf_nextOptional, Bool.or_false]
        cases t with
        | nil =>
          have : s.getLast? ≠ some 47 := by simpa using hnext
          have hl47 : l ≠ 47 := fun h => this (by rw [hl, h])
          simp [C02.SLASH, hl47]
        | cons y t' => simp [litSeg]
      rw [hcond]
      simp
  | .par n :: t, ap, hwf => by
    obtain ⟨hwt, hshape⟩ := wfFrom_par hwf
    have ih := metaForward_frag t true hwt
    simp only [scOf, C02.metaForward, ih, segsOf]
    have hparam : (scPar n t).isParam = true := rfl
    have hgreedy : (scPar n t).isGreedy = false := rfl
    simp only [hparam, if_true, hgreedy, Bool.not_false, Bool.true_and, scOf_head_notParam t hshape,
      Bool.false_eq_true, if_false]
    have hpc := partCountOf_congr (nextCmp t) (scOf t) (segsOf t) (scOf_segsOf_shape t)
    by_cases he : (nextCmp t).isEmpty = true
    · simp [scPar, parSeg, he]
    · simp [scPar, parSeg, he, hpc]

/-- **Step 1.** `parseRoute` on a rendered well-formed fragment yields `segsOf`. -/
theorem parseRoute_frag (f : List Piece) (hwf : wf f = true) :
    (C02.parseRoute (render f)).map (·.segs) = some (segsOf f) := by
  have hwff : wfFrom false f = true := by
    unfold wf at hwf
    simp only [Bool.and_eq_true] at hwf
    exact hwf.2
  unfold C02.parseRoute
  rw [parseLoop_frag f false hwff _ 0 0 (Nat.le_refl _)]
  simp only
  unfold C02.addParameterMetaInfo
  rw [markLast_rawOf]
  have hsc : (C02.setCompareParts (mlOf f)).1 = scOf f := by
    rcases setCompareParts_frag f false hwff with h | ⟨_, _, _, h⟩ <;> rw [h]
  rw [hsc, metaForward_frag f false hwff]
  rfl

/-! ### folding a fragment -/

theorem fb_colon (cfg : Cfg) : fb cfg 58 = 58 := by
  unfold fb; by_cases h : cfg.caseSensitive = true <;> simp [h, lowerByte, isUpper]

theorem render_foldP (cfg : Cfg) : ∀ f : List Piece, render (f.map (foldP cfg)) = fold cfg (render f)
  | [] => rfl
  | .lit s :: t => by simp [render, foldP, fold_append, render_foldP cfg t]
  | .par n :: t => by
    simp only [List.map_cons, foldP, render, render_foldP cfg t]
    simp [fold, fb_colon]

theorem fb_plainB (cfg : Cfg) (c : Nat) : plainB (fb cfg c) = plainB c := by
  unfold fb
  by_cases h : cfg.caseSensitive = true
  · simp [h]
  · simp only [h, Bool.false_eq_true, if_false, lowerByte]
    by_cases hu : isUpper c = true
    · simp only [hu, if_true]
      simp only [isUpper, Bool.and_eq_true, decide_eq_true_eq] at hu
      have h1 : plainB (c + 32) = true := by
        simp only [plainB, isLower, isUpper, isDigit, Bool.or_eq_true, Bool.and_eq_true, decide_eq_true_eq, beq_iff_eq]
        omega
      have h2 : plainB c = true := by
        simp only [plainB, isLower, isUpper, isDigit, Bool.or_eq_true, Bool.and_eq_true, decide_eq_true_eq, beq_iff_eq]
        omega
      rw [h1, h2]
    · simp [hu]

theorem fb_nameB (cfg : Cfg) (c : Nat) : nameB (fb cfg c) = nameB c := by
  unfold fb
  by_cases h : cfg.caseSensitive = true
  · simp [h]
  · simp only [h, Bool.false_eq_true, if_false, lowerByte]
    by_cases hu : isUpper c = true
    · simp only [hu, if_true]
      simp only [isUpper, Bool.and_eq_true, decide_eq_true_eq] at hu
      have h1 : nameB (c + 32) = true := by
        simp only [nameB, isLower, isUpper, isDigit, Bool.or_eq_true, Bool.and_eq_true, decide_eq_true_eq, beq_iff_eq]
        omega
      have h2 : nameB c = true := by
        simp only [nameB, isLower, isUpper, isDigit, Bool.or_eq_true, Bool.and_eq_true, decide_eq_true_eq, beq_iff_eq]
        omega
      rw [h1, h2]
    · simp [hu]

theorem fold_all_plainB (cfg : Cfg) (s : Bytes) : (fold cfg s).all plainB = s.all plainB := by
  simp [fold, List.all_map, Function.comp_def, fb_plainB]

theorem fold_all_nameB (cfg : Cfg) (s : Bytes) : (fold cfg s).all nameB = s.all nameB := by
  simp [fold, List.all_map, Function.comp_def, fb_nameB]

theorem fold_head? (cfg : Cfg) (s : Bytes) : ((fold cfg s).head? == some 47) = (s.head? == some 47) := by
  have := fold_getElem_slash cfg s 0
  simpa [List.head?_eq_getElem?] using this

theorem fold_isEmpty (cfg : Cfg) (s : Bytes) : (fold cfg s).isEmpty = s.isEmpty := by
  cases s <;> rfl

/-- folding keeps a fragment well formed -/
theorem wfFrom_foldP (cfg : Cfg) : ∀ (f : List Piece) (ap : Bool), wfFrom ap (f.map (foldP cfg)) = wfFrom ap f
  | [], _ => rfl
  | .lit s :: t, ap => by
    have ih := wfFrom_foldP cfg t false
    cases t with
    | nil =>
      simp only [List.map_cons, List.map_nil, foldP, wfFrom, fold_isEmpty, fold_all_plainB, fold_head?]
      have : ((fold cfg s).getLast? != some 47) = (s.getLast? != some 47) := by
        simp only [bne, fold_getLast_slash]
      rw [this]
    | cons y t' =>
      cases y with
      | lit s' => simp [wfFrom, foldP]
      | par n' =>
        simp only [List.map_cons, foldP, wfFrom, fold_isEmpty, fold_all_plainB, fold_head?, fold_getLast_slash] at ih ⊢
        rw [ih]
  | .par n :: t, ap => by
    have ih := wfFrom_foldP cfg t true
    cases t with
    | nil => simp only [List.map_cons, List.map_nil, foldP, wfFrom, fold_isEmpty, fold_all_nameB]
    | cons y t' =>
      cases y with
      | par n' => simp [wfFrom, foldP]
      | lit s' =>
        simp only [List.map_cons, foldP, wfFrom, fold_isEmpty, fold_all_nameB] at ih ⊢
        rw [ih]

theorem wf_foldP (cfg : Cfg) (f : List Piece) : wf (f.map (foldP cfg)) = wf f := by
  unfold wf
  rw [wfFrom_foldP]
  cases f with
  | nil => rfl
  | cons x t =>
    cases x with
    | lit s => simp only [List.map_cons, foldP, fold_head?]
    | par n => rfl

theorem getLast?_append_ne_nil (a b : Bytes) (h : b ≠ []) : (a ++ b).getLast? = b.getLast? := by
  rw [List.getLast?_append]
  cases hb : b.getLast? with
  | none => cases b with
    | nil => exact absurd rfl h
    | cons _ _ => simp at hb
  | some x => simp

theorem render_getLast (f : List Piece) (ap : Bool) (hwf : wfFrom ap f = true) (hne : f ≠ []) :
    (render f).getLast? ≠ some 47 := by
  induction f generalizing ap with
  | nil => exact absurd rfl hne
  | cons x t ih =>
    cases x with
    | lit s =>
      have hw := hwf
      simp only [wfFrom, Bool.and_eq_true] at hw
      obtain ⟨⟨⟨⟨hsne, _⟩, _⟩, hnext⟩, hwt⟩ := hw
      cases t with
      | nil =>
        simp only [render, List.append_nil]
        simpa using hnext
      | cons y t' =>
        have := ih false hwt (by simp)
        have hr : render (y :: t') ≠ [] := by
          cases y with
          | lit s' => simp at hnext
          | par n' => simp [render]
        rw [render_lit, getLast?_append_ne_nil _ _ hr]
        exact this
    | par n =>
      obtain ⟨hwt, _⟩ := wfFrom_par hwf
      have hw := hwf
      unfold wfFrom at hw
      simp only [Bool.and_eq_true] at hw
      have hall_n : n.all nameB = true := hw.1.1.2
      have hnne : n ≠ [] := by simpa using hw.1.1.1
      cases t with
      | nil =>
        rw [render_par]
        simp only [render, List.append_nil]
        cases n with
        | nil => exact absurd rfl hnne
        | cons a r =>
          rw [List.getLast?_cons_cons]
          exact getLast?_ne_of_all (fun x hx => nameB_ne_slash (List.all_eq_true.mp hall_n x hx))
      | cons y t' =>
        have := ih true hwt (by simp)
        rw [render_par]
        have hr : render (y :: t') ≠ [] := by
          cases y with
          | lit s' =>
            obtain ⟨hs', _, _⟩ := wfFrom_lit hwt
            simp only [render]
            intro h
            exact hs' (List.append_eq_nil_iff.mp h).1
          | par n' => simp [render]
        have : (58 :: (n ++ render (y :: t'))) = (58 :: n) ++ render (y :: t') := rfl
        rw [this, getLast?_append_ne_nil _ _ hr]
        assumption

/-- **Every key of the tokens shape**: if the key (leading slash added) is spelled by a well-formed
list of pieces, what the code computes for it is the tokens reading — every configuration,
constraint verdict and path. No executable test in the hypotheses. -/
theorem modelCover_eq_coversPat_of_wf (chk : C02.Constraint → Bytes → Bool) (cfg : Cfg) (k path : Bytes)
    (f : List Piece) (hwf : wf f = true) (hk : mountedAt k = render f) :
    modelCover chk cfg k path = coversPat cfg k path := by
  have hwff : wfFrom false f = true := by
    unfold wf at hwf
    simp only [Bool.and_eq_true] at hwf
    exact hwf.2
  have hfne : f ≠ [] := by
    intro h; subst h; simp [wf] at hwf
  apply cover_of_segs chk cfg f hwf k
  · -- the parser made at startup
    rw [parseKey_def]
    have hkp : kp cfg k = render (f.map (foldP cfg)) := by
      rw [render_foldP, ← hk]
      unfold kp mountedAt
      by_cases hcs : cfg.caseSensitive = true
      · simp [hcs, fold_cs hcs]
      · have hcs' : cfg.caseSensitive = false := by simpa using hcs
        simp [hcs', fold_ci hcs']
    have hwf' : wf (f.map (foldP cfg)) = true := by rw [wf_foldP]; exact hwf
    have hwff' : wfFrom false (f.map (foldP cfg)) = true := by rw [wfFrom_foldP]; exact hwff
    rw [hkp, C02.parseRouteW_noLT _ (render_noLT _ false hwff')]
    exact parseRoute_frag _ hwf'
  · rw [hk]
    exact tokenize_frag f false false hwff (by
      intro hsp
      cases f with
      | nil => simp [startsPar] at hsp
      | cons x t =>
        cases x with
        | lit _ => simp [startsPar] at hsp
        | par _ => simp [wf] at hwf)
  · rw [hk]
    exact render_getLast f false hwff hfne

end C08
