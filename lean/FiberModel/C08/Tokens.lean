import FiberModel.C08.Router
import FiberModel.C08.Fragment
/-
C08 — the tokens reading (`coversPat`, written from scratch in Spec) is what the code computes for
keys of the tokens fragment: plain text and whole-segment named parameters (`/:tenant`, `/:t/api`,
`/api/:id`, `/:a/:b`). Three steps:

  1. what fiber's parser makes of such a key (`parse_frag`: alternating constant / parameter
     segments with their meta information),
  2. what `getMatch` answers for those segments is what the tokens matcher answers
     (`getMatch_segsOf`),
  3. the loop over the cuts of `mountPrefixLen` finds exactly what the tokens consume
     (`modelCover_eq_coversPat`).
-/
namespace C08
open B C04

/-! ### small facts about folding and slashes -/

theorem fb_ne_slash (cfg : Cfg) (x : Nat) : (fb cfg x != 47) = (x != 47) := by
  have := fb_eq_slash cfg x
  simp only [bne, this]

theorem fold_takeWhile (cfg : Cfg) (s : Bytes) :
    (fold cfg s).takeWhile (· != 47) = fold cfg (s.takeWhile (· != 47)) := by
  induction s with
  | nil => rfl
  | cons x t ih =>
    simp only [fold, List.map_cons, List.takeWhile_cons, fb_ne_slash]
    by_cases h : (x != 47) = true
    · simp only [h, if_true, List.map_cons]; congr 1
    · simp [h]

theorem fold_drop (cfg : Cfg) (s : Bytes) (n : Nat) : fold cfg (s.drop n) = (fold cfg s).drop n := by
  simp [fold, List.map_drop]

theorem fold_append (cfg : Cfg) (s t : Bytes) : fold cfg (s ++ t) = fold cfg s ++ fold cfg t := by
  simp [fold]

theorem fold_eq_nil {cfg : Cfg} {s : Bytes} : fold cfg s = [] ↔ s = [] := by
  simp [fold]

/-- decomposition of a path at its first slash -/
theorem takeWhile_append_drop (D : Bytes) :
    D = D.takeWhile (· != 47) ++ D.drop (D.takeWhile (· != 47)).length := by
  induction D with
  | nil => rfl
  | cons x t ih =>
    simp only [List.takeWhile_cons]
    by_cases h : (x != 47) = true
    · simp only [h, if_true, List.length_cons, List.drop_succ_cons, List.cons_append]
      congr 1
    · simp [h]

theorem drop_takeWhile_head (D : Bytes) :
    D.drop (D.takeWhile (· != 47)).length = [] ∨ (D.drop (D.takeWhile (· != 47)).length).head? = some 47 := by
  induction D with
  | nil => left; rfl
  | cons x t ih =>
    simp only [List.takeWhile_cons]
    by_cases h : (x != 47) = true
    · simp only [h, if_true, List.length_cons, List.drop_succ_cons]; exact ih
    · right
      have : x = 47 := by simpa using h
      simp [h, this]

theorem takeWhile_no_slash (D : Bytes) : ∀ x ∈ D.takeWhile (· != 47), x ≠ 47 := by
  induction D with
  | nil => intro x hx; simp at hx
  | cons y t ih =>
    intro x hx
    simp only [List.takeWhile_cons] at hx
    by_cases h : (y != 47) = true
    · simp only [h, if_true, List.mem_cons] at hx
      rcases hx with rfl | hx
      · simpa using h
      · exact ih x hx
    · simp [h] at hx

/-! ### `indexByte` / `indexOf` on a path cut at its first slash -/

theorem indexByte_append_noslash (v R : Bytes) (hv : ∀ x ∈ v, x ≠ 47) :
    indexByte (v ++ R) 47 = (indexByte R 47).map (· + v.length) := by
  induction v with
  | nil => simp
  | cons x t ih =>
    have hx : x ≠ 47 := hv x (by simp)
    simp only [List.cons_append, indexByte, beq_iff_eq, hx, if_false, List.length_cons]
    rw [ih (fun y hy => hv y (List.mem_cons_of_mem _ hy))]
    cases indexByte R 47 <;> simp; omega

theorem indexOf_append_noslash (v R cmp : Bytes) (hv : ∀ x ∈ v, x ≠ 47) (hc : cmp.head? = some 47) :
    indexOf (v ++ R) cmp = (indexOf R cmp).map (· + v.length) := by
  induction v with
  | nil => simp
  | cons x t ih =>
    have hx : x ≠ 47 := hv x (by simp)
    have hnp : cmp.isPrefixOf (x :: (t ++ R)) = false := by
      cases cmp with
      | nil => simp at hc
      | cons c cs =>
        simp only [List.head?_cons, Option.some.injEq] at hc
        subst hc
        simp only [List.isPrefixOf, Bool.and_eq_false_iff, beq_eq_false_iff_ne]
        left; exact fun h => hx h.symm
    simp only [List.cons_append, indexOf, hnp, Bool.false_eq_true, if_false, List.length_cons]
    rw [ih (fun y hy => hv y (List.mem_cons_of_mem _ hy))]
    cases indexOf R cmp <;> simp; omega

/-! ### `findParamLen` on those segments -/

theorem findParamLen_last (D : Bytes) (seg : C02.Seg) (hl : seg.isLast = true) (hg : seg.isGreedy = false) :
    C02.findParamLen D seg = (D.takeWhile (· != 47)).length := by
  unfold C02.findParamLen C02.findParamLenForLastSegment
  simp only [hl, if_true, hg, Bool.not_false]
  induction D with
  | nil => rfl
  | cons x t ih =>
    simp only [indexByte, List.takeWhile_cons, C02.SLASH]
    by_cases h : x = 47
    · simp [h]
    · have h' : (x != 47) = true := by simpa using h
      simp only [beq_iff_eq, h, if_false, h', if_true, List.length_cons]
      simp only [C02.SLASH] at ih
      cases hi : indexByte t 47 with
      | none => simp only [hi] at ih; simp [ih]
      | some k => simp only [hi] at ih; simp [ih]

/-- `findParamLen` for a named parameter that is not the last segment and has no fixed length -/
theorem findParamLen_mid_eq (s cmp : Bytes) (seg : C02.Seg)
    (hl : seg.isLast = false) (hlen : seg.length = 0) (hg : seg.isGreedy = false) (hcp : seg.comparePart = cmp) :
    C02.findParamLen s seg =
      if cmp.length == 1 then
        match indexByte s (cmp.headD 0) with
        | some k => if (s.take k).contains 47 then 0 else k
        | none => s.length
      else
        match indexOf s cmp with
        | some k => if (s.take k).contains 47 then 0 else k
        | none => s.length := by
  unfold C02.findParamLen
  simp only [hl, Bool.false_eq_true, if_false, hlen, Bool.false_and, hg,
    hcp, Bool.not_false, Bool.true_and, C02.SLASH]
  have : ((0 : Nat) != 0 && decide (List.length s ≥ 0)) = false := by simp
  rw [this]
  rfl

theorem take_noslash (v rs : Bytes) (hv : ∀ x ∈ v, x ≠ 47) : (List.take v.length (v ++ rs)).contains 47 = false := by
  rw [List.take_left']
  · simp only [List.contains_eq_any_beq, List.any_eq_false, beq_iff_eq]
    intro x hx; exact fun h => hv x hx h.symm
  · rfl

theorem take_hasslash (v rs : Bytes) (k : Nat) : (List.take (k + 1 + v.length) (v ++ 47 :: rs)).contains 47 = true := by
  simp only [List.contains_eq_any_beq, List.any_eq_true, beq_iff_eq]
  refine ⟨47, ?_, rfl⟩
  rw [List.mem_take_iff_getElem]
  refine ⟨v.length, by simp; omega, ?_⟩
  simp

/-- a parameter in the middle of a fragment key: the compare part begins with a slash. What
`findParamLen` returns on a path `v ++ R` cut at its first slash: `v` if the compare part follows it,
else 0 or everything -/
theorem findParamLen_mid (v R cmp : Bytes) (seg : C02.Seg) (hv : ∀ x ∈ v, x ≠ 47)
    (hR : R = [] ∨ R.head? = some 47) (hc : cmp.head? = some 47)
    (hl : seg.isLast = false) (hlen : seg.length = 0) (hg : seg.isGreedy = false) (hcp : seg.comparePart = cmp) :
    (cmp.isPrefixOf R = true → C02.findParamLen (v ++ R) seg = v.length) ∧
    (cmp.isPrefixOf R = false → C02.findParamLen (v ++ R) seg = 0 ∨ C02.findParamLen (v ++ R) seg = (v ++ R).length) := by
  rw [findParamLen_mid_eq (v ++ R) cmp seg hl hlen hg hcp]
  obtain ⟨c0, cs, rfl⟩ : ∃ c0 cs, cmp = c0 :: cs := by
    cases cmp with
    | nil => simp at hc
    | cons c cs => exact ⟨c, cs, rfl⟩
  simp only [List.head?_cons, Option.some.injEq] at hc
  subst hc
  by_cases h1 : ((47 :: cs).length == 1) = true
  · have hcs : cs = [] := by
      cases cs with
      | nil => rfl
      | cons _ _ => simp at h1
    subst hcs
    simp only [h1, if_true, List.headD_cons]
    rw [indexByte_append_noslash v R hv]
    rcases hR with hR | hR
    · subst hR
      constructor
      · intro h; simp at h
      · intro _; right; simp [indexByte]
    · cases R with
      | nil => simp at hR
      | cons r rs =>
        simp only [List.head?_cons, Option.some.injEq] at hR
        subst hR
        constructor
        · intro _
          simp only [indexByte, beq_self_eq_true, if_true, Option.map_some, Nat.zero_add]
          rw [take_noslash v _ hv]
          simp
        · intro h; simp at h
  · have h1' : ((47 :: cs).length == 1) = false := by simpa using h1
    simp only [h1', Bool.false_eq_true, if_false]
    rw [indexOf_append_noslash v R (47 :: cs) hv rfl]
    rcases hR with hR | hR
    · subst hR
      constructor
      · intro h; simp at h
      · intro _; right; simp [indexOf]
    · cases R with
      | nil => simp at hR
      | cons r rs =>
        simp only [List.head?_cons, Option.some.injEq] at hR
        subst hR
        constructor
        · intro hp
          simp only [indexOf, hp, if_true, Option.map_some, Nat.zero_add]
          rw [take_noslash v _ hv]
          simp
        · intro hp
          simp only [indexOf, hp, Bool.false_eq_true, if_false]
          cases hi : indexOf rs (47 :: cs) with
          | none => right; simp
          | some k =>
            left
            simp only [Option.map_some]
            rw [take_hasslash v rs k]
            simp

/-! ### the tokens matcher on literal runs -/

theorem isPrefixOf_fold_cons (cfg : Cfg) (c d : Nat) (s p : Bytes) :
    (fold cfg (c :: s)).isPrefixOf (fold cfg (d :: p)) = (decide (fb cfg c = fb cfg d) && (fold cfg s).isPrefixOf (fold cfg p)) := by
  simp only [fold, List.map_cons, List.isPrefixOf]
  by_cases h : fb cfg c = fb cfg d <;> simp [h]

theorem matchToks_lits_append (cfg : Cfg) (s : Bytes) (ts : List Tok) (p : Bytes) :
    matchToks cfg (s.map .lit ++ ts) p =
      if (fold cfg s).isPrefixOf (fold cfg p) then (matchToks cfg ts (p.drop s.length)).map (· + s.length) else none := by
  induction s generalizing p with
  | nil => simp [fold]
  | cons c t ih =>
    cases p with
    | nil => simp [matchToks, fold]
    | cons d p' =>
      simp only [List.map_cons, List.cons_append, matchToks, isPrefixOf_fold_cons, List.length_cons, List.drop_succ_cons]
      by_cases hcd : fb cfg c = fb cfg d
      · simp only [hcd, if_true, decide_true, Bool.true_and]
        rw [ih]
        by_cases hp : (fold cfg t).isPrefixOf (fold cfg p') = true
        · simp only [hp, if_true, Option.map_map]
          congr 1
        · simp [hp]
      · simp [hcd]

theorem isPrefixOf_iff_take' (s p : Bytes) :
    s.isPrefixOf p = (decide (s.length ≤ p.length) && (p.take s.length == s)) := isPrefixOf_iff_take s p

/-! ### `paramLen` (findParamLen with the following segments) on a parameter of a fragment key -/

theorem cmpOfConst_head {c : Bytes} (h : c.head? = some 47) : (C02.cmpOfConst c).head? = some 47 := by
  unfold C02.cmpOfConst
  cases c with
  | nil => simp at h
  | cons x t =>
    simp only [List.head?_cons, Option.some.injEq] at h
    subst h
    by_cases hl : (47 :: t).length > 1
    · simp only [hl, if_true]
      by_cases he : (trimRight (47 :: t) C02.SLASH).isEmpty = true
      · simp [he]
      · simp only [he, Bool.false_eq_true, if_false]
        have hne : trimRight (47 :: t) 47 ≠ [] := by simpa [C02.SLASH] using he
        rw [trimRight_eq_trimR] at hne ⊢
        rw [trimR_head 47 _ hne]; rfl
    · simp only [hl, if_false]; rfl

theorem cmpOfConst_prefix {c : Bytes} (h : c.head? = some 47) : C02.cmpOfConst c <+: c := by
  unfold C02.cmpOfConst
  by_cases hl : c.length > 1
  · simp only [hl, if_true]
    by_cases he : (trimRight c C02.SLASH).isEmpty = true
    · simp only [he, if_true]
      cases c with
      | nil => simp at h
      | cons x t =>
        simp only [List.head?_cons, Option.some.injEq] at h
        subst h
        exact ⟨t, rfl⟩
    · simp only [he, Bool.false_eq_true, if_false]
      exact trimRight_prefix _ _
  · simp only [hl, if_false]
    exact List.prefix_refl _

/-- what `paramLen` returns for a named parameter followed by the constant `c` (which begins with
a slash) on a path `v ++ R` cut at its first slash: some compare part that is a leading part of `c`
decides — `v` if it follows, else 0 or everything -/
theorem paramLen_mid (v R c : Bytes) (seg nxt : C02.Seg) (rest : List C02.Seg) (hv : ∀ x ∈ v, x ≠ 47)
    (hR : R = [] ∨ R.head? = some 47) (hc : c.head? = some 47) (hn : nxt.const = c)
    (hl : seg.isLast = false) (hlen : seg.length = 0) (hg : seg.isGreedy = false)
    (hcp : seg.comparePart = C02.cmpOfConst c) :
    ∃ cmp : Bytes, cmp <+: c ∧
      (cmp.isPrefixOf R = true → C02.paramLen (v ++ R) seg (nxt :: rest) = v.length) ∧
      (cmp.isPrefixOf R = false → C02.paramLen (v ++ R) seg (nxt :: rest) = 0 ∨
        C02.paramLen (v ++ R) seg (nxt :: rest) = (v ++ R).length) := by
  unfold C02.paramLen C02.fullConst
  simp only [hl, hlen, Bool.false_or, bne_self_eq_false, Bool.false_and, Bool.false_eq_true, if_false, hn, hcp]
  by_cases hfull : (decide (c.length > (C02.cmpOfConst c).length) && (indexOf (v ++ R) c).isSome) = true
  · simp only [hfull, if_true, hg, Bool.false_eq_true, if_false]
    refine ⟨c, List.prefix_refl _, ?_⟩
    exact findParamLen_mid v R c _ hv hR hc (by simpa using hl) (by simpa using hlen) (by simpa using hg) rfl
  · simp only [hfull, Bool.false_eq_true, if_false]
    refine ⟨C02.cmpOfConst c, cmpOfConst_prefix hc, ?_⟩
    exact findParamLen_mid v R _ seg hv hR (cmpOfConst_head hc) hl hlen hg hcp

/-! ### step 2: `getMatch` on the segments of a fragment key is the tokens matcher -/

theorem wfFrom_lit {ap : Bool} {s : Bytes} {t : List Piece} (h : wfFrom ap (.lit s :: t) = true) :
    s ≠ [] ∧ (ap = true → s.head? = some 47) ∧ wfFrom false t = true := by
  simp only [wfFrom, Bool.and_eq_true, Bool.not_eq_true', List.isEmpty_eq_false_iff, Bool.or_eq_true,
    Bool.not_eq_true', beq_iff_eq] at h
  refine ⟨h.1.1.1.1, ?_, h.2⟩
  intro hap
  rcases h.1.1.2 with h' | h'
  · rw [hap] at h'; cases h'
  · exact h'

theorem wfFrom_par {ap : Bool} {n : Bytes} {t : List Piece} (h : wfFrom ap (.par n :: t) = true) :
    wfFrom true t = true ∧ (t = [] ∨ ∃ s' t', t = .lit s' :: t') := by
  simp only [wfFrom, Bool.and_eq_true] at h
  refine ⟨h.2, ?_⟩
  cases t with
  | nil => left; rfl
  | cons x t' =>
    cases x with
    | lit s' => right; exact ⟨s', t', rfl⟩
    | par m => simp at h

theorem getMatch_nil (chk : C02.Constraint → Bytes → Bool) (det path : Bytes) :
    (C02.getMatch chk [] det path false).isSome = det.isEmpty := by
  unfold C02.getMatch
  cases det <;> simp

theorem some_add_beq (x : Option Nat) (k n : Nat) (hk : k ≤ n) :
    (x.map (· + k) == some n) = (x == some (n - k)) := by
  cases x with
  | none => rfl
  | some m =>
    show (some (m + k) == some n) = (some m == some (n - k))
    by_cases h : m + k = n
    · have h2 : m = n - k := by omega
      have e1 : (some (m + k) == some n) = true := by rw [h]; simp
      have e2 : (some m == some (n - k)) = true := by rw [h2]; simp
      rw [e1, e2]
    · have h2 : m ≠ n - k := by omega
      have e1 : (some (m + k) == some n) = false := by simp [h]
      have e2 : (some m == some (n - k)) = false := by simp [h2]
      rw [e1, e2]

theorem takeWhile_length_le (P : Bytes) : (P.takeWhile (· != 47)).length ≤ P.length := by
  induction P with
  | nil => simp
  | cons x t ih =>
    simp only [List.takeWhile_cons]
    by_cases h : (x != 47) = true
    · simp only [h, if_true, List.length_cons]; omega
    · simp [h]

theorem getMatch_const_pos (chk : C02.Constraint → Bytes → Bool) (c : Bytes) (lastFlag : Bool) (rest : List C02.Seg)
    (det path : Bytes) (hc : c ≠ []) (hle : c.length ≤ det.length) (heq : det.take c.length = c) :
    C02.getMatch chk (litSeg c lastFlag :: rest) det path false =
      C02.getMatch chk rest (det.drop c.length) (path.drop c.length) false := by
  have hpos : det.length > 0 := by
    have : c.length > 0 := by cases c with
      | nil => exact absurd rfl hc
      | cons _ _ => simp
    omega
  conv => lhs; unfold C02.getMatch
  simp [litSeg, hle, heq, hpos]

theorem getMatch_const_neg (chk : C02.Constraint → Bytes → Bool) (c : Bytes) (lastFlag : Bool) (rest : List C02.Seg)
    (det path : Bytes) (h : ¬ (c.length ≤ det.length ∧ det.take c.length = c)) :
    C02.getMatch chk (litSeg c lastFlag :: rest) det path false = none := by
  conv => lhs; unfold C02.getMatch
  simp only [litSeg, Bool.not_false, Bool.false_and, Bool.false_eq_true, if_false, if_true]
  by_cases hle : c.length ≤ det.length
  · have hne : ¬ det.take c.length = c := fun he => h ⟨hle, he⟩
    simp [hle, hne]
  · simp [hle]

/-- a constant segment of a fragment key against a path -/
theorem getMatch_const (chk : C02.Constraint → Bytes → Bool) (c : Bytes) (lastFlag : Bool) (rest : List C02.Seg)
    (det path : Bytes) (hc : c ≠ []) :
    C02.getMatch chk (litSeg c lastFlag :: rest) det path false =
      if c.isPrefixOf det then C02.getMatch chk rest (det.drop c.length) (path.drop c.length) false else none := by
  by_cases hp : c.isPrefixOf det = true
  · rw [if_pos hp]
    rw [isPrefixOf_iff_take'] at hp
    simp only [Bool.and_eq_true, decide_eq_true_eq, beq_iff_eq] at hp
    exact getMatch_const_pos chk c lastFlag rest det path hc hp.1 hp.2
  · rw [if_neg hp]
    apply getMatch_const_neg
    intro h
    apply hp
    rw [isPrefixOf_iff_take']
    simp [h.1, h.2]

theorem isEmpty_eq_length {α} (l : List α) : l.isEmpty = (l.length == 0) := by
  cases l <;> rfl

/-- a required, unconstrained parameter segment against a path -/
theorem getMatch_param (chk : C02.Constraint → Bytes → Bool) (seg : C02.Seg) (rest : List C02.Seg)
    (det path : Bytes) (hp : seg.isParam = true) (ho : seg.isOptional = false) (hcs : seg.constraints = [])
    (hlen : det.length = path.length) :
    (C02.getMatch chk (seg :: rest) det path false).isSome =
      (C02.paramLen det seg rest != 0 &&
        (C02.getMatch chk rest (det.drop (C02.paramLen det seg rest)) (path.drop (C02.paramLen det seg rest)) false).isSome) := by
  conv => lhs; unfold C02.getMatch
  simp only [hp, Bool.not_true, Bool.false_eq_true, if_false, ho, Bool.not_false, Bool.true_and, hcs, List.all_nil,
    Bool.false_and]
  by_cases hi : (C02.paramLen det seg rest == 0) = true
  · have : C02.paramLen det seg rest = 0 := by simpa using hi
    simp [this]
  · have hi' : (C02.paramLen det seg rest == 0) = false := by simpa using hi
    have hne : (C02.paramLen det seg rest != 0) = true := by simp [bne, hi']
    simp only [hi', Bool.false_eq_true, if_false, hne, Bool.true_and, Option.isSome_map]
    by_cases hpos : det.length > 0
    · simp [hpos]
    · have hd : det = [] := by cases det with
        | nil => rfl
        | cons _ _ => simp at hpos
      have hpth : path = [] := by
        rw [hd] at hlen
        cases path with
        | nil => rfl
        | cons _ _ => simp at hlen
      subst hd; subst hpth
      simp

theorem fold_takeWhile_length (cfg : Cfg) (P : Bytes) :
    ((fold cfg P).takeWhile (· != 47)).length = (P.takeWhile (· != 47)).length := by
  rw [fold_takeWhile, fold_length]

theorem foldP_map_isEmpty (cfg : Cfg) (t : List Piece) : (t.map (foldP cfg)).isEmpty = t.isEmpty := by
  cases t <;> rfl

theorem matchToks_param (cfg : Cfg) (ts : List Tok) (P : Bytes) :
    matchToks cfg (.param :: ts) P =
      if (P.takeWhile (· != 47)).length = 0 then none
      else (matchToks cfg ts (P.drop (P.takeWhile (· != 47)).length)).map (· + (P.takeWhile (· != 47)).length) := by
  simp only [matchToks, isEmpty_eq_length]
  by_cases h : (P.takeWhile (· != 47)).length = 0 <;> simp [h]

/-- a parameter that is the last piece -/
theorem par_last (chk : C02.Constraint → Bytes → Bool) (cfg : Cfg) (n' P : Bytes) :
    (C02.paramLen (fold cfg P) (parSeg n' [] []) [] != 0 &&
      (C02.getMatch chk [] ((fold cfg P).drop (C02.paramLen (fold cfg P) (parSeg n' [] []) []))
        (P.drop (C02.paramLen (fold cfg P) (parSeg n' [] []) [])) false).isSome) =
    (matchToks cfg [.param] P == some P.length) := by
  have hpl : C02.paramLen (fold cfg P) (parSeg n' [] []) [] = (P.takeWhile (· != 47)).length := by
    unfold C02.paramLen C02.fullConst
    have hl : (parSeg n' [] []).isLast = true := rfl
    simp only [hl, Bool.true_or, if_true]
    rw [findParamLen_last _ _ rfl rfl, fold_takeWhile_length]
  have hvle := takeWhile_length_le P
  rw [hpl, getMatch_nil, matchToks_param]
  generalize (P.takeWhile (· != 47)).length = V at hvle
  by_cases hve : V = 0
  · subst hve; simp
  · have e1 : (V != 0) = true := by simp [bne, hve]
    rw [if_neg hve, e1, Bool.true_and]
    simp only [matchToks, Option.map_some, Nat.zero_add]
    by_cases hfull : V = P.length
    · subst hfull; simp [fold]
    · have e2 : (some V == some P.length) = false := by simp [hfull]
      rw [e2]
      cases hd : List.drop V (fold cfg P) with
      | nil =>
        have := congrArg List.length hd
        simp at this; omega
      | cons _ _ => rfl

/-- a parameter followed by a literal run `c` (folded) that begins with a slash -/
theorem par_mid (chk : C02.Constraint → Bytes → Bool) (cfg : Cfg) (n' c : Bytes) (lf : Bool) (tl : List Piece)
    (R : List C02.Seg) (ts : List Tok) (P : Bytes) (hc : c.head? = some 47) (hcne : c ≠ [])
    (hrest : ∀ P' : Bytes, (C02.getMatch chk (litSeg c lf :: R) (fold cfg P') P' false).isSome =
      (matchToks cfg ts P' == some P'.length))
    (hlit : ∀ P' : Bytes, c.isPrefixOf (fold cfg P') = false → matchToks cfg ts P' = none) :
    (C02.paramLen (fold cfg P) (parSeg n' (.lit c :: tl) (litSeg c lf :: R)) (litSeg c lf :: R) != 0 &&
      (C02.getMatch chk (litSeg c lf :: R)
        ((fold cfg P).drop (C02.paramLen (fold cfg P) (parSeg n' (.lit c :: tl) (litSeg c lf :: R)) (litSeg c lf :: R)))
        (P.drop (C02.paramLen (fold cfg P) (parSeg n' (.lit c :: tl) (litSeg c lf :: R)) (litSeg c lf :: R))) false).isSome) =
    (matchToks cfg (.param :: ts) P == some P.length) := by
  have hD := takeWhile_append_drop (fold cfg P)
  have hv := takeWhile_no_slash (fold cfg P)
  have hR := drop_takeWhile_head (fold cfg P)
  have hvl := fold_takeWhile_length cfg P
  have hvle := takeWhile_length_le P
  have key := paramLen_mid ((fold cfg P).takeWhile (· != 47)) ((fold cfg P).drop ((fold cfg P).takeWhile (· != 47)).length)
    c (parSeg n' (.lit c :: tl) (litSeg c lf :: R)) (litSeg c lf) R hv hR hc rfl rfl rfl rfl rfl
  rw [← hD, hvl] at key
  obtain ⟨cmp, hcmp, hyes, hno⟩ := key
  rw [matchToks_param]
  generalize C02.paramLen (fold cfg P) (parSeg n' (.lit c :: tl) (litSeg c lf :: R)) (litSeg c lf :: R) = i at hyes hno
  generalize hV : (P.takeWhile (· != 47)).length = V at hyes hno hvle
  by_cases hp : cmp.isPrefixOf (List.drop V (fold cfg P)) = true
  · rw [hyes hp, ← fold_drop, hrest]
    by_cases hve : V = 0
    · subst hve; simp
    · have e1 : (V != 0) = true := by simp [bne, hve]
      rw [if_neg hve, e1, Bool.true_and, List.length_drop, some_add_beq _ _ _ hvle]
  · have hp' : cmp.isPrefixOf (List.drop V (fold cfg P)) = false := by
      cases hh : cmp.isPrefixOf (List.drop V (fold cfg P)) with
      | false => rfl
      | true => exact absurd hh hp
    have hnolit : c.isPrefixOf (fold cfg (P.drop V)) = false := by
      cases hh : c.isPrefixOf (fold cfg (P.drop V)) with
      | false => rfl
      | true =>
        exfalso
        rw [fold_drop] at hh
        have h1 := List.isPrefixOf_iff_prefix.mp hh
        have h2 : cmp <+: List.drop V (fold cfg P) := hcmp.trans h1
        have := List.isPrefixOf_iff_prefix.mpr h2
        rw [this] at hp'; cases hp'
    have hrhs : (if V = 0 then none else (matchToks cfg ts (P.drop V)).map (· + V)) = none := by
      rw [hlit _ hnolit]; simp
    rw [hrhs]
    rcases hno hp' with h0 | hall
    · rw [h0]; simp
    · rw [hall]
      have hdrop : List.drop (fold cfg P).length (fold cfg P) = [] := List.drop_length
      rw [hdrop, getMatch_const chk c _ _ _ _ hcne]
      have : c.isPrefixOf ([] : Bytes) = false := by
        cases c with
        | nil => exact absurd rfl hcne
        | cons _ _ => rfl
      simp [this]

/-- **Step 2.** For a well-formed fragment (from any piece on) and every path: `getMatch`, full
match, on the segments fiber's parser makes of the folded key succeeds exactly when the tokens of
the key consume the whole path. -/
theorem getMatch_segsOf (chk : C02.Constraint → Bytes → Bool) (cfg : Cfg) (f : List Piece) :
    ∀ (ap : Bool), wfFrom ap f = true → ∀ P : Bytes,
      (C02.getMatch chk (segsOf (f.map (foldP cfg))) (fold cfg P) P false).isSome =
        (matchToks cfg (toksOf f) P == some P.length) := by
  induction f with
  | nil =>
    intro _ _ P
    simp only [List.map_nil, segsOf, getMatch_nil, toksOf, matchToks]
    cases P <;> simp [fold]
  | cons x t ih =>
    intro ap hwf P
    cases x with
    | lit s =>
      obtain ⟨hne, _, hwt⟩ := wfFrom_lit hwf
      have hfne : fold cfg s ≠ [] := fun h => hne (fold_eq_nil.mp h)
      simp only [List.map_cons, foldP, segsOf, toksOf]
      rw [getMatch_const chk (fold cfg s) _ _ _ _ hfne, matchToks_lits_append]
      by_cases hp : (fold cfg s).isPrefixOf (fold cfg P) = true
      · simp only [hp, if_true, fold_length]
        have hle : s.length ≤ P.length := by
          rw [isPrefixOf_iff_take'] at hp
          simp only [Bool.and_eq_true, decide_eq_true_eq, fold_length] at hp
          exact hp.1
        rw [← fold_drop, ih false hwt (P.drop s.length), some_add_beq _ _ _ hle]
        simp
      · simp [hp]
    | par n =>
      obtain ⟨hwt, hshape⟩ := wfFrom_par hwf
      simp only [List.map_cons, foldP, segsOf, toksOf]
      rw [getMatch_param chk _ _ _ _ rfl rfl rfl (fold_length cfg P)]
      rcases hshape with ht | ⟨s', t', ht⟩
      · subst ht
        exact par_last chk cfg (fold cfg n) P
      · subst ht
        obtain ⟨hs'ne, hs'head, _⟩ := wfFrom_lit hwt
        have hs'h : (fold cfg s').head? = some 47 := fold_head_slash (hs'head rfl)
        have hfne : fold cfg s' ≠ [] := fun h => hs'ne (fold_eq_nil.mp h)
        simp only [List.map_cons, foldP, segsOf, toksOf]
        apply par_mid chk cfg (fold cfg n) (fold cfg s') _ _ _ _ P hs'h hfne
        · intro P'
          have := ih true hwt P'
          simpa only [List.map_cons, foldP, segsOf, toksOf] using this
        · intro P' hnp
          rw [matchToks_lits_append, hnp]; simp

/-! ### step 3: the tokens consume the same on a leading part of the path that ends on a boundary -/

theorem takeWhile_take_of_le (p : Bytes) (n : Nat) (h : (p.takeWhile (· != 47)).length ≤ n) :
    (p.take n).takeWhile (· != 47) = p.takeWhile (· != 47) := by
  induction p generalizing n with
  | nil => simp
  | cons x t ih =>
    simp only [List.takeWhile_cons] at h ⊢
    by_cases hx : (x != 47) = true
    · simp only [hx, if_true, List.length_cons] at h ⊢
      cases n with
      | zero => omega
      | succ m =>
        simp only [List.take_succ_cons, List.takeWhile_cons, hx, if_true]
        rw [ih m (by omega)]
    · simp only [hx, Bool.false_eq_true, if_false]
      cases n with
      | zero => simp
      | succ m => simp [List.takeWhile_cons, hx]

/-- under a boundary at `n`, the first path segment ends at or before `n` -/
theorem takeWhile_le_of_boundary (p : Bytes) (n : Nat) (hn : n ≤ p.length)
    (hb : n = p.length ∨ p[n]? = some 47) : (p.takeWhile (· != 47)).length ≤ n := by
  rcases hb with hb | hb
  · rw [hb]; exact takeWhile_length_le p
  · induction p generalizing n with
    | nil => simp
    | cons x t ih =>
      simp only [List.takeWhile_cons]
      by_cases hx : (x != 47) = true
      · simp only [hx, if_true, List.length_cons]
        cases n with
        | zero =>
          simp only [List.getElem?_cons_zero, Option.some.injEq] at hb
          subst hb; simp at hx
        | succ m =>
          have := ih m (by simpa using hn) (by simpa using hb)
          omega
      · simp [hx]

theorem matchToks_take (cfg : Cfg) (ts : List Tok) : ∀ (p : Bytes) (n : Nat), n ≤ p.length →
    (n = p.length ∨ p[n]? = some 47) →
    (matchToks cfg ts (p.take n) == some n) = (matchToks cfg ts p == some n) := by
  induction ts with
  | nil => intro p n _ _; simp [matchToks]
  | cons tk ts' ih =>
    intro p n hn hb
    cases tk with
    | lit c =>
      cases p with
      | nil =>
        have : n = 0 := by simpa using hn
        subst this; rfl
      | cons d p' =>
        cases n with
        | zero =>
          simp only [List.take_zero, matchToks]
          by_cases hcd : fb cfg c = fb cfg d
          · simp only [hcd, if_true]
            cases matchToks cfg ts' p' <;> simp
          · simp [hcd]
        | succ m =>
          simp only [List.take_succ_cons, matchToks]
          by_cases hcd : fb cfg c = fb cfg d
          · simp only [hcd, if_true]
            rw [some_add_beq _ 1 (m + 1) (by omega), some_add_beq _ 1 (m + 1) (by omega)]
            simp only [Nat.add_sub_cancel]
            apply ih p' m (by simpa using hn)
            rcases hb with hb | hb
            · left; simpa using hb
            · right; simpa using hb
          · simp [hcd]
    | param =>
      have hvn := takeWhile_le_of_boundary p n hn hb
      rw [matchToks_param, matchToks_param, takeWhile_take_of_le p n hvn]
      generalize hV : (p.takeWhile (· != 47)).length = V at hvn
      by_cases hve : V = 0
      · simp [hve]
      · rw [if_neg hve, if_neg hve, some_add_beq _ _ _ hvn, some_add_beq _ _ _ hvn]
        have hVle : V ≤ p.length := by rw [← hV]; exact takeWhile_length_le p
        have hdt : (p.take n).drop V = (p.drop V).take (n - V) := by
          rw [List.drop_take]
        rw [hdt]
        apply ih (p.drop V) (n - V)
        · simp; omega
        · rcases hb with hb | hb
          · left; simp; omega
          · right
            rw [List.getElem?_drop]
            have : V + (n - V) = n := by omega
            rw [this]; exact hb

theorem matchToks_le (cfg : Cfg) (ts : List Tok) : ∀ (p : Bytes) (n : Nat), matchToks cfg ts p = some n → n ≤ p.length := by
  induction ts with
  | nil => intro p n h; simp [matchToks] at h; omega
  | cons tk ts' ih =>
    intro p n h
    cases tk with
    | lit c =>
      cases p with
      | nil => simp [matchToks] at h
      | cons d p' =>
        simp only [matchToks] at h
        by_cases hcd : fb cfg c = fb cfg d
        · simp only [hcd, if_true, Option.map_eq_some_iff] at h
          obtain ⟨m, hm, rfl⟩ := h
          have := ih p' m hm
          simp; omega
        · simp [hcd] at h
    | param =>
      rw [matchToks_param] at h
      by_cases hve : (p.takeWhile (· != 47)).length = 0
      · simp [hve] at h
      · rw [if_neg hve] at h
        simp only [Option.map_eq_some_iff] at h
        obtain ⟨m, hm, rfl⟩ := h
        have := ih _ m hm
        have hle := takeWhile_length_le p
        simp at this; omega

theorem find?_eq_target (l : List Nat) (bnd : Nat → Bool) (m : Nat) :
    l.find? (fun n => bnd n && (some m == some n)) = if m ∈ l ∧ bnd m = true then some m else none := by
  induction l with
  | nil => simp
  | cons x t ih =>
    simp only [List.find?_cons]
    by_cases hx : m = x
    · subst hx
      by_cases hb : bnd m = true
      · simp [hb]
      · have hb' : bnd m = false := by simpa using hb
        simp only [hb', Bool.false_and]
        rw [ih]; simp [hb']
    · have e : (some m == some x) = false := by simp [hx]
      simp only [e, Bool.and_false]
      rw [ih]
      by_cases hb : bnd m = true
      · simp [hb, hx]
      · simp [hb]

theorem find?_all_false {α} (l : List α) (q : α → Bool) (h : ∀ a ∈ l, q a = false) : l.find? q = none := by
  induction l with
  | nil => rfl
  | cons x t ih =>
    simp only [List.find?_cons, h x (by simp)]
    exact ih (fun a ha => h a (List.mem_cons_of_mem _ ha))

theorem matchToks_lit_pos (cfg : Cfg) (c : Nat) (ts : List Tok) (p : Bytes) (m : Nat)
    (h : matchToks cfg (.lit c :: ts) p = some m) : 1 ≤ m := by
  cases p with
  | nil => simp [matchToks] at h
  | cons d p' =>
    simp only [matchToks] at h
    by_cases hcd : fb cfg c = fb cfg d
    · simp only [hcd, if_true, Option.map_eq_some_iff] at h
      obtain ⟨k, _, rfl⟩ := h; omega
    · simp [hcd] at h

/-- **Step 3.** With the segments and the tokens of a well-formed fragment key, what the loop over
the cuts finds is what the tokens reading says. -/
theorem cover_of_segs (chk : C02.Constraint → Bytes → Bool) (cfg : Cfg) (f : List Piece) (hwf : wf f = true)
    (k : Bytes) (hparse : parseKey cfg k = some (segsOf (f.map (foldP cfg))))
    (htok : tokenize false false (mountedAt k) = toksOf f) (hlast : (mountedAt k).getLast? ≠ some 47)
    (path : Bytes) :
    modelCover chk cfg k path = coversPat cfg k path := by
  have hwff : wfFrom false f = true := by
    unfold wf at hwf
    simp only [Bool.and_eq_true] at hwf
    exact hwf.2
  unfold modelCover coversPat
  rw [hparse, htok, detOf_eq_fold]
  simp only [Option.bind_some]
  unfold mountPrefixLen
  simp only [fold_length]
  -- the predicate of the loop, cut by cut
  have hpred : ∀ n ∈ List.range' 1 (routerPath cfg path).length,
      cutMatches chk (segsOf (f.map (foldP cfg))) (fold cfg (routerPath cfg path)) path n =
        (onBoundary (routerPath cfg path) n && (matchToks cfg (toksOf f) (routerPath cfg path) == some n)) := by
    intro n hn
    have hn' := mem_range'_one hn
    unfold cutMatches onBoundary
    simp only [fold_length, fold_getElem_slash]
    have hpt : path.take n = (routerPath cfg path).take n := by
      obtain ⟨t, ht⟩ := routerPath_prefix cfg path
      generalize routerPath cfg path = rp at ht hn'
      rw [← ht, List.take_append_of_le_length hn'.2]
    rw [hpt, ← fold_take, getMatch_segsOf chk cfg f false hwff]
    have hlen : ((routerPath cfg path).take n).length = n := by simp; omega
    rw [hlen]
    by_cases hb : ((n == (routerPath cfg path).length) || ((routerPath cfg path)[n]? == some 47)) = true
    · rw [hb, Bool.true_and, Bool.true_and]
      apply matchToks_take cfg _ _ n hn'.2
      simp only [Bool.or_eq_true, beq_iff_eq] at hb
      exact hb
    · have hb' : ((n == (routerPath cfg path).length) || ((routerPath cfg path)[n]? == some 47)) = false := by
        simpa using hb
      rw [hb', Bool.false_and, Bool.false_and]
  rw [find?_congr' hpred]
  cases hn0 : matchToks cfg (toksOf f) (routerPath cfg path) with
  | none =>
    apply find?_all_false
    intro a _; simp
  | some m =>
    have hmle := matchToks_le cfg _ _ _ hn0
    have hm1 : 1 ≤ m := by
      -- the key begins with plain text
      unfold wf at hwf
      cases f with
      | nil => simp at hwf
      | cons x t =>
        cases x with
        | par _ => simp at hwf
        | lit s =>
          obtain ⟨hne, _, _⟩ := wfFrom_lit hwff
          cases s with
          | nil => exact absurd rfl hne
          | cons c s' =>
            simp only [toksOf, List.map_cons, List.cons_append] at hn0
            exact matchToks_lit_pos cfg c _ _ _ hn0
    rw [find?_eq_target]
    have hmem : m ∈ List.range' 1 (routerPath cfg path).length := by
      rw [List.mem_range'_1]; omega
    have hcond : (((routerPath cfg path).drop m).isEmpty || ((routerPath cfg path).drop m).head? == some 47 ||
        (mountedAt k).getLast? == some 47) = onBoundary (routerPath cfg path) m := by
      have h3 : ((mountedAt k).getLast? == some 47) = false := by
        cases hh : ((mountedAt k).getLast? == some 47) with
        | false => rfl
        | true => exact absurd (beq_iff_eq.mp hh) hlast
      rw [h3, Bool.or_false]
      unfold onBoundary
      have h1 : ((routerPath cfg path).drop m).isEmpty = (m == (routerPath cfg path).length) := by
        rw [isEmpty_eq_length, List.length_drop]
        by_cases he : m = (routerPath cfg path).length
        · simp [he]
        · have h0 : (routerPath cfg path).length - m ≠ 0 := by omega
          have e1 : ((routerPath cfg path).length - m == 0) = false := by simp [h0]
          have e2 : (m == (routerPath cfg path).length) = false := by simp [he]
          rw [e1, e2]
      have h2 : ((routerPath cfg path).drop m).head? = (routerPath cfg path)[m]? := by
        rw [List.head?_drop]
      rw [h1, h2]
    simp only [hcond, hmem, true_and]

/-! ### keys of the fragment, decidably -/

/-- **The tokens reading is what the code computes**, for every key of the fragment, every
configuration, every constraint verdict and every path. -/
theorem modelCover_eq_coversPat (chk : C02.Constraint → Bytes → Bool) (cfg : Cfg) (k path : Bytes)
    (h : TokenKey cfg k = true) : modelCover chk cfg k path = coversPat cfg k path := by
  unfold TokenKey at h
  simp only [Bool.and_eq_true, beq_iff_eq, bne_iff_ne, ne_eq] at h
  obtain ⟨⟨⟨⟨hwf, _⟩, hparse⟩, htok⟩, hlast⟩ := h
  exact cover_of_segs chk cfg _ hwf k hparse htok hlast path

example : TokenKey ⟨false, false⟩ (b "/:tenant") = true ∧ TokenKey ⟨false, false⟩ (b "/:T/Adm") = true ∧
    TokenKey ⟨true, false⟩ (b "/:T/Adm") = true ∧ TokenKey ⟨false, true⟩ (b ":x") = true ∧
    TokenKey ⟨false, false⟩ (b "/api/:id") = true ∧ TokenKey ⟨false, false⟩ (b "/:a/:b") = true ∧
    TokenKey ⟨false, false⟩ (b "/g/h/:t/api-v2/x.y/:id_2") = true ∧
    TokenKey ⟨false, false⟩ (b "/:t/") = false ∧ TokenKey ⟨false, false⟩ (b "/:a-:b") = false ∧
    TokenKey ⟨false, false⟩ (b "/*") = false ∧ TokenKey ⟨false, false⟩ (b "/:id<int>") = false ∧
    TokenKey ⟨false, false⟩ (b "/v:n") = false := by decide

end C08
