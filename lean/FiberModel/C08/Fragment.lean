import FiberModel.C08.Known
/-
C08 — the tokens fragment of mount prefixes as executable definitions (core Lean only; the driver
uses `TokenKey` to decide which reading the oracle applies, `Tokens.lean` proves what it means):
plain text and whole-segment named parameters (`/:tenant`, `/:t/api`, `/api/:id`, `/:a/:b`).
-/
namespace C08
open B C04

/-! ### the fragment, structurally -/

inductive Piece where
  | lit (s : Bytes)
  | par (name : Bytes)
  deriving DecidableEq, Repr

def render : List Piece → Bytes
  | [] => []
  | .lit s :: t => s ++ render t
  | .par n :: t => 58 :: n ++ render t

def toksOf : List Piece → List Tok
  | [] => []
  | .lit s :: t => s.map .lit ++ toksOf t
  | .par _ :: t => .param :: toksOf t

def plainB (c : Nat) : Bool := isLower c || isUpper c || isDigit c || c == 47 || c == 45 || c == 95 || c == 46
def nameB (c : Nat) : Bool := isLower c || isUpper c || isDigit c || c == 95

/-- well-formed from here on; `ap` = the piece before was a parameter -/
def wfFrom : Bool → List Piece → Bool
  | _, [] => true
  | ap, .lit s :: t =>
    !s.isEmpty && s.all plainB && (!ap || s.head? == some 47) &&
    (match t with
     | [] => s.getLast? != some 47
     | .par _ :: _ => s.getLast? == some 47
     | .lit _ :: _ => false) && wfFrom false t
  | _, .par n :: t =>
    !n.isEmpty && n.all nameB &&
    (match t with
     | .par _ :: _ => false
     | _ => true) && wfFrom true t

/-- a key of the fragment: begins with plain text that begins with a slash -/
def wf (f : List Piece) : Bool :=
  (match f with
   | .lit s :: _ => s.head? == some 47
   | _ => false) && wfFrom false f

def foldP (cfg : Cfg) : Piece → Piece
  | .lit s => .lit (fold cfg s)
  | .par n => .par (fold cfg n)

/-! ### the segments fiber's parser makes of a fragment key -/

def nextCmp : List Piece → Bytes
  | .lit s :: _ => C02.cmpOfConst s
  | _ => []

def litSeg (s : Bytes) (lastFlag : Bool) : C02.Seg := { const := s, length := s.length, isLast := lastFlag }

def parSeg (n : Bytes) (t : List Piece) (rest : List C02.Seg) : C02.Seg :=
  { paramName := n, isParam := true, isLast := t.isEmpty, comparePart := nextCmp t,
    partCount := if (nextCmp t).isEmpty then 0 else C02.partCountOf (nextCmp t) rest }

def segsOf : List Piece → List C02.Seg
  | [] => []
  | .lit s :: t => litSeg s t.isEmpty :: segsOf t
  | .par n :: t => parSeg n t (segsOf t) :: segsOf t

/-! ### keys of the fragment, decidably -/

/-- cut a key into literal runs and `:name` parameters (a name runs to the next slash) -/
def fragGo : Nat → Bytes → Bytes → List Piece
  | 0, acc, _ => if acc.isEmpty then [] else [.lit acc]
  | _ + 1, acc, [] => if acc.isEmpty then [] else [.lit acc]
  | fuel + 1, acc, c :: rest =>
    if c == 58 then
      let name := rest.takeWhile (· != 47)
      (if acc.isEmpty then [] else [.lit acc]) ++ .par name :: fragGo fuel [] (rest.drop name.length)
    else fragGo fuel (acc ++ [c]) rest

def fragOf (K : Bytes) : List Piece := fragGo K.length [] K

/-- **A key of the tokens fragment**, as an executable test: cut into literal runs and `:name`
parameters it is well formed (plain text, whole-segment parameters with names of letters, digits,
`_`, no trailing slash), it spells the key, fiber's parser makes of it the alternating constant /
parameter segments `segsOf` describes, and the spec's tokenizer the corresponding tokens. The
driver applies this test to every key it reads with the tokens reading. -/
def TokenKey (cfg : Cfg) (k : Bytes) : Bool :=
  let f := fragOf (mountedAt k)
  wf f && render f == mountedAt k &&
    parseKey cfg k == some (segsOf (f.map (foldP cfg))) &&
    tokenize false false (mountedAt k) == toksOf f &&
    (mountedAt k).getLast? != some 47

end C08
