import FiberModel.C08.Shape
/-
C08 — property theorems (model of the repaired code ⊑ spec), for every configuration, every mount
table, every iteration order of the map, every path and every chain result / server error. No size
bound anywhere.

The map `appList` is a list of entries with pairwise different keys; "any iteration order" is "any
permutation of that list". Hypothesis `Nodup` everywhere a table is involved: no two apps are
registered under the same route, i.e. the keys are pairwise different once the leading slash is
added (`slashKey`: "api" and "/api" are one route; a Go map cannot hold two apps under one key at
all). Keys that differ in letter case only are told apart (the loop is deterministic for them too).

`chk` is the verdict function of the parameter constraints (path.go CheckConstraint), universally
quantified. No theorem carries a known-finding hypothesis any more: K1 (parameterised mount
prefixes) is repaired in /repo (023a967) and `K1_repaired` evaluates the old and the new loop on its
former witness.

Readings of a prefix that is a route pattern (Spec): `coversRouter` — fiber's own matcher
(RoutePatternMatch) on the leading parts of the path, every pattern fiber accepts; `coversPat` — the
tokens reading written from scratch (whole-segment `:name`). `select_eq_spec_of_reading` is generic
in the reading; `select_eq_spec_router` instantiates the first for every table, `select_eq_spec`
the second for every table whose pattern keys are whole-segment parameterised prefixes
(`modelCover_eq_coversPat_of_wf`, Shape.lean + Tokens.lean: what fiber's parser and matcher do on
such a key is what the tokens do).
-/
namespace C08
open B C04 C08.Known

/-- Two mount prefixes of equal length that both contain the path on a segment boundary are the
same prefix: what makes a deterministic choice by length possible. -/
theorem boundary_match_unique {a b p : Bytes} (ha : containsRaw a p = true) (hb : containsRaw b p = true)
    (hl : a.length = b.length) : a = b :=
  prefix_eq_of_length_eq (containsRaw_prefix ha) (containsRaw_prefix hb) hl

example : containsRaw (b "/api") (b "/api/x") = true ∧ containsRaw (b "/api") (b "/api-v2/x") = false ∧
    containsRaw (b "/api-v2") (b "/api-v2/x") = true ∧ containsRaw (b "/") (b "/api") = true ∧
    containsRaw (b "/api/") (b "/api/x") = true ∧ containsRaw (b "/api") (b "/api") = true := by decide

/-- The same for keys as registered, under any configuration: equally long (as mounted) prefixes
that both contain the path are the same mount point for the router. -/
theorem boundary_match_unique_folded {cfg : Cfg} {a b p : Bytes} (ha : contains cfg a p = true)
    (hb : contains cfg b p = true) (hl : (mountedAt a).length = (mountedAt b).length) :
    fold cfg (mountedAt a) = fold cfg (mountedAt b) :=
  prefix_eq_of_length_eq (containsRaw_prefix ha) (containsRaw_prefix hb) (by simpa using hl)

example : contains ⟨false, false⟩ (b "/API") (b "/api/x") = true ∧ contains ⟨true, false⟩ (b "/API") (b "/api/x") = false ∧
    contains ⟨false, false⟩ (b "api") (b "/Api/x") = true ∧ contains ⟨false, false⟩ (b "/:t") (b "/acme/x") = false ∧
    coversPat ⟨false, false⟩ (b "/:t") (b "/acme/x") = some 5 ∧ coversPat ⟨false, false⟩ (b "/:t/api") (b "/acme/apix") = none ∧
    coversPat ⟨false, false⟩ (b "/:t/api") (b "/acme/API/x") = some 9 ∧ coversPat ⟨true, false⟩ (b "/:t") (b "//x") = none := by
  decide

/-- The code's test (app.go hasMountPrefix, on the key with the leading slash the loop adds) is the
spec's literal `contains`, for every configuration. -/
theorem hasMountPrefix_eq_contains (cfg : Cfg) (path k : Bytes) :
    hasMountPrefix cfg path (ensureSlash k) = contains cfg k path :=
  hasMountPrefix_eq_contains' cfg path k

/-- **Generic in the reading of pattern prefixes.** Whatever reading `cov` the spec uses for the
prefixes that are route patterns: if it is what the code computes for the pattern keys of this
table and this path (`modelCover`: the parser made at startup, matched on the leading parts of the
context's paths), then the loop of `App.ErrorHandler` returns the spec's choice — the handler of the
mounted app that configured one and reaches furthest into the path (a plain prefix before a
pattern that reaches equally far, then the prefix that sorts last: a nested mount's prefix extends
the prefix of the mount around it). -/
theorem select_eq_spec_of_reading (chk : C02.Constraint → Bytes → Bool) (cfg : Cfg) (cov : Cover) (l : List Mounted)
    (path : Bytes) (hnd : (l.map (fun m => slashKey m.pre)).Nodup)
    (hcov : ∀ m ∈ l, isPattern m.pre = true → modelCover chk cfg m.pre path = cov m.pre path) :
    select chk cfg l path = selectSpec cfg cov l path :=
  select_eq_spec_of_cover chk cfg cov l path hnd hcov

/-- every key of the table that is a route pattern declares a parameter (`/:tenant`, `/*`,
`/v:n?/x`, `/:id<int>` …); outside are only keys that escape characters without declaring any
(`/a\:b`) -/
def ParamKeys (cfg : Cfg) (l : List Mounted) : Prop :=
  ∀ m ∈ l, isPattern m.pre = true → keyHasParams cfg m.pre = true

instance (cfg : Cfg) (l : List Mounted) : Decidable (ParamKeys cfg l) := by unfold ParamKeys; exact inferInstance

/-- **Full strength, the router's reading.** For every configuration, every constraint verdict,
every table (plain, parameterised, wildcard, optional, constrained, mid-segment prefixes — anything
`parseRouteWritten` accepts) and every path that starts with a slash: the loop returns the handler
of the innermost configured mounted app whose prefix — plain text compared as the router compares
(leading slash, letter case), a route pattern matched by fiber's own `RoutePatternMatch` on the
leading segments of the path — contains the path on a segment boundary. -/
theorem select_eq_spec_router (chk : C02.Constraint → Bytes → Bool) (cfg : Cfg) (l : List Mounted) (path : Bytes)
    (hnd : (l.map (fun m => slashKey m.pre)).Nodup) (hkeys : ParamKeys cfg l) (hpath : path.head? = some 47) :
    select chk cfg l path = selectSpec cfg (coversRouter chk cfg) l path :=
  select_eq_spec_of_cover chk cfg _ l path hnd
    (fun m hm hp => modelCover_eq_coversRouter chk cfg m.pre path (hkeys m hm hp) hpath)

/-- a table with a parameterised, a constrained and a wildcard prefix next to plain ones (one key
without leading slash): the hypotheses hold, and the loop's choice under the real built-in
constraint check -/
def exTable : List Mounted := [⟨[], some ⟨0, false⟩⟩, ⟨b "/org/:tenant", some ⟨1, false⟩⟩, ⟨b "/acme/sub", some ⟨2, false⟩⟩,
  ⟨b "/t/:id<int>", some ⟨3, false⟩⟩, ⟨b "files/*", some ⟨4, true⟩⟩]

example : (exTable.map (fun m => slashKey m.pre)).Nodup ∧ ParamKeys ⟨false, false⟩ exTable ∧
    (b "/acme/e").head? = some 47 := by decide

example : select (C02.checkConstraint [] (fun _ _ => true)) ⟨false, false⟩ exTable (b "/org/acme/e") = some ⟨1, false⟩ ∧
    select (C02.checkConstraint [] (fun _ _ => true)) ⟨false, false⟩ exTable (b "/ACME/sub/e") = some ⟨2, false⟩ ∧
    select (C02.checkConstraint [] (fun _ _ => true)) ⟨false, false⟩ exTable (b "/t/42/e") = some ⟨3, false⟩ ∧
    select (C02.checkConstraint [] (fun _ _ => true)) ⟨false, false⟩ exTable (b "/t/ab/e") = none ∧
    select (C02.checkConstraint [] (fun _ _ => true)) ⟨false, false⟩ exTable (b "/files/a/b.txt") = some ⟨4, true⟩ ∧
    select (C02.checkConstraint [] (fun _ _ => true)) ⟨false, false⟩ exTable (b "/") = none := by decide

/-- The former known finding K1 on the repaired code: an app mounted at `/:tenant` with its own
handler, request `/acme/e`. The loop as it was between F3 and F4 (`selectLit`: every key compared
literally) selects none — the root's handler ran; the repaired loop selects handler 1, which is
what the sentence designates (tokens reading and router's reading alike). -/
theorem K1_repaired :
    selectLit ⟨false, false⟩ [⟨[], some ⟨0, false⟩⟩, ⟨b "/:tenant", some ⟨1, false⟩⟩] (b "/acme/e") = none ∧
    select (fun _ _ => true) ⟨false, false⟩ [⟨[], some ⟨0, false⟩⟩, ⟨b "/:tenant", some ⟨1, false⟩⟩] (b "/acme/e")
      = some ⟨1, false⟩ ∧
    selectSpec ⟨false, false⟩ (coversPat ⟨false, false⟩) [⟨[], some ⟨0, false⟩⟩, ⟨b "/:tenant", some ⟨1, false⟩⟩]
      (b "/acme/e") = some ⟨1, false⟩ ∧
    selectSpec ⟨false, false⟩ (coversRouter (fun _ _ => true) ⟨false, false⟩)
      [⟨[], some ⟨0, false⟩⟩, ⟨b "/:tenant", some ⟨1, false⟩⟩] (b "/acme/e") = some ⟨1, false⟩ := by
  decide

/-- Finding F5 on the repaired code: an app mounted at "/" inside an app mounted under `/:t`, both
with their own handler (appList keys `/:t` and `/:t/`), request `/acme/e`: both prefixes account for
the same five bytes of the path; the nested app's prefix extends the outer one's, sorts last, and
is chosen — by the loop and by the spec (router's reading; `/:t/` is outside the tokens fragment). -/
theorem F5_repaired :
    select (fun _ _ => true) ⟨false, false⟩
      (appList (some ⟨0, false⟩) [.mk [] (b "/:t") (some ⟨1, false⟩) [.mk [] (b "/") (some ⟨2, false⟩) []]]) (b "/acme/e")
      = some ⟨2, false⟩ ∧
    selectSpec ⟨false, false⟩ (coversRouter (fun _ _ => true) ⟨false, false⟩)
      (appList (some ⟨0, false⟩) [.mk [] (b "/:t") (some ⟨1, false⟩) [.mk [] (b "/") (some ⟨2, false⟩) []]]) (b "/acme/e")
      = some ⟨2, false⟩ ∧
    (appList (some ⟨0, false⟩) [.mk [] (b "/:t") (some ⟨1, false⟩) [.mk [] (b "/") (some ⟨2, false⟩) []]]).map (·.pre)
      = [[], b "/:t", b "/:t/"] := by
  decide

/-- every key of the table that is a route pattern lies in the tokens fragment (`TokenKey`: plain
text and whole-segment named parameters, `/:tenant`, `/:t/api`, `/api/:id`, `/:a/:b` …) -/
def TokenTable (cfg : Cfg) (l : List Mounted) : Prop :=
  ∀ m ∈ l, isPattern m.pre = true → TokenKey cfg m.pre = true

instance (cfg : Cfg) (l : List Mounted) : Decidable (TokenTable cfg l) := by unfold TokenTable; exact inferInstance

/-- every key of the table that is a route pattern has the tokens SHAPE: with the leading slash it
is spelled by a well-formed list of pieces (`wf`, Fragment.lean: plain text — letters, digits,
`/ - _ .` — and whole-segment named parameters `:name` with names of letters, digits, `_`; it begins
with a slash and does not end in one). Purely syntactic; `TokenTable` is a decidable sufficient
condition (`shapeTable_of_tokenTable`). -/
def ShapeTable (l : List Mounted) : Prop :=
  ∀ m ∈ l, isPattern m.pre = true → ∃ f : List Piece, wf f = true ∧ mountedAt m.pre = render f

theorem shapeTable_of_tokenTable {cfg : Cfg} {l : List Mounted} (h : TokenTable cfg l) : ShapeTable l := by
  intro m hm hp
  have := h m hm hp
  unfold TokenKey at this
  simp only [Bool.and_eq_true, beq_iff_eq] at this
  exact ⟨_, this.1.1.1.1, this.1.1.1.2.symm⟩

/-- **Full strength, the tokens reading** (the reading written from scratch in Spec: a segment
`:name` stands for any non-empty path segment, everything else is literal). For every configuration,
constraint verdict and path, and every table whose pattern keys are whole-segment parameterised
prefixes (`ShapeTable`, a purely syntactic condition) — plain tables included —: the loop returns
the handler of the innermost configured mounted app whose prefix contains the path on a segment
boundary. Behind it: what fiber's parser makes of such a key (`parseRoute_frag`), what fiber's
matcher does with those segments (`getMatch_segsOf`), the loop over the cuts (`cover_of_segs`).
(This is the statement that carried the hypothesis `K1 = false` before the repair.) -/
theorem select_eq_spec (chk : C02.Constraint → Bytes → Bool) (cfg : Cfg) (l : List Mounted) (path : Bytes)
    (hnd : (l.map (fun m => slashKey m.pre)).Nodup) (hshape : ShapeTable l) :
    select chk cfg l path = selectSpec cfg (coversPat cfg) l path :=
  select_eq_spec_of_cover chk cfg _ l path hnd
    (fun m hm hp => by
      obtain ⟨f, hwf, hk⟩ := hshape m hm hp
      exact modelCover_eq_coversPat_of_wf chk cfg m.pre path f hwf hk)

/-- a table with parameterised prefixes at several depths, one key without leading slash, mixed
case: the hypotheses of `select_eq_spec` hold -/
def exTokens : List Mounted := [⟨[], some ⟨0, false⟩⟩, ⟨b "/:tenant", some ⟨1, false⟩⟩, ⟨b "/:tenant/in", some ⟨2, false⟩⟩,
  ⟨b "/acme", some ⟨3, false⟩⟩, ⟨b ":T/Adm/:id", some ⟨4, true⟩⟩, ⟨b "/API", none⟩]

example : (exTokens.map (fun m => slashKey m.pre)).Nodup ∧ TokenTable ⟨false, false⟩ exTokens ∧ TokenTable ⟨true, true⟩ exTokens := by
  decide

example : ShapeTable exTokens := shapeTable_of_tokenTable (cfg := ⟨false, false⟩) (by decide)

example : selectSpec ⟨false, false⟩ (coversPat ⟨false, false⟩) exTokens (b "/zeta/e") = some ⟨1, false⟩ ∧
    selectSpec ⟨false, false⟩ (coversPat ⟨false, false⟩) exTokens (b "/zeta/IN/e") = some ⟨2, false⟩ ∧
    selectSpec ⟨false, false⟩ (coversPat ⟨false, false⟩) exTokens (b "/acme/e") = some ⟨3, false⟩ ∧
    selectSpec ⟨false, false⟩ (coversPat ⟨false, false⟩) exTokens (b "/x/adm/7/") = some ⟨4, true⟩ ∧
    selectSpec ⟨false, false⟩ (coversPat ⟨false, false⟩) exTokens (b "/") = none := by decide

/-- **Two paths.** `mountPrefixLen` hands `getMatch` the detection path (lower-cased unless
CaseSensitive: what the pattern is matched on) AND the path as sent (what the parameter values are
cut from and the constraints are checked on) — `cutMatches … det path`, as the router does
(`Route.match(detectionPath, path, …)`), and as the spec's router reading does (`RoutePatternMatch`
lower-cases a copy, `rpm_eq_getMatch`: `getMatch chk segs (fold cfg p) p`). The two are not
interchangeable: a mount at `/:flag<bool>` (Go's ParseBool literals are case sensitive: `TRUE`,
`True`, `true`, not `tRUE`), default configuration. For `/tRUE/e` the router does not enter the
mounted app and the prefix does not contain the path; feeding the detection path twice would say
it does. For `/TRUE/e` both agree. -/
theorem constraints_checked_on_path_as_sent :
    (parseKey ⟨false, false⟩ (b "/:flag<bool>")).bind
      (fun segs => mountPrefixLen (C02.checkConstraint [] (fun _ _ => true)) segs (detOf ⟨false, false⟩ (b "/tRUE/e")) (b "/tRUE/e"))
      = none ∧
    (parseKey ⟨false, false⟩ (b "/:flag<bool>")).bind
      (fun segs => mountPrefixLen (C02.checkConstraint [] (fun _ _ => true)) segs (detOf ⟨false, false⟩ (b "/tRUE/e"))
        (detOf ⟨false, false⟩ (b "/tRUE/e")))
      = some 5 ∧
    (parseKey ⟨false, false⟩ (b "/:flag<bool>")).bind
      (fun segs => mountPrefixLen (C02.checkConstraint [] (fun _ _ => true)) segs (detOf ⟨false, false⟩ (b "/TRUE/e")) (b "/TRUE/e"))
      = some 5 ∧
    select (C02.checkConstraint [] (fun _ _ => true)) ⟨false, false⟩
      [⟨[], some ⟨0, false⟩⟩, ⟨b "/:flag<bool>", some ⟨1, false⟩⟩] (b "/tRUE/e") = none ∧
    selectSpec ⟨false, false⟩ (coversRouter (C02.checkConstraint [] (fun _ _ => true)) ⟨false, false⟩)
      [⟨[], some ⟨0, false⟩⟩, ⟨b "/:flag<bool>", some ⟨1, false⟩⟩] (b "/tRUE/e") = none ∧
    select (C02.checkConstraint [] (fun _ _ => true)) ⟨false, false⟩
      [⟨[], some ⟨0, false⟩⟩, ⟨b "/:flag<bool>", some ⟨1, false⟩⟩] (b "/TRUE/e") = some ⟨1, false⟩ := by
  decide

/-- no key of the table is a route pattern -/
def LiteralTable (l : List Mounted) : Prop := l.all (fun m => !isPattern m.pre) = true

instance (l : List Mounted) : Decidable (LiteralTable l) := by unfold LiteralTable; exact inferInstance

theorem shapeTable_of_literal {l : List Mounted} (h : LiteralTable l) : ShapeTable l := by
  intro m hm hp
  have := List.all_eq_true.mp h m hm
  simp [hp] at this

example : LiteralTable [⟨[], none⟩, ⟨b "/api", some ⟨1, false⟩⟩, ⟨b "api-v2", some ⟨2, false⟩⟩, ⟨b "/API/v2", none⟩] := by
  decide

/-- The selected handler does not depend on the order in which the map is iterated — for every
table (every kind of prefix), every configuration and constraint verdict. -/
theorem select_perm_invariant {chk : C02.Constraint → Bytes → Bool} {cfg : Cfg} {l₁ l₂ : List Mounted} (path : Bytes)
    (h : l₁.Perm l₂) (hnd : (l₁.map (fun m => slashKey m.pre)).Nodup) :
    select chk cfg l₁ path = select chk cfg l₂ path := by
  have hnd₂ : (l₂.map (fun m => slashKey m.pre)).Nodup := (h.map _).nodup_iff.mp hnd
  have hbest : ∀ x r, Best chk cfg l₁ path x r → Best chk cfg l₂ path x r := by
    intro x r hx
    exact ⟨h.mem_iff.mp hx.1, hx.2.1, fun y hy t hc => hx.2.2 y (h.mem_iff.mpr hy) t hc⟩
  rcases select_char chk cfg l₁ path with ⟨hno₁, hs₁⟩ | ⟨x, r, hb₁, hs₁⟩
  · rcases select_char chk cfg l₂ path with ⟨_, hs₂⟩ | ⟨y, t, hb₂, _⟩
    · rw [hs₁, hs₂]
    · exact absurd hb₂.2.1 (hno₁ y (h.mem_iff.mpr hb₂.1) t)
  · rcases select_char chk cfg l₂ path with ⟨hno₂, _⟩ | ⟨y, t, hb₂, hs₂⟩
    · exact absurd hb₁.2.1 (hno₂ x (h.mem_iff.mp hb₁.1) r)
    · have := best_unique hnd₂ (hbest x r hb₁) hb₂
      subst this
      rw [hs₁, hs₂]

example : [⟨b "/api", some ⟨1, false⟩⟩, ⟨b "/api-v2", some ⟨2, false⟩⟩].Perm
    [⟨b "/api-v2", some ⟨2, false⟩⟩, (⟨b "/api", some ⟨1, false⟩⟩ : Mounted)] :=
  List.Perm.swap _ _ _

theorem nodup_of_map_comp {α β γ} (f : α → β) (g : β → γ) {l : List α}
    (h : (l.map (g ∘ f)).Nodup) : (l.map f).Nodup := by
  induction l with
  | nil => simp
  | cons x t ih =>
    simp only [List.map_cons, List.nodup_cons, List.mem_map, not_exists, not_and, Function.comp] at h ⊢
    refine ⟨?_, ih h.2⟩
    intro y hy hxy
    exact h.1 y hy (by rw [hxy])

/-- the hypothesis the earlier versions of these theorems carried (keys pairwise different as the
router tells mount points apart: leading slash, letter case) implies the present, weaker one -/
theorem nodup_slashKey_of_normKey {cfg : Cfg} {l : List Mounted}
    (h : (l.map (fun m => normKey cfg m.pre)).Nodup) : (l.map (fun m => slashKey m.pre)).Nodup := by
  have hg : (fun m : Mounted => normKey cfg m.pre) =
      (fun s : Bytes => if s = [] then [] else fold cfg s) ∘ (fun m : Mounted => slashKey m.pre) := by
    funext m
    simp only [Function.comp, normKey, slashKey]
    by_cases hk : m.pre = []
    · simp [hk]
    · have : mountedAt m.pre ≠ [] := ensureSlash_ne_nil _
      simp [hk, this]
  rw [hg] at h
  exact nodup_of_map_comp _ _ h

/-- the code before the first fix: the same table, two iteration orders, two different handlers -/
theorem old_order_dependent :
    selectOld [⟨b "/api", some ⟨1, false⟩⟩, ⟨b "/api-v2", some ⟨2, false⟩⟩] (b "/api-v2/x") ≠
    selectOld [⟨b "/api-v2", some ⟨2, false⟩⟩, ⟨b "/api", some ⟨1, false⟩⟩] (b "/api-v2/x") := by decide

theorem funnel_of_select {chk : C02.Constraint → Bytes → Bool} {cfg : Cfg} {cov : Cover} {l l' : List Mounted}
    (rootOwn : Option Own) (path : Bytes)
    (chain : Option Err) (hsel : select chk cfg l' path = selectSpec cfg cov l path) (left : Bytes := []) :
    funnel chk cfg l' rootOwn path chain left = expected cfg cov l rootOwn path chain left := by
  cases chain with
  | none => rfl
  | some e =>
    unfold funnel expected errorHandler designated
    rw [hsel]
    cases hs : selectSpec cfg cov l path with
    | some o =>
      simp only [invoke]
      by_cases hf : o.fails <;> simp [hf]
    | none =>
      cases rootOwn with
      | none => cases e <;> simp [invoke, defaultHandler, Err.msg]
      | some o =>
        simp only [invoke]
        by_cases hf : o.fails <;> simp [hf]

/-- Generic in the reading: the funnel meets the spec for EVERY iteration order of the map — the
outcome (who ran and how often, status, body) is the one the property designates. -/
theorem funnel_meets_spec_of_reading {chk : C02.Constraint → Bytes → Bool} {cfg : Cfg} {cov : Cover}
    {l l' : List Mounted} (rootOwn : Option Own) (path : Bytes)
    (chain : Option Err) (hperm : l.Perm l') (hnd : (l.map (fun m => slashKey m.pre)).Nodup)
    (hcov : ∀ m ∈ l, isPattern m.pre = true → modelCover chk cfg m.pre path = cov m.pre path)
    (left : Bytes := []) :
    funnel chk cfg l' rootOwn path chain left = expected cfg cov l rootOwn path chain left :=
  funnel_of_select rootOwn path chain
    (by rw [← select_perm_invariant path hperm hnd, select_eq_spec_of_cover chk cfg cov l path hnd hcov]) left

/-- **Full strength, the router's reading**: for every configuration, constraint verdict, table,
iteration order, path (starting with a slash) and chain result the funnel's outcome is the one the
property designates. -/
theorem funnel_meets_spec_router {chk : C02.Constraint → Bytes → Bool} {cfg : Cfg} {l l' : List Mounted}
    (rootOwn : Option Own) (path : Bytes) (chain : Option Err) (hperm : l.Perm l')
    (hnd : (l.map (fun m => slashKey m.pre)).Nodup) (hkeys : ParamKeys cfg l) (hpath : path.head? = some 47)
    (left : Bytes := []) :
    funnel chk cfg l' rootOwn path chain left = expected cfg (coversRouter chk cfg) l rootOwn path chain left :=
  funnel_meets_spec_of_reading rootOwn path chain hperm hnd
    (fun m hm hp => modelCover_eq_coversRouter chk cfg m.pre path (hkeys m hm hp) hpath) left

example : funnel (fun _ _ => true) ⟨false, false⟩ exTable (some ⟨0, false⟩) (b "/files/x") (some (.plain (b "boom")))
    = some ⟨[.custom 4], 500, b "Internal Server Error"⟩ ∧
  expected ⟨false, false⟩ (coversRouter (fun _ _ => true) ⟨false, false⟩) exTable (some ⟨0, false⟩) (b "/files/x")
    (some (.plain (b "boom"))) = some ⟨[.custom 4], 500, b "Internal Server Error"⟩ := by decide

/-- **Full strength, the tokens reading** (the statement that carried `K1 = false` before the repair). -/
theorem funnel_meets_spec {chk : C02.Constraint → Bytes → Bool} {cfg : Cfg} {l l' : List Mounted}
    (rootOwn : Option Own) (path : Bytes) (chain : Option Err) (hperm : l.Perm l')
    (hnd : (l.map (fun m => slashKey m.pre)).Nodup) (hshape : ShapeTable l) (left : Bytes := []) :
    funnel chk cfg l' rootOwn path chain left = expected cfg (coversPat cfg) l rootOwn path chain left :=
  funnel_meets_spec_of_reading rootOwn path chain hperm hnd
    (fun m hm hp => by
      obtain ⟨f, hwf, hk⟩ := hshape m hm hp
      exact modelCover_eq_coversPat_of_wf chk cfg m.pre path f hwf hk) left

/-- An error returned by the chain is delivered to exactly one handler exactly once; no error, no
call. Every table, every configuration. -/
theorem exactly_once (chk : C02.Constraint → Bytes → Bool) (cfg : Cfg) (l : List Mounted) (rootOwn : Option Own)
    (path : Bytes) :
    funnel chk cfg l rootOwn path none = none ∧
    ∀ e, ∃ o, funnel chk cfg l rootOwn path (some e) = some o ∧ o.ran.length = 1 := by
  refine ⟨rfl, ?_⟩
  intro e
  simp only [funnel]
  generalize errorHandler chk cfg l rootOwn path e = x
  rcases x with ⟨r, _ | ⟨st, body⟩⟩
  · exact ⟨⟨[r], 500, b "Internal Server Error"⟩, rfl, rfl⟩
  · exact ⟨⟨[r], st, body⟩, rfl, rfl⟩

/-- Under the default handler the status of a framework error value becomes the response status;
any other error gives 500; the body is the error's message. -/
theorem status_of_error (chk : C02.Constraint → Bytes → Bool) (cfg : Cfg) (l : List Mounted) (path : Bytes) (e : Err)
    (hsel : select chk cfg l path = none) :
    funnel chk cfg l none path (some e) =
      some ⟨[.default], (match e with | .fiber c _ => c | .plain _ => 500), e.msg⟩ := by
  unfold funnel errorHandler
  rw [hsel]
  cases e <;> simp [invoke, defaultHandler, Err.msg]

example : funnel (fun _ _ => true) ⟨false, false⟩ (appList none []) none (b "/x") (some (.fiber 404 (b "Cannot GET /x")))
    = some ⟨[.default], 404, b "Cannot GET /x"⟩ := by decide

/-- A failing error handler — mounted or root — yields a 500. -/
theorem failing_handler_500 (chk : C02.Constraint → Bytes → Bool) (cfg : Cfg) (l : List Mounted) (rootOwn : Option Own)
    (path : Bytes) (e : Err) (o : Own)
    (hsel : select chk cfg l path = some o ∨ (select chk cfg l path = none ∧ rootOwn = some o)) (hf : o.fails = true) :
    funnel chk cfg l rootOwn path (some e) = some ⟨[.custom o.id], 500, b "Internal Server Error"⟩ := by
  unfold funnel errorHandler
  rcases hsel with hs | ⟨hs, hr⟩
  · rw [hs]; simp [invoke, hf]
  · rw [hs, hr]; simp [invoke, hf]

/-- … whatever is on the response when the handler gives up: the status the route handler or the
error handler itself had set is replaced by 500, a body written before the failure (`left`) stays,
an empty one becomes the status text — exactly one invocation. -/
theorem failing_handler_500_any_response (chk : C02.Constraint → Bytes → Bool) (cfg : Cfg) (l : List Mounted)
    (rootOwn : Option Own) (path : Bytes) (e : Err) (o : Own) (left : Bytes)
    (hsel : select chk cfg l path = some o ∨ (select chk cfg l path = none ∧ rootOwn = some o)) (hf : o.fails = true) :
    funnel chk cfg l rootOwn path (some e) left =
      some ⟨[.custom o.id], 500, if left.isEmpty then b "Internal Server Error" else left⟩ := by
  unfold funnel errorHandler
  rcases hsel with hs | ⟨hs, hr⟩
  · rw [hs]; simp [invoke, hf]
  · rw [hs, hr]; simp [invoke, hf]

example : funnel (fun _ _ => true) ⟨false, false⟩ (appList none [.mk [] (b "/api") (some ⟨1, true⟩) []]) none (b "/api/e")
    (some (.plain (b "boom"))) (b "part") = some ⟨[.custom 1], 500, b "part"⟩ := by decide

example : funnel (fun _ _ => true) ⟨false, false⟩ (appList none [.mk [] (b "/api") (some ⟨1, true⟩) []]) none (b "/API/e")
    (some (.plain (b "boom"))) = some ⟨[.custom 1], 500, b "Internal Server Error"⟩ := by decide

/-! ### chains that hold fiber's logger middleware (it delivers the error itself) -/

theorem throughLoggers_none (chk : C02.Constraint → Bytes → Bool) (cfg : Cfg) (l : List Mounted) (rootOwn : Option Own)
    (paths : List Bytes) (p : Progress) : throughLoggers chk cfg l rootOwn paths none p = (p, none) := by
  induction paths with
  | nil => rfl
  | cons x t ih => simp [throughLoggers, ih]

/-- without a logger in the chain a request is the framework's funnel -/
theorem request_nil (chk : C02.Constraint → Bytes → Bool) (cfg : Cfg) (l : List Mounted) (rootOwn : Option Own)
    (fpath : Bytes) (origin : Option Err) :
    request chk cfg l rootOwn [] fpath origin = funnel chk cfg l rootOwn fpath origin := by
  cases origin with
  | none => rfl
  | some e =>
    simp only [request, throughLoggers, deliver, funnel]
    rcases errorHandler chk cfg l rootOwn fpath e with ⟨r, _ | ⟨st, body⟩⟩ <;> rfl

/-- an error that comes back to a logger is delivered by that logger — for the path the logger
sees, exactly as the framework's funnel would — and nobody behind it (outer loggers, the request
handler) sees an error any more -/
theorem request_logger (chk : C02.Constraint → Bytes → Bool) (cfg : Cfg) (l : List Mounted) (rootOwn : Option Own)
    (path : Bytes) (outer : List Bytes) (fpath : Bytes) (e : Err) :
    request chk cfg l rootOwn (path :: outer) fpath (some e) = funnel chk cfg l rootOwn path (some e) := by
  simp only [request, throughLoggers, throughLoggers_none, deliver, funnel]
  rcases errorHandler chk cfg l rootOwn path e with ⟨r, _ | ⟨st, body⟩⟩ <;> rfl

theorem request_none (chk : C02.Constraint → Bytes → Bool) (cfg : Cfg) (l : List Mounted) (rootOwn : Option Own)
    (loggers : List Bytes) (fpath : Bytes) : request chk cfg l rootOwn loggers fpath none = none := by
  simp [request, throughLoggers_none]

/-- **Exactly once, whatever the chain holds**: with any number of fiber's logger middlewares on
the way back (root level, inside mounted apps, with or without a Skip predicate — each of them
calls `c.App().ErrorHandler` itself and returns nil), an error is delivered to exactly one handler
exactly once, and no error to none. -/
theorem exactly_once_through_loggers (chk : C02.Constraint → Bytes → Bool) (cfg : Cfg) (l : List Mounted)
    (rootOwn : Option Own) (loggers : List Bytes) (fpath : Bytes) :
    request chk cfg l rootOwn loggers fpath none = none ∧
    ∀ e, ∃ o, request chk cfg l rootOwn loggers fpath (some e) = some o ∧ o.ran.length = 1 := by
  refine ⟨request_none chk cfg l rootOwn loggers fpath, ?_⟩
  intro e
  cases loggers with
  | nil => rw [request_nil]; exact (exactly_once chk cfg l rootOwn fpath).2 e
  | cons path outer => rw [request_logger]; exact (exactly_once chk cfg l rootOwn path).2 e

/-- the path the delivery is judged on: the innermost logger's, else the request handler's -/
def deliveryPath (loggers : List Bytes) (fpath : Bytes) : Bytes := loggers.headD fpath

/-- Generic in the reading: a request whose chain holds loggers meets the spec, for every iteration
order of the map. -/
theorem request_meets_spec_of_reading {chk : C02.Constraint → Bytes → Bool} {cfg : Cfg} {cov : Cover}
    {l l' : List Mounted} (rootOwn : Option Own) (loggers : List Bytes) (fpath : Bytes) (origin : Option Err)
    (hperm : l.Perm l') (hnd : (l.map (fun m => slashKey m.pre)).Nodup)
    (hcov : ∀ m ∈ l, isPattern m.pre = true →
      modelCover chk cfg m.pre (deliveryPath loggers fpath) = cov m.pre (deliveryPath loggers fpath)) :
    request chk cfg l' rootOwn loggers fpath origin =
      expected cfg cov l rootOwn (deliveryPath loggers fpath) origin := by
  cases origin with
  | none => rw [request_none]; rfl
  | some e =>
    cases loggers with
    | nil => rw [request_nil]; exact funnel_meets_spec_of_reading rootOwn fpath _ hperm hnd hcov
    | cons path outer => rw [request_logger]; exact funnel_meets_spec_of_reading rootOwn path _ hperm hnd hcov

/-- … at full strength with the router's reading. -/
theorem request_meets_spec_router {chk : C02.Constraint → Bytes → Bool} {cfg : Cfg} {l l' : List Mounted}
    (rootOwn : Option Own) (loggers : List Bytes) (fpath : Bytes) (origin : Option Err) (hperm : l.Perm l')
    (hnd : (l.map (fun m => slashKey m.pre)).Nodup) (hkeys : ParamKeys cfg l)
    (hpath : (deliveryPath loggers fpath).head? = some 47) :
    request chk cfg l' rootOwn loggers fpath origin =
      expected cfg (coversRouter chk cfg) l rootOwn (deliveryPath loggers fpath) origin :=
  request_meets_spec_of_reading rootOwn loggers fpath origin hperm hnd
    (fun m hm hp => modelCover_eq_coversRouter chk cfg m.pre _ (hkeys m hm hp) hpath)

/-- … and with the tokens reading. -/
theorem request_meets_spec {chk : C02.Constraint → Bytes → Bool} {cfg : Cfg} {l l' : List Mounted}
    (rootOwn : Option Own) (loggers : List Bytes) (fpath : Bytes) (origin : Option Err) (hperm : l.Perm l')
    (hnd : (l.map (fun m => slashKey m.pre)).Nodup) (hshape : ShapeTable l) :
    request chk cfg l' rootOwn loggers fpath origin =
      expected cfg (coversPat cfg) l rootOwn (deliveryPath loggers fpath) origin :=
  request_meets_spec_of_reading rootOwn loggers fpath origin hperm hnd
    (fun m hm hp => by
      obtain ⟨f, hwf, hk⟩ := hshape m hm hp
      exact modelCover_eq_coversPat_of_wf chk cfg m.pre _ f hwf hk)

example : request (fun _ _ => true) ⟨false, false⟩ exTable (some ⟨0, false⟩) [b "/org/acme/e", b "/org/acme/e"] (b "/org/acme/e")
      (some (.fiber 404 (b "nope"))) = some ⟨[.custom 1], 418, b "eh1:nope"⟩ ∧
    request (fun _ _ => true) ⟨false, false⟩ exTable (some ⟨0, false⟩) [] (b "/zzz") (some (.plain (b "boom")))
      = some ⟨[.custom 0], 418, b "eh0:boom"⟩ := by decide

/-! ### errors before routing -/

/-- `serverErrorHandler`'s switch is the spec's table, for every error fasthttp can hand over
(every combination of what the switch tests, every text). -/
theorem mapServerErr_eq_spec (e : SrvErr) : mapServerErr e = specServerErr e := by
  obtain ⟨a, c, d, f, g, m⟩ := e
  cases a <;> cases c <;> cases d <;> cases f <;> cases g <;> simp [mapServerErr, specServerErr]

/-- a server error always enters the funnel as a framework error with one of six statuses -/
theorem server_error_status (e : SrvErr) :
    ∃ c m, mapServerErr e = .fiber c m ∧ c ∈ [431, 408, 502, 413, 405, 400] := by
  unfold mapServerErr
  by_cases h1 : e.smallBuffer = true
  · exact ⟨431, b "Request Header Fields Too Large", by simp [h1], by simp⟩
  by_cases h2 : e.opTimeout = true
  · exact ⟨408, b "Request Timeout", by simp [h1, h2], by simp⟩
  by_cases h3 : e.netError = true
  · exact ⟨502, b "Bad Gateway", by simp [h1, h2, h3], by simp⟩
  by_cases h4 : e.bodyTooLarge = true
  · exact ⟨413, b "Request Entity Too Large", by simp [h1, h2, h3, h4], by simp⟩
  by_cases h5 : e.getOnly = true
  · exact ⟨405, b "Method Not Allowed", by simp [h1, h2, h3, h4, h5], by simp⟩
  by_cases h6 : (indexOf e.msg (b "timeout")).isSome = true
  · exact ⟨408, b "Request Timeout", by simp [h1, h2, h3, h4, h5, h6], by simp⟩
  · exact ⟨400, e.msg, by simp [h1, h2, h3, h4, h5, h6], by simp⟩

/-- A server error (header too large, body too large, bad request, …) is delivered exactly once to
exactly one handler, for every table, order and configuration. -/
theorem server_exactly_once (chk : C02.Constraint → Bytes → Bool) (cfg : Cfg) (l : List Mounted) (rootOwn : Option Own)
    (path : Bytes) (e : SrvErr) :
    ∃ o, serverFunnel chk cfg l rootOwn path e = some o ∧ o.ran.length = 1 :=
  (exactly_once chk cfg l rootOwn path).2 (mapServerErr e)

/-- Generic in the reading, for every iteration order: the server-error funnel calls the handler
designated for the path the broken request's context carries, with the status/body of the spec's
table. -/
theorem server_funnel_meets_spec_of_reading {chk : C02.Constraint → Bytes → Bool} {cfg : Cfg} {cov : Cover}
    {l l' : List Mounted} (rootOwn : Option Own)
    (path : Bytes) (e : SrvErr) (hperm : l.Perm l') (hnd : (l.map (fun m => slashKey m.pre)).Nodup)
    (hcov : ∀ m ∈ l, isPattern m.pre = true → modelCover chk cfg m.pre path = cov m.pre path) :
    serverFunnel chk cfg l' rootOwn path e = expectedServer cfg cov l rootOwn path e := by
  unfold serverFunnel expectedServer
  rw [mapServerErr_eq_spec]
  exact funnel_meets_spec_of_reading rootOwn path _ hperm hnd hcov

/-- … at full strength with the router's reading. -/
theorem server_funnel_meets_spec_router {chk : C02.Constraint → Bytes → Bool} {cfg : Cfg} {l l' : List Mounted}
    (rootOwn : Option Own) (path : Bytes) (e : SrvErr) (hperm : l.Perm l')
    (hnd : (l.map (fun m => slashKey m.pre)).Nodup) (hkeys : ParamKeys cfg l) (hpath : path.head? = some 47) :
    serverFunnel chk cfg l' rootOwn path e = expectedServer cfg (coversRouter chk cfg) l rootOwn path e :=
  server_funnel_meets_spec_of_reading rootOwn path e hperm hnd
    (fun m hm hp => modelCover_eq_coversRouter chk cfg m.pre path (hkeys m hm hp) hpath)

/-- … and with the tokens reading (the statement that carried `K1 = false` before the repair). -/
theorem server_funnel_meets_spec {chk : C02.Constraint → Bytes → Bool} {cfg : Cfg} {l l' : List Mounted}
    (rootOwn : Option Own) (path : Bytes) (e : SrvErr) (hperm : l.Perm l')
    (hnd : (l.map (fun m => slashKey m.pre)).Nodup) (hshape : ShapeTable l) :
    serverFunnel chk cfg l' rootOwn path e = expectedServer cfg (coversPat cfg) l rootOwn path e :=
  server_funnel_meets_spec_of_reading rootOwn path e hperm hnd
    (fun m hm hp => by
      obtain ⟨f, hwf, hk⟩ := hshape m hm hp
      exact modelCover_eq_coversPat_of_wf chk cfg m.pre path f hwf hk)

example : serverFunnel (fun _ _ => true) ⟨false, false⟩ (appList none [.mk [] (b "/api") (some ⟨1, false⟩) []]) none (b "/")
      ⟨true, false, false, false, false, b "small read buffer"⟩
    = some ⟨[.default], 431, b "Request Header Fields Too Large"⟩ ∧
  serverFunnel (fun _ _ => true) ⟨false, false⟩ (appList none [.mk [] (b "/:org/api") (some ⟨1, false⟩) []]) none (b "/acme/api/p")
      ⟨false, false, false, true, false, b "body size exceeds the given limit"⟩
    = some ⟨[.custom 1], 418, b "eh1:Request Entity Too Large"⟩ := by decide

/-! ### appList keys -/

/-- appList keys of a nested mount do not depend on whether the inner app was mounted before or
after the outer one: mount.go `mount` computes `getGroupPath(k1, getGroupPath(k2, k3))` (what
`nodeKeys` transcribes), `appendSubAppLists` computes `getGroupPath(getGroupPath(k1, k2), k3)` for an
app mounted late — the same key. -/
theorem appList_key_assoc (k1 k2 k3 : Bytes) :
    getGroupPath k1 (getGroupPath k2 k3) = getGroupPath (getGroupPath k1 k2) k3 :=
  (getGroupPath_assoc k1 k2 k3).symm

/-- a concrete non-trivial table (mount from a group under a group, look-alike siblings, three deep) -/
example : (appList (some ⟨0, false⟩)
      [.mk [] (b "/api") (some ⟨1, false⟩) [.mk [b "/g", b "h/"] (b "v2/") none [.mk [] (b "in") (some ⟨3, false⟩) []]],
       .mk [] (b "/api-v2") (some ⟨2, false⟩) []]).map (·.pre)
    = [[], b "/api", b "/api/g/h/v2", b "/api/g/h/v2/in", b "/api-v2"] := by decide

end C08
