import FiberModel.C08.Lemmas
import FiberModel.C04.PathLemmas
/-
C08 — property theorems (model of the repaired code ⊑ spec), for every mount table, every
iteration order of the map, every path and every chain result. No size bound anywhere.

The map `appList` is a list of entries with pairwise different keys (`Nodup` of the keys — a Go map
cannot hold two entries under one key); "any iteration order" is "any permutation of that list".
-/
namespace C08
open B C04

/-- Two mount prefixes of equal length that both contain the path on a segment boundary are the
same prefix: what makes a deterministic choice by length possible. -/
theorem boundary_match_unique {a b p : Bytes} (ha : contains a p = true) (hb : contains b p = true)
    (hl : a.length = b.length) : a = b :=
  prefix_eq_of_length_eq (contains_prefix ha) (contains_prefix hb) hl

example : contains (b "/api") (b "/api/x") = true ∧ contains (b "/api") (b "/api-v2/x") = false ∧
    contains (b "/api-v2") (b "/api-v2/x") = true ∧ contains (b "/") (b "/api") = true ∧
    contains (b "/api/") (b "/api/x") = true ∧ contains (b "/api") (b "/api") = true := by decide

/-- The loop of `App.ErrorHandler` computes the spec's choice: the handler of the innermost
(longest-prefix) mounted app that configured one and contains the path on a segment boundary. -/
theorem select_eq_spec (l : List Mounted) (path : Bytes) (hnd : (l.map (·.pre)).Nodup) :
    select l path = selectSpec l path := by
  unfold selectSpec
  rcases select_char l path with ⟨hno, hs⟩ | ⟨x, hbest, hs⟩
  · have : candidates l path = [] := by
      apply List.eq_nil_iff_forall_not_mem.mpr
      intro m hm
      exact hno m (mem_candidates.mp hm).1 (mem_candidates.mp hm).2
    rw [hs, this]; rfl
  · cases hi : innermost (candidates l path) with
    | none =>
      have := innermost_none.mp hi
      have hx : x ∈ candidates l path := mem_candidates.mpr ⟨hbest.1, hbest.2.1⟩
      rw [this] at hx; cases hx
    | some z =>
      obtain ⟨hz, hzmax⟩ := innermost_some hi
      have hzb : Best l path z := by
        refine ⟨(mem_candidates.mp hz).1, (mem_candidates.mp hz).2, ?_⟩
        intro y hy hcy
        exact hzmax y (mem_candidates.mpr ⟨hy, hcy⟩)
      have := best_unique hnd hbest hzb
      subst this
      rw [hs]; rfl

example : select [⟨[], none⟩, ⟨b "/api", some ⟨1, false⟩⟩, ⟨b "/api-v2", some ⟨2, false⟩⟩] (b "/api-v2/x")
    = some ⟨2, false⟩ := by decide

/-- The selected handler does not depend on the order in which the map is iterated. -/
theorem select_perm_invariant {l₁ l₂ : List Mounted} (path : Bytes) (h : l₁.Perm l₂)
    (hnd : (l₁.map (·.pre)).Nodup) : select l₁ path = select l₂ path := by
  have hnd₂ : (l₂.map (·.pre)).Nodup := (h.map _).nodup_iff.mp hnd
  have hbest : ∀ x, Best l₁ path x → Best l₂ path x := by
    intro x hx
    exact ⟨h.mem_iff.mp hx.1, hx.2.1, fun y hy hc => hx.2.2 y (h.mem_iff.mpr hy) hc⟩
  rcases select_char l₁ path with ⟨hno₁, hs₁⟩ | ⟨x, hb₁, hs₁⟩
  · rcases select_char l₂ path with ⟨_, hs₂⟩ | ⟨y, hb₂, _⟩
    · rw [hs₁, hs₂]
    · exact absurd hb₂.2.1 (hno₁ y (h.mem_iff.mpr hb₂.1))
  · rcases select_char l₂ path with ⟨hno₂, _⟩ | ⟨y, hb₂, hs₂⟩
    · exact absurd hb₁.2.1 (hno₂ x (h.mem_iff.mp hb₁.1))
    · have := best_unique hnd₂ (hbest x hb₁) hb₂
      subst this
      rw [hs₁, hs₂]

example : [⟨b "/api", some ⟨1, false⟩⟩, ⟨b "/api-v2", some ⟨2, false⟩⟩].Perm
    [⟨b "/api-v2", some ⟨2, false⟩⟩, (⟨b "/api", some ⟨1, false⟩⟩ : Mounted)] :=
  List.Perm.swap _ _ _

/-- the code before the fix: the same table, two iteration orders, two different handlers -/
theorem old_order_dependent :
    selectOld [⟨b "/api", some ⟨1, false⟩⟩, ⟨b "/api-v2", some ⟨2, false⟩⟩] (b "/api-v2/x") ≠
    selectOld [⟨b "/api-v2", some ⟨2, false⟩⟩, ⟨b "/api", some ⟨1, false⟩⟩] (b "/api-v2/x") := by decide

/-- The funnel meets the spec for EVERY iteration order of the map: the outcome (who ran and how
often, status, body) is the one the property designates. -/
theorem funnel_meets_spec {l l' : List Mounted} (rootOwn : Option Own) (path : Bytes) (chain : Option Err)
    (hperm : l.Perm l') (hnd : (l.map (·.pre)).Nodup) :
    funnel l' rootOwn path chain = expected l rootOwn path chain := by
  cases chain with
  | none => rfl
  | some e =>
    have hsel : select l' path = selectSpec l path := by
      rw [← select_perm_invariant path hperm hnd, select_eq_spec l path hnd]
    unfold funnel expected errorHandler designated
    rw [hsel]
    cases hs : selectSpec l path with
    | some o =>
      simp only [invoke]
      by_cases hf : o.fails <;> simp [hf]
    | none =>
      cases rootOwn with
      | none => cases e <;> simp [invoke, defaultHandler, Err.msg]
      | some o =>
        simp only [invoke]
        by_cases hf : o.fails <;> simp [hf]

/-- An error returned by the chain is delivered to exactly one handler exactly once; no error, no
call. -/
theorem exactly_once (l : List Mounted) (rootOwn : Option Own) (path : Bytes) :
    funnel l rootOwn path none = none ∧
    ∀ e, ∃ o, funnel l rootOwn path (some e) = some o ∧ o.ran.length = 1 := by
  refine ⟨rfl, ?_⟩
  intro e
  simp only [funnel]
  generalize errorHandler l rootOwn path e = x
  rcases x with ⟨r, _ | ⟨st, body⟩⟩
  · exact ⟨⟨[r], 500, b "Internal Server Error"⟩, rfl, rfl⟩
  · exact ⟨⟨[r], st, body⟩, rfl, rfl⟩

/-- Under the default handler the status of a framework error value becomes the response status;
any other error gives 500; the body is the error's message. -/
theorem status_of_error (l : List Mounted) (path : Bytes) (e : Err)
    (hsel : select l path = none) :
    funnel l none path (some e) =
      some ⟨[.default], (match e with | .fiber c _ => c | .plain _ => 500), e.msg⟩ := by
  unfold funnel errorHandler
  rw [hsel]
  cases e <;> simp [invoke, defaultHandler, Err.msg]

example : funnel (appList none []) none (b "/x") (some (.fiber 404 (b "Cannot GET /x")))
    = some ⟨[.default], 404, b "Cannot GET /x"⟩ := by decide

/-- A failing error handler — mounted or root — yields a 500. -/
theorem failing_handler_500 (l : List Mounted) (rootOwn : Option Own) (path : Bytes) (e : Err) (o : Own)
    (hsel : select l path = some o ∨ (select l path = none ∧ rootOwn = some o)) (hf : o.fails = true) :
    funnel l rootOwn path (some e) = some ⟨[.custom o.id], 500, b "Internal Server Error"⟩ := by
  unfold funnel errorHandler
  rcases hsel with hs | ⟨hs, hr⟩
  · rw [hs]; simp [invoke, hf]
  · rw [hs, hr]; simp [invoke, hf]

example : funnel (appList none [.mk none (b "/api") (some ⟨1, true⟩) []]) none (b "/api/e") (some (.plain (b "boom")))
    = some ⟨[.custom 1], 500, b "Internal Server Error"⟩ := by decide

/-- appList keys of a nested mount do not depend on whether the inner app was mounted before or
after the outer one: mount.go `mount` computes `getGroupPath(k1, getGroupPath(k2, k3))` (what
`nodeKeys` transcribes), `appendSubAppLists` computes `getGroupPath(getGroupPath(k1, k2), k3)` for an
app mounted late — the same key. -/
theorem appList_key_assoc (k1 k2 k3 : Bytes) :
    getGroupPath k1 (getGroupPath k2 k3) = getGroupPath (getGroupPath k1 k2) k3 :=
  (getGroupPath_assoc k1 k2 k3).symm

/-- a concrete non-trivial table (mount from a group, look-alike siblings) -/
example : (appList (some ⟨0, false⟩)
      [.mk none (b "/api") (some ⟨1, false⟩) [.mk (some (b "/g")) (b "v2/") none []],
       .mk none (b "/api-v2") (some ⟨2, false⟩) []]).map (·.pre)
    = [[], b "/api", b "/api/g/v2", b "/api-v2"] := by decide

end C08
